package main

import (
	"fmt"
	"go/ast"
	"go/token"
	"go/types"
	"strings"

	"golang.org/x/tools/go/cfg"
)

// C04 - values are copied or shared exactly as Go prescribes.
//
// What a reflect.Value aliases is a run-time fact and is not decided. The clauses below are
// the structural necessary conditions of the copy side of the property: the places where the
// interpreter must detach a value (temporaries, activation slots, per-evaluation allocation,
// the range shadow copy, closure capture) do so on every path. Most are the same analyses as
// clauses of C01/C05/C08/C11, reported here under their own rule ids.

func init() {
	register("C04", &propMeta{
		Level: "other",
		Explanation: "Structural necessary conditions of the copying half of the property; whether an Index/Field result aliases its container at run time, and the behaviour of append/copy/slicing (delegated to reflect), are NOT decided. " +
			"R04.1 a multiple assignment evaluates all sources into fresh temporaries before writing any destination (same analysis as C01/R01.6); R04.2 a multi-value return evaluates all operands before setting any result (C01/R01.7); " +
			"R04.3 the slots of every frame created for an activation are bound to fresh storage only, so arguments and receivers are copied in (C05/R05.2); R04.4 no run-time closure writes, or mutates through reflect setters, a value captured from its generator: composite literals and results are allocated per evaluation (C08/R08.1); " +
			"R04.5 a range statement iterates over a detached copy of an array operand: every non-string operand of the range generator goes through the copying generator, whose default case rebuilds the value from Interface(); " +
			"R04.8 no frame slot is rebound to the plain result of a value generator (two variables sharing storage); R04.6 closure values capture a clone of their defining frame (C11/R11.5); R04.7 an expression's result is stored on every path of its run-time closure, so a map lookup that misses yields the zero value and not the previous hit (C01/R01.8).",
		Assumptions: []string{"reflect.Value.Set copies arrays and structs; Interface() detaches a value from its container", "only the listed copy points are decided"},
		Run:         runC04,
	})
	ruleText["R04.18"] = "= R07.7 shared: the argument copier copies every settable value, whatever its kind: a slice, map, pointer or channel header is a value too, and the variable holding it can be assigned before the deferred call or goroutine reads it"
	ruleText["R04.23"] = "= R05.11 shared: the receiver of a method value is copied when the method value is evaluated - the struct itself for a value receiver, also when it is reached through a pointer (the copy is made after the dereference)"
	ruleText["R04.1"] = "same analysis as C01/R01.6 (multiple assignment: sources into fresh temporaries first)"
	ruleText["R04.2"] = "same analysis as C01/R01.7 (multi-value return: operands before results)"
	ruleText["R04.3"] = "same analysis as C05/R05.2 (slots of a new activation frame bound to fresh storage only)"
	ruleText["R04.4"] = "same analysis as C08/R08.1 (no write to, and no reflect setter on, a variable captured from the generator)"
	ruleText["R04.5"] = "in the range generator every non-string operand is evaluated through genValueRangeArray, and the default case of genValueRangeArray returns reflect.ValueOf(value(f).Interface())"
	ruleText["R04.6"] = "same analysis as C11/R11.5 (closure values capture a clone of the defining frame)"
	ruleText["R04.8"] = "in no run-time closure is a frame slot (frame.data[i], directly or through a local alias of the vector) assigned the plain result v(f) of a value generator; frozen exception: the result slots of an interpreted call (call: rvalues)"
	ruleText["R04.9"] = "in every generator, a statement replacing the node's own frame slot (data[i] = v, i captured from n.findex) by a value produced in place (reflect.New(T).Elem(), a received value) is unreachable, on the flow graph of its function literal pruned under n.anc.kind == assignStmt and CanSet(), i.e. the value is Set into the destination when the parent is an assignment"
	ruleText["R04.10"] = "every reflect.Value.Set of a result in the closures of _append and appendSlice has an argument built by reflect.Append or reflect.AppendSlice (the operand itself only for append(s) without appended values)"
	ruleText["R04.12"] = "same analysis as C01/R01.20 (a slice, map or channel value is created at each evaluation of its expression, never once per generated closure)"
	ruleText["R04.13"] = "in the closures of assign, a frame slot replaced by reflect.New(T).Elem() inside a loop over several destinations lies under a test of node.redeclared, and cfg sets node.redeclared in its assignment case"
	ruleText["R04.14"] = "= R01.15 shared, both directions: a whole operand becomes the variadic parameter only for f(s...), and for f(s...) the parameter is the operand itself (shared backing array), never a copy built with reflect.Append/AppendSlice"
	ruleText["R04.11"] = "same analysis as C01/R01.14 (the assign operation is skipped by cfg for single assignments only)"
	ruleText["R04.7"] = "same analysis as C01/R01.8 (result stored on every path of the run-time closure)"
}

func relabel(r *Report, sub *Report, rule string) {
	for _, o := range sub.Obls {
		o.Rule = rule
		r.add(o)
	}
	r.Errors = append(r.Errors, sub.Errors...)
}

func runC04(c *Config, r *Report) {
	ic, err := loadInterp(c, true)
	if err != nil {
		r.Errorf("%v", err)
		return
	}
	s := newReport("C01")
	c01R6(ic, s)
	relabel(r, s, "R04.1")
	s = newReport("C01")
	c01R7(ic, s)
	relabel(r, s, "R04.2")
	freshFrameSlots(ic, r, "R04.3")
	s = newReport("C08")
	c08R1(ic, s)
	relabel(r, s, "R04.4")
	c04R5(ic, r)
	closureFrameCloned(ic, r, "R04.6")
	cloneCopiesData(ic, r, "R04.6")
	c01R8(ic, r, "R04.7", nil)
	c04R8(ic, r)
	c04R9(ic, r)
	c04R10(ic, r)
	c01R14(ic, r, "R04.11")
	c04R13(ic, r)
	c07R14(ic, r, "R04.14")
	c04R15(ic, r)
	c04R16(ic, r)
	c04R17(ic, r)
	c04R19(ic, r)
	c04R21(ic, r)
	c04R22(ic, r)
	// R04.23: = R05.11: a method value of a value-receiver method holds a copy of the receiver
	{
		sub := newReport("C05")
		c05R11(ic, sub)
		for _, o := range sub.Obls {
			o.Rule = "R04.23"
			r.add(o)
		}
		r.Errors = append(r.Errors, sub.Errors...)
	}
	c04R20(ic, r, "R04.20")
	copiersAlwaysCopy(ic, r, "R04.18")
	{
		sub := newReport("C01")
		c01R20(ic, sub)
		relabel(r, sub, "R04.12")
	}
}

// c04R5: the range shadow copy.
func c04R5(ic *IC, r *Report) {
	rg := ic.fn(r, "_range")
	cp := ic.fn(r, "genValueRangeArray")
	if rg == nil || cp == nil {
		return
	}
	info := ic.Info
	// (a) in _range: each `if isString(...) {...} else {...}` assigns the operand generator in
	// its else arm from genValueRangeArray
	n := 0
	ast.Inspect(rg.Decl.Body, func(nd ast.Node) bool {
		ifs, ok := nd.(*ast.IfStmt)
		if !ok || ifs.Else == nil {
			return true
		}
		c, ok := unparen(ifs.Cond).(*ast.CallExpr)
		if !ok || !isCallTo(info, c, "interp.isString") {
			return true
		}
		n++
		var gens []string
		ast.Inspect(ifs.Else, func(m ast.Node) bool {
			as, ok := m.(*ast.AssignStmt)
			if !ok || len(as.Lhs) != 1 || len(as.Rhs) != 1 {
				return true
			}
			call, ok := unparen(as.Rhs[0]).(*ast.CallExpr)
			if !ok {
				return true
			}
			if f, ok := calleeOf(info, call).(*types.Func); ok && f.Pkg() == ic.Pk.Types && strings.HasPrefix(f.Name(), "genValue") {
				gens = append(gens, f.Name())
			}
			return true
		})
		okGen := len(gens) == 1 && gens[0] == "genValueRangeArray"
		r.Check(okGen, "R04.5", fmt.Sprintf("_range/operand#%d/copying-generator", n), ic.pos(ifs.Pos()), "arrays, slices and pointers to arrays are ranged over through the copying generator",
			fmt.Sprintf("the non-string arm of the range generator evaluates its operand through %v instead of genValueRangeArray: the loop iterates over the live array, so `for i, v := range arr { arr[i+1] = 0 }` sees the assignments made by its own body (compiled Go ranges over a copy)", gens))
		return true
	})
	if n < 2 {
		r.Errorf("R04.5: %d operand selections found in the range generator (key-value and key-only forms expected)", n)
	}
	// (b) the default case of genValueRangeArray detaches the value
	var defClause *ast.CaseClause
	ast.Inspect(cp.Decl.Body, func(nd ast.Node) bool {
		if cc, ok := nd.(*ast.CaseClause); ok && cc.List == nil {
			defClause = cc
		}
		return true
	})
	if defClause == nil {
		r.Errorf("R04.5: genValueRangeArray has no default case")
		return
	}
	detaches := false
	var plain []string
	for _, st := range defClause.Body {
		ast.Inspect(st, func(m ast.Node) bool {
			if _, isLit := m.(*ast.FuncLit); isLit {
				return true
			}
			rs, ok := m.(*ast.ReturnStmt)
			if !ok || len(rs.Results) != 1 {
				return true
			}
			// a return of the case itself (not inside the literal it returns)
			inLit := false
			for _, p := range enclosingPath(defClause, rs) {
				if _, ok := p.(*ast.FuncLit); ok {
					inLit = true
				}
			}
			if !inLit {
				if _, ok := unparen(rs.Results[0]).(*ast.FuncLit); !ok {
					plain = append(plain, "return "+types.ExprString(rs.Results[0])+" at "+ic.pos(rs.Pos()))
				}
			}
			if fl, ok := unparen(rs.Results[0]).(*ast.FuncLit); ok {
				ast.Inspect(fl.Body, func(k ast.Node) bool {
					if c, ok := k.(*ast.CallExpr); ok && isCallTo(info, c, "reflect.ValueOf") && len(c.Args) == 1 {
						if len(callsIn(info, c.Args[0], true, "reflect.Value.Interface")) > 0 {
							detaches = true
						}
					}
					return true
				})
			}
			return true
		})
	}
	r.Check(len(plain) == 0, "R04.5", "genValueRangeArray/default/always-detached", ic.pos(defClause.Pos()), "the default case always returns the detaching closure",
		"the default case of genValueRangeArray can also "+strings.Join(plain, ", ")+" (the operand's plain generator): for such operands (a field, an element, a dereference) the range statement iterates over the live array or slice header, so writes made by the loop body to elements not yet visited, or appends to the ranged slice, are seen by the loop")
	r.Check(detaches, "R04.5", "genValueRangeArray/default/detached-copy", ic.pos(defClause.Pos()), "the ranged-over value is rebuilt from Interface(): a copy for arrays",
		"the default case of genValueRangeArray no longer returns reflect.ValueOf(value(f).Interface()): the range statement iterates over the live array instead of a copy, so modifications made by the loop body are seen by later iterations")
}

// c04R8: a frame slot is never rebound to the plain result of a value generator
// (slot = v(f)): the two variables would share storage, so a later update of one is seen
// through the other (arrays and structs must be copied with Set). Views derived through
// reflect accessors (Elem, Index, Field, Addr, ...) are how addressable expressions work and
// are accepted; the one frozen exception is the direct result slots of an interpreted call.
// c04HiddenSlots: slots that are not program variables, keyed "<generator>: <value generator>".
var c04HiddenSlots = map[string]string{
	"_range: value": "the hidden shadow slot of a range statement (index2) receives the operand evaluated once through the copying generator (decided by R04.5)",
}

func c04R8(ic *IC, r *Report) {
	info := ic.Info
	dataFld := ic.field("frame", "data")
	isGenType := func(t types.Type) bool {
		if t == nil {
			return false
		}
		sig, ok := t.Underlying().(*types.Signature)
		return ok && sig.Params().Len() == 1 && isNamedPtr(sig.Params().At(0).Type(), "frame") && sig.Results().Len() == 1 && types.TypeString(sig.Results().At(0).Type(), nil) == "reflect.Value"
	}
	nStores, nClosures := 0, 0
	perFunc := map[string][]string{}
	for _, name := range sortedKeys(ic.F) {
		fi := ic.F[name]
		if fi.Decl.Body == nil {
			continue
		}
		for _, fl := range (&c02ctx{ic: ic}).closuresOf(fi) {
			nClosures++
			// local aliases of a data vector
			alias := map[types.Object]bool{}
			ast.Inspect(fl.Body, func(m ast.Node) bool {
				if as, ok := m.(*ast.AssignStmt); ok && len(as.Lhs) == len(as.Rhs) {
					for i, rhs := range as.Rhs {
						if selFieldNode(info, unparen(rhs)) == dataFld && dataFld != nil {
							if id, ok := as.Lhs[i].(*ast.Ident); ok {
								alias[info.ObjectOf(id)] = true
							}
						}
					}
				}
				return true
			})
			ast.Inspect(fl.Body, func(m ast.Node) bool {
				as, ok := m.(*ast.AssignStmt)
				if !ok || len(as.Lhs) != len(as.Rhs) {
					return true
				}
				for i, l := range as.Lhs {
					ix, ok := unparen(l).(*ast.IndexExpr)
					if !ok {
						continue
					}
					isSlot := selField(info, ix.X) == dataFld && dataFld != nil
					if id, ok := unparen(ix.X).(*ast.Ident); ok && alias[info.ObjectOf(id)] {
						isSlot = true
					}
					if !isSlot {
						continue
					}
					nStores++
					call, ok := unparen(as.Rhs[i]).(*ast.CallExpr)
					if !ok || len(call.Args) != 1 {
						continue
					}
					if !isGenType(info.TypeOf(call.Fun)) {
						continue
					}
					// a plain generator result: the generator is a captured variable (or an element
					// of a captured slice); a generator built in place, genX(..)(f), yields a new
					// value (function values) and is not a variable's storage
					vid, isIdent := unparen(call.Fun).(*ast.Ident)
					if _, isIndex := unparen(call.Fun).(*ast.IndexExpr); !isIdent && !isIndex {
						continue
					}
					if isIdent {
						if src := rangeSourceOf(ic, fl.Body, info.ObjectOf(vid)); src != "" {
							if _, ok := freshSlotExceptions[name+": "+src]; ok {
								continue
							}
						}
						if _, ok := c04HiddenSlots[name+": "+vid.Name]; ok {
							continue
						}
					}
					perFunc[name] = append(perFunc[name], types.ExprString(l)+" = "+types.ExprString(as.Rhs[i])+" at "+ic.pos(as.Pos()))
				}
				return true
			})
		}
	}
	for _, name := range sortedKeys(perFunc) {
		r.Fail("R04.8", name+"/slot-rebound-to-generator-result", "", "a frame slot is rebound to the plain result of a value generator in "+name+" ("+strings.Join(perFunc[name], "; ")+"): the destination variable now shares storage with the source, so assigning an array or struct no longer makes an independent copy")
	}
	if nStores < 40 {
		r.Errorf("R04.8: only %d slot stores found in %d run-time closures", nStores, nClosures)
		return
	}
	if len(perFunc) == 0 {
		r.Pass("R04.8", "slots/never-rebound-to-generator-results", "", fmt.Sprintf("%d slot stores in %d run-time closures; none binds a slot to a plain generator result (one frozen exception: call rvalues)", nStores, nClosures))
	}
}

// c04R9: a generator that produces a brand-new value (a struct literal, a value received from
// a channel) may install it by replacing its frame slot only when that slot is not an assigned
// variable. cfg's direct-store shortcut makes the slot of such a right-hand side the slot of
// the destination of the assignment; replacing it there detaches every pointer to the variable
// and every closure over it (p := &x; x = T{3, 4}; *p is still the old value), and for a field
// or element destination the value is lost altogether (res[i] = <-ch leaves res[i] at 0).
// Decided on the flow graph of the innermost function literal containing each replacement,
// pruned under "the parent is an assignment and the destination is settable": the replacement
// must be unreachable.
func c04R9(ic *IC, r *Report) {
	info := ic.Info
	dataFld := ic.field("frame", "data")
	findexFld := ic.field("node", "findex")
	if dataFld == nil || findexFld == nil {
		r.Errorf("anchor not resolved: frame.data / node.findex")
		return
	}
	// scope: the generators whose slot cfg's assignment shortcut can make the destination's:
	// the receive generator (builtin[aRecv]) and the composite-literal generators (the
	// functions compositeGenerator chooses among, with the helpers they call). Other
	// generators replace a temporary slot of their own, which no variable shares.
	scope := map[*types.Func]bool{}
	for _, f := range ic.Pk.Syntax {
		ast.Inspect(f, func(n ast.Node) bool {
			if kv, ok := n.(*ast.KeyValueExpr); ok {
				if k, ok := kv.Key.(*ast.Ident); ok && k.Name == "aRecv" {
					if v, ok := kv.Value.(*ast.Ident); ok {
						if fo, ok := info.Uses[v].(*types.Func); ok {
							scope[fo] = true
						}
					}
				}
			}
			return true
		})
	}
	if cg := ic.F["compositeGenerator"]; cg != nil && cg.Decl.Body != nil {
		ast.Inspect(cg.Decl.Body, func(n ast.Node) bool {
			if id, ok := n.(*ast.Ident); ok {
				if fo, ok := info.Uses[id].(*types.Func); ok && fo.Pkg() == ic.Pk.Types {
					scope[fo] = true
				}
			}
			return true
		})
	} else {
		r.Errorf("anchor not resolved: compositeGenerator")
	}
	for round := 0; round < 2; round++ {
		for fo := range scope {
			if d := ic.G.Funcs[fo]; d != nil && d.Decl.Body != nil {
				ast.Inspect(d.Decl.Body, func(n ast.Node) bool {
					if c, ok := n.(*ast.CallExpr); ok {
						if g, ok := calleeOf(info, c).(*types.Func); ok && g.Pkg() == ic.Pk.Types && !scope[g] {
							if sg := g.Type().(*types.Signature); sg.Params().Len() >= 1 && isNamedPtr(sg.Params().At(0).Type(), "node") && sg.Results().Len() == 0 {
								scope[g] = true
							}
						}
					}
					return true
				})
			}
		}
	}
	if len(scope) < 6 {
		r.Errorf("R04.9: only %d generators in scope (receive and composite-literal generators expected)", len(scope))
	}
	nSites := 0
	nRet := map[string]int{}
	for _, name := range sortedKeys(ic.F) {
		fi := ic.F[name]
		if fi.Decl.Body == nil || fi.Obj == nil || fi.Decl.Recv != nil || !scope[fi.Obj] {
			continue
		}
		sig := fi.Obj.Type().(*types.Signature)
		if sig.Params().Len() < 1 || !isNamedPtr(sig.Params().At(0).Type(), "node") {
			continue
		}
		// captured variables holding the node's own slot index, and flags defined from the parent's kind
		ownIdx := map[types.Object]bool{}
		assignFlag := map[types.Object]ast.Expr{}
		ast.Inspect(fi.Decl.Body, func(n ast.Node) bool {
			as, ok := n.(*ast.AssignStmt)
			if !ok || len(as.Lhs) != len(as.Rhs) {
				return true
			}
			for i, rhs := range as.Rhs {
				id, ok := as.Lhs[i].(*ast.Ident)
				if !ok {
					continue
				}
				if se, ok := unparen(rhs).(*ast.SelectorExpr); ok && selField(info, se) == findexFld {
					if x, ok := unparen(se.X).(*ast.Ident); ok && x.Name == "n" {
						ownIdx[info.ObjectOf(id)] = true
					}
				}
				if strings.Contains(types.ExprString(rhs), "n.anc.kind") {
					if t := info.TypeOf(rhs); t != nil && types.Identical(t.Underlying(), types.Typ[types.Bool]) {
						assignFlag[info.ObjectOf(id)] = rhs
					}
				}
			}
			return true
		})
		if len(ownIdx) == 0 {
			continue
		}
		parentKind := "assignStmt"
		var atom func(e ast.Expr) int
		atom = func(e ast.Expr) int {
			switch x := e.(type) {
			case *ast.Ident:
				if def, ok := assignFlag[info.ObjectOf(x)]; ok {
					return evalCond(def, atom)
				}
			case *ast.BinaryExpr:
				if (x.Op == token.EQL || x.Op == token.NEQ) && types.ExprString(x.X) == "n.anc.kind" {
					if c, ok := info.Uses[identOf(x.Y)].(*types.Const); ok {
						res := triFalse
						if c.Name() == parentKind {
							res = triTrue
						}
						if x.Op == token.NEQ {
							res = 1 - res
						}
						return res
					}
				}
			case *ast.CallExpr:
				if se, ok := unparen(x.Fun).(*ast.SelectorExpr); ok && se.Sel.Name == "CanSet" && len(x.Args) == 0 {
					return triTrue
				}
			}
			return triUnknown
		}
		for _, outer := range (&c02ctx{ic: ic}).closuresOf(fi) {
			_ = outer
		}
		// every function literal of the generator (run-time closures and their local helpers)
		ast.Inspect(fi.Decl.Body, func(n ast.Node) bool {
			fl, ok := n.(*ast.FuncLit)
			if !ok {
				return true
			}
			// values produced in this literal: x := reflect.New(T).Elem(), r from Recv/TryRecv/Select
			produced := map[types.Object]bool{}
			received := map[types.Object]bool{} // not addressable: straight from reflect's receive
			for _, p := range fl.Type.Params.List {
				for _, nm := range p.Names {
					if types.TypeString(info.TypeOf(p.Type), nil) == "reflect.Value" {
						produced[info.ObjectOf(nm)] = true // a helper's parameter: the value to install
						if len(callsIn(info, fi.Decl.Body, true, "reflect.Value.Recv", "reflect.Value.TryRecv", "reflect.Select")) > 0 {
							received[info.ObjectOf(nm)] = true
						}
					}
				}
			}
			ast.Inspect(fl.Body, func(m ast.Node) bool {
				if inner, ok := m.(*ast.FuncLit); ok && inner != fl {
					return false
				}
				as, ok := m.(*ast.AssignStmt)
				if !ok {
					return true
				}
				for i, l := range as.Lhs {
					id, ok := l.(*ast.Ident)
					if !ok {
						continue
					}
					var rhs ast.Expr
					if len(as.Rhs) == len(as.Lhs) {
						rhs = as.Rhs[i]
					} else if len(as.Rhs) == 1 {
						rhs = as.Rhs[0]
					}
					if rhs == nil {
						continue
					}
					if isFreshValue(ic, nil, rhs) || len(callsIn(info, rhs, false, "reflect.Value.Recv", "reflect.Value.TryRecv", "reflect.Select")) > 0 {
						produced[info.ObjectOf(id)] = true
						if !isFreshValue(ic, nil, rhs) {
							received[info.ObjectOf(id)] = true
						}
					}
				}
				return true
			})
			if len(produced) == 0 {
				return true
			}
			// replacements of the own slot by a produced value, directly in this literal
			alias := map[types.Object]bool{}
			var sites []*ast.AssignStmt
			recvSite := map[*ast.AssignStmt]bool{}
			ast.Inspect(fl.Body, func(m ast.Node) bool {
				if inner, ok := m.(*ast.FuncLit); ok && inner != fl {
					return false
				}
				as, ok := m.(*ast.AssignStmt)
				if !ok {
					return true
				}
				if len(as.Lhs) == len(as.Rhs) {
					for i, rhs := range as.Rhs {
						if selFieldNode(info, unparen(rhs)) == dataFld {
							if id, ok := as.Lhs[i].(*ast.Ident); ok {
								alias[info.ObjectOf(id)] = true
							}
						}
					}
				}
				for i, l := range as.Lhs {
					ix, ok := unparen(l).(*ast.IndexExpr)
					if !ok {
						continue
					}
					isVec := selField(info, ix.X) == dataFld
					if id, ok := unparen(ix.X).(*ast.Ident); ok && alias[info.ObjectOf(id)] {
						isVec = true
					}
					iid, ok := unparen(ix.Index).(*ast.Ident)
					if !isVec || !ok || !ownIdx[info.ObjectOf(iid)] {
						continue
					}
					var rhs ast.Expr
					if len(as.Rhs) == len(as.Lhs) {
						rhs = as.Rhs[i]
					} else if len(as.Rhs) == 1 {
						// x, data[i], y = f(): the middle result of reflect.Select
						if len(callsIn(info, as.Rhs[0], false, "reflect.Select", "reflect.Value.Recv", "reflect.Value.TryRecv")) > 0 {
							sites = append(sites, as)
							recvSite[as] = true
						}
						continue
					}
					if rid, ok := unparen(rhs).(*ast.Ident); ok && produced[info.ObjectOf(rid)] {
						sites = append(sites, as)
						recvSite[as] = received[info.ObjectOf(rid)]
					}
				}
				return true
			})
			if len(sites) == 0 {
				return true
			}
			g := cfg.New(fl.Body, func(c *ast.CallExpr) bool { return !noReturn(info, c) })
			for _, scenario := range []string{"assignStmt", "returnStmt"} {
				parentKind = scenario
				reach := map[*cfg.Block]bool{}
				var walk func(b *cfg.Block)
				walk = func(b *cfg.Block) {
					if reach[b] {
						return
					}
					reach[b] = true
					if len(b.Succs) == 2 && len(b.Nodes) > 0 {
						if cond, ok := b.Nodes[len(b.Nodes)-1].(ast.Expr); ok {
							switch evalCond(cond, atom) {
							case triTrue:
								walk(b.Succs[0])
								return
							case triFalse:
								walk(b.Succs[1])
								return
							}
						}
					}
					for _, s := range b.Succs {
						walk(s)
					}
				}
				if len(g.Blocks) > 0 {
					walk(g.Blocks[0])
				}
				for k, st := range sites {
					if scenario == "returnStmt" && !recvSite[st] {
						continue // a fresh settable value replacing a result slot is harmless: results are per call
					}
					if scenario == "assignStmt" {
						nSites++
					}
					reachable := false
					for _, b := range g.Blocks {
						if !reach[b] {
							continue
						}
						for _, nd := range b.Nodes {
							if nd.Pos() <= st.Pos() && st.End() <= nd.End() {
								reachable = true
							}
						}
					}
					if scenario == "assignStmt" {
						key := fmt.Sprintf("%s/own-slot-replaced#%d/not-for-assignments", name, nSites)
						r.Check(!reachable, "R04.9", key, ic.pos(st.Pos()), "not reached when the parent is an assignment: the value is set into the destination",
							"generator "+name+" installs the value it produced by replacing its frame slot ("+types.ExprString(st.Lhs[0])+" = ...) also when it is the right-hand side of an assignment, where cfg has made that slot the destination's: pointers to the assigned variable and closures over it keep the old value (p := &x; x = T{3, 4}), and a field or element destination is never written (res[i] = <-ch)")
					} else {
						_ = k
						nRet[name]++
						key := fmt.Sprintf("%s/received-value-replaces-slot#%d/not-for-returns", name, nRet[name])
						r.Check(!reachable, "R04.9", key, ic.pos(st.Pos()), "not reached when the parent is a return statement: the value is set into the result",
							"generator "+name+" replaces its frame slot by the received value ("+types.ExprString(st.Lhs[0])+" = ...) also when it is the operand of a return statement, where cfg has made that slot the function's result: the result slot is then an unaddressable value and the return statement's own store panics (func f() int { return <-c } fails with reflect.Value.Set using unaddressable value)")
					}
				}
			}
			return true
		})
	}
	if nSites < 3 {
		r.Errorf("R04.9: only %d own-slot replacements by produced values found (struct literals and channel receives expected)", nSites)
	}
}

// c04R10: append builds its result with reflect.Append / reflect.AppendSlice, which allocate
// and copy exactly as the Go builtin does. A result that is a slice view of the *appended*
// operand (Slice, Slice3 of the source) shares the source's backing array: writes through the
// result are seen in the source. The only result not produced by reflect's append is the
// slice itself when nothing is appended (append(s)).
func c04R10(ic *IC, r *Report) {
	info := ic.Info
	n := 0
	for _, name := range []string{"_append", "appendSlice"} {
		fi := ic.F[name]
		if fi == nil || fi.Decl.Body == nil {
			continue
		}
		for ci, fl := range (&c02ctx{ic: ic}).closuresOf(fi) {
			var bad []string
			stores := 0
			ast.Inspect(fl.Body, func(m ast.Node) bool {
				c, ok := m.(*ast.CallExpr)
				if !ok || !isCallTo(info, c, "reflect.Value.Set") || len(c.Args) != 1 {
					return true
				}
				stores++
				arg := c.Args[0]
				if len(callsIn(info, arg, true, "reflect.Append", "reflect.AppendSlice")) > 0 {
					return true
				}
				// append(s): the slice itself
				if call, ok := unparen(arg).(*ast.CallExpr); ok && len(call.Args) == 1 {
					if _, isIdent := unparen(call.Fun).(*ast.Ident); isIdent && len(fi.Decl.Body.List) > 0 {
						// accepted only in the closure installed for a call without appended operands
						for _, p := range enclosingPath(fi.Decl.Body, fl) {
							if cc, ok := p.(*ast.CaseClause); ok && len(cc.List) == 1 && strings.Contains(types.ExprString(cc.List[0]), "== 2") {
								return true
							}
						}
					}
				}
				bad = append(bad, types.ExprString(c)+" at "+ic.pos(c.Pos()))
				return true
			})
			if stores == 0 {
				continue
			}
			// several appended values: they are all evaluated (copied) before the slice is
			// modified, since they may be elements of that very slice (append(s[:0], s[1], s[0])):
			// every element stored into the local vector handed to reflect.Append(s, v...) is a copy
			cps := copiers(ic)
			ast.Inspect(fl.Body, func(m ast.Node) bool {
				c, ok := m.(*ast.CallExpr)
				if !ok || !isCallTo(info, c, "reflect.Append") || !c.Ellipsis.IsValid() || len(c.Args) != 2 {
					return true
				}
				vec := identOf(c.Args[1])
				if vec == nil {
					return true
				}
				var alias []string
				ast.Inspect(fl.Body, func(k ast.Node) bool {
					as, ok := k.(*ast.AssignStmt)
					if !ok || len(as.Lhs) != 1 || len(as.Rhs) != 1 {
						return true
					}
					ix, ok := unparen(as.Lhs[0]).(*ast.IndexExpr)
					if !ok {
						return true
					}
					if id := identOf(ix.X); id == nil || info.ObjectOf(id) != info.ObjectOf(vec) {
						return true
					}
					if !isFreshValue(ic, cps, as.Rhs[0]) {
						alias = append(alias, types.ExprString(as.Lhs[0])+" = "+types.ExprString(as.Rhs[0])+" at "+ic.pos(as.Pos()))
					}
					return true
				})
				r.Check(len(alias) == 0, "R04.10", fmt.Sprintf("%s/closure#%d/appended-values-copied-first", name, ci+1), ic.pos(c.Pos()), "the appended values are copies taken before the slice is modified",
					"the values appended by "+name+" are handed to reflect.Append as they are ("+strings.Join(alias, ", ")+"): when they are elements of the slice being appended to, reflect.Append overwrites them while copying (s = append(s[:0], s[1], s[0]) yields [2 2], compiled Go [2 1])")
				return true
			})
			n++
			r.Check(len(bad) == 0, "R04.10", fmt.Sprintf("%s/closure#%d/result-from-reflect-append", name, ci+1), ic.pos(fl.Pos()), "the result is produced by reflect.Append / reflect.AppendSlice",
				"the result of append is stored from "+strings.Join(bad, ", ")+", not from reflect.Append/AppendSlice: the result can share the backing array of the appended operand (append(nil, src...) returning a view of src), so element writes through one slice show in the other")
		}
	}
	if n < 3 {
		r.Errorf("R04.10: only %d result-storing closures found in the append generators", n)
	}
}

func identOf(e ast.Expr) *ast.Ident {
	id, _ := unparen(e).(*ast.Ident)
	return id
}

// c04R13: in a multiple definition a, c := 2, 3 a variable already declared in the same scope
// is assigned, not created: pointers to it and closures over it see the new value. Sibling
// agreement with the definition from a call (assignFromCall tests node.redeclared): (a) in the
// generator of assignments, every closure installed for a definition that replaces slots in a
// loop over several destinations does so under a test of the destination's redeclared flag;
// (b) cfg sets that flag in its assignment case, not only in the helper of a, b := f().
func c04R13(ic *IC, r *Report) {
	info := ic.Info
	redeclFld := ic.field("node", "redeclared")
	if redeclFld == nil {
		r.Errorf("anchor not resolved: node.redeclared")
		return
	}
	fi := ic.fn(r, "assign")
	if fi == nil {
		return
	}
	mentionsRedecl := func(e ast.Node) bool {
		found := false
		ast.Inspect(e, func(m ast.Node) bool {
			if se, ok := m.(*ast.SelectorExpr); ok && selField(info, se) == redeclFld {
				found = true
			}
			return true
		})
		return found
	}
	n := 0
	mentionsDefine := func(e ast.Node) bool {
		found := false
		ast.Inspect(e, func(m ast.Node) bool {
			if id, ok := m.(*ast.Ident); ok {
				if c, ok := info.Uses[id].(*types.Const); ok && (c.Name() == "defineXStmt" || c.Name() == "defineStmt") {
					found = true
				}
			}
			return true
		})
		return found
	}
	type unit struct {
		name string
		k    int
		fl   *ast.FuncLit
	}
	var units []unit
	for k, fl := range (&c02ctx{ic: ic}).closuresOf(fi) {
		units = append(units, unit{"assign", k, fl})
	}
	// the other generators assigning several destinations at once (results of a call): the
	// replacement is recognised there by its test of the definition kind
	for _, name := range sortedKeys(ic.F) {
		g := ic.F[name]
		if g == fi || g.Decl.Body == nil || g.Decl.Recv != nil {
			continue
		}
		for k, fl := range (&c02ctx{ic: ic}).closuresOf(g) {
			units = append(units, unit{name, k, fl})
		}
	}
	for _, u := range units {
		k, fl := u.k, u.fl
		ast.Inspect(fl.Body, func(m ast.Node) bool {
			body := loopBody(m)
			if body == nil {
				return true
			}
			ast.Inspect(body, func(q ast.Node) bool {
				as, ok := q.(*ast.AssignStmt)
				if !ok || len(as.Lhs) != 1 || len(as.Rhs) != 1 {
					return true
				}
				if _, ok := unparen(as.Lhs[0]).(*ast.IndexExpr); !ok || !isFreshValue(ic, nil, as.Rhs[0]) {
					return true
				}
				if t := info.TypeOf(as.Lhs[0]); t == nil || types.TypeString(t, nil) != "reflect.Value" {
					return true
				}
				// only the frame's own slots (data[j]), not the temporaries (t[i])
				if ix := unparen(as.Lhs[0]).(*ast.IndexExpr); !strings.Contains(types.ExprString(ix.X), "data") {
					return true
				}
				guarded := false
				underDefine := false
				for _, g := range pathGuards(fl.Body, as) {
					if mentionsRedecl(g.cond) {
						guarded = true
					}
					if g.want && mentionsDefine(g.cond) {
						underDefine = true
					}
				}
				if u.name != "assign" && !underDefine {
					return true
				}
				n++
				// or an earlier statement of the same block that handles the redeclared case and leaves
				path := enclosingPath(fl.Body, as)
				for i := len(path) - 1; i > 0; i-- {
					blk, ok := path[i-1].(*ast.BlockStmt)
					if !ok {
						continue
					}
					for _, st := range blk.List {
						if st == path[i] {
							break
						}
						if ifs, ok := st.(*ast.IfStmt); ok && mentionsRedecl(ifs.Cond) && len(ifs.Body.List) > 0 {
							switch ifs.Body.List[len(ifs.Body.List)-1].(type) {
							case *ast.BranchStmt, *ast.ReturnStmt:
								guarded = true
							}
						}
					}
				}
				r.Check(guarded, "R04.13", fmt.Sprintf("%s/closure#%d/slot-replaced-unless-redeclared", u.name, k+1), ic.pos(as.Pos()), "a destination already declared in the scope keeps its variable",
					"the closure executing a multiple definition replaces the slot of every destination by a new variable ("+types.ExprString(as.Lhs[0])+" = "+types.ExprString(as.Rhs[0])+") without testing node.redeclared: in a := 1; p := &a; a, c := 2, 3 the variable a is re-created, *p keeps 1 and closures over a keep the old variable, where compiled Go assigns the existing a")
				return true
			})
			return false
		})
	}
	if n < 3 {
		r.Errorf("R04.13: only %d slot replacements in a loop over several destinations found (assign, assignFromCall and the compiled-call generator expected)", n)
	}
	// (b) producer
	cfgFn := ic.fn(r, "Interpreter.cfg")
	if cfgFn == nil {
		return
	}
	sets := 0
	ast.Inspect(cfgFn.Decl.Body, func(m ast.Node) bool {
		if as, ok := m.(*ast.AssignStmt); ok && len(as.Lhs) == 1 && selField(info, as.Lhs[0]) == redeclFld {
			sets++
		}
		return true
	})
	r.Check(sets > 0, "R04.13", "cfg/redeclared-flag-set-for-definitions", ic.pos(cfgFn.Decl.Pos()), "cfg marks the destinations of a definition that are already declared in the scope",
		"cfg never sets node.redeclared in its own assignment case (only the helper of a, b := f() does): the generator of a, c := 2, 3 cannot tell the redeclared a from a new variable")
}

func init() {
	ruleText["R04.15"] = "the generators assigning the results of a multiple-value call (assignFromCall, and the assign-X branch of the compiled-call generator) set a map-entry destination in its map: each reaches reflect.Value.SetMapIndex through a path that tests isMapEntry; setting the entry's temporary slot leaves the map unchanged"
}

// c04R15: found D83 (m["x"], err = strconv.Atoi("42") left m empty).
func c04R15(ic *IC, r *Report) {
	info := ic.Info
	// setter role: in-package function calling isMapEntry and SetMapIndex
	setters := map[*types.Func]bool{}
	for f, fi := range ic.G.Funcs {
		if fi.Decl.Body == nil {
			continue
		}
		if len(callsIn(info, fi.Decl.Body, true, "interp.isMapEntry")) > 0 && len(callsIn(info, fi.Decl.Body, true, "reflect.Value.SetMapIndex")) > 0 {
			setters[f] = true
		}
	}
	handles := func(body ast.Node) bool {
		if len(callsIn(info, body, true, "interp.isMapEntry")) > 0 && len(callsIn(info, body, true, "reflect.Value.SetMapIndex")) > 0 {
			return true
		}
		for _, c := range allCalls(body) {
			if f, ok := calleeOf(info, c).(*types.Func); ok && setters[f] {
				return true
			}
		}
		return false
	}
	afc := ic.fn(r, "assignFromCall")
	cb := ic.fn(r, "callBin")
	if afc == nil || cb == nil {
		return
	}
	r.Check(handles(afc.Decl.Body), "R04.15", "assignFromCall/map-entry-set-in-its-map", ic.pos(afc.Decl.Pos()), "a map-entry destination goes through SetMapIndex",
		"assignFromCall sets every destination of a, b = f() with Set on the destination's value: for a map entry that value is the temporary holding the looked-up element, so m[\"x\"], err = f() leaves m unchanged")
	// the branch of callBin under n.anc.action == aAssignX
	var branch *ast.CaseClause
	ast.Inspect(cb.Decl.Body, func(m ast.Node) bool {
		cc, ok := m.(*ast.CaseClause)
		if !ok {
			return true
		}
		for _, l := range cc.List {
			ast.Inspect(l, func(q ast.Node) bool {
				if id, ok := q.(*ast.Ident); ok {
					if c, ok := info.Uses[id].(*types.Const); ok && c.Name() == "aAssignX" {
						branch = cc
					}
				}
				return true
			})
		}
		return true
	})
	if branch == nil {
		r.Errorf("R04.15: the assign-X branch of callBin was not found")
		return
	}
	r.Check(handles(branch), "R04.15", "callBin/assignX/map-entry-set-in-its-map", ic.pos(branch.Pos()), "a map-entry destination goes through SetMapIndex",
		"the assign-X branch of callBin stores the results of a compiled call with Set on each destination's value: for a map entry that is the temporary holding the looked-up element, so m[\"x\"], err = strconv.Atoi(\"42\") leaves m unchanged")
}

func init() {
	ruleText["R04.16"] = "in the multiple-assignment closures of assign, the key of a map entry on the left-hand side is not evaluated while the destinations are being assigned: no SetMapIndex takes the direct result of a value generator as its key inside the loop over the destinations (the operands of index expressions are evaluated in the first phase, with the right-hand sides)"
}

// c04R16: found D85 (k, m[k] = "b", 1 set m["b"]).
func c04R16(ic *IC, r *Report) {
	info := ic.Info
	fi := ic.fn(r, "assign")
	if fi == nil {
		return
	}
	isValueFn := func(t types.Type) bool {
		if t == nil {
			return false
		}
		sg, ok := t.Underlying().(*types.Signature)
		return ok && sg.Params().Len() == 1 && sg.Results().Len() == 1 && isNamedPtr(sg.Params().At(0).Type(), "frame") && types.TypeString(sg.Results().At(0).Type(), nil) == "reflect.Value"
	}
	n := 0
	for k, fl := range (&c02ctx{ic: ic}).closuresOf(fi) {
		// a multiple-assignment closure: it builds temporaries (make of a []reflect.Value)
		multi := false
		ast.Inspect(fl.Body, func(m ast.Node) bool {
			if c, ok := m.(*ast.CallExpr); ok {
				if id := identOf(c.Fun); id != nil && id.Name == "make" && len(c.Args) > 0 && types.ExprString(c.Args[0]) == "[]reflect.Value" {
					multi = true
				}
			}
			return true
		})
		if !multi {
			continue
		}
		for _, c := range callsIn(info, fl.Body, false, "reflect.Value.SetMapIndex") {
			if len(c.Args) != 2 {
				continue
			}
			n++
			late := false
			if kc, ok := unparen(c.Args[0]).(*ast.CallExpr); ok {
				if id := identOf(kc.Fun); id != nil && isValueFn(info.TypeOf(id)) {
					late = true
				}
			}
			r.Check(!late, "R04.16", fmt.Sprintf("assign/closure#%d/map-key-evaluated-in-the-first-phase", k+1), ic.pos(c.Pos()), "the key was evaluated before any destination is assigned",
				"the multiple-assignment closure of assign evaluates the key of a map entry ("+types.ExprString(c.Args[0])+") when it assigns that entry, after the destinations to its left have been assigned: k, m[k] = \"b\", 1 sets m[\"b\"] where the Go specification evaluates the index operands first (m[\"a\"])")
		}
	}
	if n == 0 {
		r.Errorf("R04.16: no map-entry assignment found in the multiple-assignment closures of assign")
	}
}

func init() {
	ruleText["R04.17"] = "every evaluation of a composite literal populates a value of its own: in the closures of the composite-literal generators the value whose elements, fields or entries are set is created there (reflect.New(T).Elem(), MakeSlice, MakeMap...) or comes from an in-package function that returns a new value at each call - none of the assignments to that function's result reads a field of the type (a memo) and the function assigns no field"
}

// c04R17: round-6 seed. itype.zero memoized the zero value of composite types in the type:
// every literal of a defined array type was populated in that one shared value.
func c04R17(ic *IC, r *Report) {
	info := ic.Info
	work := compositeBuilders(ic, r, "R04.17")
	if work == nil {
		return
	}
	execFld := ic.field("node", "exec")
	cp := copiers(ic)
	// producers checked once
	producerOK := map[*types.Func]string{}
	checkProducer := func(f *types.Func) string {
		if why, ok := producerOK[f]; ok {
			return why
		}
		producerOK[f] = ""
		fi := ic.G.Funcs[f]
		if fi == nil || fi.Decl.Body == nil {
			producerOK[f] = "its body is not available"
			return producerOK[f]
		}
		sg := f.Type().(*types.Signature)
		if sg.Results().Len() == 0 {
			return ""
		}
		res := sg.Results().At(0)
		why := ""
		ast.Inspect(fi.Decl.Body, func(q ast.Node) bool {
			as, ok := q.(*ast.AssignStmt)
			if !ok {
				return true
			}
			for i, l := range as.Lhs {
				// no field assigned (a memo being filled)
				if se, ok := unparen(l).(*ast.SelectorExpr); ok {
					if v := selField(info, se); v != nil && v.IsField() && types.TypeString(v.Type(), nil) == "reflect.Value" {
						if _, isRecv := info.ObjectOf(rootIdent(se)).(*types.Var); isRecv {
							why = f.Name() + " stores into the field " + types.ExprString(se) + " at " + ic.pos(as.Pos())
						}
					}
				}
				id := identOf(l)
				if id == nil || info.ObjectOf(id) != res || res.Name() == "" {
					continue
				}
				var rhs ast.Expr
				if len(as.Rhs) == len(as.Lhs) {
					rhs = as.Rhs[i]
				} else if len(as.Rhs) == 1 {
					rhs = as.Rhs[0]
				}
				if rhs == nil {
					continue
				}
				if isFreshValue(ic, cp, rhs) {
					continue
				}
				if c, ok := unparen(rhs).(*ast.CallExpr); ok {
					if g, ok := calleeOf(info, c).(*types.Func); ok && g == f {
						continue // the same function on the underlying type
					}
					if isCallTo(info, c, "reflect.MakeSlice", "reflect.MakeMap", "reflect.MakeMapWithSize", "reflect.MakeChan") {
						continue
					}
				}
				if ix, ok := unparen(rhs).(*ast.IndexExpr); ok {
					if bid := identOf(ix.X); bid != nil {
						if v, ok := info.ObjectOf(bid).(*types.Var); ok && v.Parent() == ic.Pk.Types.Scope() {
							// the table of the zero values of the basic types: never stored into
							stored := ""
							for _, hd := range ic.G.Funcs {
								if hd.Decl.Body == nil || (hd.Decl.Recv == nil && hd.Decl.Name.Name == "init") {
									continue // filled once, when the package is initialised
								}
								ast.Inspect(hd.Decl.Body, func(z ast.Node) bool {
									if a3, ok := z.(*ast.AssignStmt); ok {
										for _, l3 := range a3.Lhs {
											if ix3, ok := unparen(l3).(*ast.IndexExpr); ok {
												if b3 := identOf(ix3.X); b3 != nil && info.ObjectOf(b3) == v {
													stored = ic.pos(a3.Pos())
												}
											}
										}
									}
									return true
								})
							}
							if stored == "" {
								continue
							}
							why = f.Name() + " returns " + types.ExprString(rhs) + " (" + ic.pos(as.Pos()) + "), an entry of a table that is filled at run time (" + stored + ")"
							continue
						}
					}
				}
				why = f.Name() + " returns " + types.ExprString(rhs) + " (" + ic.pos(as.Pos()) + "), which is not created by the call"
			}
			return true
		})
		producerOK[f] = why
		return why
	}
	n := 0
	for _, f := range work {
		fi := ic.G.Funcs[f]
		k := 0
		ast.Inspect(fi.Decl.Body, func(m ast.Node) bool {
			as, ok := m.(*ast.AssignStmt)
			if !ok || len(as.Lhs) != 1 || len(as.Rhs) != 1 || selField(info, as.Lhs[0]) != execFld {
				return true
			}
			fl, ok := unparen(as.Rhs[0]).(*ast.FuncLit)
			if !ok {
				return true
			}
			k++
			// populated values: locals X with X.Index(..).Set / X.Field(..).Set / X.SetMapIndex
			pop := map[types.Object]bool{}
			ast.Inspect(fl.Body, func(q ast.Node) bool {
				c, ok := q.(*ast.CallExpr)
				if !ok {
					return true
				}
				se, ok := unparen(c.Fun).(*ast.SelectorExpr)
				if !ok {
					return true
				}
				switch {
				case isCallTo(info, c, "reflect.Value.SetMapIndex"):
					if id := identOf(se.X); id != nil {
						pop[info.ObjectOf(id)] = true
					}
				case isCallTo(info, c, "reflect.Value.Set"):
					if inner, ok := unparen(se.X).(*ast.CallExpr); ok && isCallTo(info, inner, "reflect.Value.Index", "reflect.Value.Field") {
						if id := identOf(unparen(inner.Fun).(*ast.SelectorExpr).X); id != nil {
							pop[info.ObjectOf(id)] = true
						}
					}
				}
				return true
			})
			if len(pop) == 0 {
				return true
			}
			n++
			var bad []string
			ast.Inspect(fl.Body, func(q ast.Node) bool {
				a2, ok := q.(*ast.AssignStmt)
				if !ok {
					return true
				}
				for i, l := range a2.Lhs {
					id := identOf(l)
					if id == nil || !pop[info.ObjectOf(id)] {
						continue
					}
					var rhs ast.Expr
					if len(a2.Rhs) == len(a2.Lhs) {
						rhs = a2.Rhs[i]
					} else if len(a2.Rhs) == 1 {
						rhs = a2.Rhs[0]
					}
					if rhs == nil || isFreshValue(ic, cp, rhs) {
						continue
					}
					c, ok := unparen(rhs).(*ast.CallExpr)
					if ok && isCallTo(info, c, "reflect.MakeSlice", "reflect.MakeMap", "reflect.MakeMapWithSize") {
						continue
					}
					if ok {
						if g, isF := calleeOf(info, c).(*types.Func); isF && g.Pkg() == ic.Pk.Types {
							if why := checkProducer(g); why != "" {
								bad = append(bad, types.ExprString(l)+" = "+types.ExprString(rhs)+" at "+ic.pos(a2.Pos())+": "+why)
							}
							continue
						}
					}
					bad = append(bad, types.ExprString(l)+" = "+types.ExprString(rhs)+" at "+ic.pos(a2.Pos())+" is not a value created by this evaluation")
				}
				return true
			})
			r.Check(len(bad) == 0, "R04.17", fmt.Sprintf("%s/closure#%d/populates-a-value-of-its-own", f.Name(), k), ic.pos(fl.Pos()), "the populated value is created at each evaluation",
				"the closure generated by "+f.Name()+" populates a value that is not created by this evaluation of the literal ("+strings.Join(bad, "; ")+"): all the literals of the type are built in the same storage - the elements a literal does not list keep what an earlier literal put there, and values already built change when a new literal is evaluated")
			return true
		})
	}
	if n < 5 {
		r.Errorf("R04.17: only %d closures populating a composite value found", n)
	}
}

func init() {
	ruleText["R04.19"] = "every composite-literal generator can give the literal a new variable: its run-time closure, or the in-package helper that produced the function it stores through, contains a statement replacing a frame slot by the built value (X.data[i] = v) beside the in-place Set - without it every evaluation of &[2]int{...}, &[]T{...} or &map[K]V{...} in one frame returns a pointer to the same storage"
}

// c04R19: found through the round-6 report on C04 (E03). arrayLit, mapLit and the generators
// for literals of compiled slice and map types always Set the literal into the literal's own
// frame slot; & took the address of that slot, so a loop collected three times the same pointer.
func c04R19(ic *IC, r *Report) {
	info := ic.Info
	work := compositeBuilders(ic, r, "R04.19")
	if work == nil {
		return
	}
	execFld := ic.field("node", "exec")
	replaces := func(body ast.Node) bool {
		found := false
		ast.Inspect(body, func(q ast.Node) bool {
			as, ok := q.(*ast.AssignStmt)
			if !ok {
				return true
			}
			for _, l := range as.Lhs {
				if ix, ok := unparen(l).(*ast.IndexExpr); ok {
					if v := selField(info, ix.X); v != nil && v.Name() == "data" {
						found = true
					}
				}
			}
			return true
		})
		return found
	}
	n := 0
	for _, f := range work {
		fi := ic.G.Funcs[f]
		// helpers producing a store function: local := helper(n)
		helpers := map[types.Object]*FuncInfo{}
		ast.Inspect(fi.Decl.Body, func(q ast.Node) bool {
			as, ok := q.(*ast.AssignStmt)
			if !ok || len(as.Lhs) != 1 || len(as.Rhs) != 1 {
				return true
			}
			c, ok := unparen(as.Rhs[0]).(*ast.CallExpr)
			if !ok {
				return true
			}
			if g, ok := calleeOf(info, c).(*types.Func); ok && g.Pkg() == ic.Pk.Types {
				if g.Type().(*types.Signature).Results().Len() != 1 {
					return true
				}
				if rs, isFn := g.Type().(*types.Signature).Results().At(0).Type().Underlying().(*types.Signature); isFn && rs.Params().Len() == 2 {
					if id := identOf(as.Lhs[0]); id != nil {
						helpers[info.ObjectOf(id)] = ic.G.Funcs[g]
					}
				}
			}
			return true
		})
		k := 0
		ast.Inspect(fi.Decl.Body, func(m ast.Node) bool {
			as, ok := m.(*ast.AssignStmt)
			if !ok || len(as.Lhs) != 1 || len(as.Rhs) != 1 || selField(info, as.Lhs[0]) != execFld {
				return true
			}
			fl, ok := unparen(as.Rhs[0]).(*ast.FuncLit)
			if !ok {
				return true
			}
			k++
			n++
			can := replaces(fl.Body)
			via := ""
			if !can {
				for _, c := range allCalls(fl.Body) {
					if id := identOf(c.Fun); id != nil {
						if h := helpers[info.ObjectOf(id)]; h != nil && h.Decl.Body != nil {
							via = funcName(h.Decl)
							if replaces(h.Decl.Body) {
								can = true
							}
						}
					}
				}
			}
			why := "its closure only stores the built value in place"
			if via != "" {
				why = "it stores through " + via + ", which only stores in place"
			}
			r.Check(can, "R04.19", fmt.Sprintf("%s/closure#%d/can-give-the-literal-a-new-variable", f.Name(), k), ic.pos(fl.Pos()), "a slot-replacing store exists beside the in-place one",
				"the generator "+f.Name()+" has no way to give the literal a new variable ("+why+"): every evaluation writes the same storage, so &[2]int{i, i} evaluated in a loop yields three times the same pointer ([2 2] [2 2] [2 2], ps[0] == ps[1])")
			return true
		})
	}
	if n < 6 {
		r.Errorf("R04.19: only %d closures of composite-literal generators found", n)
	}
}

func init() {
	ruleText["R04.20"] = "a value converted to an interface is copied: in every run-time closure, the value put in an interface wrapper (valueInterface{node, X}) is not the plain result of an operand generator (X := value(f), possibly unwrapped from an inner wrapper) - it goes through the copier or is created in the closure; the interface value must not change when the variable it was made from is assigned"
}

// c04R20: found through the round-6 reports on C04 (E05/E13), C05 and C08 (E3).
// genValueInterface wrapped the addressable reflect.Value of the variable: var i shape = q;
// q.s = 3; i.area() saw 3, a goroutine argument or a value sent on a chan of interface type
// followed the sender's variable.
func c04R20(ic *IC, r *Report, rule string) {
	info := ic.Info
	cp := copiers(ic)
	isGen := func(t types.Type) bool {
		sg, ok := t.Underlying().(*types.Signature)
		return ok && sg.Params().Len() == 1 && isNamedPtr(sg.Params().At(0).Type(), "frame") && sg.Results().Len() == 1 && types.TypeString(sg.Results().At(0).Type(), nil) == "reflect.Value"
	}
	viT, _ := ic.Pk.Types.Scope().Lookup("valueInterface").(*types.TypeName)
	if viT == nil {
		r.Errorf("%s: type valueInterface not found", rule)
		return
	}
	n, nDerived := 0, 0
	for _, name := range sortedKeys(ic.F) {
		fi := ic.F[name]
		if fi.Decl.Body == nil {
			continue
		}
		k := 0
		for _, fl := range (&c02ctx{ic: ic}).closuresOf(fi) {
			// locals holding the plain result of an operand generator
			plain := map[types.Object]bool{}
			ast.Inspect(fl.Body, func(q ast.Node) bool {
				as, ok := q.(*ast.AssignStmt)
				if !ok || len(as.Lhs) != len(as.Rhs) {
					return true
				}
				for i, rh := range as.Rhs {
					c, ok := unparen(rh).(*ast.CallExpr)
					if !ok {
						continue
					}
					if t := info.TypeOf(c.Fun); t != nil && isGen(t) {
						if id := identOf(as.Lhs[i]); id != nil {
							plain[info.ObjectOf(id)] = true
						}
					}
				}
				return true
			})
			ast.Inspect(fl.Body, func(q ast.Node) bool {
				cl, ok := q.(*ast.CompositeLit)
				if !ok {
					return true
				}
				if t := info.TypeOf(cl); t == nil || !types.Identical(t, viT.Type()) || len(cl.Elts) == 0 {
					return true
				}
				var val ast.Expr
				for i, e := range cl.Elts {
					if kv, ok := e.(*ast.KeyValueExpr); ok {
						if id := identOf(kv.Key); id != nil && id.Name == "value" {
							val = kv.Value
						}
					} else if i == 1 {
						val = e
					}
				}
				if val == nil {
					return true
				}
				n++
				derived := false
				if id := identOf(val); id != nil && plain[info.ObjectOf(id)] {
					derived = true
				}
				if c, ok := unparen(val).(*ast.CallExpr); ok {
					if t := info.TypeOf(c.Fun); t != nil && isGen(t) {
						derived = true
					}
					if g, ok := calleeOf(info, c).(*types.Func); ok && cp[g] {
						// copied: count it as an instance of the rule
						if len(c.Args) == 1 {
							if id := identOf(c.Args[0]); id != nil && plain[info.ObjectOf(id)] {
								nDerived++
								k++
								r.Pass(rule, fmt.Sprintf("%s/interface-wrapper#%d/value-copied", name, k), ic.pos(cl.Pos()), "the wrapped value goes through "+g.Name())
							}
						}
						return true
					}
				}
				if !derived {
					// a copy made inline: c := reflect.New(T).Elem(); c.Set(v)
					if id := identOf(val); id != nil {
						obj := info.ObjectOf(id)
						fresh, fromPlain := false, false
						ast.Inspect(fl.Body, func(z ast.Node) bool {
							switch y := z.(type) {
							case *ast.AssignStmt:
								if len(y.Lhs) == len(y.Rhs) {
									for i, l := range y.Lhs {
										if lid := identOf(l); lid != nil && info.ObjectOf(lid) == obj && isFreshValue(ic, cp, y.Rhs[i]) {
											fresh = true
										}
									}
								}
							case *ast.CallExpr:
								if isCallTo(info, y, "reflect.Value.Set") && len(y.Args) == 1 {
									if rid := identOf(unparen(y.Fun).(*ast.SelectorExpr).X); rid != nil && info.ObjectOf(rid) == obj {
										if aid := identOf(y.Args[0]); aid != nil && plain[info.ObjectOf(aid)] {
											fromPlain = true
										}
									}
								}
							}
							return true
						})
						if fresh && fromPlain {
							nDerived++
							k++
							r.Pass(rule, fmt.Sprintf("%s/interface-wrapper#%d/value-copied", name, k), ic.pos(cl.Pos()), "the wrapped value is a copy made in the closure")
						}
					}
					return true
				}
				nDerived++
				k++
				r.Fail(rule, fmt.Sprintf("%s/interface-wrapper#%d/value-copied", name, k), ic.pos(cl.Pos()),
					"the run-time closure generated by "+name+" wraps "+types.ExprString(val)+", the plain result of an operand generator, in an interface value: it is the addressable value of the variable itself, so the interface changes when the variable is assigned afterwards - var i shape = q; q.s = 3; i.area() computes with 3, go show(q) and ch <- q deliver what q holds when the receiver reads it")
				return true
			})
		}
	}
	if n < 5 || nDerived == 0 {
		r.Errorf("%s: %d interface wrappers found in run-time closures, %d made from an operand (the generator of interface conversions expected)", rule, n, nDerived)
	}
}

func init() {
	ruleText["R04.21"] = "the append generator spreads its last operand only for append(s, t...): every path to the slice-appending generator (appendSlice) in _append tests the ellipsis of the call (node.action against aCallSlice) - the operand types cannot tell append(is, x) from append(is, x...) when x is itself assignable to the element type ([]interface{} into []interface{})"
}

// c04R21: found through the round-6 report on C04 (E07). _append chose appendSlice from the
// operand types: append(is, x) with is, x []interface{} appended the elements of x.
func c04R21(ic *IC, r *Report) {
	info := ic.Info
	fi := ic.fn(r, "_append")
	if fi == nil {
		return
	}
	calls := callsIn(info, fi.Decl.Body, false, "interp.appendSlice")
	if len(calls) == 0 {
		r.Errorf("R04.21: _append never reaches appendSlice")
		return
	}
	for i, c := range calls {
		ok := false
		conds := []string{}
		for _, g := range pathGuards(fi.Decl.Body, c) {
			conds = append(conds, types.ExprString(g.cond))
			if !g.want {
				continue
			}
			// the condition implies the ellipsis test: it is false as soon as that test is
			isEllipsis := func(e ast.Expr) bool {
				be, isB := unparen(e).(*ast.BinaryExpr)
				if !isB || be.Op != token.EQL {
					return false
				}
				for _, pair := range [][2]ast.Expr{{be.X, be.Y}, {be.Y, be.X}} {
					if v := selField(info, pair[0]); v != nil && v.Name() == "action" {
						if id := identOf(pair[1]); id != nil {
							if cst, isC := info.Uses[id].(*types.Const); isC && cst.Name() == "aCallSlice" {
								return true
							}
						}
					}
				}
				return false
			}
			if evalCond(g.cond, func(e ast.Expr) int {
				if isEllipsis(e) {
					return triFalse
				}
				return triUnknown
			}) == triFalse {
				ok = true
			}
		}
		r.Check(ok, "R04.21", fmt.Sprintf("_append/slice-form#%d/decided-by-the-ellipsis", i+1), ic.pos(c.Pos()), "appendSlice is reached under node.action == aCallSlice",
			"_append hands the call to appendSlice under ["+strings.Join(conds, "; ")+"], which does not test the ellipsis of the call: when the last operand is a slice assignable to the element type, append(is, x) appends the elements of x instead of x itself (is, x []interface{}: len 2 instead of 1)")
	}
}

func init() {
	ruleText["R04.22"] = "the temporaries of a multiple assignment have the type of the values they save: in the multiple-assignment closures of assign every temporary is reflect.New(v.Type()).Elem() for the evaluated source v (or a copier call), not a type computed when the closure is generated from the static type of the source - that type is nil for the untyped nil and the wrapper type for every interface, the empty one included"
}

// c04R22: found through the round-6 report on C04 (E08, E09). s, t[0] = nil, s panicked
// (reflect.New(nil)) and i, j = j, i with i, j interface{} panicked (a wrapper-typed temporary
// receiving a plain interface value).
func c04R22(ic *IC, r *Report) {
	info := ic.Info
	fi := ic.fn(r, "assign")
	if fi == nil {
		return
	}
	cp := copiers(ic)
	n := 0
	for k, fl := range (&c02ctx{ic: ic}).closuresOf(fi) {
		// temporaries: elements of a local []reflect.Value made in the closure
		temps := map[types.Object]bool{}
		ast.Inspect(fl.Body, func(q ast.Node) bool {
			as, ok := q.(*ast.AssignStmt)
			if !ok || as.Tok != token.DEFINE || len(as.Lhs) != 1 || len(as.Rhs) != 1 {
				return true
			}
			if c, ok := unparen(as.Rhs[0]).(*ast.CallExpr); ok {
				if id := identOf(c.Fun); id != nil && id.Name == "make" && types.TypeString(info.TypeOf(as.Rhs[0]), nil) == "[]reflect.Value" {
					temps[info.ObjectOf(as.Lhs[0].(*ast.Ident))] = true
				}
			}
			return true
		})
		if len(temps) == 0 {
			continue
		}
		ast.Inspect(fl.Body, func(q ast.Node) bool {
			as, ok := q.(*ast.AssignStmt)
			if !ok || len(as.Lhs) != 1 || len(as.Rhs) != 1 {
				return true
			}
			ix, ok := unparen(as.Lhs[0]).(*ast.IndexExpr)
			if !ok {
				return true
			}
			if id := identOf(ix.X); id == nil || !temps[info.ObjectOf(id)] {
				return true
			}
			c, ok := unparen(as.Rhs[0]).(*ast.CallExpr)
			if !ok {
				return true
			}
			if g, isF := calleeOf(info, c).(*types.Func); isF && cp[g] {
				n++
				r.Pass("R04.22", fmt.Sprintf("assign/closure#%d/temporary#%d/typed-by-the-value", k+1, n), ic.pos(as.Pos()), "the temporary is made by the copier")
				return true
			}
			var scope ast.Node = c
			if hid := identOf(c.Fun); hid != nil {
				// a local helper of the generator making the temporary: look at its body
				ast.Inspect(fi.Decl.Body, func(z ast.Node) bool {
					if has, ok := z.(*ast.AssignStmt); ok && len(has.Lhs) == 1 && len(has.Rhs) == 1 {
						if lid := identOf(has.Lhs[0]); lid != nil && info.ObjectOf(lid) == info.ObjectOf(hid) {
							if lit, ok := unparen(has.Rhs[0]).(*ast.FuncLit); ok {
								scope = lit.Body
							}
						}
					}
					return true
				})
			} else if !isCallTo(info, c, "reflect.Value.Elem") {
				return true
			}
			news := callsIn(info, scope, true, "reflect.New")
			if len(news) != 1 || len(news[0].Args) != 1 {
				return true
			}
			n++
			arg := unparen(news[0].Args[0])
			okT := false
			if tc, ok := arg.(*ast.CallExpr); ok && isCallTo(info, tc, "reflect.Value.Type") {
				okT = true
			}
			r.Check(okT, "R04.22", fmt.Sprintf("assign/closure#%d/temporary#%d/typed-by-the-value", k+1, n), ic.pos(as.Pos()), "the temporary is reflect.New(v.Type()).Elem()",
				"the multiple-assignment closure of assign creates its temporary with reflect.New("+types.ExprString(arg)+"), a type fixed when the closure is generated: the static type of the source is nil for an untyped nil (s, t[0] = nil, s panics in reflect.New) and the wrapper type for every interface (i, j = j, i with i, j interface{} panics in Set)")
			return true
		})
	}
	if n < 2 {
		r.Errorf("R04.22: only %d temporaries found in the multiple-assignment closures of assign", n)
	}
}
