package main

import (
	"fmt"
	"go/ast"
	"go/token"
	"go/types"
	"os"
	"sort"
	"strconv"
	"strings"
)

// loopCaptures: the module's language version is below go1.22 (go.mod), so the variables of a
// for/range clause are shared by all iterations. A function literal created in the loop body
// that refers to such a variable and outlives the iteration (it is stored, appended, returned
// or passed on instead of being called on the spot) sees the value of the *last* iteration
// when it finally runs. The interpreter builds its run-time closures exactly that way (value
// generators appended to a slice inside a loop over operands), so a captured index silently
// mixes up operands.
type loopCapture struct {
	fn    string
	v     string
	pos   token.Pos
	inLit *ast.FuncLit
}

func goLangBefore122(c *Config) (bool, string) {
	data, err := os.ReadFile(c.Repo + "/go.mod")
	if err != nil {
		return false, ""
	}
	for _, l := range strings.Split(string(data), "\n") {
		f := strings.Fields(l)
		if len(f) == 2 && f[0] == "go" {
			parts := strings.Split(f[1], ".")
			if len(parts) >= 2 {
				maj, _ := strconv.Atoi(parts[0])
				min, _ := strconv.Atoi(parts[1])
				return maj == 1 && min < 22, f[1]
			}
		}
	}
	return false, ""
}

func findLoopCaptures(ic *IC) []loopCapture {
	info := ic.Info
	var out []loopCapture
	for _, name := range sortedKeys(ic.F) {
		fi := ic.F[name]
		if fi.Decl.Body == nil {
			continue
		}
		ast.Inspect(fi.Decl.Body, func(n ast.Node) bool {
			var vars []types.Object
			var body *ast.BlockStmt
			switch x := n.(type) {
			case *ast.RangeStmt:
				if x.Tok == token.DEFINE {
					for _, e := range []ast.Expr{x.Key, x.Value} {
						if id, ok := e.(*ast.Ident); ok && id.Name != "_" {
							vars = append(vars, info.ObjectOf(id))
						}
					}
				}
				body = x.Body
			case *ast.ForStmt:
				if as, ok := x.Init.(*ast.AssignStmt); ok && as.Tok == token.DEFINE {
					for _, l := range as.Lhs {
						if id, ok := l.(*ast.Ident); ok && id.Name != "_" {
							vars = append(vars, info.ObjectOf(id))
						}
					}
				}
				body = x.Body
			}
			if body == nil || len(vars) == 0 {
				return true
			}
			isVar := map[types.Object]bool{}
			for _, v := range vars {
				isVar[v] = true
			}
			// function literals of the body, with their parent node
			var stack []ast.Node
			ast.Inspect(body, func(m ast.Node) bool {
				if m == nil {
					stack = stack[:len(stack)-1]
					return true
				}
				stack = append(stack, m)
				fl, ok := m.(*ast.FuncLit)
				if !ok {
					return true
				}
				// does the literal outlive the iteration? stored in a field/element/non-local,
				// appended, returned, put in a composite literal, given to reflect.MakeFunc, or
				// started with go/defer. A literal called on the spot or handed to an ordinary call
				// (Walk, sort.Slice) runs within the iteration.
				escapes := false
				if len(stack) >= 2 {
					switch p := stack[len(stack)-2].(type) {
					case *ast.AssignStmt:
						for i, rhs := range p.Rhs {
							if rhs != ast.Expr(fl) || i >= len(p.Lhs) {
								continue
							}
							if _, isLocal := p.Lhs[i].(*ast.Ident); !isLocal {
								escapes = true
							}
						}
					case *ast.ReturnStmt, *ast.CompositeLit, *ast.KeyValueExpr:
						escapes = true
					case *ast.CallExpr:
						if p.Fun == ast.Expr(fl) {
							if len(stack) >= 3 {
								switch stack[len(stack)-3].(type) {
								case *ast.GoStmt, *ast.DeferStmt:
									escapes = true
								}
							}
						} else if isBuiltinCall(info, p, "append") || isCallTo(info, p, "reflect.MakeFunc") {
							escapes = true
						}
					}
				}
				if !escapes {
					return true
				}
				seen := map[types.Object]bool{}
				ast.Inspect(fl.Body, func(k ast.Node) bool {
					if id, ok := k.(*ast.Ident); ok {
						if o := info.Uses[id]; o != nil && isVar[o] && !seen[o] {
							seen[o] = true
							out = append(out, loopCapture{fn: name, v: o.Name(), pos: id.Pos(), inLit: fl})
						}
					}
					return true
				})
				return true
			})
			return true
		})
	}
	sort.Slice(out, func(i, j int) bool { return out[i].pos < out[j].pos })
	return out
}

var _ = fmt.Sprintf

// loopCaptureRule reports, under the given rule, every captured iteration variable in the
// functions accepted by filter (nil = all).
func loopCaptureRule(c *Config, ic *IC, r *Report, rule string, filter func(fn string) bool) {
	before, ver := goLangBefore122(c)
	if !before {
		r.Pass(rule, "module/per-iteration-loop-variables", "", "go.mod declares go "+ver+": loop variables are per iteration")
		return
	}
	n := 0
	perFn := map[string]int{}
	for _, lc := range findLoopCaptures(ic) {
		if filter != nil && !filter(lc.fn) {
			continue
		}
		n++
		perFn[lc.fn+"/"+lc.v]++
		r.Fail(rule, fmt.Sprintf("%s/closure-captures-loop-variable:%s#%d", lc.fn, lc.v, perFn[lc.fn+"/"+lc.v]), ic.pos(lc.pos),
			"a function literal created in a loop of "+lc.fn+" and kept beyond the iteration refers to the loop variable "+lc.v+"; go.mod declares go "+ver+" (< 1.22), so the variable is shared by all iterations and the closure sees its last value when it runs")
	}
	if n == 0 {
		r.Pass(rule, "package/no-escaping-closure-captures-a-loop-variable", "", "go "+ver+": no function literal kept beyond its iteration refers to an iteration variable")
	}
}
