package main

import (
	"fmt"
	"go/ast"
	"go/importer"
	"go/parser"
	"go/token"
	"go/types"
	"sort"
	"strings"

	"golang.org/x/tools/go/ssa"
)

func init() {
	register("C08", &propMeta{
		Level: "other",
		Explanation: "Three structural clauses of race freedom of the interpreter's own bookkeeping, decided over every run-time closure of package interp: " +
			"R08.1 no run-time closure (function literal taking a *frame) writes a variable captured from its generator (state shared by all goroutines executing the statement), with one-step alias tracking and copy/delete/append-to-captured recognised; " +
			"R08.2 every activation of runCfg (call or go) receives a frame created by newFrame/clone in the same invocation (SSA value provenance), and goroutine argument vectors of sibling call forms are built the same way; " +
			"R08.3 every Lock/RLock on a mutex of frame/Interpreter/Debugger is released on every go/cfg path to an exit, and the guarded-by table (frame.done, Interpreter.done, Interpreter.cancelChan) holds at every access outside constructors. No schedule is explored.",
		Assumptions: []string{
			"effects of callees are not followed (an interprocedural version was rejected in the design: run-time closures statically reach the whole compiler through lazy type finalisation)",
			"races inside reflect or host functions, and schedule independence of outputs, are not decided",
		},
		Run: runC08,
	})
	ruleText["R08.1"] = "a run-time closure (func literal whose first parameter is *frame, and everything nested in it) never assigns, increments, element- or field-stores, copies into, deletes from or appends to a variable captured from the enclosing generator function, directly or through a local alias"
	ruleText["R08.2"] = "the frame passed to runCfg is the result of newFrame or (*frame).clone executed in the same function invocation (or the root frame in (*Interpreter).run), never a captured or parameter frame"
	ruleText["R08.4"] = "every map stored into Interpreter.binPkg[k] is created (make/literal) by the storing function, never the map received through Use: independent interpreters must not share a symbol table that fixStdlib later overrides per interpreter"
	ruleText["R08.5"] = "no function reachable on the static call graph from a run-time closure (function literal taking a *frame) updates a map held in a field of itype, node, symbol, scope or Interpreter (the walk stops at (*itype).finalize; reviewed exceptions listed with their reason)"
	ruleText["R08.6"] = "no run-time closure performs reflect.Value.Recv or Send on a channel under a path condition that reads the same channel's Len or Cap (check-then-act)"
	ruleText["R08.3"] = "every Lock/RLock of a sync.Mutex/RWMutex field is followed by the matching Unlock/RUnlock of the same receiver on every control-flow path to a function exit (or a deferred unlock is registered); guarded fields are accessed only while their mutex is held"
}

// isFrameClosure reports whether fl is a run-time closure: first parameter of type *frame.
func isFrameClosure(info *types.Info, fl *ast.FuncLit) bool {
	if fl.Type.Params == nil || len(fl.Type.Params.List) == 0 {
		return false
	}
	t := info.TypeOf(fl.Type.Params.List[0].Type)
	p, ok := t.(*types.Pointer)
	if !ok {
		return false
	}
	n, ok := p.Elem().(*types.Named)
	return ok && n.Obj().Name() == "frame"
}

// rootIdent strips selectors, indexing, slicing, dereference and parentheses.
func rootIdent(e ast.Expr) *ast.Ident {
	for {
		switch x := e.(type) {
		case *ast.Ident:
			return x
		case *ast.ParenExpr:
			e = x.X
		case *ast.SelectorExpr:
			e = x.X
		case *ast.IndexExpr:
			e = x.X
		case *ast.SliceExpr:
			e = x.X
		case *ast.StarExpr:
			e = x.X
		case *ast.TypeAssertExpr:
			e = x.X
		default:
			return nil
		}
	}
}

func isRefType(t types.Type) bool {
	switch t.Underlying().(type) {
	case *types.Slice, *types.Map, *types.Pointer:
		return true
	}
	return false
}

type capWrite struct {
	Pos   token.Pos
	Var   *types.Var
	What  string
	Alias string
}

// capturedWrites lists the writes inside the run-time closure fl to variables declared
// outside it (and not at package level).
func capturedWrites(info *types.Info, pkgScope *types.Scope, fl *ast.FuncLit) []capWrite {
	var out []capWrite
	captured := func(id *ast.Ident) *types.Var {
		v, ok := info.ObjectOf(id).(*types.Var)
		if !ok || v.IsField() {
			return nil
		}
		if v.Parent() == pkgScope || v.Parent() == types.Universe {
			return nil
		}
		if v.Pos() >= fl.Pos() && v.Pos() < fl.End() {
			return nil // declared inside the closure
		}
		return v
	}
	// One-step aliases: local := <expr rooted at captured var> of reference type.
	alias := map[*types.Var]*types.Var{}
	noteAlias := func(lhs ast.Expr, rhs ast.Expr) {
		id, ok := lhs.(*ast.Ident)
		if !ok || id.Name == "_" {
			return
		}
		lv, ok := info.ObjectOf(id).(*types.Var)
		if !ok || !(lv.Pos() >= fl.Pos() && lv.Pos() < fl.End()) {
			return
		}
		switch unparen(rhs).(type) {
		case *ast.CallExpr, *ast.CompositeLit, *ast.FuncLit, *ast.BasicLit:
			return
		}
		if u, ok := unparen(rhs).(*ast.UnaryExpr); ok && u.Op == token.AND {
			rhs = u.X
		} else if !isRefType(info.TypeOf(rhs)) {
			return
		}
		rid := rootIdent(rhs)
		if rid == nil {
			return
		}
		if cv := captured(rid); cv != nil {
			alias[lv] = cv
		} else if rv, ok := info.ObjectOf(rid).(*types.Var); ok && alias[rv] != nil {
			alias[lv] = alias[rv]
		}
	}
	ast.Inspect(fl.Body, func(n ast.Node) bool {
		switch x := n.(type) {
		case *ast.AssignStmt:
			if len(x.Lhs) == len(x.Rhs) {
				for i := range x.Lhs {
					noteAlias(x.Lhs[i], x.Rhs[i])
				}
			}
		case *ast.ValueSpec:
			if len(x.Names) == len(x.Values) {
				for i := range x.Names {
					noteAlias(x.Names[i], x.Values[i])
				}
			}
		}
		return true
	})
	record := func(e ast.Expr, what string) {
		id := rootIdent(e)
		if id == nil || id.Name == "_" {
			return
		}
		if cv := captured(id); cv != nil {
			out = append(out, capWrite{Pos: e.Pos(), Var: cv, What: what + " " + types.ExprString(e)})
			return
		}
		// Through an alias: only element/field/deref stores write shared memory.
		if lv, ok := info.ObjectOf(id).(*types.Var); ok && alias[lv] != nil {
			if _, plain := unparen(e).(*ast.Ident); !plain {
				out = append(out, capWrite{Pos: e.Pos(), Var: alias[lv], What: what + " " + types.ExprString(e), Alias: lv.Name()})
			}
		}
	}
	ast.Inspect(fl.Body, func(n ast.Node) bool {
		switch x := n.(type) {
		case *ast.AssignStmt:
			if x.Tok == token.DEFINE {
				// a := ... defines new variables; redeclared ones are writes.
				for _, l := range x.Lhs {
					if id, ok := l.(*ast.Ident); ok && info.Defs[id] == nil {
						record(l, "assignment to")
					}
				}
				return true
			}
			for _, l := range x.Lhs {
				record(l, "assignment to")
			}
		case *ast.IncDecStmt:
			record(x.X, x.Tok.String()+" of")
		case *ast.RangeStmt:
			if x.Tok == token.ASSIGN {
				if x.Key != nil {
					record(x.Key, "range assignment to")
				}
				if x.Value != nil {
					record(x.Value, "range assignment to")
				}
			}
		case *ast.CallExpr:
			// v.Set(...), v.Field(i).SetInt(...), v.SetMapIndex(...) with v a reflect.Value captured
			// from the generator: the value is shared by every execution of the statement
			if se, ok := unparen(x.Fun).(*ast.SelectorExpr); ok && strings.HasPrefix(se.Sel.Name, "Set") {
				if f, ok := info.Uses[se.Sel].(*types.Func); ok && f.Pkg() != nil && f.Pkg().Path() == "reflect" {
					recv := unparen(se.X)
					for {
						c, ok := recv.(*ast.CallExpr)
						if !ok {
							break
						}
						cs, ok := unparen(c.Fun).(*ast.SelectorExpr)
						if !ok {
							break
						}
						if m, ok := info.Uses[cs.Sel].(*types.Func); !ok || m.Pkg() == nil || m.Pkg().Path() != "reflect" {
							break
						}
						recv = unparen(cs.X)
					}
					// t[i].Set(...): an element of a captured vector of values
					if ix, ok := recv.(*ast.IndexExpr); ok {
						if id, ok := unparen(ix.X).(*ast.Ident); ok && types.TypeString(info.TypeOf(id), nil) == "[]reflect.Value" {
							if cv := captured(id); cv != nil {
								out = append(out, capWrite{Pos: x.Pos(), Var: cv, What: "reflect " + se.Sel.Name + " on an element of the captured vector " + types.ExprString(ix.X)})
							}
						}
					}
					if id, ok := recv.(*ast.Ident); ok && types.TypeString(info.TypeOf(id), nil) == "reflect.Value" {
						if cv := captured(id); cv != nil {
							out = append(out, capWrite{Pos: x.Pos(), Var: cv, What: "reflect " + se.Sel.Name + " on the captured value " + types.ExprString(se.X)})
						}
					}
				}
			}
			// cache.Store(v), cnt.Add(1), m.LoadOrStore(k, v): a mutating method of a sync/atomic or
			// sync.Map value captured from the generator - synchronised, but still state shared by
			// every execution of the statement (a per-call-site memo)
			if se, ok := unparen(x.Fun).(*ast.SelectorExpr); ok {
				if f, ok := info.Uses[se.Sel].(*types.Func); ok && f.Pkg() != nil && (f.Pkg().Path() == "sync/atomic" || f.Pkg().Path() == "sync") {
					switch f.Name() {
					case "Store", "Swap", "CompareAndSwap", "Add", "And", "Or", "LoadOrStore", "LoadAndDelete", "Delete", "CompareAndDelete":
						if id, ok := unparen(se.X).(*ast.Ident); ok {
							if cv := captured(id); cv != nil {
								out = append(out, capWrite{Pos: x.Pos(), Var: cv, What: f.Pkg().Name() + " " + f.Name() + " on the captured variable " + id.Name})
							}
						}
					}
				}
			}
			if id, ok := unparen(x.Fun).(*ast.Ident); ok {
				if b, ok := info.Uses[id].(*types.Builtin); ok && len(x.Args) > 0 {
					switch b.Name() {
					case "append":
						// append(captured[:n], v): writes into the spare capacity of the shared backing
						// array and returns a slice aliasing it (a three-index slice with cap == len is safe)
						first := unparen(x.Args[0])
						if se, ok := first.(*ast.SliceExpr); ok && se.Slice3 && se.Max != nil && se.High != nil && types.ExprString(se.Max) == types.ExprString(se.High) {
							break
						}
						if t := info.TypeOf(first); t != nil {
							if _, isSlice := t.Underlying().(*types.Slice); isSlice && len(x.Args) > 1 {
								record(first, "append (in place, into the shared backing array) to")
							}
						}
					case "copy":
						record(x.Args[0], "copy into")
					case "delete":
						record(x.Args[0], "delete from")
					case "clear":
						record(x.Args[0], "clear of")
					}
				}
			}
		case *ast.UnaryExpr:
			// &captured handed out: not a write by itself.
		}
		return true
	})
	return out
}

const c08Control = `package ctl
type frame struct{ data []int }
type bltn func(f *frame) bltn
type node struct{ exec bltn; n int }
func gen(n *node) {
	cases := make([]int, 3)
	cnt := 0
	n.exec = func(f *frame) bltn {
		cases[0] = 1
		cnt++
		c := cases
		c[1] = 2
		n.n = 4
		copy(cases, f.data)
		grown := append(cases[:2], 7)
		_ = grown
		own := append([]int{}, cases...)
		_ = own
		local := 0
		local++
		f.data[0] = local
		return nil
	}
}
`

func c08PositiveControl(r *Report) {
	fset := token.NewFileSet()
	f, err := parser.ParseFile(fset, "control.go", c08Control, 0)
	if err != nil {
		r.Errorf("R08.1 positive control does not parse: %v", err)
		return
	}
	info := &types.Info{Types: map[ast.Expr]types.TypeAndValue{}, Defs: map[*ast.Ident]types.Object{}, Uses: map[*ast.Ident]types.Object{}, Selections: map[*ast.SelectorExpr]*types.Selection{}}
	pkg, err := (&types.Config{Importer: importer.Default()}).Check("ctl", fset, []*ast.File{f}, info)
	if err != nil {
		r.Errorf("R08.1 positive control does not type-check: %v", err)
		return
	}
	n := 0
	ast.Inspect(f, func(x ast.Node) bool {
		if fl, ok := x.(*ast.FuncLit); ok && isFrameClosure(info, fl) {
			n += len(capturedWrites(info, pkg.Scope(), fl))
			return false
		}
		return true
	})
	if n != 6 {
		r.Errorf("R08.1 positive control: matcher found %d captured writes in the control snippet, want 6 (the rule would pass vacuously)", n)
	} else {
		r.Note("R08.1 positive control: matcher fires on the 6 seeded writes of the control snippet and on none of its 4 legitimate stores")
	}
}

func runC08(c *Config, r *Report) {
	ic, err := loadInterp(c, true)
	if err != nil {
		r.Errorf("%v", err)
		return
	}
	c08R1(ic, r)
	c08R2(ic, r)
	c08R3(ic, r)
	c08R5(ic, r)
	c08R6(ic, r)
	c08R8(ic, r)
	c08R9(ic, r)
	copiersAlwaysCopy(ic, r, "R08.7")
	c08R10(ic, r)
	c08R11(ic, r)
	c04R20(ic, r, "R08.13")
	closureFrameCloned(ic, r, "R08.14")
	c08R16(ic, r)
	{
		// R08.15 = R01.39 and R01.40: the receive clauses of select assign the enclosing variable and every form has a direction
		sub := newReport("C01")
		c01R39and40(ic, sub)
		for _, o := range sub.Obls {
			o.Rule = "R08.15"
			r.add(o)
		}
		r.Errors = append(r.Errors, sub.Errors...)
	}
	// R08.12: = R05.11: the function value a go statement starts carries a receiver evaluated
	// when the method value was evaluated (go w.run(out) in a loop over []*worker)
	{
		sub := newReport("C05")
		c05R11(ic, sub)
		for _, o := range sub.Obls {
			o.Rule = "R08.12"
			r.add(o)
		}
		r.Errors = append(r.Errors, sub.Errors...)
	}
	checkBinPkgOwnership(ic, r, "R08.4")
	if c.Tier == "thorough" {
		ic386, err := loadInterp(c, false, "GOARCH=386")
		if err != nil {
			r.Errorf("GOARCH=386: %v", err)
			return
		}
		c08R1(ic386, r)
		c08R3(ic386, r)
		r.Note("thorough: R08.1 and R08.3 repeated for GOARCH=386 (build-tagged files)")
	}
}

// enclosingFuncName returns the name of the declaration containing pos.
func enclosingFuncName(ic *IC, pos token.Pos) string {
	for _, f := range ic.Pk.Syntax {
		if pos < f.Pos() || pos >= f.End() {
			continue
		}
		for _, d := range f.Decls {
			if fd, ok := d.(*ast.FuncDecl); ok && pos >= fd.Pos() && pos < fd.End() {
				return funcName(fd)
			}
		}
	}
	return "?"
}

func c08R1(ic *IC, r *Report) {
	c08PositiveControl(r)
	perFunc := map[string]int{}
	total := 0
	for _, file := range ic.Pk.Syntax {
		for _, d := range file.Decls {
			fd, ok := d.(*ast.FuncDecl)
			if !ok || fd.Body == nil {
				continue
			}
			name := funcName(fd)
			ast.Inspect(fd.Body, func(n ast.Node) bool {
				fl, ok := n.(*ast.FuncLit)
				if !ok || !isFrameClosure(ic.Info, fl) {
					return true
				}
				total++
				perFunc[name]++
				ws := capturedWrites(ic.Info, ic.Pk.Types.Scope(), fl)
				byVar := map[string][]capWrite{}
				for _, w := range ws {
					byVar[w.Var.Name()] = append(byVar[w.Var.Name()], w)
				}
				for _, v := range sortedKeys(byVar) {
					w := byVar[v][0]
					det := fmt.Sprintf("run-time closure generated by %s writes captured generator variable %q (%s", name, v, w.What)
					if w.Alias != "" {
						det += " through local alias " + w.Alias
					}
					det += fmt.Sprintf("; %d write(s)): the variable is shared by every goroutine executing this statement", len(byVar[v]))
					r.Fail("R08.1", name+"/captured:"+v, ic.pos(w.Pos), det)
				}
				return false // nested literals are covered by the outermost one
			})
		}
	}
	for _, name := range sortedKeys(perFunc) {
		failed := false
		for _, o := range r.Obls {
			if o.Rule == "R08.1" && strings.HasPrefix(o.Key, name+"/captured:") && !o.OK {
				failed = true
			}
		}
		if !failed {
			r.Pass("R08.1", name+"/closures", "", fmt.Sprintf("%d run-time closure(s), no write to captured generator state", perFunc[name]))
		}
	}
	r.Info["runtime_closures"] = total
	// Floors by role: the generators of channel operations and of calls must be among them.
	for _, role := range []string{"_select", "call", "callBin", "assign"} {
		if perFunc[role] == 0 {
			if ic.F[role] == nil {
				r.Note("R08.1: generator %s not present under that name (informational)", role)
			}
		}
	}
	if total < 50 {
		r.Errorf("R08.1: only %d run-time closures found (the generators of run.go/op.go are expected): anchor '*frame closure' not resolved", total)
	}
}

// ---- R08.2 -----------------------------------------------------------------------------

// allSSAFuncs returns every function of the package including anonymous ones.
func allSSAFuncs(sp *ssa.Package) []*ssa.Function {
	var out []*ssa.Function
	var add func(f *ssa.Function)
	add = func(f *ssa.Function) {
		out = append(out, f)
		for _, a := range f.AnonFuncs {
			add(a)
		}
	}
	var names []string
	for n := range sp.Members {
		names = append(names, n)
	}
	sort.Strings(names)
	for _, n := range names {
		switch m := sp.Members[n].(type) {
		case *ssa.Function:
			add(m)
		case *ssa.Type:
			for _, t := range []types.Type{m.Type(), types.NewPointer(m.Type())} {
				ms := sp.Prog.MethodSets.MethodSet(t)
				for i := 0; i < ms.Len(); i++ {
					if f := sp.Prog.MethodValue(ms.At(i)); f != nil && f.Pkg == sp && f.Synthetic == "" {
						dup := false
						for _, o := range out {
							if o == f {
								dup = true
							}
						}
						if !dup {
							add(f)
						}
					}
				}
			}
		}
	}
	return out
}

// ssaFuncName renders parent$n names relative to the package.
func ssaFuncName(f *ssa.Function) string {
	if f.Pkg == nil {
		return f.String() // synthetic wrappers and instantiations belong to no package
	}
	s := f.RelString(f.Pkg.Pkg)
	// canonical name of a renamed anchor function (see roles.go)
	root := f
	for root.Parent() != nil {
		root = root.Parent()
	}
	if obj, ok := root.Object().(*types.Func); ok && obj.Pkg() != nil {
		actual := shortKey(objKey(obj))
		if canon := canonKey(obj.Pkg(), actual); canon != actual {
			// actual: interp.Recv.name -> SSA spelling (*Recv).name or name
			spell := func(key string) string {
				parts := strings.Split(strings.TrimPrefix(key, "interp."), ".")
				if len(parts) == 2 {
					if sig, ok := obj.Type().(*types.Signature); ok && sig.Recv() != nil {
						if _, isPtr := sig.Recv().Type().(*types.Pointer); isPtr {
							return "(*" + parts[0] + ")." + parts[1]
						}
					}
					return "(" + parts[0] + ")." + parts[1]
				}
				return parts[0]
			}
			rootName := root.RelString(root.Pkg.Pkg)
			if strings.HasPrefix(s, rootName) {
				s = spell(canon) + s[len(rootName):]
			}
		}
	}
	return s
}

// origins resolves the values that may flow into v through phis, loads of local cells and
// conversions, within one function. Each origin is described by a short string.
func origins(v ssa.Value, seen map[ssa.Value]bool) []ssa.Value {
	if seen[v] {
		return nil
	}
	seen[v] = true
	switch x := v.(type) {
	case *ssa.Phi:
		var out []ssa.Value
		for _, e := range x.Edges {
			out = append(out, origins(e, seen)...)
		}
		return out
	case *ssa.ChangeType:
		return origins(x.X, seen)
	case *ssa.MakeInterface:
		return origins(x.X, seen)
	case *ssa.UnOp:
		if x.Op == token.MUL {
			if al, ok := x.X.(*ssa.Alloc); ok {
				// loads of a local cell: all stores to it in this function and its closures.
				var out []ssa.Value
				stores := storesTo(al)
				if len(stores) == 0 {
					return []ssa.Value{v}
				}
				for _, s := range stores {
					out = append(out, origins(s.Val, seen)...)
				}
				return out
			}
		}
	}
	return []ssa.Value{v}
}

// storesTo returns the stores to the cell al in its function and (through free
// variables) in the nested closures that capture it.
func storesTo(al *ssa.Alloc) []*ssa.Store {
	var out []*ssa.Store
	var visit func(cell ssa.Value)
	visit = func(cell ssa.Value) {
		refs := cell.Referrers()
		if refs == nil {
			return
		}
		for _, ins := range *refs {
			switch x := ins.(type) {
			case *ssa.Store:
				if x.Addr == cell {
					out = append(out, x)
				}
			case *ssa.MakeClosure:
				fn := x.Fn.(*ssa.Function)
				for i, b := range x.Bindings {
					if b == cell && i < len(fn.FreeVars) {
						visit(fn.FreeVars[i])
					}
				}
			}
		}
	}
	visit(al)
	return out
}

func describeValue(v ssa.Value) string {
	switch x := v.(type) {
	case *ssa.Call:
		if f := x.Call.StaticCallee(); f != nil {
			return "call " + ssaFuncName(f)
		}
		return "dynamic call"
	case *ssa.Parameter:
		return "parameter " + x.Name()
	case *ssa.FreeVar:
		return "captured variable " + x.Name()
	case *ssa.UnOp:
		if x.Op == token.MUL {
			if fa, ok := x.X.(*ssa.FieldAddr); ok {
				st := fa.X.Type().Underlying().(*types.Pointer).Elem().Underlying().(*types.Struct)
				return "load of field " + st.Field(fa.Field).Name() + " of " + describeValue(fa.X)
			}
			return "load of " + describeValue(x.X)
		}
	case *ssa.Alloc:
		return "local cell " + x.Comment
	case *ssa.Const:
		return "constant " + x.String()
	}
	return fmt.Sprintf("%T %s", v, v.Name())
}

func c08R2(ic *IC, r *Report) {
	fns := allSSAFuncs(ic.SP)
	runCfg := ic.ssaFunc("runCfg")
	if runCfg == nil {
		r.Errorf("anchor not resolved: function runCfg (the execution loop) not found")
		return
	}
	sites, gos := 0, 0
	for _, fn := range fns {
		for _, b := range fn.Blocks {
			for _, ins := range b.Instrs {
				ci, ok := ins.(ssa.CallInstruction)
				if !ok || ci.Common().StaticCallee() != runCfg {
					continue
				}
				sites++
				kind := "call"
				if _, ok := ins.(*ssa.Go); ok {
					kind = "go"
					gos++
				}
				// the body of a function literal started by a go statement (go func() { defer ...; runCfg(...) }())
				if kind == "call" && fn.Parent() != nil {
					for _, pb := range fn.Parent().Blocks {
						for _, pi := range pb.Instrs {
							if g, ok := pi.(*ssa.Go); ok {
								if mc, ok := g.Call.Value.(*ssa.MakeClosure); ok && mc.Fn == ssa.Value(fn) {
									kind = "go"
									gos++
								}
							}
						}
					}
				}
				if _, ok := ins.(*ssa.Defer); ok {
					kind = "defer"
				}
				frameArg := ci.Common().Args[1]
				var bad, good []string
				var os []ssa.Value
				for _, o := range origins(frameArg, map[ssa.Value]bool{}) {
					// a captured cell (the frame variable of the enclosing closure, captured by the
					// function literal a go statement starts): what the enclosing function stored in it
					if u, ok := o.(*ssa.UnOp); ok {
						if fv, ok := u.X.(*ssa.FreeVar); ok {
							if vals := freeVarOrigins(fv); len(vals) > 0 {
								os = append(os, vals...)
								continue
							}
						}
					}
					os = append(os, o)
				}
				for _, o := range os {
					d := describeValue(o)
					okOrigin := false
					if call, ok := o.(*ssa.Call); ok {
						if f := call.Call.StaticCallee(); f != nil && f.Pkg == ic.SP && (ssaFuncName(f) == "newFrame" || ssaFuncName(f) == "(*frame).clone") {
							okOrigin = true
						}
					}
					// The root frame in (*Interpreter).run: load of Interpreter.frame.
					if strings.HasPrefix(d, "load of field frame of parameter") && ssaFuncName(fn) == "(*Interpreter).run" {
						okOrigin = true
					}
					if okOrigin {
						good = append(good, d)
					} else {
						bad = append(bad, d)
					}
				}
				sort.Strings(good)
				sort.Strings(bad)
				key := ssaFuncName(fn) + "/" + kind + " runCfg"
				pos := ic.pos(ins.Pos())
				if len(bad) > 0 || len(good) == 0 {
					r.Fail("R08.2", key, pos, "the frame handed to runCfg may be "+strings.Join(bad, " | ")+": an activation would share its frame (arguments, locals, deferred stack) with another activation")
				} else {
					r.Pass("R08.2", key, pos, "frame origin: "+strings.Join(good, " | "))
				}
			}
		}
	}
	if sites < 3 || gos < 1 {
		r.Errorf("R08.2: found %d activations of runCfg (%d by go); expected the interpreted-call, closure, wrapper and goroutine forms", sites, gos)
	}
	c08GoArgs(ic, r)
	freshFrameSlots(ic, r, "R08.2")
	cloneCopiesData(ic, r, "R08.2")
	// newFrame and clone must allocate: every return value is a fresh &frame{} composite.
	for _, name := range []string{"newFrame"} {
		f := ic.ssaFunc(name)
		if f == nil {
			r.Errorf("anchor not resolved: %s", name)
			continue
		}
		fresh := true
		for _, b := range f.Blocks {
			for _, ins := range b.Instrs {
				if ret, ok := ins.(*ssa.Return); ok {
					for _, res := range ret.Results {
						for _, o := range origins(res, map[ssa.Value]bool{}) {
							if al, ok := o.(*ssa.Alloc); !ok || !al.Heap {
								fresh = false
							}
						}
					}
				}
			}
		}
		r.Check(fresh, "R08.2", name+"/allocates", ic.pos(f.Pos()), "returns a freshly allocated frame", name+" may return a frame that is not freshly allocated")
	}
	// the data vector of a new frame is a fresh slice as well
	if f := ic.ssaFunc("newFrame"); f != nil {
		freshData := false
		for _, b := range f.Blocks {
			for _, ins := range b.Instrs {
				if st, ok := ins.(*ssa.Store); ok {
					if fa, ok := st.Addr.(*ssa.FieldAddr); ok {
						stt := fa.X.Type().Underlying().(*types.Pointer).Elem().Underlying().(*types.Struct)
						if stt.Field(fa.Field).Name() == "data" {
							if _, ok := st.Val.(*ssa.MakeSlice); ok {
								freshData = true
							} else {
								freshData = false
								r.Fail("R08.2", "newFrame/data", ic.pos(st.Pos()), "frame.data of a new frame is not a fresh make([]reflect.Value, n)")
							}
						}
					}
				}
			}
		}
		if freshData {
			r.Pass("R08.2", "newFrame/data", ic.pos(f.Pos()), "frame.data is a fresh slice")
		}
	}
}

// ---- R08.3 -----------------------------------------------------------------------------

type lockSite struct {
	call *ast.CallExpr
	recv string // receiver expression text, e.g. f.mutex
	read bool
}

func mutexCall(info *types.Info, call *ast.CallExpr) (recv string, method string, ok bool) {
	se, isSel := unparen(call.Fun).(*ast.SelectorExpr)
	if !isSel {
		return "", "", false
	}
	f, isF := info.Uses[se.Sel].(*types.Func)
	if !isF || f.Pkg() == nil || f.Pkg().Path() != "sync" {
		return "", "", false
	}
	switch f.Name() {
	case "Lock", "Unlock", "RLock", "RUnlock":
	default:
		return "", "", false
	}
	k := objKey(f)
	if !strings.HasPrefix(k, "sync.Mutex.") && !strings.HasPrefix(k, "sync.RWMutex.") {
		return "", "", false
	}
	return types.ExprString(se.X), f.Name(), true
}

// funcBodies enumerates every function body of the package: declarations and literals.
func funcBodies(ic *IC, visit func(owner string, body *ast.BlockStmt, lit *ast.FuncLit)) {
	for _, file := range ic.Pk.Syntax {
		for _, d := range file.Decls {
			fd, ok := d.(*ast.FuncDecl)
			if !ok || fd.Body == nil {
				continue
			}
			name := funcName(fd)
			visit(name, fd.Body, nil)
			ast.Inspect(fd.Body, func(n ast.Node) bool {
				if fl, ok := n.(*ast.FuncLit); ok {
					visit(name, fl.Body, fl)
				}
				return true
			})
		}
	}
}

// ownNodes walks body without descending into nested function literals.
func ownNodes(body ast.Node, f func(ast.Node) bool) {
	ast.Inspect(body, func(n ast.Node) bool {
		if fl, ok := n.(*ast.FuncLit); ok && fl.Body != body {
			return false
		}
		if n == nil {
			return true
		}
		return f(n)
	})
}

func c08R3(ic *IC, r *Report) { lockPairing(ic, r, "R08.3") }

// lockPairing is the analysis of R08.3, reported under the given rule.
func lockPairing(ic *IC, r *Report, rule string) {
	acquire := 0
	counter := map[string]int{}
	funcBodies(ic, func(owner string, body *ast.BlockStmt, lit *ast.FuncLit) {
		var locks []lockSite
		deferred := map[string]bool{} // recv+method deferred in this body
		ownNodes(body, func(n ast.Node) bool {
			switch x := n.(type) {
			case *ast.DeferStmt:
				if recv, m, ok := mutexCall(ic.Info, x.Call); ok {
					deferred[recv+"."+m] = true
				}
				// defer func() { ...Unlock() }()
				if fl, ok := x.Call.Fun.(*ast.FuncLit); ok {
					ast.Inspect(fl.Body, func(m ast.Node) bool {
						if c, ok := m.(*ast.CallExpr); ok {
							if recv, mm, ok := mutexCall(ic.Info, c); ok {
								deferred[recv+"."+mm] = true
							}
						}
						return true
					})
				}
				return false
			case *ast.CallExpr:
				if recv, m, ok := mutexCall(ic.Info, x); ok && (m == "Lock" || m == "RLock") {
					locks = append(locks, lockSite{call: x, recv: recv, read: m == "RLock"})
				}
			}
			return true
		})
		if len(locks) == 0 {
			return
		}
		fg := buildFlow(body, ic.Info)
		for _, l := range locks {
			acquire++
			want := "Unlock"
			if l.read {
				want = "RUnlock"
			}
			base := owner + "/" + l.recv + "." + map[bool]string{true: "RLock", false: "Lock"}[l.read]
			counter[base]++
			key := fmt.Sprintf("%s#%d", base, counter[base])
			pos := ic.pos(l.call.Pos())
			if deferred[l.recv+"."+want] {
				r.Pass(rule, key, pos, "released by a deferred "+want)
				continue
			}
			via := func(n ast.Node) bool {
				found := false
				ownNodes(n, func(m ast.Node) bool {
					if c, ok := m.(*ast.CallExpr); ok {
						if recv, mm, ok := mutexCall(ic.Info, c); ok && recv == l.recv && mm == want {
							found = true
						}
					}
					return !found
				})
				return found
			}
			// no re-entrant call into interpreted code while a frame's mutex is held: interpreted
			// code locks frames itself (closure return path, call of a function value), so a
			// deferred/called closure defined in the same function would self-deadlock.
			if strings.HasSuffix(l.recv, ".mutex") && isNamed(ic.Info.TypeOf(mutexOwner(l.call)), "frame") {
				for _, n := range fg.regionFrom(l.call, via) {
					ownNodes(n, func(m ast.Node) bool {
						c, ok := m.(*ast.CallExpr)
						if !ok {
							return true
						}
						re := ""
						if isCallTo(ic.Info, c, "reflect.Value.Call", "reflect.Value.CallSlice") {
							re = "reflect.Value.Call"
						}
						if isCallTo(ic.Info, c, "interp.runCfg") {
							re = "runCfg"
						}
						if id, ok := unparen(c.Fun).(*ast.Ident); ok {
							if v, ok := ic.Info.Uses[id].(*types.Var); ok && isNamed(v.Type(), "bltn") {
								re = "a bltn"
							}
						}
						if re != "" {
							r.Fail(rule, key+"/reentrant", ic.pos(c.Pos()), "interpreted code is entered ("+re+") while "+l.recv+" is held: the callee locks frames itself (a closure defined in this function locks this very frame when it returns), so e.g. 'cleanup := func(){...}; defer cleanup()' deadlocks")
						}
						return true
					})
				}
			}
			leak, _ := fg.exitsWithout(l.call, via)
			r.Check(!leak, rule, key, pos, "released by "+l.recv+"."+want+" on every path to an exit",
				"some control-flow path from this "+l.recv+"."+map[bool]string{true: "RLock", false: "Lock"}[l.read]+" reaches a function exit without "+l.recv+"."+want+": the next acquisition deadlocks")
		}
	})
	if acquire < 5 {
		r.Errorf("R08.3: only %d lock acquisitions found in package interp", acquire)
	}
	r.Info["lock_acquisitions"] = acquire
	c08Guarded(ic, r, rule)
}

// guarded-by table: field -> mutex field of the same struct.
var guardedBy = []struct{ typ, field, mutex string }{
	{"frame", "done", "mutex"},
	{"Interpreter", "done", "mutex"},
	// the virtual environment: a map shared by every goroutine of the script through os.Getenv/Setenv
	// (D132: unsynchronised, a concurrent Setenv/Getenv killed the host - fatal error: concurrent map
	// read and map write cannot be recovered). The mutex is a field of the Interpreter, the map is
	// reached through the embedded options.
	{"opt", "env", "envMu"},
}

// Accesses that are exempt, with their reason. Keyed function/Type.field/kind.
var guardedExempt = map[string]string{
	"newFrame/frame.done/write":              "constructor: the frame is not yet shared",
	"newFrame/frame.done/read":               "constructor reads the ancestor's done, which is only written by run() before the execution it belongs to starts",
	"Interpreter.stop/Interpreter.done/read": "stop closes the channel installed by the *WithContext entry point that is calling it; that store happened-before (same goroutine)",
	"New/opt.env/write":                      "constructor: the interpreter is not yet shared",
	"New/opt.env/read":                       "constructor: the interpreter is not yet shared",
}

func c08Guarded(ic *IC, r *Report, rule string) {
	counter := map[string]int{}
	for _, g := range guardedBy {
		fld := ic.field(g.typ, g.field)
		if fld == nil {
			r.Errorf("anchor not resolved: field %s.%s", g.typ, g.field)
			continue
		}
		n := 0
		funcBodies(ic, func(owner string, body *ast.BlockStmt, lit *ast.FuncLit) {
			type access struct {
				sel   *ast.SelectorExpr
				write bool
			}
			var accs []access
			writes := map[*ast.SelectorExpr]bool{}
			ownNodes(body, func(nd ast.Node) bool {
				switch x := nd.(type) {
				case *ast.AssignStmt:
					for _, l := range x.Lhs {
						if se, ok := unparen(l).(*ast.SelectorExpr); ok && selField(ic.Info, se) == fld {
							writes[se] = true
						}
						// an element store into the map (or slice) held by the field
						if ix, ok := unparen(l).(*ast.IndexExpr); ok {
							if se, ok := unparen(ix.X).(*ast.SelectorExpr); ok && selField(ic.Info, se) == fld {
								writes[se] = true
							}
						}
					}
				case *ast.CallExpr:
					if id := identOf(x.Fun); id != nil && id.Name == "delete" && len(x.Args) == 2 {
						if se, ok := unparen(x.Args[0]).(*ast.SelectorExpr); ok && selField(ic.Info, se) == fld {
							writes[se] = true
						}
					}
				case *ast.KeyValueExpr:
					// composite literal &frame{done: ...}: constructor
				}
				return true
			})
			ownNodes(body, func(nd ast.Node) bool {
				if se, ok := nd.(*ast.SelectorExpr); ok && selField(ic.Info, se) == fld {
					accs = append(accs, access{se, writes[se]})
				}
				return true
			})
			if len(accs) == 0 {
				return
			}
			fg := buildFlow(body, ic.Info)
			for _, a := range accs {
				n++
				kind := "read"
				if a.write {
					kind = "write"
				}
				base := types.ExprString(a.sel.X)
				mu := base + "." + g.mutex
				k := owner + "/" + g.typ + "." + g.field + "/" + kind
				counter[k]++
				key := k
				if counter[k] > 1 {
					key = fmt.Sprintf("%s#%d", k, counter[k])
				}
				pos := ic.pos(a.sel.Pos())
				if why, ok := guardedExempt[k]; ok {
					r.Pass(rule, "guarded/"+key, pos, "exempt: "+why)
					continue
				}
				// Find a dominating acquisition of mu with no release in between.
				held := false
				deferredUnlock := false
				var acquisitions []*ast.CallExpr
				var releases []*ast.CallExpr
				ownNodes(body, func(nd ast.Node) bool {
					if ds, ok := nd.(*ast.DeferStmt); ok {
						if recv, m, ok := mutexCall(ic.Info, ds.Call); ok && recv == mu && (m == "Unlock" || m == "RUnlock") {
							deferredUnlock = true
						}
						return false
					}
					if c, ok := nd.(*ast.CallExpr); ok {
						if recv, m, ok := mutexCall(ic.Info, c); ok && recv == mu {
							switch m {
							case "Lock":
								acquisitions = append(acquisitions, c)
							case "RLock":
								if !a.write {
									acquisitions = append(acquisitions, c)
								}
							default:
								releases = append(releases, c)
							}
						}
					}
					return true
				})
				_ = deferredUnlock
				for _, acq := range acquisitions {
					d, ok := fg.dominates(acq, a.sel)
					if !ok || !d {
						continue
					}
					between := false
					for _, rel := range releases {
						// a release between acquisition and access: acq reaches rel, rel reaches access,
						// and the release is itself dominated by the acquisition.
						d1, _ := fg.dominates(acq, rel)
						re, _ := fg.reaches(rel, a.sel)
						d2, _ := fg.dominates(rel, a.sel)
						if d1 && re && d2 {
							between = true
						}
					}
					if !between {
						held = true
					}
				}
				need := "Lock"
				if !a.write {
					need = "Lock or RLock"
				}
				r.Check(held, rule, "guarded/"+key, pos, kind+" of "+g.typ+"."+g.field+" under "+mu,
					kind+" of "+g.typ+"."+g.field+" in "+owner+" is not dominated by "+mu+"."+need+" (or the mutex is released before the access): unsynchronised access to state shared between goroutines")
			}
		})
		if n == 0 {
			r.Errorf("R08.3: no access of %s.%s found", g.typ, g.field)
		}
	}
}

// c08GoArgs: the argument vector handed to a goroutine by a run-time closure is made of
// copies (sibling agreement of the call forms: interpreted callee, binary callee).
func c08GoArgs(ic *IC, r *Report) {
	cp := copiers(ic)
	n := 0
	cnt := map[string]int{}
	for _, name := range sortedKeys(ic.F) {
		fi := ic.F[name]
		if fi.Decl.Body == nil {
			continue
		}
		ast.Inspect(fi.Decl.Body, func(nd ast.Node) bool {
			fl, ok := nd.(*ast.FuncLit)
			if !ok || !isFrameClosure(ic.Info, fl) {
				return true
			}
			ast.Inspect(fl.Body, func(m ast.Node) bool {
				gs, ok := m.(*ast.GoStmt)
				if !ok {
					return true
				}
				for _, a := range gs.Call.Args {
					id, ok := unparen(a).(*ast.Ident)
					if !ok || types.TypeString(ic.Info.TypeOf(a), nil) != "[]reflect.Value" {
						continue
					}
					n++
					cnt[name]++
					key := fmt.Sprintf("%s/go-args#%d", name, cnt[name])
					var bad []string
					stores := vectorStores(ic, fl.Body, ic.Info.ObjectOf(id))
					for _, st := range stores {
						if !isFreshValue(ic, cp, st.rhs) {
							bad = append(bad, types.ExprString(st.rhs)+" at "+ic.pos(st.rhs.Pos()))
						}
					}
					if len(stores) == 0 {
						r.Fail("R08.2", key, ic.pos(gs.Pos()), "undecided: no element store into the goroutine's argument vector found")
						continue
					}
					r.Check(len(bad) == 0, "R08.2", key, ic.pos(gs.Pos()), "goroutine arguments are copies made when the go statement executes",
						"the argument vector of this go statement stores "+strings.Join(bad, ", ")+" without copying: the new goroutine reads the caller's frame slots concurrently with the caller (data race, arguments not fixed at the go statement)")
				}
				return true
			})
			return false
		})
	}
	if n < 2 {
		r.Errorf("R08.2: %d go statements with an argument vector found in run-time closures; the interpreted->binary and binary call forms are expected", n)
	}
}

// mutexOwner returns the expression owning the mutex of a Lock call: f in f.mutex.Lock().
func mutexOwner(call *ast.CallExpr) ast.Expr {
	se, ok := unparen(call.Fun).(*ast.SelectorExpr)
	if !ok {
		return nil
	}
	inner, ok := unparen(se.X).(*ast.SelectorExpr)
	if !ok {
		return nil
	}
	return inner.X
}

// c08R5: the data structures built by the compiler (types, nodes, symbols, scopes) are shared
// by every goroutine that executes the program, and by host goroutines calling exported
// functions concurrently. Code reachable on the static call graph from a run-time closure (a
// function literal taking a *frame) therefore does not insert into, or delete from, a map held
// in a field of such a structure: a lazily filled per-type table (method cache, wrapper cache)
// is written by the first concurrent callers without synchronisation (fatal error: concurrent
// map writes). Maps created by the running function itself, and maps reached under a held
// mutex of the same structure, are not concerned.
func c08R5(ic *IC, r *Report) {
	if ic.SP == nil {
		r.Errorf("R08.5: SSA form not loaded")
		return
	}
	g := buildSGraph(ic.SP)
	// roots: function literals whose first parameter is *frame (run-time closures)
	var roots []*ssa.Function
	for _, fn := range g.Funcs {
		if fn.Parent() == nil || fn.Signature.Params().Len() == 0 {
			continue
		}
		if isNamedPtr(fn.Signature.Params().At(0).Type(), "frame") {
			roots = append(roots, fn)
		}
	}
	reach := map[*ssa.Function]*ssa.Function{}
	var q []*ssa.Function
	for _, rt := range roots {
		reach[rt] = nil
		q = append(q, rt)
	}
	for len(q) > 0 {
		f := q[0]
		q = q[1:]
		for _, e := range g.Out[f] {
			if e.To.Pkg != ic.SP {
				continue
			}
			if runtimeReachCuts[ssaFuncName(e.To)] != "" {
				continue
			}
			if _, ok := reach[e.To]; !ok {
				reach[e.To] = f
				q = append(q, e.To)
			}
		}
		for _, a := range f.AnonFuncs {
			if _, ok := reach[a]; !ok {
				reach[a] = f
				q = append(q, a)
			}
		}
	}
	shared := map[string]bool{"itype": true, "node": true, "symbol": true, "scope": true, "Interpreter": true}
	n := 0
	var bad []string
	seenKey := map[string]bool{}
	for fn := range reach {
		for _, b := range fn.Blocks {
			for _, ins := range b.Instrs {
				mu, ok := ins.(*ssa.MapUpdate)
				if !ok {
					continue
				}
				for _, o := range origins(mu.Map, map[ssa.Value]bool{}) {
					ld, ok := o.(*ssa.UnOp)
					if !ok {
						continue
					}
					fa, ok := ld.X.(*ssa.FieldAddr)
					if !ok {
						continue
					}
					pt, ok := fa.X.Type().Underlying().(*types.Pointer)
					if !ok {
						continue
					}
					named, ok := pt.Elem().(*types.Named)
					if !ok || !shared[named.Obj().Name()] {
						continue
					}
					st := named.Underlying().(*types.Struct)
					n++
					root := fn
					for root.Parent() != nil {
						root = root.Parent()
					}
					key := ssaFuncName(root) + "/" + named.Obj().Name() + "." + st.Field(fa.Field).Name()
					if !seenKey[key] {
						seenKey[key] = true
						bad = append(bad, key+"@"+ic.pos(mu.Pos()))
						var chain []string
						for x := fn; x != nil; x = reach[x] {
							chain = append(chain, ssaFuncName(x))
						}
						r.Note("R08.5 path to %s: %s", key, strings.Join(chain, " <- "))
					}
				}
			}
		}
	}
	sort.Strings(bad)
	for _, b := range bad {
		parts := strings.SplitN(b, "@", 2)
		if why, ok := sharedMapWriteExceptions[parts[0]]; ok {
			r.Pass("R08.5", parts[0]+"/shared-map-written-at-run-time", parts[1], "frozen exception: "+why)
			continue
		}
		r.Fail("R08.5", parts[0]+"/shared-map-written-at-run-time", parts[1],
			"code reachable from the run-time closures updates the map "+strings.SplitN(parts[0], "/", 2)[1]+" of a structure shared by every goroutine executing the program ("+strings.SplitN(parts[0], "/", 2)[0]+"): the first concurrent executions write the map without synchronisation (fatal error: concurrent map writes, or a lookup missing a method)")
	}
	r.Info["functions_reachable_from_run_time_closures"] = len(reach)
	if len(bad) == 0 {
		r.Pass("R08.5", "runtime/no-shared-map-update", "", fmt.Sprintf("%d functions reachable from %d run-time closures: no update of a map field of itype, node, symbol or scope", len(reach), len(roots)))
	}
	if len(roots) < 300 {
		r.Errorf("R08.5: only %d run-time closures found", len(roots))
	}
}

// runtimeReachCuts: functions at which the run-time reachability stops, with the reason.
var runtimeReachCuts = map[string]string{
	"(*itype).finalize": "re-parses a type that was incomplete when first met; every type is complete once the program runs (the walk returns at once), so the compiler behind it is not run-time code",
}

// sharedMapWriteExceptions: map fields of shared structures legitimately updated from code the
// call graph reaches from run-time closures, keyed function/type.field, with the reason.
var sharedMapWriteExceptions = map[string]string{}

// c08R6: check-then-act on a channel. The number of buffered values read with
// reflect.Value.Len is stale as soon as it is read: a blocking Recv (or Send) taken because
// Len() was positive blocks when another consumer took the value in between, and then wakes on
// close with a zero value (one extra iteration of `for v := range ch`). No run-time closure
// performs reflect.Value.Recv/Send on a channel under a condition on that channel's Len or Cap.
func c08R6(ic *IC, r *Report) {
	info := ic.Info
	n, nBad := 0, 0
	for _, name := range sortedKeys(ic.F) {
		fi := ic.F[name]
		if fi.Decl.Body == nil {
			continue
		}
		for _, fl := range (&c02ctx{ic: ic}).closuresOf(fi) {
			for _, c := range callsIn(info, fl.Body, true, "reflect.Value.Recv", "reflect.Value.Send") {
				n++
				ch := types.ExprString(unparen(c.Fun).(*ast.SelectorExpr).X)
				for _, g := range pathGuards(fl.Body, c) {
					stale := false
					ast.Inspect(g.cond, func(m ast.Node) bool {
						if cc, ok := m.(*ast.CallExpr); ok && isCallTo(info, cc, "reflect.Value.Len", "reflect.Value.Cap") {
							if types.ExprString(unparen(cc.Fun).(*ast.SelectorExpr).X) == ch {
								stale = true
							}
						}
						return true
					})
					if stale {
						nBad++
						r.Fail("R08.6", fmt.Sprintf("%s/check-then-act-on-channel#%d", name, nBad), ic.pos(c.Pos()),
							"generator "+name+" performs the blocking "+types.ExprString(c)+" because "+types.ExprString(g.cond)+" held a moment earlier: with several goroutines on the same channel the value may be gone, the operation blocks, and on close it returns a zero value that the loop body then processes (for v := range ch runs once too often)")
					}
				}
			}
		}
	}
	if nBad == 0 {
		r.Pass("R08.6", "runtime/no-check-then-act-on-channels", "", fmt.Sprintf("%d blocking channel operations in run-time closures, none conditional on the channel's Len or Cap", n))
	}
}

func init() {
	ruleText["R08.7"] = "= R07.7 shared: the argument copier used for go (and defer) statements copies every settable value, whatever its kind: the goroutine's arguments are fixed when the statement executes"
	ruleText["R08.8"] = "the generator of select performs no channel operation of its own (TryRecv, TrySend, Recv, Send): the communication is chosen by reflect.Select alone, uniformly at random among the ready ones, so no clause is starved by an earlier one"
}

// c08R8: round-5 seed, a "fast path" trying the clauses in source order before reflect.Select.
func c08R8(ic *IC, r *Report) {
	info := ic.Info
	n := 0
	for _, name := range sortedKeys(ic.F) {
		fi := ic.F[name]
		if fi.Decl.Body == nil || len(callsIn(info, fi.Decl.Body, true, "reflect.Select")) == 0 {
			continue
		}
		if fi.Obj == nil || fi.Decl.Recv != nil {
			continue
		}
		sig := fi.Obj.Type().(*types.Signature)
		if sig.Params().Len() != 1 || !isNamedPtr(sig.Params().At(0).Type(), "node") {
			continue
		}
		// the generator of the select statement: its Select takes a vector with one entry per clause
		// (the single-operation generators build a fixed two-case vector)
		isStmt := false
		ast.Inspect(fi.Decl.Body, func(m ast.Node) bool {
			if c, ok := m.(*ast.CallExpr); ok {
				if id := identOf(c.Fun); id != nil && id.Name == "make" && len(c.Args) >= 2 && strings.Contains(types.ExprString(c.Args[0]), "SelectCase") {
					isStmt = true
				}
			}
			return true
		})
		if !isStmt {
			continue
		}
		n++
		var own []string
		for _, c := range callsIn(info, fi.Decl.Body, true, "reflect.Value.TryRecv", "reflect.Value.TrySend", "reflect.Value.Recv", "reflect.Value.Send") {
			own = append(own, shortKey(objKey(calleeOf(info, c)))+" at "+ic.pos(c.Pos()))
		}
		r.Check(len(own) == 0, "R08.8", name+"/communication-chosen-by-reflect.Select-only", ic.pos(fi.Decl.Pos()), "no channel operation outside reflect.Select",
			"the generator of the select statement performs channel operations itself ("+strings.Join(own, ", ")+"): a clause tried first in source order wins whenever it is ready, so a later clause can be starved for ever (compiled Go chooses uniformly among the ready communications) and the operation is not raced against the cancellation channel")
	}
	if n == 0 {
		r.Errorf("R08.8: the generator of the select statement (reflect.Select over a made vector of cases) was not found")
	}
}

func init() {
	ruleText["R08.9"] = "the function value called by a goroutine started from a run-time closure is fixed when the go statement executes: a reflect.Value obtained as the plain result of a value generator (it still designates the variable) is copied (the argument copier) in the block of the go statement before the goroutine starts, like the arguments"
}

// c08R9: found D89 (fn := f1; go fn(); fn = f2 ran f2: bf.Call read the variable in the new goroutine).
func c08R9(ic *IC, r *Report) {
	info := ic.Info
	cp := copiers(ic)
	isValueFn := func(t types.Type) bool {
		if t == nil {
			return false
		}
		sg, ok := t.Underlying().(*types.Signature)
		return ok && sg.Params().Len() == 1 && sg.Results().Len() == 1 && isNamedPtr(sg.Params().At(0).Type(), "frame") && types.TypeString(sg.Results().At(0).Type(), nil) == "reflect.Value"
	}
	n := 0
	for _, name := range sortedKeys(ic.F) {
		fi := ic.F[name]
		if fi.Decl.Body == nil {
			continue
		}
		k := 0
		for _, fl := range (&c02ctx{ic: ic}).closuresOf(fi) {
			// reflect.Value locals defined from the plain result of a value generator
			plain := map[types.Object]token.Pos{}
			ast.Inspect(fl.Body, func(m ast.Node) bool {
				as, ok := m.(*ast.AssignStmt)
				if !ok || len(as.Lhs) != len(as.Rhs) {
					return true
				}
				for i, rhs := range as.Rhs {
					c, ok := unparen(rhs).(*ast.CallExpr)
					if !ok {
						continue
					}
					if fid := identOf(c.Fun); fid != nil {
						if _, isFunc := info.ObjectOf(fid).(*types.Func); !isFunc && isValueFn(info.TypeOf(fid)) {
							if lid := identOf(as.Lhs[i]); lid != nil {
								plain[info.ObjectOf(lid)] = as.Pos()
							}
						}
					}
				}
				return true
			})
			// local function literals: callf := func(...) { ... bf.Call ... }
			litUses := map[types.Object]map[types.Object]bool{}
			ast.Inspect(fl.Body, func(m ast.Node) bool {
				as, ok := m.(*ast.AssignStmt)
				if !ok || len(as.Lhs) != 1 || len(as.Rhs) != 1 {
					return true
				}
				lit, ok := unparen(as.Rhs[0]).(*ast.FuncLit)
				if !ok {
					return true
				}
				lid := identOf(as.Lhs[0])
				if lid == nil {
					return true
				}
				obj := info.ObjectOf(lid)
				ast.Inspect(lit.Body, func(q ast.Node) bool {
					if id, ok := q.(*ast.Ident); ok {
						if _, isPlain := plain[info.ObjectOf(id)]; isPlain {
							if litUses[obj] == nil {
								litUses[obj] = map[types.Object]bool{}
							}
							litUses[obj][info.ObjectOf(id)] = true
						}
					}
					return true
				})
				return true
			})
			ast.Inspect(fl.Body, func(m ast.Node) bool {
				gs, ok := m.(*ast.GoStmt)
				if !ok {
					return true
				}
				used := map[types.Object]bool{}
				ast.Inspect(gs.Call, func(q ast.Node) bool {
					if id, ok := q.(*ast.Ident); ok {
						o := info.ObjectOf(id)
						if _, isPlain := plain[o]; isPlain {
							used[o] = true
						}
						for v := range litUses[o] {
							used[v] = true
						}
					}
					return true
				})
				// a plain generator result handed directly to the function the goroutine runs
				for _, a := range gs.Call.Args {
					c, ok := unparen(a).(*ast.CallExpr)
					if !ok {
						continue
					}
					if fid := identOf(c.Fun); fid != nil {
						if _, isFunc := info.ObjectOf(fid).(*types.Func); !isFunc && isValueFn(info.TypeOf(fid)) {
							n++
							k++
							r.Fail("R08.9", fmt.Sprintf("%s/go#%d/function-value-copied:%s", name, k, types.ExprString(a)), ic.pos(gs.Pos()),
								name+" starts a goroutine on "+types.ExprString(gs.Call)+": the argument "+types.ExprString(a)+" is the plain result of a value generator (it still designates the variable), which the new goroutine reads when it gets to run: go host.F(); host.F = other can run other")
						}
					}
				}
				if len(used) == 0 {
					return true
				}
				// the statement list holding the go statement
				path := enclosingPath(fl.Body, gs)
				var list []ast.Stmt
				for i := len(path) - 1; i >= 0; i-- {
					if b, ok := path[i].(*ast.BlockStmt); ok {
						list = b.List
						break
					}
				}
				for v := range used {
					n++
					k++
					copied := false
					for _, s := range list {
						if s.Pos() >= gs.Pos() {
							break
						}
						as, ok := s.(*ast.AssignStmt)
						if !ok || len(as.Lhs) != 1 || len(as.Rhs) != 1 {
							continue
						}
						if lid := identOf(as.Lhs[0]); lid == nil || info.ObjectOf(lid) != v {
							continue
						}
						if c, ok := unparen(as.Rhs[0]).(*ast.CallExpr); ok {
							if f, ok := calleeOf(info, c).(*types.Func); ok && cp[f] {
								copied = true
							}
						}
						// an inline copy: c := reflect.New(T).Elem(); c.Set(v); v = c
						if cid := identOf(as.Rhs[0]); cid != nil {
							cobj := info.ObjectOf(cid)
							for _, s2 := range list {
								if as2, ok := s2.(*ast.AssignStmt); ok && len(as2.Lhs) == 1 && len(as2.Rhs) == 1 && s2.Pos() < as.Pos() {
									if l2 := identOf(as2.Lhs[0]); l2 != nil && info.ObjectOf(l2) == cobj {
										if c2, ok := unparen(as2.Rhs[0]).(*ast.CallExpr); ok && isCallTo(info, c2, "reflect.Value.Elem") && len(callsIn(info, c2, true, "reflect.New")) > 0 {
											copied = true
										}
									}
								}
							}
						}
					}
					r.Check(copied, "R08.9", fmt.Sprintf("%s/go#%d/function-value-copied:%s", name, k, v.Name()), ic.pos(gs.Pos()), "the called value is copied before the goroutine starts",
						name+" starts a goroutine that calls through "+v.Name()+", the plain result of a value generator (defined at "+ic.pos(plain[v])+"): the new goroutine reads the variable when it gets to run, so fn := f1; go fn(); fn = f2 can run f2 (and races with the assignment)")
				}
				return true
			})
		}
	}
	if n == 0 {
		r.Errorf("R08.9: no goroutine calling through the result of a value generator found (the compiled-function branch of call is expected)")
	}
}

func init() {
	ruleText["R08.10"] = "the status of v, ok := <-ch is the one the receive operation reports: every SetBool of the two-value receive generator takes the ok result of reflect's TryRecv, Recv or Select (directly, or through the matching result of an in-package helper all of whose returns give it), or the constant true under a test of that ok"
}

// c08R10: round-6 seed. recv and recv2 were refactored onto a helper whose slow path dropped
// the receive status and returned true: a receiver woken by close(ch) saw (zero, true).
func c08R10(ic *IC, r *Report) {
	info := ic.Info
	fi := ic.fn(r, "recv2")
	if fi == nil {
		return
	}
	// okResult: position of the "ok" result of a reflect receive operation
	okPos := func(c *ast.CallExpr) int {
		switch {
		case isCallTo(info, c, "reflect.Value.TryRecv", "reflect.Value.Recv"):
			return 1
		case isCallTo(info, c, "reflect.Select"):
			return 2
		}
		return -1
	}
	// fromRecv: does the identifier obj (defined in body) hold a receive status?
	var fromRecv func(body ast.Node, obj types.Object, depth int) bool
	var helperGives func(g *types.Func, pos int, depth int) bool
	defOf := func(body ast.Node, obj types.Object) (call *ast.CallExpr, pos int, n int) {
		ast.Inspect(body, func(q ast.Node) bool {
			as, ok := q.(*ast.AssignStmt)
			if !ok {
				return true
			}
			for i, l := range as.Lhs {
				if id := identOf(l); id != nil && info.ObjectOf(id) == obj {
					n++
					if len(as.Rhs) == 1 {
						if c, ok := unparen(as.Rhs[0]).(*ast.CallExpr); ok {
							call, pos = c, i
						}
					}
				}
			}
			return true
		})
		return
	}
	fromRecv = func(body ast.Node, obj types.Object, depth int) bool {
		c, pos, n := defOf(body, obj)
		if c == nil || n != 1 {
			return false
		}
		if p := okPos(c); p >= 0 {
			return p == pos
		}
		if g, ok := calleeOf(info, c).(*types.Func); ok && g.Pkg() == ic.Pk.Types && depth < 2 {
			return helperGives(g, pos, depth+1)
		}
		return false
	}
	helperGives = func(g *types.Func, pos int, depth int) bool {
		gi := ic.G.Funcs[g]
		if gi == nil || gi.Decl.Body == nil {
			return false
		}
		sg := g.Type().(*types.Signature)
		okAll, nRet := true, 0
		ast.Inspect(gi.Decl.Body, func(q ast.Node) bool {
			if _, ok := q.(*ast.FuncLit); ok {
				return false
			}
			rs, ok := q.(*ast.ReturnStmt)
			if !ok {
				return true
			}
			nRet++
			var e ast.Expr
			if len(rs.Results) == sg.Results().Len() {
				e = rs.Results[pos]
			} else if len(rs.Results) == 0 && sg.Results().At(pos).Name() != "" {
				// named result: its definitions
				if !fromRecv(gi.Decl.Body, sg.Results().At(pos), depth) {
					okAll = false
				}
				return true
			}
			id := identOf(e)
			if id == nil {
				okAll = false
				return true
			}
			if id.Name == "false" && info.ObjectOf(id) == types.Universe.Lookup("false") {
				return true
			}
			if obj := info.ObjectOf(id); obj == types.Object(sg.Results().At(pos)) || !fromRecv(gi.Decl.Body, obj, depth) {
				if obj == types.Object(sg.Results().At(pos)) && fromRecv(gi.Decl.Body, obj, depth) {
					return true
				}
				okAll = false
			}
			return true
		})
		return okAll && nRet > 0
	}
	n := 0
	for k, fl := range (&c02ctx{ic: ic}).closuresOf(fi) {
		for _, c := range callsIn(info, fl.Body, true, "reflect.Value.SetBool") {
			if len(c.Args) != 1 {
				continue
			}
			n++
			good := false
			why := types.ExprString(c.Args[0])
			if id := identOf(c.Args[0]); id != nil {
				if id.Name == "true" && info.ObjectOf(id) == types.Universe.Lookup("true") {
					for _, g := range pathGuards(fl.Body, c) {
						if gid := identOf(g.cond); gid != nil && g.want && fromRecv(fl.Body, info.ObjectOf(gid), 0) {
							good = true
						}
					}
					// if v, ok := ch.TryRecv(); ok { ... }: the definition sits in the if's init
					if !good {
						for _, p := range enclosingPath(fl.Body, c) {
							if ifs, ok := p.(*ast.IfStmt); ok && ifs.Init != nil {
								if gid := identOf(ifs.Cond); gid != nil && fromRecv(ifs.Init, info.ObjectOf(gid), 0) {
									good = true
								}
							}
						}
					}
					why = "the constant true, under no test of the status of a receive operation"
				} else if fromRecv(fl.Body, info.ObjectOf(id), 0) {
					good = true
				}
			}
			r.Check(good, "R08.10", fmt.Sprintf("recv2/closure#%d/status#%d/from-the-receive-operation", k+1, n), ic.pos(c.Pos()), "the status is the ok result of the receive operation",
				"the two-value receive sets its status from "+why+", not from the ok result of TryRecv, Recv or Select: a receiver woken because the channel was closed reports (zero value, true) - a consumer loop `for { v, ok := <-ch; if !ok { break } }` never ends and counts values nobody sent")
		}
	}
	if n < 2 {
		r.Errorf("R08.10: only %d status stores found in the two-value receive generator (fast path, slow path, blocking form expected)", n)
	}
}

func init() {
	ruleText["R08.12"] = "= R05.11 shared: a method value carries the receiver evaluated with it, for value and pointer receivers: the goroutine started by go x.m(args) works on the x of the go statement, not on what the variable holds when the goroutine gets to run"
	ruleText["R08.15"] = "= R01.39 and R01.40 shared: `case x = <-c` of a select assigns the variable of the enclosing scope (a variable is declared only for :=), and every form of comm clause is given a direction before reflect.Select is called"
	ruleText["R08.14"] = "= R04.6 / R11.5 shared: the function value created for a function literal captures a clone of the defining frame on every path - also for a literal called where it is written, which `go func() {...}()` runs after the statement has returned: with the live frame the goroutine sees the variables of the later iterations"
	ruleText["R08.13"] = "= R04.20 shared: a goroutine argument of interface type, and a value sent on a channel of interface type, hold a copy of the value: the receiver does not follow the sender's variable"
	ruleText["R08.11"] = "a function value created at run time (function literal given to reflect.MakeFunc) writes only the frame it allocates for its own activation: every store into a data vector inside the literal is rooted at a frame created there by newFrame (or a local alias of its vector) - the call may return in another goroutine, at any time, and the creating frame belongs to the creator"
}

// c08R11: found through the round-6 report on C08 (E1). The wrapper built by getFunc put the
// previous content of the literal's frame slot back when the call returned; with go func(){}()
// the call returns in another goroutine, between the creation of the next closure and its
// call, so the caller started the previous closure again (and the write raced with the reads
// of the slot).
func c08R11(ic *IC, r *Report) {
	info := ic.Info
	n := 0
	for _, name := range sortedKeys(ic.F) {
		fi := ic.F[name]
		if fi.Decl.Body == nil {
			continue
		}
		k := 0
		for _, mk := range callsIn(info, fi.Decl.Body, true, "reflect.MakeFunc") {
			if len(mk.Args) != 2 {
				continue
			}
			lit, ok := unparen(mk.Args[1]).(*ast.FuncLit)
			if !ok {
				continue
			}
			k++
			n++
			// frames (and aliases of their vectors) created inside the literal
			own := map[types.Object]bool{}
			for pass := 0; pass < 3; pass++ {
				ast.Inspect(lit.Body, func(q ast.Node) bool {
					as, ok := q.(*ast.AssignStmt)
					if !ok || len(as.Lhs) != len(as.Rhs) {
						return true
					}
					for i, rh := range as.Rhs {
						id := identOf(as.Lhs[i])
						if id == nil {
							continue
						}
						if c, ok := unparen(rh).(*ast.CallExpr); ok && isCallTo(info, c, "interp.newFrame") {
							own[info.ObjectOf(id)] = true
						}
						if root := rootIdent(rh); root != nil && own[info.ObjectOf(root)] {
							if _, isCall := unparen(rh).(*ast.CallExpr); !isCall {
								own[info.ObjectOf(id)] = true
							}
						}
					}
					return true
				})
			}
			var bad []string
			ast.Inspect(lit.Body, func(q ast.Node) bool {
				as, ok := q.(*ast.AssignStmt)
				if !ok {
					return true
				}
				for _, l := range as.Lhs {
					ix, ok := unparen(l).(*ast.IndexExpr)
					if !ok {
						continue
					}
					if t := info.TypeOf(ix.X); t == nil || types.TypeString(t, nil) != "[]reflect.Value" {
						continue
					}
					root := rootIdent(ix.X)
					if root != nil && own[info.ObjectOf(root)] {
						continue
					}
					// a vector made in the literal (results, arguments)
					if root != nil {
						if o := info.ObjectOf(root); o != nil && o.Pos() > lit.Pos() && o.Pos() < lit.End() {
							if v := selField(info, ix.X); v == nil {
								continue
							}
						}
					}
					bad = append(bad, types.ExprString(l)+" at "+ic.pos(as.Pos()))
				}
				return true
			})
			r.Check(len(bad) == 0, "R08.11", fmt.Sprintf("%s/callback#%d/writes-only-its-own-frame", name, k), ic.pos(lit.Pos()), "every slot written by the callback belongs to the frame it allocates",
				"the function value built by "+name+" stores into "+strings.Join(bad, ", ")+", a slot of a frame it did not create: the store happens when the call runs - for go func(){...}() in another goroutine, at any moment - so it races with the creator's own use of the slot and can put an older value back (the caller then starts the previous closure again: in a loop of go func(){ res[x]++ }() some elements are incremented twice and others never)")
		}
	}
	if n < 2 {
		r.Errorf("R08.11: only %d function literals given to reflect.MakeFunc found", n)
	}
}

func init() {
	ruleText["R08.16"] = "a value is sent by a select clause as a send statement sends it: in _select, every value generator stored for a clause in the send direction (under a test of the direction against reflect.SelectSend, or next to the assignment of that direction) is the result of a function that reaches genDestValue - the function `send` uses for the same purpose - not of a plain genValue: the element type of the channel decides how the value is wrapped or converted"
}

// c08R16: D129 (round-8 report on C08, P5). Sibling agreement between send and _select.
func c08R16(ic *IC, r *Report) {
	info := ic.Info
	sel := ic.fn(r, "_select")
	snd := ic.fn(r, "send")
	if sel == nil || snd == nil {
		return
	}
	// the reference: what send uses for the value sent
	ref := callsIn(info, snd.Decl.Body, false, "interp.genDestValue")
	if len(ref) == 0 {
		r.Errorf("R08.16: send does not call genDestValue any more: the reference of the sibling rule is gone")
		return
	}
	// functions of the package reaching genDestValue (one level of wrappers is enough here)
	reaches := map[string]bool{"interp.genDestValue": true}
	for _, name := range sortedKeys(ic.F) {
		fi := ic.F[name]
		if fi.Decl.Body != nil && len(callsIn(info, fi.Decl.Body, false, "interp.genDestValue")) > 0 && fi.Obj != nil {
			reaches[canonKey(fi.Obj.Pkg(), shortKey(objKey(fi.Obj)))] = true
		}
	}
	var keys []string
	for k := range reaches {
		keys = append(keys, k)
	}
	isSendDir := func(e ast.Node) bool {
		found := false
		ast.Inspect(e, func(z ast.Node) bool {
			if se, ok := z.(*ast.SelectorExpr); ok && se.Sel.Name == "SelectSend" {
				found = true
			}
			return true
		})
		return found
	}
	// the slices of generators read for the Send field of a select case: cases[i].Send = S[i](f)
	sendSlices := map[types.Object]bool{}
	ast.Inspect(sel.Decl.Body, func(q ast.Node) bool {
		as, ok := q.(*ast.AssignStmt)
		if !ok || len(as.Lhs) != 1 || len(as.Rhs) != 1 {
			return true
		}
		if se, ok := unparen(as.Lhs[0]).(*ast.SelectorExpr); !ok || se.Sel.Name != "Send" {
			return true
		}
		if c, ok := unparen(as.Rhs[0]).(*ast.CallExpr); ok {
			if ix, ok := unparen(c.Fun).(*ast.IndexExpr); ok {
				if id := identOf(ix.X); id != nil {
					sendSlices[info.ObjectOf(id)] = true
				}
			}
		}
		return true
	})
	if len(sendSlices) == 0 {
		r.Errorf("R08.16: no assignment of the Send field of a select case from a slice of generators found in _select")
		return
	}
	n := 0
	ast.Inspect(sel.Decl.Body, func(q ast.Node) bool {
		if _, ok := q.(*ast.FuncLit); ok {
			return false
		}
		cc, ok := q.(*ast.CaseClause)
		if !ok {
			return true
		}
		// a clause about the send direction: its condition tests SelectSend, or its body assigns it
		about := false
		for _, e := range cc.List {
			if isSendDir(e) {
				about = true
			}
		}
		for _, st := range cc.Body {
			if as, ok := st.(*ast.AssignStmt); ok && len(as.Rhs) == 1 && isSendDir(as.Rhs[0]) {
				about = true
			}
		}
		if !about {
			return true
		}
		for _, st := range cc.Body {
			as, ok := st.(*ast.AssignStmt)
			if !ok || len(as.Lhs) != 1 || len(as.Rhs) != 1 {
				continue
			}
			ix, ok := unparen(as.Lhs[0]).(*ast.IndexExpr)
			if !ok {
				continue
			}
			// a slice of value generators
			sl, ok := info.TypeOf(ix.X).Underlying().(*types.Slice)
			if !ok {
				continue
			}
			if _, isFn := sl.Elem().Underlying().(*types.Signature); !isFn {
				continue
			}
			c, ok := unparen(as.Rhs[0]).(*ast.CallExpr)
			if !ok {
				continue
			}
			// only the slice whose generators yield the Send field of the select cases
			if id := identOf(ix.X); id == nil || !sendSlices[info.ObjectOf(id)] {
				continue
			}
			n++
			r.Check(isCallTo(info, c, keys...), "R08.16", fmt.Sprintf("_select/send-value#%d/converted-as-in-a-send-statement", n), ic.pos(as.Pos()), "the generator of the value sent reaches genDestValue, as in send",
				"_select obtains the value sent by a clause with "+types.ExprString(c)+", which does not reach genDestValue (send uses "+types.ExprString(ref[0])+"): the value is handed to reflect.Select as it is, so `select { case sc <- Sq{3}: }` on a channel of an interpreted interface type panics (value of type struct is not assignable to type interp.valueInterface) where the statement `sc <- Sq{3}` works")
		}
		return true
	})
	if n < 2 {
		r.Errorf("R08.16: only %d value generators of send clauses found in _select (with and without clause body expected)", n)
	}
}
