package main

import (
	"fmt"
	"go/ast"
	"go/constant"
	"go/parser"
	"go/token"
	"go/types"
	"os"
	"path/filepath"
	"runtime"
	"sort"
	"strings"

	"golang.org/x/tools/go/cfg"
)

func init() {
	register("C17", &propMeta{
		Level: "other",
		Explanation: "Static agreement of yaegi's file-selection code with the go/build reference (GOROOT/src/go/build): " +
			"R17.1 key sets of the OS/arch tables used by the file-name rule equal go/build's knownOS/knownArch; " +
			"R17.2 every special tag condition of go/build.(*Context).matchTag that the statement names (GOOS, GOARCH, build tags, release tags, unix, implied OS tags) has a counterpart reachable from the constraint evaluator; " +
			"R17.3 //go:build lines are consulted; R17.4 the selection verdicts gate the read/parse of a file on every path (go/cfg); " +
			"R17.5 the release-tag comparison is oriented as membership in ReleaseTags; R17.6 the loops over tags, comment groups and the three separator levels of a constraint are complete; R17.7 every verdict of the file-name rule that can keep a file has decided the last name element against both tables, with the _test suffix removed first. " +
			"Decides the structure of the selection code, not the boolean evaluation of arbitrary constraint lines.",
		Assumptions: []string{
			"go/build of the installed toolchain (GOROOT/src/go/build) is the reference the property names",
			"not decided: AND/OR evaluation of +build lines, the suffix rule beyond table membership",
		},
		Run: runC17,
	})
	ruleText["R17.1"] = "the key sets of the OS and architecture tables referenced by the file-name rule equal go/build's knownOS and knownArch"
	ruleText["R17.2"] = "each tag condition of go/build.(*Context).matchTag named by the property (GOOS, GOARCH, BuildTags, ReleaseTags, unix via unixOS, android=>linux, illumos=>solaris, ios=>darwin) is implemented by, or delegated from, the functions reachable from the constraint evaluator"
	ruleText["R17.3"] = "the constraint evaluator consults //go:build expressions (go/build/constraint, Context.MatchFile, or raw comment text containing go:build)"
	ruleText["R17.4"] = "a negative selection verdict prevents reading/parsing the file on every control-flow path"
	ruleText["R17.6"] = "a loop that adds tags to Context.BuildTags has no break/return/goto; in the evaluator's loop over the file's comment groups no continue/break is guarded by a condition on the group's text other than an emptiness test"
	ruleText["R17.7"] = "in the file-name rule, every return after the split of the name that can keep the file is reached only on paths where the last element has been looked up in (or decided against) both the OS and the architecture table (go/cfg must-analysis, short-circuit conditions split per operand)"
	ruleText["R17.8"] = "in the constraint evaluator, no return whose first result is not the constant true is reachable (go/cfg) after a statement adding to Context.BuildTags, directly or through an in-package function"
	ruleText["R17.9"] = "three-valued abstract interpretation of the result of every function testing membership in Context.BuildTags, pruned under 'membership is true, the tag is not negated': every reachable return is definitely true"
	ruleText["R17.5"] = "the go1.N tag is satisfied exactly when N <= the context's last release tag (equivalent to membership in ReleaseTags)"
}

// goBuildRef parses the reference tables and matchTag conditions of go/build.
type goBuildRef struct {
	knownOS, knownArch, unixOS map[string]bool
	implied                    [][2]string // GOOS value => tag
	hasUnix                    bool
	fields                     map[string]bool // Context fields read by matchTag
}

func parseGoBuildRef() (*goBuildRef, error) {
	dir := filepath.Join(runtime.GOROOT(), "src", "go", "build")
	if gr := os.Getenv("GOROOT"); gr != "" {
		dir = filepath.Join(gr, "src", "go", "build")
	}
	fset := token.NewFileSet()
	ref := &goBuildRef{fields: map[string]bool{}}
	readTable := func(f *ast.File, name string) map[string]bool {
		var out map[string]bool
		for _, d := range f.Decls {
			gd, ok := d.(*ast.GenDecl)
			if !ok {
				continue
			}
			for _, s := range gd.Specs {
				vs, ok := s.(*ast.ValueSpec)
				if !ok || len(vs.Names) != 1 || vs.Names[0].Name != name || len(vs.Values) != 1 {
					continue
				}
				if cl, ok := vs.Values[0].(*ast.CompositeLit); ok {
					out = map[string]bool{}
					for _, e := range cl.Elts {
						if kv, ok := e.(*ast.KeyValueExpr); ok {
							if bl, ok := kv.Key.(*ast.BasicLit); ok {
								out[strings.Trim(bl.Value, `"`)] = true
							}
						}
					}
				}
			}
		}
		return out
	}
	sys, err := parser.ParseFile(fset, filepath.Join(dir, "syslist.go"), nil, 0)
	if err != nil {
		return nil, err
	}
	ref.knownOS, ref.knownArch, ref.unixOS = readTable(sys, "knownOS"), readTable(sys, "knownArch"), readTable(sys, "unixOS")
	bf, err := parser.ParseFile(fset, filepath.Join(dir, "build.go"), nil, 0)
	if err != nil {
		return nil, err
	}
	for _, d := range bf.Decls {
		fd, ok := d.(*ast.FuncDecl)
		if !ok || fd.Name.Name != "matchTag" || fd.Recv == nil {
			continue
		}
		recv := fd.Recv.List[0].Names[0].Name
		ast.Inspect(fd.Body, func(n ast.Node) bool {
			if se, ok := n.(*ast.SelectorExpr); ok {
				if id, ok := se.X.(*ast.Ident); ok && id.Name == recv {
					ref.fields[se.Sel.Name] = true
				}
			}
			be, ok := n.(*ast.BinaryExpr)
			if !ok || be.Op != token.LAND {
				return true
			}
			// ctxt.GOOS == "X" && name == "Y"
			lit := func(e ast.Expr, field bool) (string, bool) {
				b, ok := e.(*ast.BinaryExpr)
				if !ok || b.Op != token.EQL {
					return "", false
				}
				l, ok := b.Y.(*ast.BasicLit)
				if !ok {
					return "", false
				}
				if se, ok := b.X.(*ast.SelectorExpr); ok == field {
					if field && se.Sel.Name != "GOOS" {
						return "", false
					}
					return strings.Trim(l.Value, `"`), true
				}
				return "", false
			}
			if goos, ok := lit(be.X, true); ok {
				if tag, ok := lit(be.Y, false); ok {
					ref.implied = append(ref.implied, [2]string{goos, tag})
				}
			}
			if tag, ok := lit(be.X, false); ok && tag == "unix" {
				ref.hasUnix = true
			}
			return true
		})
	}
	return ref, nil
}

func runC17(c *Config, r *Report) {
	ic, err := loadInterp(c, false)
	if err != nil {
		r.Errorf("%v", err)
		return
	}
	ref, err := parseGoBuildRef()
	if err != nil {
		r.Errorf("reference go/build not parsed: %v", err)
		return
	}
	if len(ref.knownOS) < 10 || len(ref.knownArch) < 10 || len(ref.unixOS) < 5 || len(ref.implied) < 3 || !ref.hasUnix {
		r.Errorf("reference go/build: tables or matchTag conditions not recognised (knownOS=%d knownArch=%d unixOS=%d implied=%d unix=%v)",
			len(ref.knownOS), len(ref.knownArch), len(ref.unixOS), len(ref.implied), ref.hasUnix)
		return
	}
	r.Info["reference"] = map[string]any{"knownOS": len(ref.knownOS), "knownArch": len(ref.knownArch), "unixOS": len(ref.unixOS), "implied_tags": ref.implied}

	importSrc := ic.fn(r, "Interpreter.importSrc")
	parse := ic.fn(r, "Interpreter.parse")
	if importSrc == nil || parse == nil {
		return
	}
	isBuildCtx := func(t types.Type) bool {
		if p, ok := t.(*types.Pointer); ok {
			t = p.Elem()
		}
		n, ok := t.(*types.Named)
		return ok && n.Obj().Pkg() != nil && n.Obj().Pkg().Path() == "go/build" && n.Obj().Name() == "Context"
	}
	// Role: the selection predicates are the in-package callees that take a *build.Context.
	selCalls := func(fi *FuncInfo) []*ast.CallExpr {
		var out []*ast.CallExpr
		ast.Inspect(fi.Decl.Body, func(n ast.Node) bool {
			call, ok := n.(*ast.CallExpr)
			if !ok {
				return true
			}
			f, ok := calleeOf(ic.Info, call).(*types.Func)
			if !ok || f.Pkg() != ic.Pk.Types {
				return true
			}
			sig := f.Type().(*types.Signature)
			hasCtx := false
			for i := 0; i < sig.Params().Len(); i++ {
				if isBuildCtx(sig.Params().At(i).Type()) {
					hasCtx = true
				}
			}
			if hasCtx && sig.Results().Len() >= 1 && types.Identical(sig.Results().At(0).Type(), types.Typ[types.Bool]) {
				out = append(out, call)
			}
			return true
		})
		return out
	}
	skipCalls := selCalls(importSrc)
	okCalls := selCalls(parse)
	if len(skipCalls) == 0 {
		r.Errorf("anchor not resolved: no file-name selection predicate (in-package func taking *build.Context, returning bool) called from importSrc")
	}
	if len(okCalls) == 0 {
		r.Errorf("anchor not resolved: no constraint evaluator (in-package func taking *build.Context, returning bool) called from parse")
	}
	if len(skipCalls) == 0 || len(okCalls) == 0 {
		return
	}
	skipFn := calleeOf(ic.Info, skipCalls[0]).(*types.Func)
	okFn := calleeOf(ic.Info, okCalls[0]).(*types.Func)

	// ---- R17.1 tables --------------------------------------------------------------
	skipReach, _ := ic.G.Reach(skipFn)
	tables := map[*types.Var]*ast.CompositeLit{}
	for _, f := range ic.Pk.Syntax {
		for _, d := range f.Decls {
			gd, ok := d.(*ast.GenDecl)
			if !ok || gd.Tok != token.VAR {
				continue
			}
			for _, s := range gd.Specs {
				vs := s.(*ast.ValueSpec)
				for i, nm := range vs.Names {
					if i >= len(vs.Values) {
						continue
					}
					cl, ok := vs.Values[i].(*ast.CompositeLit)
					if !ok {
						continue
					}
					v, _ := ic.Info.Defs[nm].(*types.Var)
					if v == nil {
						continue
					}
					if m, ok := v.Type().Underlying().(*types.Map); ok && types.Identical(m.Key(), types.Typ[types.String]) {
						tables[v] = cl
					}
				}
			}
		}
	}
	used := map[*types.Var]bool{}
	for _, fi := range ic.G.reachedDecls(skipReach) {
		ast.Inspect(fi.Decl.Body, func(n ast.Node) bool {
			if id, ok := n.(*ast.Ident); ok {
				if v, ok := ic.Info.Uses[id].(*types.Var); ok && tables[v] != nil {
					used[v] = true
				}
			}
			return true
		})
	}
	keysOf := func(cl *ast.CompositeLit) map[string]bool {
		m := map[string]bool{}
		for _, e := range cl.Elts {
			if kv, ok := e.(*ast.KeyValueExpr); ok {
				if tv, ok := ic.Info.Types[kv.Key]; ok && tv.Value != nil {
					val := tv.Value.ExactString()
					val = strings.Trim(val, `"`)
					// only entries whose value is not the constant false count as members
					if vv, ok := ic.Info.Types[kv.Value]; ok && vv.Value != nil && vv.Value.ExactString() == "false" {
						continue
					}
					m[val] = true
				}
			}
		}
		return m
	}
	var osTab, archTab *types.Var
	for v := range used {
		ks := keysOf(tables[v])
		if ks["linux"] || ks["windows"] {
			osTab = v
		}
		if ks["amd64"] || ks["386"] {
			archTab = v
		}
	}
	cmpTable := func(role string, v *types.Var, want map[string]bool) {
		if v == nil {
			// Delegation to go/build is the other accepted form.
			if reachesExternal(ic, skipReach, "go/build.Context.MatchFile") {
				r.Pass("R17.1", role+"/delegated", ic.pos(ic.G.Funcs[skipFn].Decl.Pos()), "file-name rule delegates to go/build.Context.MatchFile")
				return
			}
			r.Errorf("anchor not resolved: no %s table (map[string]... literal containing well-known values) referenced from %s", role, skipFn.Name())
			return
		}
		have := keysOf(tables[v])
		var missing, extra []string
		for k := range want {
			if !have[k] {
				missing = append(missing, k)
			}
		}
		for k := range have {
			if !want[k] {
				extra = append(extra, k)
			}
		}
		sort.Strings(missing)
		sort.Strings(extra)
		pos := ic.pos(tables[v].Pos())
		for _, k := range sortedKeys(want) {
			if have[k] {
				r.Pass("R17.1", role+"/"+k, pos, "present in both tables")
			}
		}
		for _, k := range missing {
			r.Fail("R17.1", role+"/"+k, pos, "go/build knows "+role+" value "+k+" but table "+v.Name()+" does not: a file named x_"+k+".go is not filtered")
		}
		for _, k := range extra {
			r.Fail("R17.1", role+"/"+k, pos, "table "+v.Name()+" lists "+k+" which go/build does not know: a file named x_"+k+".go is wrongly filtered")
		}
	}
	cmpTable("os", osTab, ref.knownOS)
	cmpTable("arch", archTab, ref.knownArch)
	c17R7(ic, r, ic.G.Funcs[skipFn], osTab, archTab)

	// The file-name rule goes through matchTag too in the reference (goodOSArchFile), so the
	// implied OS tags apply to suffixes as well.
	{
		ndeleg := reachesExternal(ic, skipReach, "go/build.Context.MatchFile")
		claimed, undecided := impliedPairs(ic, ic.G.reachedDecls(skipReach))
		pos := ic.pos(ic.G.Funcs[skipFn].Decl.Pos())
		for _, u := range undecided {
			r.Fail("R17.2", "name-rule/implied/undecided", pos, "undecided: "+u)
		}
		refSet := map[string]bool{}
		for _, im := range ref.implied {
			refSet[im[0]+"=>"+im[1]] = true
			r.Check(ndeleg || claimed[im[0]+"=>"+im[1]], "R17.2", "name-rule/implied/"+im[0]+"=>"+im[1], pos, "implied tag handled by the file-name rule",
				"go/build selects x_"+im[1]+".go when GOOS="+im[0]+" (goodOSArchFile -> matchTag); the file-name rule "+skipFn.Name()+" has no such condition and skips it")
		}
		for _, p := range sortedKeys(claimed) {
			if !refSet[p] {
				parts := strings.SplitN(p, "=>", 2)
				r.Fail("R17.2", "name-rule/implied/"+p, pos, "the file-name rule treats files named for "+parts[1]+" as selected when GOOS="+parts[0]+"; go/build has no such rule (its implied tags are "+fmt.Sprint(ref.implied)+"): files are selected that the Go toolchain excludes")
			}
		}
	}

	// ---- R17.2 / R17.3 / R17.5: the constraint evaluator ------------------------------
	okReach, _ := ic.G.Reach(okFn)
	decls := ic.G.reachedDecls(okReach)
	ctxFields := map[string]token.Pos{}
	lits := map[string]token.Pos{}
	for _, fi := range decls {
		ast.Inspect(fi.Decl.Body, func(n ast.Node) bool {
			if se, ok := n.(*ast.SelectorExpr); ok {
				if v := selField(ic.Info, se); v != nil && v.Pkg() != nil && v.Pkg().Path() == "go/build" {
					if _, ok := ctxFields[v.Name()]; !ok {
						ctxFields[v.Name()] = se.Pos()
					}
				}
			}
			return true
		})
		for s, p := range stringLits(fi.Decl.Body) {
			if _, ok := lits[s]; !ok {
				lits[s] = p
			}
		}
	}
	delegated := reachesExternal(ic, okReach, "go/build.Context.MatchFile")
	evPos := ic.pos(ic.G.Funcs[okFn].Decl.Pos())
	names := []string{}
	for _, fi := range decls {
		names = append(names, funcName(fi.Decl))
	}
	r.Info["constraint_evaluator_functions"] = names
	for _, f := range []string{"GOOS", "GOARCH", "BuildTags", "ReleaseTags"} {
		if !ref.fields[f] {
			r.Errorf("reference matchTag does not read Context.%s: reference not understood", f)
			continue
		}
		_, ok := ctxFields[f]
		r.Check(ok || delegated, "R17.2", "field/"+f, evPos, "Context."+f+" is consulted by the constraint evaluator",
			"go/build.matchTag consults Context."+f+" but no function reachable from "+okFn.Name()+" reads it")
	}
	uses := func(s string) bool { _, ok := lits[s]; return ok }
	// the set of systems the unix tag stands for: the map[string]bool indexed by Context.GOOS in a
	// conjunction with the test of the tag against "unix" agrees with go/build's unixOS
	if !delegated && uses("unix") {
		var tab *ast.CompositeLit
		var tabName string
		for _, fi := range decls {
			ast.Inspect(fi.Decl.Body, func(n ast.Node) bool {
				be, ok := n.(*ast.BinaryExpr)
				if !ok || be.Op != token.LAND {
					return true
				}
				hasUnix := false
				ast.Inspect(be, func(z ast.Node) bool {
					if l, ok := z.(*ast.BasicLit); ok && l.Value == `"unix"` {
						hasUnix = true
					}
					return true
				})
				if !hasUnix {
					return true
				}
				ast.Inspect(be, func(z ast.Node) bool {
					ix, ok := z.(*ast.IndexExpr)
					if !ok {
						return true
					}
					if v := selField(ic.Info, ix.Index); v == nil || v.Name() != "GOOS" {
						return true
					}
					if id := identOf(ix.X); id != nil {
						if tv, ok := ic.Info.Uses[id].(*types.Var); ok {
							if cl := tables[tv]; cl != nil {
								tab, tabName = cl, tv.Name()
							}
						}
					}
					return true
				})
				return true
			})
		}
		if tab == nil {
			r.Fail("R17.2", "tag/unix/systems", evPos, "undecided: the unix tag is mentioned but no table of systems indexed by Context.GOOS is found next to it")
		} else {
			have := keysOf(tab)
			var diff []string
			for k := range ref.unixOS {
				if !have[k] {
					diff = append(diff, "missing "+k)
				}
			}
			for k := range have {
				if !ref.unixOS[k] {
					diff = append(diff, "extra "+k)
				}
			}
			sort.Strings(diff)
			r.Check(len(diff) == 0, "R17.2", "tag/unix/systems", ic.pos(tab.Pos()), fmt.Sprintf("table %s lists the %d systems of go/build's unixOS", tabName, len(have)),
				"the table "+tabName+" used for the unix tag differs from go/build's unixOS: "+strings.Join(diff, ", ")+": a file constrained by 'unix' is selected, or skipped, on a system where the Go toolchain decides otherwise")
		}
	}
	r.Check(delegated || uses("unix"), "R17.2", "tag/unix", evPos, "the unix tag is handled",
		"go/build satisfies the tag \"unix\" when GOOS is in unixOS; no function reachable from "+okFn.Name()+" mentions it: a file constrained by 'unix' is skipped on "+strings.Join(sortedKeys(ref.unixOS), ","))
	{
		claimed, undecided := impliedPairs(ic, decls)
		for _, u := range undecided {
			r.Fail("R17.2", "implied/undecided", evPos, "undecided: "+u)
		}
		refSet := map[string]bool{}
		for _, im := range ref.implied {
			refSet[im[0]+"=>"+im[1]] = true
			r.Check(delegated || claimed[im[0]+"=>"+im[1]], "R17.2", "implied/"+im[0]+"=>"+im[1], evPos, "implied tag handled",
				"go/build satisfies tag "+im[1]+" when GOOS="+im[0]+"; the constraint evaluator has no such condition")
		}
		for _, p := range sortedKeys(claimed) {
			if !refSet[p] {
				parts := strings.SplitN(p, "=>", 2)
				r.Fail("R17.2", "implied/"+p, evPos, "the constraint evaluator satisfies tag "+parts[1]+" when GOOS="+parts[0]+"; go/build has no such rule")
			}
		}
	}

	// R17.3
	goBuild := delegated || reachesExternal(ic, okReach, "go/build/constraint.Parse") || reachesExternal(ic, okReach, "go/build/constraint.IsGoBuild")
	for s := range lits {
		if strings.Contains(s, "go:build") {
			goBuild = true
		}
	}
	r.Check(goBuild, "R17.3", "gobuild-lines", evPos, "//go:build lines are consulted",
		"no function reachable from "+okFn.Name()+" parses //go:build expressions (go/build/constraint.Parse, Context.MatchFile or a 'go:build' literal): a file whose only constraint is a //go:build line is always selected")

	// R17.5
	checkReleaseTag(ic, r, decls, delegated)

	// ---- R17.6 every line and every tag is looked at ------------------------------------
	if !delegated {
		c17R6(ic, r, decls, ic.G.Funcs[okFn])
		c17R8(ic, r, decls, ic.G.Funcs[okFn])
		c17R9(ic, r, decls)
		c17R10(ic, r, append(append([]*FuncInfo{}, decls...), ic.G.reachedDecls(skipReach)...))
	}
	c17R11(ic, r)
	c17R12(ic, r)
	c17R13(ic, r)
	c17R14(ic, r)
	c17R15(ic, r)

	// ---- R17.4 gating -------------------------------------------------------------------
	// importSrc: the branch taken when the predicate is true must not reach the read of the file.
	gate := func(fi *FuncInfo, call *ast.CallExpr, skipValue bool, sinkKeys []string, key string) {
		fg := buildFlow(fi.Decl.Body, ic.Info)
		sinks := callsIn(ic.Info, fi.Decl.Body, false, sinkKeys...)
		if len(sinks) == 0 {
			r.Errorf("R17.4 %s: no call of %v found in %s", key, sinkKeys, funcName(fi.Decl))
			return
		}
		// Find the if statement controlled by the call.
		path := enclosingPath(fi.Decl.Body, call)
		var ifs *ast.IfStmt
		for i := len(path) - 1; i >= 0; i-- {
			if s, ok := path[i].(*ast.IfStmt); ok {
				ifs = s
				break
			}
		}
		if ifs == nil {
			r.Fail("R17.4", key, ic.pos(call.Pos()), "the verdict of "+shortKey(objKey(calleeOf(ic.Info, call)))+" does not control an if statement")
			return
		}
		// Which variable/expr carries the verdict?
		var verdict types.Object
		if as, ok := ifs.Init.(*ast.AssignStmt); ok && len(as.Rhs) == 1 && unparen(as.Rhs[0]) == ast.Expr(call) {
			if id, ok := as.Lhs[0].(*ast.Ident); ok {
				verdict = ic.Info.ObjectOf(id)
			}
		}
		atom := func(e ast.Expr) int {
			if e == ast.Expr(call) {
				if skipValue {
					return triTrue
				}
				return triFalse
			}
			if id, ok := e.(*ast.Ident); ok && verdict != nil && ic.Info.ObjectOf(id) == verdict {
				if skipValue {
					return triTrue
				}
				return triFalse
			}
			return triUnknown
		}
		res := evalCond(ifs.Cond, atom)
		if res == triUnknown {
			r.Fail("R17.4", key, ic.pos(ifs.Pos()), "undecided: the negative verdict does not force a branch of the condition "+types.ExprString(ifs.Cond))
			return
		}
		cb, _ := fg.locate(ifs.Cond)
		if cb == nil || len(cb.Succs) != 2 {
			r.Errorf("R17.4 %s: condition block not located", key)
			return
		}
		start := cb.Succs[0]
		if res == triFalse {
			start = cb.Succs[1]
		}
		bad := false
		for _, s := range sinks {
			sb, _ := fg.locate(s)
			if sb == nil {
				r.Errorf("R17.4 %s: sink not located", key)
				return
			}
			if d, _ := fg.dominates(call, s); !d {
				r.Fail("R17.4", key, ic.pos(s.Pos()), "the selection predicate does not dominate this "+shortKey(objKey(calleeOf(ic.Info, s)))+" call")
				bad = true
				continue
			}
			if reachAvoiding(start, sb, cb) {
				r.Fail("R17.4", key, ic.pos(ifs.Pos()), "after a negative verdict control still reaches "+shortKey(objKey(calleeOf(ic.Info, s)))+" at "+ic.pos(s.Pos())+" without re-evaluating the predicate")
				bad = true
			}
		}
		if !bad {
			r.Pass("R17.4", key, ic.pos(ifs.Pos()), "negative verdict leaves the file unread/unparsed on every path")
		}
	}
	gate(importSrc, skipCalls[0], true, []string{"io/fs.ReadFile", "os.ReadFile", "interp.Interpreter.parse"}, "importSrc/name-rule")
	gate(parse, okCalls[0], false, []string{"go/parser.ParseFile"}, "parse/constraint-lines")
}

// c17R6: (a) a loop that adds tags to Context.BuildTags is never left early, so every tag of a
// yaegi:tags line is set; (b) in the constraint evaluator's loop over the comment groups no
// group is skipped because of what its text looks like (other than being empty): a +build line
// that follows another comment line in the same group still counts.
func c17R6(ic *IC, r *Report, decls []*FuncInfo, okDecl *FuncInfo) {
	// exits returns the statements leaving loop (break targeting it, or return).
	exits := func(loop ast.Node, withContinue bool) []ast.Stmt {
		var out []ast.Stmt
		var walk func(n ast.Node, depthBreak, depthLoop int)
		walk = func(n ast.Node, depthBreak, depthLoop int) {
			ast.Inspect(n, func(m ast.Node) bool {
				if m == nil || m == n {
					return true
				}
				switch x := m.(type) {
				case *ast.FuncLit:
					return false
				case *ast.ForStmt, *ast.RangeStmt:
					walk(loopBody(m), depthBreak+1, depthLoop+1)
					return false
				case *ast.SwitchStmt:
					walk(x.Body, depthBreak+1, depthLoop)
					return false
				case *ast.TypeSwitchStmt:
					walk(x.Body, depthBreak+1, depthLoop)
					return false
				case *ast.SelectStmt:
					walk(x.Body, depthBreak+1, depthLoop)
					return false
				case *ast.ReturnStmt:
					out = append(out, x)
				case *ast.BranchStmt:
					if x.Label != nil {
						out = append(out, x) // labelled: treated as leaving (conservative)
					} else if x.Tok == token.BREAK && depthBreak == 0 {
						out = append(out, x)
					} else if x.Tok == token.CONTINUE && depthLoop == 0 && withContinue {
						out = append(out, x)
					} else if x.Tok == token.GOTO {
						out = append(out, x)
					}
				}
				return true
			})
		}
		walk(loopBody(loop), 0, 0)
		return out
	}
	nTagLoops, nGroupLoops := 0, 0
	for _, fi := range decls {
		name := funcName(fi.Decl)
		ast.Inspect(fi.Decl.Body, func(n ast.Node) bool {
			body := loopBody(n)
			if body == nil {
				return true
			}
			// (a) direct append to BuildTags in this loop's own body (nested loops are their own instance)
			adds := false
			ast.Inspect(body, func(m ast.Node) bool {
				if m != ast.Node(body) && loopBody(m) != nil {
					return false
				}
				if as, ok := m.(*ast.AssignStmt); ok {
					for _, l := range as.Lhs {
						if v := selField(ic.Info, l); v != nil && v.Pkg() != nil && v.Pkg().Path() == "go/build" && v.Name() == "BuildTags" {
							adds = true
						}
					}
				}
				return true
			})
			if adds {
				nTagLoops++
				ex := exits(n, false)
				var where []string
				for _, e := range ex {
					where = append(where, ic.pos(e.Pos()))
				}
				r.Check(len(ex) == 0, "R17.6", fmt.Sprintf("%s/tag-loop#%d/complete", name, nTagLoops), ic.pos(n.Pos()), "the loop adding build tags visits every tag",
					"the loop adding tags to Context.BuildTags can be left early at "+strings.Join(where, ", ")+": the remaining tags of the line are never set, so files constrained by them are selected differently from the Go toolchain")
			}
			return true
		})
	}
	// (b) group loop of the evaluator entry
	if okDecl != nil {
		name := funcName(okDecl.Decl)
		ast.Inspect(okDecl.Decl.Body, func(n ast.Node) bool {
			rs, ok := n.(*ast.RangeStmt)
			if !ok {
				return true
			}
			v := selFieldNode(ic.Info, rs.X)
			if v == nil || v.Name() != "Comments" || v.Pkg() == nil || v.Pkg().Path() != "go/ast" {
				return true
			}
			nGroupLoops++
			var grp types.Object
			if id, ok := rs.Value.(*ast.Ident); ok {
				grp = ic.Info.ObjectOf(id)
			}
			tainted := map[types.Object]bool{}
			mentions := func(e ast.Node, set map[types.Object]bool, also types.Object) bool {
				hit := false
				ast.Inspect(e, func(m ast.Node) bool {
					if id, ok := m.(*ast.Ident); ok {
						if o := ic.Info.ObjectOf(id); o != nil && (set[o] || (also != nil && o == also)) {
							hit = true
						}
					}
					return true
				})
				return hit
			}
			isString := func(e ast.Expr) bool {
				t := ic.Info.TypeOf(e)
				if t == nil {
					return false
				}
				b, ok := t.Underlying().(*types.Basic)
				return ok && b.Info()&types.IsString != 0
			}
			// string values derived from the group, in source order
			ast.Inspect(rs.Body, func(m ast.Node) bool {
				if as, ok := m.(*ast.AssignStmt); ok && len(as.Lhs) == len(as.Rhs) {
					for i, rhs := range as.Rhs {
						if isString(rhs) && mentions(rhs, tainted, grp) {
							if id, ok := as.Lhs[i].(*ast.Ident); ok {
								if o := ic.Info.ObjectOf(id); o != nil {
									tainted[o] = true
								}
							}
						}
					}
				}
				return true
			})
			textDep := func(cond ast.Expr) bool {
				dep := false
				ast.Inspect(cond, func(m ast.Node) bool {
					e, ok := m.(ast.Expr)
					if !ok {
						return true
					}
					if be, ok := e.(*ast.BinaryExpr); ok && (be.Op == token.EQL || be.Op == token.NEQ) {
						// emptiness tests are accepted: x == "" and len(x) == 0
						for _, side := range [][2]ast.Expr{{be.X, be.Y}, {be.Y, be.X}} {
							if tv, ok := ic.Info.Types[side[1]]; ok && tv.Value != nil && (tv.Value.ExactString() == `""` || tv.Value.ExactString() == "0") {
								if c, ok := unparen(side[0]).(*ast.CallExpr); ok {
									if id, ok := c.Fun.(*ast.Ident); ok && id.Name == "len" {
										return false
									}
								}
								if tv.Value.ExactString() == `""` {
									return false
								}
							}
						}
					}
					if isString(e) && mentions(e, tainted, grp) {
						dep = true
					}
					return true
				})
				return dep
			}
			var bad []string
			for _, ex := range exits(rs, true) {
				if _, isRet := ex.(*ast.ReturnStmt); isRet {
					continue // a verdict
				}
				if br, isBr := ex.(*ast.BranchStmt); isBr && br.Tok != token.CONTINUE {
					// leaving the loop without a verdict: the remaining groups of the header are never
					// evaluated, whatever the condition (go/build evaluates the +build lines of every
					// comment group before the package clause)
					bad = append(bad, ic.pos(ex.Pos())+" leaves the loop over the comment groups without a verdict")
					continue
				}
				for _, p := range enclosingPath(rs.Body, ex) {
					if ifs, ok := p.(*ast.IfStmt); ok && textDep(ifs.Cond) {
						bad = append(bad, ic.pos(ex.Pos())+" under "+types.ExprString(ifs.Cond))
					}
				}
			}
			r.Check(len(bad) == 0, "R17.6", fmt.Sprintf("%s/group-loop#%d/no-text-based-skip", name, nGroupLoops), ic.pos(rs.Pos()), "every line of every comment group reaches the line evaluator",
				"a whole comment group is skipped depending on its text ("+strings.Join(bad, "; ")+"): a constraint line that is not the first line of its group (after a copyright or 'Code generated' line) is ignored and the file is selected although the Go toolchain excludes it")
			return true
		})
	}
	// (c) the three levels of a +build constraint (lines ANDed, options ORed, terms ANDed) are
	// each iterated completely: every separator is the argument of a strings.Split (or Fields)
	// whose result is ranged over; cutting once at the separator handles two elements only.
	seps := map[string]string{`"\n"`: "lines of a comment group (AND)", `" "`: "space-separated options of a line (OR)", `","`: "comma-separated terms of an option (AND)"}
	ranged := map[string]bool{}
	cut := map[string]string{}
	for _, fi := range decls {
		ast.Inspect(fi.Decl.Body, func(n ast.Node) bool {
			switch x := n.(type) {
			case *ast.RangeStmt:
				if c, ok := unparen(x.X).(*ast.CallExpr); ok && isCallTo(ic.Info, c, "strings.Split", "strings.SplitN") && len(c.Args) >= 2 {
					if tv, ok := ic.Info.Types[c.Args[1]]; ok && tv.Value != nil {
						ranged[tv.Value.ExactString()] = true
					}
				}
				if id, ok := unparen(x.X).(*ast.Ident); ok {
					// ranged-over local defined from a Split
					obj := ic.Info.ObjectOf(id)
					ast.Inspect(fi.Decl.Body, func(m ast.Node) bool {
						if as, ok := m.(*ast.AssignStmt); ok && len(as.Lhs) == 1 && len(as.Rhs) == 1 {
							if lid, ok := as.Lhs[0].(*ast.Ident); ok && ic.Info.ObjectOf(lid) == obj {
								if c, ok := unparen(as.Rhs[0]).(*ast.CallExpr); ok && isCallTo(ic.Info, c, "strings.Split", "strings.SplitN") && len(c.Args) >= 2 {
									if tv, ok := ic.Info.Types[c.Args[1]]; ok && tv.Value != nil {
										ranged[tv.Value.ExactString()] = true
									}
								}
							}
						}
						return true
					})
				}
			case *ast.CallExpr:
				if isCallTo(ic.Info, x, "strings.Cut", "strings.Index", "strings.IndexByte") && len(x.Args) == 2 {
					if tv, ok := ic.Info.Types[x.Args[1]]; ok && tv.Value != nil {
						cut[tv.Value.ExactString()] = funcName(fi.Decl) + " at " + ic.pos(x.Pos())
					}
				}
			}
			return true
		})
	}
	for _, sep := range sortedKeys(seps) {
		key := "constraint-levels/" + strings.Trim(strings.ReplaceAll(sep, "\\n", "newline"), `"`)
		if sep == `" "` {
			key = "constraint-levels/space"
		}
		why := "no loop over strings.Split(_, " + sep + ") in the constraint evaluator"
		if c, ok := cut[sep]; ok {
			why = "the separator " + sep + " is only cut at once (" + c + "), not iterated"
		}
		r.Check(ranged[sep], "R17.6", key, "", "every element of the "+seps[sep]+" is evaluated (range over strings.Split)",
			why+": of the "+seps[sep]+" only the first ones are evaluated, so a constraint with three or more elements at that level is decided on a part of it")
	}
	if nTagLoops == 0 {
		r.Errorf("R17.6: no loop adding to Context.BuildTags found in the constraint evaluator")
	}
	if nGroupLoops == 0 {
		r.Errorf("R17.6: no loop over the file's comment groups found in the constraint evaluator entry")
	}
}

// reachAvoiding reports whether `to` is reachable from `from` without passing through `avoid`.
func reachAvoiding(from, to, avoid *cfg.Block) bool {
	seen := map[*cfg.Block]bool{avoid: true}
	stack := []*cfg.Block{from}
	for len(stack) > 0 {
		b := stack[len(stack)-1]
		stack = stack[:len(stack)-1]
		if seen[b] {
			continue
		}
		seen[b] = true
		if b == to {
			return true
		}
		stack = append(stack, b.Succs...)
	}
	return false
}

// reachesExternal reports whether any in-package function of the reach set mentions the
// external function with the given key.
func reachesExternal(ic *IC, set map[*types.Func]bool, key string) bool {
	for f := range set {
		if shortKey(objKey(f)) == key {
			return true
		}
	}
	return false
}

// checkReleaseTag decides R17.5.
func checkReleaseTag(ic *IC, r *Report, decls []*FuncInfo, delegated bool) {
	if delegated {
		r.Pass("R17.5", "release-tag", "", "delegated to go/build")
		return
	}
	// Which functions read ReleaseTags?
	readsRel := map[*types.Func]*ast.FuncDecl{}
	for _, fi := range decls {
		ast.Inspect(fi.Decl.Body, func(n ast.Node) bool {
			if v := selFieldNode(ic.Info, n); v != nil && v.Name() == "ReleaseTags" && v.Pkg().Path() == "go/build" {
				readsRel[fi.Obj] = fi.Decl
			}
			return true
		})
	}
	if len(readsRel) == 0 {
		r.Fail("R17.5", "release-tag", "", "no reachable function reads Context.ReleaseTags")
		return
	}
	found := false
	for _, fi := range decls {
		ast.Inspect(fi.Decl.Body, func(n ast.Node) bool {
			// Form A: a range over ReleaseTags with an equality (the reference form).
			if rs, ok := n.(*ast.RangeStmt); ok {
				if v := selField(ic.Info, rs.X); v != nil && v.Name() == "ReleaseTags" {
					eq := false
					ast.Inspect(rs.Body, func(m ast.Node) bool {
						if be, ok := m.(*ast.BinaryExpr); ok && be.Op == token.EQL {
							eq = true
						}
						return true
					})
					if eq {
						found = true
						r.Pass("R17.5", "release-tag", ic.pos(rs.Pos()), "membership test over ReleaseTags")
					}
				}
			}
			// Form B: release(ctx) >= n, where release is a call of a function reading ReleaseTags.
			be, ok := n.(*ast.BinaryExpr)
			if !ok {
				return true
			}
			side := func(e ast.Expr) bool {
				call, ok := unparen(e).(*ast.CallExpr)
				if !ok {
					return false
				}
				f, _ := calleeOf(ic.Info, call).(*types.Func)
				return f != nil && readsRel[f] != nil
			}
			var okOrient bool
			switch {
			case side(be.X):
				okOrient = be.Op == token.GEQ
			case side(be.Y):
				okOrient = be.Op == token.LEQ
			default:
				return true
			}
			found = true
			r.Check(okOrient, "R17.5", "release-tag", ic.pos(be.Pos()),
				"go1.N satisfied iff N <= current release", "comparison "+types.ExprString(be)+" is not 'release >= N': go1.N tags are not equivalent to membership in ReleaseTags (go1.1..go1.current)")
			return true
		})
	}
	if !found {
		r.Fail("R17.5", "release-tag", "", "undecided: no comparison between the context's release and the tag's number was recognised")
		return
	}
	// The release must be taken from the last element of ReleaseTags.
	for f, d := range readsRel {
		lastIdx := false
		ranged := false
		ast.Inspect(d.Body, func(n ast.Node) bool {
			switch x := n.(type) {
			case *ast.RangeStmt:
				if v := selField(ic.Info, x.X); v != nil && v.Name() == "ReleaseTags" {
					ranged = true
				}
			case *ast.IndexExpr:
				if v := selField(ic.Info, x.X); v != nil && v.Name() == "ReleaseTags" {
					if be, ok := unparen(x.Index).(*ast.BinaryExpr); ok && be.Op == token.SUB {
						if call, ok := be.X.(*ast.CallExpr); ok {
							if id, ok := call.Fun.(*ast.Ident); ok && id.Name == "len" {
								if one, ok := be.Y.(*ast.BasicLit); ok && one.Value == "1" {
									lastIdx = true
								}
							}
						}
					}
				}
			}
			return true
		})
		r.Check(lastIdx || ranged, "R17.5", "release-source/"+f.Name(), ic.pos(d.Pos()),
			"the current release is the last element of ReleaseTags", "function "+f.Name()+" reads ReleaseTags but not its last element (len-1): the current release is mis-identified")
	}
}

func selFieldNode(info *types.Info, n ast.Node) *types.Var {
	if e, ok := n.(ast.Expr); ok {
		return selField(info, e)
	}
	return nil
}

// impliedPairs extracts the "GOOS=a implies tag b" rules implemented by decls, from
// conditions of the form ctx.GOOS == "a" && t == "b" and from string->string tables
// indexed by (or compared with) the context's GOOS. Pairs are rendered "a=>b".
func impliedPairs(ic *IC, decls []*FuncInfo) (claimed map[string]bool, undecided []string) {
	claimed = map[string]bool{}
	isGOOS := func(e ast.Expr) bool {
		v := selField(ic.Info, e)
		return v != nil && v.Name() == "GOOS" && v.Pkg() != nil && v.Pkg().Path() == "go/build"
	}
	strLit := func(e ast.Expr) (string, bool) {
		if bl, ok := unparen(e).(*ast.BasicLit); ok && bl.Kind == token.STRING {
			return strings.Trim(bl.Value, "\"`"), true
		}
		return "", false
	}
	// string->string tables of the package
	tables := map[*types.Var]map[string]string{}
	for _, f := range ic.Pk.Syntax {
		for _, d := range f.Decls {
			gd, ok := d.(*ast.GenDecl)
			if !ok || gd.Tok != token.VAR {
				continue
			}
			for _, sp := range gd.Specs {
				vs := sp.(*ast.ValueSpec)
				for i, nm := range vs.Names {
					if i >= len(vs.Values) {
						continue
					}
					cl, ok := vs.Values[i].(*ast.CompositeLit)
					if !ok {
						continue
					}
					v, _ := ic.Info.Defs[nm].(*types.Var)
					if v == nil {
						continue
					}
					m, ok := v.Type().Underlying().(*types.Map)
					if !ok || !types.Identical(m.Key(), types.Typ[types.String]) || !types.Identical(m.Elem(), types.Typ[types.String]) {
						continue
					}
					ent := map[string]string{}
					for _, e := range cl.Elts {
						if kv, ok := e.(*ast.KeyValueExpr); ok {
							k, ok1 := strLit(kv.Key)
							val, ok2 := strLit(kv.Value)
							if ok1 && ok2 {
								ent[k] = val
							}
						}
					}
					tables[v] = ent
				}
			}
		}
	}
	tableOf := func(e ast.Expr) (*types.Var, ast.Expr) {
		ix, ok := unparen(e).(*ast.IndexExpr)
		if !ok {
			return nil, nil
		}
		id, ok := unparen(ix.X).(*ast.Ident)
		if !ok {
			return nil, nil
		}
		if v, ok := ic.Info.Uses[id].(*types.Var); ok && tables[v] != nil {
			return v, ix.Index
		}
		return nil, nil
	}
	for _, fi := range decls {
		handled := map[ast.Expr]bool{}
		ast.Inspect(fi.Decl.Body, func(n ast.Node) bool {
			be, ok := n.(*ast.BinaryExpr)
			if !ok {
				return true
			}
			switch be.Op {
			case token.LAND:
				side := func(e ast.Expr) (lit string, goos bool, ok bool) {
					b, isB := unparen(e).(*ast.BinaryExpr)
					if !isB || b.Op != token.EQL {
						return "", false, false
					}
					if l, ok := strLit(b.Y); ok {
						return l, isGOOS(b.X), true
					}
					if l, ok := strLit(b.X); ok {
						return l, isGOOS(b.Y), true
					}
					return "", false, false
				}
				l1, g1, ok1 := side(be.X)
				l2, g2, ok2 := side(be.Y)
				if ok1 && ok2 && g1 != g2 {
					if g1 {
						claimed[l1+"=>"+l2] = true
					} else {
						claimed[l2+"=>"+l1] = true
					}
				}
			case token.EQL:
				for _, pair := range [][2]ast.Expr{{be.X, be.Y}, {be.Y, be.X}} {
					tv, idx := tableOf(pair[0])
					if tv == nil {
						continue
					}
					handled[unparen(pair[0])] = true
					switch {
					case isGOOS(idx):
						for k, v := range tables[tv] {
							claimed[k+"=>"+v] = true
						}
					case isGOOS(pair[1]):
						for k, v := range tables[tv] {
							claimed[v+"=>"+k] = true
						}
					default:
						undecided = append(undecided, "table "+tv.Name()+" is used in "+types.ExprString(be)+" ("+funcName(fi.Decl)+") and neither its index nor the compared value is the context's GOOS")
					}
				}
			}
			return true
		})
		// v := table[ctx.GOOS] idiom and any other use
		ast.Inspect(fi.Decl.Body, func(n ast.Node) bool {
			ix, ok := n.(*ast.IndexExpr)
			if !ok || handled[ix] {
				return true
			}
			tv, idx := tableOf(ix)
			if tv == nil {
				return true
			}
			if isGOOS(idx) {
				for k, v := range tables[tv] {
					claimed[k+"=>"+v] = true
				}
			} else {
				undecided = append(undecided, "table "+tv.Name()+" is indexed by "+types.ExprString(idx)+" in "+funcName(fi.Decl)+", which is not the context's GOOS")
			}
			return true
		})
	}
	return
}

// c17R7: the keep verdicts of the file-name rule. A file name whose last underscore-separated
// element is a known OS other than GOOS, or a known architecture other than GOARCH, is
// excluded by the Go toolchain whatever precedes it (go/build.goodOSArchFile looks at the
// last element first). So on every path of the name rule that ends in "keep the file" (return
// false, or a computed verdict) after the name has been split, the last element must have
// been decided against the OS table and against the architecture table: tested in the table,
// or found equal to GOOS/GOARCH, or found in the other table (the tables are disjoint).
func c17R7(ic *IC, r *Report, skipDecl *FuncInfo, osTab, archTab *types.Var) {
	if osTab == nil || archTab == nil {
		return // delegated form, decided by R17.1
	}
	body := skipDecl.Decl.Body
	name := funcName(skipDecl.Decl)
	info := ic.Info
	// the split of the name and the "last element" expressions
	var splitStmt ast.Node
	var arr types.Object
	ast.Inspect(body, func(n ast.Node) bool {
		if as, ok := n.(*ast.AssignStmt); ok && len(as.Lhs) == 1 && len(as.Rhs) == 1 && splitStmt == nil {
			if c, ok := unparen(as.Rhs[0]).(*ast.CallExpr); ok && isCallTo(info, c, "strings.Split") {
				if id, ok := as.Lhs[0].(*ast.Ident); ok {
					splitStmt, arr = as, info.ObjectOf(id)
				}
			}
		}
		return true
	})
	if splitStmt == nil || arr == nil {
		r.Errorf("R17.7: the split of the file name (strings.Split) was not found in %s", name)
		return
	}
	// the _test suffix is not a constraint: goodOSArchFile removes it before looking at the
	// elements, so x_windows_test.go is excluded on linux like x_windows.go.
	{
		fg := buildFlow(body, info)
		stripped := false
		ast.Inspect(body, func(n ast.Node) bool {
			switch x := n.(type) {
			case *ast.AssignStmt:
				if len(x.Rhs) == 1 {
					if c, ok := unparen(x.Rhs[0]).(*ast.CallExpr); ok && isCallTo(info, c, "strings.TrimSuffix") && len(c.Args) == 2 {
						if tv, ok := info.Types[c.Args[1]]; ok && tv.Value != nil && tv.Value.ExactString() == `"_test"` {
							if d, ok := fg.dominates(x, splitStmt); ok && d {
								stripped = true
							}
						}
					}
				}
			case *ast.IfStmt:
				// every _test file excluded unconditionally
				if c, ok := unparen(x.Cond).(*ast.CallExpr); ok && isCallTo(info, c, "strings.HasSuffix") && len(c.Args) == 2 {
					if tv, ok := info.Types[c.Args[1]]; ok && tv.Value != nil && tv.Value.ExactString() == `"_test"` && len(x.Body.List) == 1 {
						if rs, ok := x.Body.List[0].(*ast.ReturnStmt); ok && len(rs.Results) == 1 && types.ExprString(rs.Results[0]) == "true" {
							if d, ok := fg.dominates(x.Cond, splitStmt); ok && d {
								stripped = true
							}
						}
					}
				}
			}
			return true
		})
		r.Check(stripped, "R17.7", name+"/test-suffix-removed-before-split", ic.pos(splitStmt.Pos()), "the _test suffix is removed before the name is split into elements",
			"the name is split into elements with its _test suffix still attached (no strings.TrimSuffix(name, \"_test\") dominates the split): for x_windows_test.go the last element is \"test\", so the file is loaded on every platform when test files are requested, although the Go toolchain excludes it")
	}
	// the part of the name before the first underscore is never a constraint (windows.go is
	// an ordinary file name): the elements must come from the text after the first "_".
	{
		sc := unparen(splitStmt.(*ast.AssignStmt).Rhs[0]).(*ast.CallExpr)
		arg := unparen(sc.Args[0])
		whole := false
		if id, ok := arg.(*ast.Ident); ok {
			// an identifier: the whole (trimmed) name unless it was cut after the underscore
			whole = true
			obj := info.ObjectOf(id)
			ast.Inspect(body, func(n ast.Node) bool {
				as, ok := n.(*ast.AssignStmt)
				if !ok || as.Pos() > splitStmt.Pos() {
					return true
				}
				for i, l := range as.Lhs {
					lid, ok := l.(*ast.Ident)
					if !ok || info.ObjectOf(lid) != obj {
						continue
					}
					var rhs ast.Expr
					if len(as.Rhs) == len(as.Lhs) {
						rhs = as.Rhs[i]
					} else if len(as.Rhs) == 1 {
						rhs = as.Rhs[0]
					}
					if rhs == nil {
						continue
					}
					if _, isSlice := unparen(rhs).(*ast.SliceExpr); isSlice {
						whole = false
					}
					if c, ok := unparen(rhs).(*ast.CallExpr); ok && isCallTo(info, c, "strings.Cut", "strings.SplitN") {
						whole = false
					}
				}
				return true
			})
		}
		// a later re-slicing of the element list (a = a[1:]) also excludes the prefix
		ast.Inspect(body, func(n ast.Node) bool {
			if as, ok := n.(*ast.AssignStmt); ok && as.Pos() > splitStmt.Pos() && len(as.Lhs) == 1 && len(as.Rhs) == 1 {
				if lid, ok := as.Lhs[0].(*ast.Ident); ok && info.ObjectOf(lid) == arr {
					if _, isSlice := unparen(as.Rhs[0]).(*ast.SliceExpr); isSlice {
						whole = false
					}
				}
			}
			return true
		})
		r.Check(!whole, "R17.7", name+"/prefix-is-not-a-constraint", ic.pos(splitStmt.Pos()), "the elements tested against the tables come from the text after the first underscore",
			"the whole file name is split into elements ("+types.ExprString(sc)+"), so the part before the first underscore can be taken for a GOOS/GOARCH constraint: windows.go or arm.go is skipped on linux/amd64 although the Go toolchain selects it")
	}
	isLenMinus1 := func(e ast.Expr) bool {
		be, ok := unparen(e).(*ast.BinaryExpr)
		if !ok || be.Op != token.SUB {
			return false
		}
		if tv, ok := info.Types[be.Y]; !ok || tv.Value == nil || tv.Value.ExactString() != "1" {
			return false
		}
		c, ok := unparen(be.X).(*ast.CallExpr)
		if !ok || len(c.Args) != 1 {
			return false
		}
		fid, ok := c.Fun.(*ast.Ident)
		if !ok || fid.Name != "len" {
			return false
		}
		aid, ok := unparen(c.Args[0]).(*ast.Ident)
		return ok && info.ObjectOf(aid) == arr
	}
	lastIdx := map[types.Object]bool{}
	lastElt := map[types.Object]bool{}
	var isLast func(e ast.Expr) bool
	isLast = func(e ast.Expr) bool {
		switch x := unparen(e).(type) {
		case *ast.Ident:
			return lastElt[info.ObjectOf(x)]
		case *ast.IndexExpr:
			aid, ok := unparen(x.X).(*ast.Ident)
			if !ok || info.ObjectOf(aid) != arr {
				return false
			}
			if isLenMinus1(x.Index) {
				return true
			}
			if iid, ok := unparen(x.Index).(*ast.Ident); ok && lastIdx[info.ObjectOf(iid)] {
				return true
			}
		}
		return false
	}
	for round := 0; round < 2; round++ {
		ast.Inspect(body, func(n ast.Node) bool {
			as, ok := n.(*ast.AssignStmt)
			if !ok || len(as.Lhs) != len(as.Rhs) {
				return true
			}
			for i, l := range as.Lhs {
				id, ok := l.(*ast.Ident)
				if !ok {
					continue
				}
				if isLenMinus1(as.Rhs[i]) {
					lastIdx[info.ObjectOf(id)] = true
				}
				if isLast(as.Rhs[i]) {
					lastElt[info.ObjectOf(id)] = true
				}
			}
			return true
		})
	}
	if len(lastElt) == 0 {
		r.Errorf("R17.7: no variable holding the last element of the split name recognised in %s", name)
		return
	}
	// atoms
	const (
		fOS   = 1
		fARCH = 2
	)
	isCtxField := func(e ast.Expr, f string) bool {
		v := selField(info, e)
		return v != nil && v.Name() == f && v.Pkg() != nil && v.Pkg().Path() == "go/build"
	}
	// atomFacts returns the facts established on the true and on the false outcome of cond
	// (a single comparison or table lookup; go/cfg has already split && and ||).
	var atomFacts func(cond ast.Expr) (t, f int)
	atomFacts = func(cond ast.Expr) (int, int) {
		switch x := unparen(cond).(type) {
		case *ast.IndexExpr:
			if id, ok := unparen(x.X).(*ast.Ident); ok && isLast(x.Index) {
				switch info.ObjectOf(id) {
				case types.Object(osTab):
					return fOS | fARCH, fOS
				case types.Object(archTab):
					return fOS | fARCH, fARCH
				}
			}
		case *ast.BinaryExpr:
			// go/cfg splits && and || of if conditions, not of switch cases: combine here.
			if x.Op == token.LAND {
				at, af := atomFacts(x.X)
				bt, bf := atomFacts(x.Y)
				return at | bt, af & (at | bf)
			}
			if x.Op == token.LOR {
				at, af := atomFacts(x.X)
				bt, bf := atomFacts(x.Y)
				return at & (af | bt), af | bf
			}
			if x.Op == token.EQL || x.Op == token.NEQ {
				a, b := x.X, x.Y
				if !isLast(a) {
					a, b = b, a
				}
				if isLast(a) && (isCtxField(b, "GOOS") || isCtxField(b, "GOARCH")) {
					if x.Op == token.EQL {
						return fOS | fARCH, 0
					}
					return 0, fOS | fARCH
				}
			}
		case *ast.UnaryExpr:
			if x.Op == token.NOT {
				t, f := atomFacts(x.X)
				return f, t
			}
		}
		return 0, 0
	}
	exprFacts := func(e ast.Expr) int {
		facts := 0
		ast.Inspect(e, func(m ast.Node) bool {
			if ex, ok := m.(ast.Expr); ok {
				t, f := atomFacts(ex)
				facts |= t & f // established whatever the outcome
				if be, ok := ex.(*ast.BinaryExpr); ok && (be.Op == token.EQL || be.Op == token.NEQ) {
					if t|f == fOS|fARCH {
						facts |= fOS | fARCH // y == GOOS / y != GOARCH as the verdict itself
					}
				}
			}
			return true
		})
		return facts
	}
	g := cfg.New(body, func(c *ast.CallExpr) bool { return !noReturn(info, c) })
	// forward must-analysis, facts per block entry (start: after the split; before it: "top")
	const top = fOS | fARCH | 4
	in := map[*cfg.Block]int{}
	for _, b := range g.Blocks {
		in[b] = top
	}
	if len(g.Blocks) > 0 {
		in[g.Blocks[0]] = 4 // entry: nothing decided; bit 4 = "split not yet executed"
	}
	type verdict struct {
		ret   *ast.ReturnStmt
		facts int
	}
	var verdicts []verdict
	for iter, changed := 0, true; changed && iter < 100; iter++ {
		changed = false
		verdicts = verdicts[:0]
		for _, b := range g.Blocks {
			if !b.Live {
				continue
			}
			st := in[b]
			for _, n := range b.Nodes {
				if n == splitStmt {
					st = 0
				}
				if rs, ok := n.(*ast.ReturnStmt); ok && len(rs.Results) == 1 && st&4 == 0 {
					verdicts = append(verdicts, verdict{rs, st | exprFacts(rs.Results[0])})
				}
			}
			outT, outF := st, st
			if len(b.Succs) == 2 && len(b.Nodes) > 0 {
				if cond, ok := b.Nodes[len(b.Nodes)-1].(ast.Expr); ok && st&4 == 0 {
					t, f := atomFacts(cond)
					outT, outF = st|t, st|f
				}
			}
			for i, s := range b.Succs {
				o := outT
				if i == 1 {
					o = outF
				}
				if n := in[s] & o; n != in[s] {
					in[s] = n
					changed = true
				}
			}
		}
	}
	nKeep := 0
	for _, v := range verdicts {
		isTrue := false
		if id, ok := unparen(v.ret.Results[0]).(*ast.Ident); ok && id.Name == "true" {
			isTrue = true
		}
		if isTrue {
			continue // an exclusion verdict needs no further look at the name
		}
		nKeep++
		var missing []string
		if v.facts&fOS == 0 {
			missing = append(missing, "the OS table")
		}
		if v.facts&fARCH == 0 {
			missing = append(missing, "the architecture table")
		}
		key := fmt.Sprintf("%s/keep-verdict#%d/last-element-decided", name, nKeep)
		r.Check(len(missing) == 0, "R17.7", key, ic.pos(v.ret.Pos()), "the last name element has been decided against both tables on every path to this verdict",
			"some path reaches this verdict ("+types.ExprString(v.ret.Results[0])+", the file may be kept) without the last element of the name having been checked against "+strings.Join(missing, " and ")+": a file such as x_foo_windows.go or x_linux_windows.go is loaded on linux although the Go toolchain excludes it (goodOSArchFile decides on the last element)")
	}
	if nKeep == 0 {
		r.Errorf("R17.7: no keep verdict found after the split in %s", name)
	}
}

// c17R8: the tags of yaegi:tags comments are added by the files that take part. In the
// constraint evaluator, no negative verdict (a return whose first result is not the constant
// true) is reachable on the flow graph after a statement that adds to Context.BuildTags,
// directly or through an in-package function: a file rejected by its own constraints must not
// have changed the tag set used for every file loaded afterwards.
func c17R8(ic *IC, r *Report, decls []*FuncInfo, okDecl *FuncInfo) {
	if okDecl == nil || okDecl.Decl.Body == nil {
		return
	}
	info := ic.Info
	addsDirect := func(n ast.Node) bool {
		found := false
		ast.Inspect(n, func(m ast.Node) bool {
			if as, ok := m.(*ast.AssignStmt); ok {
				for _, l := range as.Lhs {
					if v := selField(info, l); v != nil && v.Pkg() != nil && v.Pkg().Path() == "go/build" && v.Name() == "BuildTags" {
						found = true
					}
				}
			}
			return !found
		})
		return found
	}
	adders := map[*types.Func]bool{}
	for changed := true; changed; {
		changed = false
		for _, fi := range ic.F {
			if fi.Decl.Body == nil || fi.Obj == nil || adders[fi.Obj] {
				continue
			}
			is := addsDirect(fi.Decl.Body)
			if !is {
				ast.Inspect(fi.Decl.Body, func(m ast.Node) bool {
					if c, ok := m.(*ast.CallExpr); ok {
						if f, ok := calleeOf(info, c).(*types.Func); ok && adders[f] {
							is = true
						}
					}
					return !is
				})
			}
			if is {
				adders[fi.Obj] = true
				changed = true
			}
		}
	}
	delete(adders, okDecl.Obj)
	isAdd := func(n ast.Node) bool {
		if addsDirect(n) {
			return true
		}
		found := false
		ast.Inspect(n, func(m ast.Node) bool {
			if _, ok := m.(*ast.FuncLit); ok {
				return false
			}
			if c, ok := m.(*ast.CallExpr); ok {
				if f, ok := calleeOf(info, c).(*types.Func); ok && adders[f] {
					found = true
				}
			}
			return !found
		})
		return found
	}
	g := cfg.New(okDecl.Decl.Body, func(c *ast.CallExpr) bool { return !noReturn(info, c) })
	name := funcName(okDecl.Decl)
	nAdds := 0
	for _, b := range g.Blocks {
		for i, n := range b.Nodes {
			if !isAdd(n) {
				continue
			}
			nAdds++
			// forward from the node after n
			var bad []string
			seen := map[*cfg.Block]bool{}
			var scan func(nodes []ast.Node) bool
			scan = func(nodes []ast.Node) bool {
				for _, m := range nodes {
					if rs, ok := m.(*ast.ReturnStmt); ok {
						if len(rs.Results) == 0 {
							bad = append(bad, "a bare return at "+ic.pos(rs.Pos()))
						} else if tv, ok := info.Types[rs.Results[0]]; !ok || tv.Value == nil || tv.Value.Kind() != constant.Bool || !constant.BoolVal(tv.Value) {
							bad = append(bad, "return "+types.ExprString(rs.Results[0])+" at "+ic.pos(rs.Pos()))
						}
						return true
					}
				}
				return false
			}
			var walk func(bb *cfg.Block)
			walk = func(bb *cfg.Block) {
				if seen[bb] {
					return
				}
				seen[bb] = true
				if scan(bb.Nodes) {
					return
				}
				for _, s := range bb.Succs {
					walk(s)
				}
			}
			if !scan(b.Nodes[i+1:]) {
				for _, s := range b.Succs {
					walk(s)
				}
			}
			r.Check(len(bad) == 0, "R17.8", fmt.Sprintf("%s/tags-added#%d/only-by-selected-files", name, nAdds), ic.pos(n.Pos()), "no negative verdict is reachable after the tags are added",
				name+" adds yaegi:tags to Context.BuildTags here and can still reach "+strings.Join(dedupStr(bad), ", ")+": a file excluded by its own constraints has already changed the tag set, which persists for every file and package loaded afterwards (the Go toolchain only ever uses the tags it was given)")
		}
	}
	if nAdds == 0 {
		r.Note("R17.8: the constraint evaluator adds no tag itself (yaegi:tags handled elsewhere)")
	}
}

// c17R9: a tag listed in Context.BuildTags is satisfied whatever else it looks like (go/build's
// matchTag is a disjunction: a custom tag spelled like an OS, an architecture or a release is
// still a tag that was set). Decided by a three-valued abstract interpretation of the boolean
// result of every in-package function that tests membership in BuildTags, on its flow graph
// pruned under "the membership test is true" and "the tag is not negated": every reachable
// return yields true.
func c17R9(ic *IC, r *Report, decls []*FuncInfo) {
	info := ic.Info
	n := 0
	for _, fi := range decls {
		if fi.Decl.Body == nil || fi.Obj == nil {
			continue
		}
		sig := fi.Obj.Type().(*types.Signature)
		if sig.Results().Len() != 1 || !types.Identical(sig.Results().At(0).Type(), types.Typ[types.Bool]) {
			continue
		}
		isMember := func(e ast.Expr) bool {
			c, ok := e.(*ast.CallExpr)
			if !ok {
				return false
			}
			for _, a := range c.Args {
				if v := selField(info, a); v != nil && v.Pkg() != nil && v.Pkg().Path() == "go/build" && v.Name() == "BuildTags" {
					return true
				}
			}
			return false
		}
		has := false
		ast.Inspect(fi.Decl.Body, func(m ast.Node) bool {
			if e, ok := m.(ast.Expr); ok && isMember(e) {
				has = true
			}
			return !has
		})
		if !has {
			continue
		}
		// a function that adds tags tests membership to avoid duplicates: not an evaluator
		writes := false
		ast.Inspect(fi.Decl.Body, func(m ast.Node) bool {
			if as, ok := m.(*ast.AssignStmt); ok {
				for _, l := range as.Lhs {
					if v := selField(info, l); v != nil && v.Pkg() != nil && v.Pkg().Path() == "go/build" && v.Name() == "BuildTags" {
						writes = true
					}
				}
			}
			return !writes
		})
		if writes {
			continue
		}
		n++
		// negation flags: boolean locals defined from a comparison with the character '!'
		negFlags := map[types.Object]bool{}
		ast.Inspect(fi.Decl.Body, func(m ast.Node) bool {
			as, ok := m.(*ast.AssignStmt)
			if !ok || len(as.Lhs) != 1 || len(as.Rhs) != 1 {
				return true
			}
			mentionsBang := false
			ast.Inspect(as.Rhs[0], func(k ast.Node) bool {
				if bl, ok := k.(*ast.BasicLit); ok && (bl.Value == "'!'" || bl.Value == `"!"`) {
					mentionsBang = true
				}
				return true
			})
			if id, ok := as.Lhs[0].(*ast.Ident); ok && mentionsBang {
				if t := info.TypeOf(id); t != nil && types.Identical(t.Underlying(), types.Typ[types.Bool]) {
					negFlags[info.ObjectOf(id)] = true
				}
			}
			return true
		})
		var resVar types.Object
		if sig.Results().At(0).Name() != "" {
			resVar = sig.Results().At(0)
		}
		g := cfg.New(fi.Decl.Body, func(c *ast.CallExpr) bool { return !noReturn(info, c) })
		// state: value of the named result at block entry; -2 = not reached
		const bottom = -2
		in := map[*cfg.Block]int{}
		for _, b := range g.Blocks {
			in[b] = bottom
		}
		join := func(a, b int) int {
			if a == bottom {
				return b
			}
			if b == bottom || a == b {
				return a
			}
			return triUnknown
		}
		mkAtom := func(cur *int) func(ast.Expr) int {
			return func(e ast.Expr) int {
				if isMember(e) {
					return triTrue
				}
				if id, ok := e.(*ast.Ident); ok {
					o := info.ObjectOf(id)
					if negFlags[o] {
						return triFalse
					}
					if resVar != nil && o == resVar {
						return *cur
					}
					if tv, ok := info.Types[e]; ok && tv.Value != nil && tv.Value.Kind() == constant.Bool {
						if constant.BoolVal(tv.Value) {
							return triTrue
						}
						return triFalse
					}
				}
				return triUnknown
			}
		}
		var bad []string
		if len(g.Blocks) > 0 {
			in[g.Blocks[0]] = triFalse // zero value of the named result
			work := []*cfg.Block{g.Blocks[0]}
			iter := 0
			for len(work) > 0 && iter < 10000 {
				iter++
				b := work[0]
				work = work[1:]
				cur := in[b]
				atom := mkAtom(&cur)
				returned := false
				for _, nd := range b.Nodes {
					switch x := nd.(type) {
					case *ast.AssignStmt:
						for i, l := range x.Lhs {
							if id, ok := l.(*ast.Ident); ok && resVar != nil && info.ObjectOf(id) == resVar {
								if len(x.Lhs) == len(x.Rhs) {
									cur = evalCond(x.Rhs[i], atom)
								} else {
									cur = triUnknown
								}
							}
						}
					case *ast.ReturnStmt:
						returned = true
					}
				}
				if returned {
					continue
				}
				succs := b.Succs
				if len(b.Succs) == 2 && len(b.Nodes) > 0 {
					if cond, ok := b.Nodes[len(b.Nodes)-1].(ast.Expr); ok {
						switch evalCond(cond, atom) {
						case triTrue:
							succs = b.Succs[:1]
						case triFalse:
							succs = b.Succs[1:]
						}
					}
				}
				for _, s := range succs {
					if nv := join(in[s], cur); nv != in[s] {
						in[s] = nv
						work = append(work, s)
					}
				}
			}
			// verdicts at the reachable returns (second pass with the fixpoint states)
			for _, b := range g.Blocks {
				if in[b] == bottom {
					continue
				}
				cur := in[b]
				atom := mkAtom(&cur)
				for _, nd := range b.Nodes {
					switch x := nd.(type) {
					case *ast.AssignStmt:
						for i, l := range x.Lhs {
							if id, ok := l.(*ast.Ident); ok && resVar != nil && info.ObjectOf(id) == resVar {
								if len(x.Lhs) == len(x.Rhs) {
									cur = evalCond(x.Rhs[i], atom)
								} else {
									cur = triUnknown
								}
							}
						}
					case *ast.ReturnStmt:
						v := cur
						what := "return (named result)"
						if len(x.Results) == 1 {
							v = evalCond(x.Results[0], atom)
							what = "return " + types.ExprString(x.Results[0])
						}
						if v != triTrue {
							bad = append(bad, what+" at "+ic.pos(x.Pos()))
						}
					}
				}
			}
		}
		name := funcName(fi.Decl)
		r.Check(len(bad) == 0, "R17.9", name+"/set-tag-is-satisfied", ic.pos(fi.Decl.Pos()), "a tag found in Context.BuildTags always evaluates to true",
			"for a tag that is listed in Context.BuildTags and not negated, "+name+" can reach "+strings.Join(dedupStr(bad), ", ")+" whose value is not definitely true: a custom tag spelled like an OS, an architecture or a release (-tags linux on darwin) is evaluated by that other rule only, while go/build's matchTag accepts every tag that was set")
	}
	if n == 0 {
		r.Errorf("R17.9: no boolean function testing membership in Context.BuildTags is reachable from the constraint evaluator")
	}
}
