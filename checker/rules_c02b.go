package main

import (
	"fmt"
	"go/ast"
	"go/token"
	"go/types"
	"strings"
)

// R02.7: the "store directly into the destination" optimisation of cfg. An operand node may
// take over the frame slot of the destination of the assignment it belongs to
// (A.findex = D.findex with D a child of the assignment node X, A not X itself) only when X is
// a plain assignment: for a compound assignment (x op= y) the generator of X reads x after y
// has been evaluated, so an operand that already wrote into x's slot makes x op= y compute
// y op y (or y alone).

type pathGuard struct {
	cond ast.Expr
	want bool
}

// pathGuards returns the conditions that must hold for control to reach target inside root:
// enclosing if conditions with their polarity, and for expression-less switches the negation
// of every earlier case together with the own case (when it has a single expression).
func pathGuards(root, target ast.Node) []pathGuard {
	var gs []pathGuard
	path := enclosingPath(root, target)
	for i, p := range path {
		switch x := p.(type) {
		case *ast.IfStmt:
			if i+1 < len(path) {
				switch path[i+1] {
				case ast.Node(x.Body):
					gs = append(gs, pathGuard{x.Cond, true})
				case x.Else:
					gs = append(gs, pathGuard{x.Cond, false})
				}
			}
		case *ast.SwitchStmt:
			if x.Tag != nil || i+2 >= len(path) {
				continue
			}
			own, _ := path[i+2].(*ast.CaseClause)
			if own == nil {
				continue
			}
			for _, s := range x.Body.List {
				cc := s.(*ast.CaseClause)
				if cc == own {
					if len(cc.List) == 1 {
						gs = append(gs, pathGuard{cc.List[0], true})
					}
					break
				}
				for _, e := range cc.List {
					gs = append(gs, pathGuard{e, false})
				}
			}
		}
	}
	return gs
}

func (x *c02ctx) r7() {
	ic, r := x.ic, x.r
	cfgFn := ic.fn(r, "Interpreter.cfg")
	if cfgFn == nil {
		return
	}
	findex := ic.field("node", "findex")
	child := ic.field("node", "child")
	action := ic.field("node", "action")
	kind := ic.field("node", "kind")
	if findex == nil || child == nil || action == nil || kind == nil {
		r.Errorf("anchor not resolved: fields findex/child/action/kind of node")
		return
	}
	constNamed := func(e ast.Expr, name string) bool {
		id, ok := unparen(e).(*ast.Ident)
		if !ok {
			return false
		}
		c, ok := ic.Info.Uses[id].(*types.Const)
		return ok && c.Name() == name
	}
	// defining expression of a local identifier (short variable declaration or assignment at its declaration)
	defOf := func(id *ast.Ident) ast.Expr {
		obj := ic.Info.ObjectOf(id)
		if obj == nil {
			return nil
		}
		var out ast.Expr
		ast.Inspect(cfgFn.Decl.Body, func(n ast.Node) bool {
			if out != nil {
				return false
			}
			if as, ok := n.(*ast.AssignStmt); ok && as.Tok == token.DEFINE && len(as.Lhs) == len(as.Rhs) {
				for i, l := range as.Lhs {
					if lid, ok := l.(*ast.Ident); ok && ic.Info.Defs[lid] == obj {
						out = as.Rhs[i]
					}
				}
			}
			return true
		})
		return out
	}
	// ownerOf returns X when e is X.child[...] (possibly through a local defined that way).
	var ownerOf func(e ast.Expr, depth int) ast.Expr
	ownerOf = func(e ast.Expr, depth int) ast.Expr {
		e = unparen(e)
		if ix, ok := e.(*ast.IndexExpr); ok {
			if selField(ic.Info, ix.X) == child {
				return ix.X.(*ast.SelectorExpr).X
			}
			return nil
		}
		if id, ok := e.(*ast.Ident); ok && depth < 3 {
			if d := defOf(id); d != nil {
				return ownerOf(d, depth+1)
			}
		}
		return nil
	}
	n := 0
	nested := 0
	seen := map[string]int{}
	ast.Inspect(cfgFn.Decl.Body, func(nd ast.Node) bool {
		as, ok := nd.(*ast.AssignStmt)
		if !ok || as.Tok != token.ASSIGN || len(as.Lhs) != 1 || len(as.Rhs) != 1 {
			return true
		}
		if selField(ic.Info, as.Lhs[0]) != findex || selField(ic.Info, as.Rhs[0]) != findex {
			return true
		}
		a := as.Lhs[0].(*ast.SelectorExpr).X
		d := as.Rhs[0].(*ast.SelectorExpr).X
		xo := ownerOf(d, 0)
		if xo == nil {
			return true
		}
		aS, xS := types.ExprString(a), types.ExprString(xo)
		if aS == xS {
			return true // a node reusing the slot of one of its own children
		}
		// A must be an operand of X too: defined from X.child[...] or X being A.anc
		if ao := ownerOf(a, 0); !(ao != nil && types.ExprString(ao) == xS) && xS != aS+".anc" {
			if strings.HasPrefix(xS, aS+".anc.anc") {
				// R02.12: A is an operand of an operand of X. While the rest of the expression is
				// evaluated the destination may still be read (x = a*b + x): only the expression
				// that is itself assigned may be computed in the destination.
				r.Fail("R02.12", "cfg/nested-operand-stored-in-the-destination:"+aS+"<-"+types.ExprString(d), ic.pos(as.Pos()),
					"cfg makes "+aS+", an operand of the expression being assigned (its grandparent "+xS+" is the assignment), compute its value in the destination's frame slot ("+strings.TrimSpace(types.ExprString(as.Lhs[0])+" = "+types.ExprString(as.Rhs[0]))+"): the other operand is evaluated afterwards and can read the destination, so x = a*b + x adds a*b to itself")
				nested++
			}
			return true
		}
		n++
		atom := func(e ast.Expr) int {
			be, ok := e.(*ast.BinaryExpr)
			if !ok || (be.Op != token.EQL && be.Op != token.NEQ) {
				return triUnknown
			}
			f := selField(ic.Info, be.X)
			if f == nil || types.ExprString(be.X.(*ast.SelectorExpr).X) != xS {
				return triUnknown
			}
			res := triUnknown
			switch {
			case f == action && constNamed(be.Y, "aAssign"):
				res = triFalse // assumption: X is a compound assignment
			case f == kind && constNamed(be.Y, "defineStmt"):
				res = triFalse
			case f == kind && constNamed(be.Y, "assignStmt"):
				res = triTrue
			}
			if res != triUnknown && be.Op == token.NEQ {
				res = 1 - res
			}
			return res
		}
		infeasible := ""
		for _, g := range pathGuards(cfgFn.Decl.Body, as) {
			v := evalCond(g.cond, atom)
			if (g.want && v == triFalse) || (!g.want && v == triTrue) {
				infeasible = types.ExprString(g.cond)
				break
			}
		}
		// key: the case clause of the node-kind switch this site belongs to
		where := ""
		for _, p := range enclosingPath(cfgFn.Decl.Body, as) {
			if cc, ok := p.(*ast.CaseClause); ok && where == "" && len(cc.List) > 0 {
				if id, ok := cc.List[0].(*ast.Ident); ok {
					if _, isConst := ic.Info.Uses[id].(*types.Const); isConst {
						where = id.Name
					}
				}
			}
		}
		key := fmt.Sprintf("cfg/case:%s/direct-store:%s<-%s", where, aS, types.ExprString(d))
		seen[key]++
		key = fmt.Sprintf("%s#%d", key, seen[key])
		r.Check(infeasible != "", "R02.7", key, ic.pos(as.Pos()), "excluded for compound assignments by "+infeasible,
			"operand "+aS+" takes over the frame slot of the assignment's destination ("+strings.TrimSpace(types.ExprString(as.Lhs[0])+" = "+types.ExprString(as.Rhs[0]))+") on a path that does not require "+xS+".action == aAssign: in x op= <expr> the operand overwrites x before the compound operator reads it, so x -= -y computes (-y) - (-y)")
		return true
	})
	if n < 5 {
		r.Errorf("R02.7: only %d direct-store sites found in cfg (5 confirmed by reading)", n)
	}
	if nested == 0 {
		r.Pass("R02.12", "cfg/no-nested-operand-stored-in-a-destination", "", fmt.Sprintf("%d direct-store sites: each is the assigned expression itself, none an operand of it", n))
	}
}

// R02.8: the "store directly into the result slot" optimisation of cfg. The operand of a
// return statement may write into the frame's result area while it is evaluated only if no
// other operand can read that slot afterwards: a single returned value, or unnamed results
// (which no expression can name). With named results and several operands,
// `return y+1, x+1` would overwrite x before x+1 is evaluated.
func (x *c02ctx) r8() {
	ic, r := x.ic, x.r
	cfgFn := ic.fn(r, "Interpreter.cfg")
	if cfgFn == nil {
		return
	}
	findex := ic.field("node", "findex")
	kind := ic.field("node", "kind")
	anc := ic.field("node", "anc")
	child := ic.field("node", "child")
	if findex == nil || kind == nil || anc == nil || child == nil {
		r.Errorf("anchor not resolved: fields findex/kind/anc/child of node")
		return
	}
	isConst := func(e ast.Expr, name string) bool {
		id, ok := unparen(e).(*ast.Ident)
		if !ok {
			return false
		}
		c, ok := ic.Info.Uses[id].(*types.Const)
		return ok && c.Name() == name
	}
	// atoms under the assumption: the parent is a return statement with several operands,
	// in a function whose results are named.
	var atom func(e ast.Expr) int
	mentionsReturn := false
	depth := 0
	atom = func(e ast.Expr) int {
		switch v := e.(type) {
		case *ast.BinaryExpr:
			if v.Op == token.EQL || v.Op == token.NEQ {
				res := triUnknown
				// X.anc.kind == returnStmt
				if selField(ic.Info, v.X) == kind && isConst(v.Y, "returnStmt") {
					if se, ok := unparen(v.X).(*ast.SelectorExpr); ok && selField(ic.Info, se.X) == anc {
						mentionsReturn = true
						res = triTrue
					}
				}
				// len(X.anc.child) == 1
				if c, ok := unparen(v.X).(*ast.CallExpr); ok && len(c.Args) == 1 {
					if id, ok := c.Fun.(*ast.Ident); ok && id.Name == "len" && selField(ic.Info, c.Args[0]) == child {
						if tv, ok := ic.Info.Types[v.Y]; ok && tv.Value != nil && tv.Value.ExactString() == "1" {
							res = triFalse
						}
					}
				}
				if res != triUnknown && v.Op == token.NEQ {
					res = 1 - res
				}
				return res
			}
			if v.Op == token.GTR || v.Op == token.LSS || v.Op == token.GEQ || v.Op == token.LEQ {
				// len(X.anc.child) > 1 and its spellings
				if c, ok := unparen(v.X).(*ast.CallExpr); ok && len(c.Args) == 1 {
					if id, ok := c.Fun.(*ast.Ident); ok && id.Name == "len" && selField(ic.Info, c.Args[0]) == child {
						if tv, ok := ic.Info.Types[v.Y]; ok && tv.Value != nil {
							switch {
							case v.Op == token.GTR && tv.Value.ExactString() == "1", v.Op == token.GEQ && tv.Value.ExactString() == "2":
								return triTrue
							case v.Op == token.LSS && tv.Value.ExactString() == "2", v.Op == token.LEQ && tv.Value.ExactString() == "1":
								return triFalse
							}
						}
					}
				}
			}
		case *ast.CallExpr:
			f, ok := calleeOf(ic.Info, v).(*types.Func)
			if !ok || f.Pkg() != ic.Pk.Types {
				return triUnknown
			}
			if canonKey(f.Pkg(), shortKey(objKey(f))) == "interp.mustReturnValue" {
				return triFalse // results are named
			}
			// a helper whose body is a single return of a boolean expression: evaluate it
			if fi := ic.G.Funcs[f]; fi != nil && fi.Decl.Body != nil && len(fi.Decl.Body.List) == 1 && depth < 2 {
				if rs, ok := fi.Decl.Body.List[0].(*ast.ReturnStmt); ok && len(rs.Results) == 1 {
					depth++
					res := evalCond(rs.Results[0], atom)
					depth--
					return res
				}
			}
		}
		return triUnknown
	}
	n := 0
	seen := map[string]int{}
	ast.Inspect(cfgFn.Decl.Body, func(nd ast.Node) bool {
		as, ok := nd.(*ast.AssignStmt)
		if !ok || as.Tok != token.ASSIGN {
			return true
		}
		isF := false
		for _, l := range as.Lhs {
			if selField(ic.Info, l) == findex {
				isF = true
			}
		}
		if !isF {
			return true
		}
		guards := pathGuards(cfgFn.Decl.Body, as)
		// is this site under a "parent is a return statement" condition (positively)?
		under := false
		infeasible := ""
		for _, g := range guards {
			mentionsReturn = false
			v := evalCond(g.cond, atom)
			if mentionsReturn && g.want {
				under = true
			}
			if (g.want && v == triFalse) || (!g.want && v == triTrue) {
				if infeasible == "" {
					infeasible = types.ExprString(g.cond)
				}
			}
		}
		if !under {
			return true
		}
		n++
		where := ""
		for _, p := range enclosingPath(cfgFn.Decl.Body, as) {
			if cc, ok := p.(*ast.CaseClause); ok && where == "" && len(cc.List) > 0 {
				if id, ok := cc.List[0].(*ast.Ident); ok {
					if _, isC := ic.Info.Uses[id].(*types.Const); isC {
						where = id.Name
					}
				}
			}
		}
		key := fmt.Sprintf("cfg/case:%s/return-direct-store", where)
		seen[key]++
		key = fmt.Sprintf("%s#%d", key, seen[key])
		// the slot is the one of the operand's own position
		if tv, ok := ic.Info.Types[as.Rhs[0]]; ok && tv.Value != nil {
			r.Check(infeasible != "", "R02.8", key+"/slot-index", ic.pos(as.Pos()), "constant slot, but only a single operand can reach this store",
				"the operand of a return statement is stored at the constant result slot "+tv.Value.ExactString()+" whatever its position in the return statement: in return 7, len(s) the builtin call overwrites the first result and the second one is never set")
		}
		r.Check(infeasible != "", "R02.8", key, ic.pos(as.Pos()), "excluded for several operands with named results by "+infeasible,
			"an operand of a return statement writes straight into the frame's result area ("+types.ExprString(as.Lhs[0])+" = "+types.ExprString(as.Rhs[0])+") also when several values are returned from a function with named results: in func f() (x, y int) { ...; return y + 1, x + 1 } the first operand overwrites x before the second one reads it")
		return true
	})
	if n < 5 {
		r.Errorf("R02.8: only %d direct stores into the result area found in cfg (6 confirmed by reading)", n)
	}
	// run-time generators take the slot cfg decided (n.findex); a generator that derives the
	// result slot from the operand's position bypasses the decision above
	nGen, nBad := 0, 0
	for _, name := range sortedKeys(ic.F) {
		fi := ic.F[name]
		if fi.Decl.Body == nil || fi.Obj == nil || fi.Decl.Recv != nil {
			continue
		}
		sig := fi.Obj.Type().(*types.Signature)
		if sig.Params().Len() != 1 || sig.Results().Len() != 0 || !isNamedPtr(sig.Params().At(0).Type(), "node") {
			continue
		}
		nGen++
		for _, c := range callsIn(ic.Info, fi.Decl.Body, true, "interp.childPos") {
			// only a position used to index a frame's data vector is a slot (a position used to
			// pick a sibling node, as the per-iteration loop-variable generator does, is not)
			posVars := map[types.Object]bool{}
			ast.Inspect(fi.Decl.Body, func(m ast.Node) bool {
				if as, ok := m.(*ast.AssignStmt); ok && len(as.Lhs) == len(as.Rhs) {
					for i, rhs := range as.Rhs {
						if rhs.Pos() <= c.Pos() && c.End() <= rhs.End() {
							if id, ok := as.Lhs[i].(*ast.Ident); ok {
								if t := ic.Info.TypeOf(id); t != nil && types.Identical(t.Underlying(), types.Typ[types.Int]) {
									posVars[ic.Info.ObjectOf(id)] = true
								}
							}
						}
					}
				}
				return true
			})
			usedAsSlot := false
			dataFld := ic.field("frame", "data")
			ast.Inspect(fi.Decl.Body, func(m ast.Node) bool {
				ix, ok := m.(*ast.IndexExpr)
				if !ok {
					return true
				}
				isVec := selField(ic.Info, ix.X) == dataFld
				if t := ic.Info.TypeOf(ix.X); t != nil && types.TypeString(t, nil) == "[]reflect.Value" {
					isVec = true
				}
				if !isVec {
					return true
				}
				ast.Inspect(ix.Index, func(k ast.Node) bool {
					if k == ast.Node(c) {
						usedAsSlot = true
					}
					if id, ok := k.(*ast.Ident); ok && posVars[ic.Info.ObjectOf(id)] {
						usedAsSlot = true
					}
					return true
				})
				return true
			})
			if !usedAsSlot {
				continue
			}
			excluded := false
			for _, g := range pathGuards(fi.Decl.Body, c) {
				v := evalCond(g.cond, atom)
				if (g.want && v == triFalse) || (!g.want && v == triTrue) {
					excluded = true
				}
			}
			if excluded {
				r.Pass("R02.8", name+"/slot-from-position", ic.pos(c.Pos()), "the position is used as the slot only where a direct store into the result area is allowed")
				nBad++ // counted: the summary obligation below is for the zero case only
				continue
			}
			nBad++
			r.Fail("R02.8", name+"/slot-from-position", ic.pos(c.Pos()), "the run-time generator "+name+" derives a frame slot from the operand's position (childPos) instead of using the slot allotted by cfg (n.findex): for a return with several operands and named results the call writes over a result that a later operand still reads")
		}
	}
	if nGen < 50 {
		r.Errorf("R02.8: only %d run-time generators (func(*node)) found", nGen)
	}
	if nBad == 0 {
		r.Pass("R02.8", "generators/slot-from-findex", "", fmt.Sprintf("%d run-time generators, none calls childPos", nGen))
	}
}

func isNamedPtr(t types.Type, name string) bool {
	p, ok := t.(*types.Pointer)
	if !ok {
		return false
	}
	n, ok := p.Elem().(*types.Named)
	return ok && n.Obj().Name() == name
}

// R02.9: the operator of an expression is fixed by its source token (R02.1). Outside the AST
// builder no statement gives a node another operator action, nor another operator generator:
// rewriting !(a < b) into a >= b, or a - b into a + (-b), is not value-preserving for every
// operand (NaN, wrap-around, -0). Operator actions/generators are those R02.1/R02.2 map from
// Go operator tokens.
func (x *c02ctx) r9() {
	ic, r := x.ic, x.r
	actionFld := ic.field("node", "action")
	genFld := ic.field("node", "gen")
	if actionFld == nil || genFld == nil {
		r.Errorf("anchor not resolved: node.action / node.gen")
		return
	}
	opAction := map[string]bool{}
	opGen := map[*types.Func]string{}
	for a := range x.srcToken {
		opAction[x.actName[a]] = true
		if f := x.builtin[a]; f != nil {
			opGen[f] = x.actName[a]
		}
	}
	if len(opAction) < 30 {
		r.Errorf("R02.9: only %d operator actions known", len(opAction))
		return
	}
	nAssign := 0
	bad := 0
	for _, name := range sortedKeys(ic.F) {
		fi := ic.F[name]
		if fi.Decl.Body == nil || name == "Interpreter.ast" {
			continue
		}
		ast.Inspect(fi.Decl.Body, func(n ast.Node) bool {
			as, ok := n.(*ast.AssignStmt)
			if !ok || len(as.Lhs) != len(as.Rhs) {
				return true
			}
			for i, l := range as.Lhs {
				switch selField(ic.Info, l) {
				case actionFld:
					nAssign++
					if id, ok := unparen(as.Rhs[i]).(*ast.Ident); ok {
						if c, ok := ic.Info.Uses[id].(*types.Const); ok && opAction[c.Name()] {
							bad++
							r.Fail("R02.9", name+"/operator-action-rewritten:"+c.Name(), ic.pos(as.Pos()), "function "+name+" assigns the operator action "+c.Name()+" to a node ("+types.ExprString(l)+"): the operator of an expression is no longer the one of its source token, and such rewrites are not value-preserving for every operand (for NaN operands !(a < b) is true while a >= b is false)")
						}
					}
					// an action computed at run time of the compiler (a variable, a table lookup, a call
					// result) cannot be judged: every other writer assigns a constant (round-6 seed
					// returned the opposite comparison from a helper)
					if tv, ok := ic.Info.Types[as.Rhs[i]]; !ok || tv.Value == nil {
						bad++
						r.Fail("R02.9", name+"/action-assigned-from-a-computed-value", ic.pos(as.Pos()), "function "+name+" assigns a computed action ("+types.ExprString(as.Rhs[i])+") to a node ("+types.ExprString(l)+"): outside the AST builder every writer of node.action assigns a constant that is not an operator; a computed one can rewrite the operator of an expression (!(a < b) into a >= b, which differs for NaN)")
					}
				case genFld:
					if id, ok := unparen(as.Rhs[i]).(*ast.Ident); ok {
						if f, ok := ic.Info.Uses[id].(*types.Func); ok && opGen[f] != "" {
							bad++
							r.Fail("R02.9", name+"/operator-generator-rewritten:"+f.Name(), ic.pos(as.Pos()), "function "+name+" installs the operator generator "+f.Name()+" on a node directly, bypassing the action table: the node computes another operator than its source token")
						}
					}
					// a generator held in a variable of generator type (not a named function, a call building
					// one, or a literal) cannot be judged either
					if id, ok := unparen(as.Rhs[i]).(*ast.Ident); ok {
						if v, ok := ic.Info.Uses[id].(*types.Var); ok && !v.IsField() {
							if _, isSig := v.Type().Underlying().(*types.Signature); isSig {
								bad++
								r.Fail("R02.9", name+"/generator-assigned-from-a-variable:"+v.Name(), ic.pos(as.Pos()), "function "+name+" installs a generator held in the variable "+v.Name()+" on a node: which generator it is cannot be told from the assignment; outside the action table every installation names its generator")
							}
						}
					}
				}
			}
			return true
		})
	}
	if nAssign < 5 {
		r.Errorf("R02.9: only %d assignments to node.action found outside the AST builder (aConvert, aGetSym, aMethod, aBranch, aGetMethod expected)", nAssign)
	}
	if bad == 0 {
		r.Pass("R02.9", "operator-actions/set-by-the-ast-builder-only", "", fmt.Sprintf("%d assignments to node.action outside (*Interpreter).ast, none of an operator action; no operator generator installed directly", nAssign))
	}
}

// R02.10: unary operator nodes are never retyped to an interface. The generators of the unary
// operators (neg, pos, bitNot, not) dispatch on the kind of the node's type and have no case
// for reflect.Interface; cfg's two shortcuts that let a unary node write straight into its
// destination (assignment destination, result slot) also give the node the destination's
// type, so each of them must exclude interface-typed destinations. Otherwise no closure is
// installed and `var e interface{}; e = -x` silently ends the enclosing function.
func (x *c02ctx) r10() {
	ic, r := x.ic, x.r
	info := ic.Info
	cfgFn := ic.fn(r, "Interpreter.cfg")
	if cfgFn == nil {
		return
	}
	typFld, findexFld := ic.field("node", "typ"), ic.field("node", "findex")
	var unaryCase *ast.CaseClause
	ast.Inspect(cfgFn.Decl.Body, func(n ast.Node) bool {
		if cc, ok := n.(*ast.CaseClause); ok {
			for _, e := range cc.List {
				if id, ok := unparen(e).(*ast.Ident); ok && id.Name == "unaryExpr" {
					// the post-order case: the one that assigns findex
					if len(callsIn(info, cc, false, "interp.typecheck.unaryExpr")) > 0 {
						unaryCase = cc
					}
				}
			}
		}
		return true
	})
	if unaryCase == nil {
		r.Errorf("R02.10: the post-order case of unaryExpr was not found in cfg")
		return
	}
	n := 0
	ast.Inspect(unaryCase, func(nd ast.Node) bool {
		cc, ok := nd.(*ast.CaseClause)
		if !ok || cc == unaryCase || len(cc.List) != 1 {
			return true
		}
		setsTyp, setsIdx := false, false
		typFrom := ""
		for _, st := range cc.Body {
			if as, ok := st.(*ast.AssignStmt); ok {
				for i, l := range as.Lhs {
					switch selField(info, l) {
					case typFld:
						if id, ok := unparen(l.(*ast.SelectorExpr).X).(*ast.Ident); ok && id.Name == "n" && i < len(as.Rhs) {
							setsTyp = true
							typFrom = types.ExprString(as.Rhs[i])
						}
					case findexFld:
						setsIdx = true
					}
				}
			}
		}
		if !setsTyp || !setsIdx {
			return true
		}
		n++
		guarded := false
		negIface := func(e ast.Node) bool {
			found := false
			ast.Inspect(e, func(m ast.Node) bool {
				if u, ok := m.(*ast.UnaryExpr); ok && u.Op == token.NOT {
					if c, ok := unparen(u.X).(*ast.CallExpr); ok && isCallTo(info, c, "interp.isInterface") {
						found = true
					}
				}
				return true
			})
			return found
		}
		if negIface(cc.List[0]) {
			guarded = true
		}
		// ... or through a helper of the package: a conjunct of the condition calls a function whose
		// body is a single return of a conjunction that contains !isInterface(...)
		var conj func(e ast.Expr, out *[]ast.Expr)
		conj = func(e ast.Expr, out *[]ast.Expr) {
			if b, ok := unparen(e).(*ast.BinaryExpr); ok && b.Op == token.LAND {
				conj(b.X, out)
				conj(b.Y, out)
				return
			}
			*out = append(*out, unparen(e))
		}
		var cs []ast.Expr
		conj(cc.List[0], &cs)
		for _, c := range cs {
			call, ok := c.(*ast.CallExpr)
			if !ok {
				continue
			}
			f, ok := calleeOf(info, call).(*types.Func)
			if !ok || f.Pkg() != ic.Pk.Types {
				continue
			}
			for _, fi := range ic.F {
				if fi.Obj != types.Object(f) || fi.Decl.Body == nil || len(fi.Decl.Body.List) != 1 {
					continue
				}
				if rs, ok := fi.Decl.Body.List[0].(*ast.ReturnStmt); ok && len(rs.Results) == 1 {
					var hs []ast.Expr
					conj(rs.Results[0], &hs)
					for _, h := range hs {
						if negIface(h) {
							if _, isNot := h.(*ast.UnaryExpr); isNot {
								guarded = true
							}
						}
					}
				}
			}
		}
		r.Check(guarded, "R02.10", fmt.Sprintf("cfg/case:unaryExpr/retyped-to-destination#%d/not-an-interface", n), ic.pos(cc.Pos()), "the shortcut is not taken for an interface-typed destination",
			"this shortcut gives a unary operator node the type of its destination ("+typFrom+") without excluding interface types: the generators of the unary operators have no case for an interface kind, so no closure is installed and `var e interface{}; e = -x` (or return -x from a function returning interface{}) silently ends the enclosing function")
		return true
	})
	if n < 2 {
		r.Errorf("R02.10: %d shortcuts retyping a unary node found (assignment destination and result slot expected)", n)
	}
}

// r11 (R02.11): a floating-point source is never narrowed through the other integer class on
// its way to an integer destination: uint64(int64(f)) differs from uint64(f) for f in
// [2^63, 2^64), and int64(uint64(f)) from int64(f) for negative f. In every generator, a
// setter SetUint(uint64(i)) / SetInt(int64(u)) whose operand comes from the extractor of the
// *other* integer class (genValueInt / genValueUint applied to node X) is reached only where
// the path conditions exclude floating-point kinds for X's type (predicates applied to
// X.typ.TypeOf(), directly or through a local). The extractors adapt to the source kind, so the
// integer-to-integer case is exact and is not restricted.
func (x *c02ctx) r11() {
	ic, r := x.ic, x.r
	info := ic.Info
	predKinds := x.predicateKinds()
	n := 0
	for _, name := range sortedKeys(ic.F) {
		fi := ic.F[name]
		if fi.Decl.Body == nil || fi.Obj == nil || fi.Decl.Recv != nil {
			continue
		}
		sig := fi.Obj.Type().(*types.Signature)
		if sig.Params().Len() != 1 || !isNamedPtr(sig.Params().At(0).Type(), "node") {
			continue
		}
		// extractor locals: v := genValueInt(c)
		type ext struct {
			class string
			arg   ast.Expr
		}
		exts := map[types.Object]ext{}
		typeAlias := map[types.Object]string{} // src := c.typ.TypeOf()  ->  "c"
		ast.Inspect(fi.Decl.Body, func(m ast.Node) bool {
			as, ok := m.(*ast.AssignStmt)
			if !ok || len(as.Lhs) != len(as.Rhs) {
				return true
			}
			for i, rhs := range as.Rhs {
				id, ok := as.Lhs[i].(*ast.Ident)
				if !ok {
					continue
				}
				if c, ok := unparen(rhs).(*ast.CallExpr); ok && len(c.Args) == 1 {
					switch {
					case isCallTo(info, c, "interp.genValueInt"):
						exts[info.ObjectOf(id)] = ext{"int", c.Args[0]}
					case isCallTo(info, c, "interp.genValueUint"):
						exts[info.ObjectOf(id)] = ext{"uint", c.Args[0]}
					}
				}
				if s := types.ExprString(rhs); strings.HasSuffix(s, ".typ.TypeOf()") {
					typeAlias[info.ObjectOf(id)] = strings.TrimSuffix(s, ".typ.TypeOf()")
				}
			}
			return true
		})
		if len(exts) == 0 {
			continue
		}
		for _, fl := range x.closuresOf(fi) {
			// locals of the closure bound to the numeric result of an extractor: _, i := v(f)
			from := map[types.Object]types.Object{}
			ast.Inspect(fl.Body, func(m ast.Node) bool {
				as, ok := m.(*ast.AssignStmt)
				if !ok || len(as.Lhs) != 2 || len(as.Rhs) != 1 {
					return true
				}
				if c, ok := unparen(as.Rhs[0]).(*ast.CallExpr); ok {
					if fid := identOf(c.Fun); fid != nil {
						if _, isExt := exts[info.ObjectOf(fid)]; isExt {
							if vid, ok := as.Lhs[1].(*ast.Ident); ok {
								from[info.ObjectOf(vid)] = info.ObjectOf(fid)
							}
						}
					}
				}
				return true
			})
			ast.Inspect(fl.Body, func(m ast.Node) bool {
				c, ok := m.(*ast.CallExpr)
				if !ok || len(c.Args) != 1 {
					return true
				}
				setter := ""
				switch {
				case isCallTo(info, c, "reflect.Value.SetUint"):
					setter = "uint"
				case isCallTo(info, c, "reflect.Value.SetInt"):
					setter = "int"
				default:
					return true
				}
				// operand: conversion T(i) of an extracted value
				conv, ok := unparen(c.Args[0]).(*ast.CallExpr)
				if !ok || len(conv.Args) != 1 {
					return true
				}
				vid := identOf(conv.Args[0])
				if vid == nil {
					return true
				}
				eobj, ok := from[info.ObjectOf(vid)]
				if !ok {
					return true
				}
				e := exts[eobj]
				if e.class == setter {
					return true
				}
				n++
				// may the source be floating point? path conditions of the closure in the generator
				srcName := types.ExprString(e.arg)
				mayFloat := true
				for _, g := range pathGuards(fi.Decl.Body, fl) {
					if !g.want {
						continue
					}
					// a conjunct that is a disjunction of predicates on the source's type, none of which accepts a float kind
					for _, conj := range splitExpr(g.cond, token.LAND) {
						allOnSrc, anyFloat, any := true, false, false
						for _, d := range splitExpr(conj, token.LOR) {
							pc, ok := d.(*ast.CallExpr)
							if !ok || len(pc.Args) != 1 {
								allOnSrc = false
								continue
							}
							pf, _ := calleeOf(info, pc).(*types.Func)
							if pf == nil || predKinds[pf] == nil {
								allOnSrc = false
								continue
							}
							arg := types.ExprString(pc.Args[0])
							if aid := identOf(pc.Args[0]); aid != nil && typeAlias[info.ObjectOf(aid)] != "" {
								arg = typeAlias[info.ObjectOf(aid)] + ".typ.TypeOf()"
							}
							if arg != srcName+".typ.TypeOf()" {
								allOnSrc = false
								continue
							}
							any = true
							for k := range predKinds[pf] {
								if kindClass[k] == "float" || kindClass[k] == "complex" {
									anyFloat = true
								}
							}
						}
						if any && allOnSrc && !anyFloat {
							mayFloat = false
						}
					}
				}
				r.Check(!mayFloat, "R02.11", fmt.Sprintf("%s/narrowing#%d/no-float-through-the-other-integer-class", name, n), ic.pos(c.Pos()), "the source cannot be a floating-point value here",
					"generator "+name+" sets an "+map[string]string{"uint": "unsigned", "int": "signed"}[setter]+" destination from "+types.ExprString(c.Args[0])+", a value extracted as "+map[string]string{"int": "int64 (genValueInt)", "uint": "uint64 (genValueUint)"}[e.class]+" from "+srcName+", whose type is not known to exclude floating-point kinds on this path: a float source is narrowed through the other integer class (uint64(int64(f)) is 1<<63 for every f in [2^63, 2^64), where Go converts f directly)")
				return true
			})
		}
	}
	r.Info["cross_class_integer_narrowings_checked"] = n
}

func splitExpr(e ast.Expr, op token.Token) []ast.Expr {
	if be, ok := unparen(e).(*ast.BinaryExpr); ok && be.Op == op {
		return append(splitExpr(be.X, op), splitExpr(be.Y, op)...)
	}
	return []ast.Expr{unparen(e)}
}

// r11chain (R02.11, direct-chain clause): anywhere in package interp, a conversion to an
// unsigned integer type whose operand is itself a conversion of a floating-point expression to
// a signed integer type (uint64(int64(f))) loses [2^63, 2^64); the reverse chain
// (int64(uint64(f))) loses the negative values. Type-resolved, so helper lambdas outside the
// generators are covered too (round-5 seed: a numericConvert fast path).
func (x *c02ctx) r11chain() {
	ic, r := x.ic, x.r
	info := ic.Info
	class := func(t types.Type) string {
		if t == nil {
			return ""
		}
		b, ok := t.Underlying().(*types.Basic)
		if !ok {
			return ""
		}
		switch {
		case b.Info()&types.IsUnsigned != 0:
			return "uint"
		case b.Info()&types.IsInteger != 0:
			return "int"
		case b.Info()&types.IsFloat != 0:
			return "float"
		}
		return ""
	}
	conv := func(e ast.Expr) (to string, arg ast.Expr, ok bool) {
		c, isCall := unparen(e).(*ast.CallExpr)
		if !isCall || len(c.Args) != 1 {
			return "", nil, false
		}
		tv, isType := info.Types[c.Fun]
		if !isType || !tv.IsType() {
			return "", nil, false
		}
		return class(tv.Type), c.Args[0], true
	}
	n, nbad := 0, 0
	for _, name := range sortedKeys(ic.F) {
		fi := ic.F[name]
		if fi.Decl.Body == nil {
			continue
		}
		k := 0
		ast.Inspect(fi.Decl.Body, func(m ast.Node) bool {
			e, ok := m.(ast.Expr)
			if !ok {
				return true
			}
			outer, arg, ok := conv(e)
			if !ok || (outer != "uint" && outer != "int") {
				return true
			}
			inner, arg2, ok := conv(arg)
			if !ok || inner == outer || (inner != "int" && inner != "uint") {
				return true
			}
			n++
			if class(info.TypeOf(arg2)) != "float" {
				return true
			}
			if tv, isConst := info.Types[arg2]; isConst && tv.Value != nil {
				return true
			}
			k++
			nbad++
			r.Fail("R02.11", fmt.Sprintf("%s/float-narrowed-through-the-other-integer-class#%d", funcName(fi.Decl), k), ic.pos(e.Pos()),
				funcName(fi.Decl)+" converts the floating-point value "+types.ExprString(arg2)+" with "+types.ExprString(e)+": going through the "+map[string]string{"int": "signed", "uint": "unsigned"}[inner]+" type first loses "+map[string]string{"int": "the values in [2^63, 2^64) (uint64(float64(1<<63)) becomes 1<<63 for every such value)", "uint": "the negative values"}[inner])
			return true
		})
	}
	if nbad == 0 {
		r.Pass("R02.11", "package/no-float-narrowed-through-the-other-integer-class", "", fmt.Sprintf("%d signed/unsigned conversion chains in package interp, none applied to a floating-point operand", n))
	}
}

// r2x13 (R02.13): no dead class case. In any switch without tag whose cases are disjunctions of the
// kind-class predicates (isInt, isUint, isFloat, isComplex, isString), the kinds a case accepts
// are those of its predicates minus the kinds of the earlier cases; a case left with no kind can
// never be taken - its kinds are handled by an earlier case of another class (isInt accepts the
// unsigned kinds, so "case isInt: ... case isUint:" compares unsigned operands as signed).
// Package-wide: the ordering may sit in a helper far from the operator generators (round-6 seed:
// a classOf(t0, t1) helper returning an operand class).
func (x *c02ctx) r2x13() {
	ic, r := x.ic, x.r
	info := ic.Info
	predKinds := x.predicateKinds()
	rule16, only16 := "R02.16", false
	if x.rule16 != "" {
		rule16, only16 = x.rule16, true
	}
	nSw, nBad := 0, 0
	nUns, nBad16 := 0, 0
	for _, name := range sortedKeys(ic.F) {
		fi := ic.F[name]
		if fi.Decl.Body == nil {
			continue
		}
		k := 0
		k16 := 0
		ast.Inspect(fi.Decl.Body, func(m ast.Node) bool {
			sw, ok := m.(*ast.SwitchStmt)
			if !ok || sw.Tag != nil {
				return true
			}
			covered := map[string]bool{}
			isClassSwitch := false
			type caseInfo struct {
				cc    *ast.CaseClause
				kinds map[string]bool
				pure  bool
			}
			var cis []caseInfo
			for _, st := range sw.Body.List {
				cc := st.(*ast.CaseClause)
				ci := caseInfo{cc: cc, kinds: map[string]bool{}, pure: len(cc.List) > 0}
				for _, l := range cc.List {
					// a disjunction of predicate calls
					var visit func(e ast.Expr) bool
					visit = func(e ast.Expr) bool {
						e = unparen(e)
						if be, ok := e.(*ast.BinaryExpr); ok && be.Op == token.LOR {
							return visit(be.X) && visit(be.Y)
						}
						c, ok := e.(*ast.CallExpr)
						if !ok {
							return false
						}
						f, ok := calleeOf(info, c).(*types.Func)
						if !ok || predKinds[f] == nil {
							return false
						}
						for kd := range predKinds[f] {
							ci.kinds[kd] = true
						}
						return true
					}
					if !visit(l) {
						ci.pure = false
					}
				}
				if ci.pure {
					isClassSwitch = true
				}
				cis = append(cis, ci)
			}
			if !isClassSwitch {
				return true
			}
			nSw++
			for _, ci := range cis {
				if !ci.pure {
					// an impure case (other conditions) may or may not take kinds: it covers nothing for sure
					continue
				}
				left := 0
				for kd := range ci.kinds {
					if !covered[kd] {
						left++
					}
				}
				if left == 0 && !only16 {
					k++
					nBad++
					r.Fail("R02.13", fmt.Sprintf("%s/dead-class-case#%d", name, k), ic.pos(ci.cc.Pos()),
						"in "+name+" the case "+types.ExprString(ci.cc.List[0])+" can never be taken: every kind its predicates accept is already taken by an earlier case (isInt accepts the unsigned kinds too). Operands of that class are handled as the other class: unsigned values compared or computed as signed, wrong as soon as the top bit is set")
				}
				// R02.16: the case takes unsigned kinds: its own statements (nested switches on the
				// kind decide again) do not read the operand through the signed extractors
				takesUnsigned := false
				for kd := range ci.kinds {
					if !covered[kd] && kindClass[kd] == "uint" {
						takesUnsigned = true
					}
				}
				if takesUnsigned {
					nUns++
					var bad []string
					for _, st := range ci.cc.Body {
						ast.Inspect(st, func(q ast.Node) bool {
							switch y := q.(type) {
							case *ast.SwitchStmt, *ast.TypeSwitchStmt:
								return false
							case *ast.CallExpr:
								cn := ""
								if o := calleeOf(info, y); o != nil {
									cn = canonKey(o.Pkg(), shortKey(objKey(o)))
								}
								if extractorClass[cn] == "int" || accessorClass[cn] == "int" || cn == "go/constant.MakeInt64" || cn == "go/constant.Int64Val" {
									bad = append(bad, types.ExprString(y)+" at "+ic.pos(y.Pos()))
								}
							}
							return true
						})
					}
					if len(bad) > 0 {
						k16++
						nBad16++
						r.Fail(rule16, fmt.Sprintf("%s/unsigned-kinds-read-as-signed#%d", name, k16), ic.pos(ci.cc.Pos()),
							"in "+name+" the case "+types.ExprString(ci.cc.List[0])+" takes the unsigned kinds (no earlier case has them) and reads the value as a signed integer: "+strings.Join(bad, "; ")+". An unsigned value with the top bit set (uint64 constants >= 1<<63) is read back negative: compared, folded and range-checked as a negative number")
					}
				}
				for kd := range ci.kinds {
					covered[kd] = true
				}
			}
			return true
		})
	}
	if nSw < 10 {
		r.Errorf("R02.13: only %d switches over the kind-class predicates found", nSw)
		return
	}
	if nBad == 0 && !only16 {
		r.Pass("R02.13", "package/no-dead-class-case", "", fmt.Sprintf("%d switches over the kind-class predicates, every case can be taken", nSw))
	}
	if nUns < 5 {
		r.Errorf(rule16+": only %d predicate cases taking unsigned kinds found", nUns)
		return
	}
	if nBad16 == 0 {
		r.Pass(rule16, "package/unsigned-kinds-never-read-as-signed", "", fmt.Sprintf("%d predicate cases take unsigned kinds, none reads the value through a signed extractor", nUns))
	}
}

// r2x15 (R02.15): in the type rule of binary expressions, an untyped constant operand takes
// the type of the other operand (convertUntyped on both sides) unless BOTH operands are
// constants: every return placed before those conversions that accepts the expression (nil) is
// guarded by a validity test of the constant value of each operand. Round-6 seed: the quotient
// case returned as soon as the divisor was a constant, so v / c with v a float32 variable
// divided in float64.
func (x *c02ctx) r2x15() {
	ic, r := x.ic, x.r
	info := ic.Info
	fi := ic.fn(r, "typecheck.binaryExpr")
	if fi == nil {
		return
	}
	convs := callsIn(info, fi.Decl.Body, true, "interp.typecheck.convertUntyped")
	if len(convs) < 2 {
		r.Errorf("R02.15: %d calls of convertUntyped found in typecheck.binaryExpr (one per operand expected)", len(convs))
		return
	}
	first := convs[0].Pos()
	for _, c := range convs {
		if c.Pos() < first {
			first = c.Pos()
		}
	}
	rvalFld := ic.field("node", "rval")
	n := 0
	ast.Inspect(fi.Decl.Body, func(m ast.Node) bool {
		rs, ok := m.(*ast.ReturnStmt)
		if !ok || rs.Pos() > first || len(rs.Results) != 1 {
			return true
		}
		if id := identOf(rs.Results[0]); id == nil || id.Name != "nil" {
			return true
		}
		n++
		owners := map[string]bool{}
		for _, g := range pathGuards(fi.Decl.Body, rs) {
			if !g.want {
				continue
			}
			// conjuncts X.rval.IsValid()
			var visit func(e ast.Expr)
			visit = func(e ast.Expr) {
				e = unparen(e)
				if be, ok := e.(*ast.BinaryExpr); ok && be.Op == token.LAND {
					visit(be.X)
					visit(be.Y)
					return
				}
				if c, ok := e.(*ast.CallExpr); ok {
					if se, ok := c.Fun.(*ast.SelectorExpr); ok && se.Sel.Name == "IsValid" && selField(info, se.X) == rvalFld {
						owners[types.ExprString(se.X.(*ast.SelectorExpr).X)] = true
					}
				}
			}
			visit(g.cond)
		}
		r.Check(len(owners) >= 2, "R02.15", fmt.Sprintf("typecheck.binaryExpr/accepts-before-the-operand-conversion#%d", n), ic.pos(rs.Pos()), "the conversions are skipped only when both operands are constants",
			fmt.Sprintf("typecheck.binaryExpr returns nil at %s, before the untyped operand has been given the type of the other one, under a test of the constant value of %d operand(s) only: with one variable operand the constant keeps its untyped (float64/int) representation, so v / c with v a float32 variable is computed at another precision than compiled Go, and c / 0-like checks are skipped", ic.pos(rs.Pos()), len(owners)))
		return true
	})
	if n == 0 {
		r.Pass("R02.15", "typecheck.binaryExpr/no-acceptance-before-the-operand-conversion", ic.pos(fi.Decl.Pos()), "no early acceptance before the operand conversions")
	}
}

func init() {
	ruleText["R02.17"] = "a comparison with nil tests the operand that is not nil, for == and != alike: every generator cfg installs under the test that one operand is the nil symbol is selected by which operand is nil - a generator factory called with an index that depends on that test, or a generator that tests it itself; none reads a fixed child"
}

// r2x17: found through the round-6 report on C01 (D11). x == nil / nil == x chose
// isNilChild(0/1); != always installed isNotNil, which read child[0]: nil != p was always false.
func (x *c02ctx) r2x17() {
	ic, r := x.ic, x.r
	info := ic.Info
	cfgFn := ic.fn(r, "Interpreter.cfg")
	if cfgFn == nil {
		return
	}
	genFld := ic.field("node", "gen")
	symFld := ic.field("node", "sym")
	// the nil symbol: a local of cfg read from the universe scope under the nil identifier
	isNilTest := func(e ast.Expr) bool {
		found := false
		ast.Inspect(e, func(q ast.Node) bool {
			be, ok := q.(*ast.BinaryExpr)
			if !ok || be.Op != token.EQL {
				return true
			}
			for _, pair := range [][2]ast.Expr{{be.X, be.Y}, {be.Y, be.X}} {
				if selField(info, pair[0]) == symFld {
					if id := identOf(pair[1]); id != nil && strings.Contains(strings.ToLower(id.Name), "nil") {
						found = true
					}
				}
			}
			return true
		})
		return found
	}
	n := 0
	ast.Inspect(cfgFn.Decl.Body, func(q ast.Node) bool {
		ifs, ok := q.(*ast.IfStmt)
		if !ok || !isNilTest(ifs.Cond) {
			return true
		}
		// installations of a generator inside the guarded block
		ast.Inspect(ifs.Body, func(z ast.Node) bool {
			as, ok := z.(*ast.AssignStmt)
			if !ok || len(as.Lhs) != 1 || len(as.Rhs) != 1 || selField(info, as.Lhs[0]) != genFld {
				return true
			}
			n++
			what := types.ExprString(as.Rhs[0])
			good := false
			switch y := unparen(as.Rhs[0]).(type) {
			case *ast.CallExpr:
				// a factory: its argument is a constant chosen under a nil test of one operand, or a
				// local assigned under such a test
				for _, g := range pathGuards(ifs.Body, as) {
					if isNilTest(g.cond) {
						good = true
					}
				}
				for _, a := range y.Args {
					if id := identOf(a); id != nil {
						obj := info.ObjectOf(id)
						ast.Inspect(ifs.Body, func(w ast.Node) bool {
							if a2, ok := w.(*ast.AssignStmt); ok {
								for _, l := range a2.Lhs {
									if lid := identOf(l); lid != nil && info.ObjectOf(lid) == obj {
										for _, g := range pathGuards(ifs.Body, a2) {
											if isNilTest(g.cond) {
												good = true
											}
										}
									}
								}
							}
							return true
						})
					}
				}
			case *ast.Ident:
				if f, ok := info.Uses[y].(*types.Func); ok {
					if gi := ic.G.Funcs[f]; gi != nil && gi.Decl.Body != nil {
						ast.Inspect(gi.Decl.Body, func(w ast.Node) bool {
							if e, ok := w.(ast.Expr); ok && isNilTest(e) {
								good = true
							}
							return true
						})
					}
				}
			}
			r.Check(good, "R02.17", fmt.Sprintf("cfg/nil-comparison/generator#%d/selected-by-the-nil-operand", n), ic.pos(as.Pos()), "the generator depends on which operand is nil",
				"cfg installs "+what+" for a comparison with nil whichever operand is nil, and that generator does not find out itself: it reads a fixed operand, so with nil on the other side it tests the nil literal - nil != p is always false (if nil != p { ... } never runs)")
			return true
		})
		return false // the nested tests belong to this block
	})
	if n < 2 {
		r.Errorf("R02.17: only %d generator installations found under a nil-operand test in cfg (== and != expected)", n)
	}
}

func init() {
	ruleText["R02.18"] = "in an expression switch each case value is compared as a value of the tag's type: the run-time closure of the case generator never converts nor reassigns the value of the tag (the local read from the generator of the switch tag) - converting the tag to the type of the case value truncates it (2.5 matches case 2) and carries over to the following cases"
}

// r2x18: found through the round-6 report on C01 (D10). _case converted the tag to the type of
// each case value: switch f { case 2: ...; case 2.5: ... } with f == 2.5 took the first case, and
// a float32 tag never matched the constant it had been initialised with.
func (x *c02ctx) r2x18() {
	ic, r := x.ic, x.r
	info := ic.Info
	fi := ic.fn(r, "_case")
	if fi == nil {
		return
	}
	n := 0
	for k, fl := range x.closuresOf(fi) {
		// the comparison of the tag with a case value: a == of two Interface() results, inside a
		// loop over the case values; the tag is the operand defined outside that loop
		var cmp *ast.BinaryExpr
		var loop ast.Node
		ast.Inspect(fl.Body, func(q ast.Node) bool {
			be, ok := q.(*ast.BinaryExpr)
			if !ok || be.Op != token.EQL || len(callsIn(info, be, true, "reflect.Value.Interface")) != 2 {
				return true
			}
			for _, p := range enclosingPath(fl.Body, be) {
				switch p.(type) {
				case *ast.RangeStmt, *ast.ForStmt:
					cmp, loop = be, p
				}
			}
			return true
		})
		if cmp == nil {
			continue
		}
		operand := func(e ast.Expr) types.Object {
			c, ok := unparen(e).(*ast.CallExpr)
			if !ok {
				return nil
			}
			se, ok := unparen(c.Fun).(*ast.SelectorExpr)
			if !ok {
				return nil
			}
			if id := identOf(se.X); id != nil {
				return info.ObjectOf(id)
			}
			return nil
		}
		var tag types.Object
		for _, o := range []types.Object{operand(cmp.X), operand(cmp.Y)} {
			if o != nil && !(o.Pos() >= loop.Pos() && o.Pos() < loop.End()) {
				tag = o
			}
		}
		if tag == nil {
			continue
		}
		n++
		var bad []string
		ast.Inspect(loop, func(q ast.Node) bool {
			switch y := q.(type) {
			case *ast.AssignStmt:
				for _, l := range y.Lhs {
					if id := identOf(l); id != nil && info.ObjectOf(id) == tag {
						bad = append(bad, "the tag "+id.Name+" is reassigned at "+ic.pos(y.Pos()))
					}
				}
			case *ast.CallExpr:
				if isCallTo(info, y, "reflect.Value.Convert") {
					if id := identOf(unparen(y.Fun).(*ast.SelectorExpr).X); id != nil && info.ObjectOf(id) == tag {
						bad = append(bad, "the tag "+id.Name+" is converted at "+ic.pos(y.Pos()))
					}
				}
			}
			return true
		})
		r.Check(len(bad) == 0, "R02.18", fmt.Sprintf("_case/closure#%d/tag-never-converted", k+1), ic.pos(fl.Pos()), "the case values are brought to the type of the tag, not the reverse",
			"the case generator changes the tag while comparing ("+strings.Join(dedupStr(bad), "; ")+"): the tag is truncated to the type of a case value and stays so for the following cases - f := 2.5; switch f { case 2: ...; case 2.5: ... } takes case 2, and var g float32 = 0.1; switch g { case 0.1: } takes default")
	}
	if n == 0 {
		r.Errorf("R02.18: no closure of _case comparing the tag with the case values found")
	}
}

func init() {
	ruleText["R02.19"] = "a location that receives a result is allocated when the statement executes: in the generators of package interp no value allocated when the closure is generated (reflect.New(...) outside the run-time closures) is written (Set* on it) or stored through a wrapper built around it (an interface value holding the cell) inside a run-time closure - one cell per generated closure is shared by every execution of the statement, so the results returned earlier change when the statement runs again"
}

// r2x19: round-7 seed. genValueOutput allocated the cell of an operation result returned as an
// interface value once, when the closure was generated: a later evaluation of return a + b
// changed the values returned earlier.
func (x *c02ctx) r2x19() {
	ic, r := x.ic, x.r
	info := ic.Info
	nFn, nBad := 0, 0
	for _, name := range sortedKeys(ic.F) {
		fi := ic.F[name]
		if fi.Decl.Body == nil {
			continue
		}
		closures := x.closuresOf(fi)
		if len(closures) == 0 {
			continue
		}
		inClosure := func(p token.Pos) *ast.FuncLit {
			for _, fl := range closures {
				if fl.Pos() <= p && p <= fl.End() {
					return fl
				}
			}
			return nil
		}
		// generation-time cells: locals assigned from reflect.New(...).Elem() / reflect.New(...) outside closures,
		// and locals built from them (a wrapper holding the cell)
		cells := map[types.Object]token.Pos{}
		wrappers := map[types.Object]bool{} // values built around a cell (they hold the cell, not a copy of its content)
		for pass := 0; pass < 2; pass++ {
			ast.Inspect(fi.Decl.Body, func(q ast.Node) bool {
				as, ok := q.(*ast.AssignStmt)
				if !ok || len(as.Lhs) != len(as.Rhs) || inClosure(as.Pos()) != nil {
					return true
				}
				for i, rh := range as.Rhs {
					id := identOf(as.Lhs[i])
					if id == nil || info.ObjectOf(id) == nil {
						continue
					}
					isCell := false
					if c, ok := unparen(rh).(*ast.CallExpr); ok && len(callsIn(info, c, true, "reflect.New")) > 0 {
						isCell = true
					}
					ast.Inspect(rh, func(z ast.Node) bool {
						if zid, ok := z.(*ast.Ident); ok {
							if _, known := cells[info.ObjectOf(zid)]; known && identOf(rh) == nil {
								isCell = true
								wrappers[info.ObjectOf(id)] = true
							}
						}
						return true
					})
					if isCell {
						if t := info.TypeOf(as.Lhs[i]); t != nil && types.TypeString(t, nil) == "reflect.Value" {
							cells[info.ObjectOf(id)] = as.Pos()
						}
					}
				}
				return true
			})
		}
		if len(cells) == 0 {
			continue
		}
		nFn++
		for ci, fl := range closures {
			var bad []string
			ast.Inspect(fl.Body, func(q ast.Node) bool {
				switch y := q.(type) {
				case *ast.CallExpr:
					se, ok := unparen(y.Fun).(*ast.SelectorExpr)
					if !ok {
						return true
					}
					// written: cell.SetX(...)
					if strings.HasPrefix(se.Sel.Name, "Set") {
						if id := identOf(se.X); id != nil {
							if _, isCell := cells[info.ObjectOf(id)]; isCell {
								bad = append(bad, id.Name+" (allocated at "+ic.pos(cells[info.ObjectOf(id)])+") is set at "+ic.pos(y.Pos()))
							}
						}
						// stored as a value elsewhere: d.Set(cell) where cell is a wrapper built at generation time holding a cell
						if se.Sel.Name == "Set" && len(y.Args) == 1 {
							if id := identOf(y.Args[0]); id != nil {
								if at, isCell := cells[info.ObjectOf(id)]; isCell && wrappers[info.ObjectOf(id)] {
									bad = append(bad, id.Name+" (allocated at "+ic.pos(at)+") is stored at "+ic.pos(y.Pos()))
								}
							}
						}
					}
				}
				return true
			})
			if len(bad) > 0 {
				nBad++
				r.Fail("R02.19", fmt.Sprintf("%s/closure#%d/result-location-allocated-per-execution", name, ci+1), ic.pos(fl.Pos()),
					"the run-time closure generated by "+name+" uses a location allocated once, when the closure was generated: "+strings.Join(dedupStr(bad), "; ")+". Every execution of the statement writes the same cell: the interface values (or results) handed out earlier change when the statement runs again - x := f(1, 2); y := f(3, 4) with func f(a, b int) fmt.Stringer-like interface { return a + b } makes x follow y")
			}
		}
	}
	if nBad == 0 {
		r.Pass("R02.19", "package/result-locations-allocated-per-execution", "", fmt.Sprintf("%d generators allocate reflect values when the closure is generated; none of those values is written or handed out as a result location by a run-time closure", nFn))
	}
}

// r2x20 (R02.20): round-7 seed. The left operand of an operation assigned to a variable
// (a*b in v = a*b + c) was computed in the location of the variable: v = a*b + v computed with
// a clobbered v.
func (x *c02ctx) r2x20() {
	ic, r := x.ic, x.r
	info := ic.Info
	cfgFn := ic.fn(r, "Interpreter.cfg")
	if cfgFn == nil {
		return
	}
	ancFld := ic.field("node", "anc")
	findexFld := ic.field("node", "findex")
	var cc *ast.CaseClause
	ast.Inspect(cfgFn.Decl.Body, func(q ast.Node) bool {
		c, ok := q.(*ast.CaseClause)
		if !ok {
			return true
		}
		for _, l := range kindLabels(ic, c) {
			if l == "binaryExpr" && len(callsIn(info, c, true, "interp.typecheck.binaryExpr")) > 0 {
				cc = c
			}
		}
		return true
	})
	if cc == nil {
		r.Errorf("R02.20: the binaryExpr case of cfg was not found")
		return
	}
	// two levels up: .anc applied to something that already went through .anc
	twoUp := func(body ast.Node) string {
		viaAnc := map[types.Object]bool{}
		found := ""
		for pass := 0; pass < 2; pass++ {
			ast.Inspect(body, func(q ast.Node) bool {
				switch y := q.(type) {
				case *ast.AssignStmt:
					if len(y.Lhs) == len(y.Rhs) {
						for i, rh := range y.Rhs {
							if selField(info, rh) == ancFld {
								if id := identOf(y.Lhs[i]); id != nil {
									viaAnc[info.ObjectOf(id)] = true
								}
							}
						}
					}
				case *ast.SelectorExpr:
					if selField(info, y) == ancFld {
						if selField(info, y.X) == ancFld {
							found = types.ExprString(y) + " at " + ic.pos(y.Pos())
						}
						if id := identOf(y.X); id != nil && viaAnc[info.ObjectOf(id)] {
							found = types.ExprString(y) + " at " + ic.pos(y.Pos())
						}
					}
				}
				return true
			})
		}
		return found
	}
	n := 0
	ast.Inspect(cc, func(q ast.Node) bool {
		as, ok := q.(*ast.AssignStmt)
		if !ok || len(as.Lhs) != 1 || len(as.Rhs) != 1 || selField(info, as.Lhs[0]) != findexFld {
			return true
		}
		// only the node's own location (n.findex), not the children's
		if id := identOf(unparen(as.Lhs[0]).(*ast.SelectorExpr).X); id == nil || id.Name != "n" {
			return true
		}
		n++
		rh := unparen(as.Rhs[0])
		why := ""
		switch y := rh.(type) {
		case *ast.CallExpr:
			// sc.add(...) or childPos(n)
		case *ast.SelectorExpr:
			if selField(info, y) == findexFld {
				// dest.findex: where does dest come from?
				if id := identOf(y.X); id != nil {
					obj := info.ObjectOf(id)
					ast.Inspect(cc, func(z ast.Node) bool {
						a2, ok := z.(*ast.AssignStmt)
						if !ok || len(a2.Lhs) != len(a2.Rhs) {
							return true
						}
						for i, l := range a2.Lhs {
							if lid := identOf(l); lid != nil && info.ObjectOf(lid) == obj {
								if w := twoUp(a2.Rhs[i]); w != "" {
									why = "its source reads two levels up (" + w + ")"
								}
								if c, ok := unparen(a2.Rhs[i]).(*ast.CallExpr); ok {
									if h, ok := calleeOf(info, c).(*types.Func); ok && h.Pkg() == ic.Pk.Types {
										if hd := ic.G.Funcs[h]; hd != nil && hd.Decl.Body != nil {
											if w := twoUp(hd.Decl.Body); w != "" {
												why = "the helper " + h.Name() + " that chooses it looks two levels up (" + w + ")"
											}
										}
									}
								}
							}
						}
						return true
					})
				} else if w := twoUp(y); w != "" {
					why = "it reads two levels up (" + w + ")"
				}
			}
		}
		r.Check(why == "", "R02.20", fmt.Sprintf("cfg/case:binaryExpr/result-location#%d/own-or-direct-parent", n), ic.pos(as.Pos()), "the location comes from sc.add, a return position or the node's direct parent",
			"the binaryExpr case of cfg gives the result of an operation the location "+types.ExprString(as.Rhs[0])+": "+why+". The operation is then computed in the variable assigned by a statement that merely contains it, before the rest of the right-hand side is evaluated: v = a*b + v computes a*b into v and then adds the clobbered v")
		return true
	})
	if n < 2 {
		r.Errorf("R02.20: only %d assignments of the node's frame location found in the binaryExpr case of cfg", n)
	}
}

func init() {
	ruleText["R02.21"] = "the result of an operation is stored directly at the location of its destination only when the destination has one: in the cases of cfg for binary and unary expressions, the branch of the result-location switch that takes the type and the frame index of the assignment's destination (n.typ = dest.typ, n.findex = dest.findex) has a condition that excludes the blank identifier - it calls isBlank, or an in-package function that calls it - the blank identifier has no location nor type of its own when the operation is compiled"
}

// r2x21: D135, D136. `_ = x == 2` stored a bool into a slot typed int; `_ = -x` dereferenced the
// nil type of the blank destination (a regression of D35).
func (x *c02ctx) r2x21() {
	ic, r := x.ic, x.r
	info := ic.Info
	cfgFn := ic.fn(r, "Interpreter.cfg")
	findexFld := ic.field("node", "findex")
	if cfgFn == nil || findexFld == nil {
		return
	}
	// in-package functions that call isBlank
	viaBlank := []string{"interp.isBlank"}
	for _, name := range sortedKeys(ic.F) {
		fi := ic.F[name]
		if fi.Decl.Body != nil && fi.Obj != nil && name != "isBlank" && len(callsIn(info, fi.Decl.Body, false, "interp.isBlank")) > 0 {
			viaBlank = append(viaBlank, canonKey(fi.Obj.Pkg(), shortKey(objKey(fi.Obj))))
		}
	}
	n := 0
	ast.Inspect(cfgFn.Decl.Body, func(q ast.Node) bool {
		cc, ok := q.(*ast.CaseClause)
		if !ok {
			return true
		}
		labels := kindLabels(ic, cc)
		isOp := false
		for _, l := range labels {
			if l == "binaryExpr" || l == "unaryExpr" {
				isOp = true
			}
		}
		if !isOp {
			return true
		}
		// the branches of a tagless switch inside the case that copy another node's findex into n.findex
		ast.Inspect(cc, func(z ast.Node) bool {
			br, ok := z.(*ast.CaseClause)
			if !ok || br == cc || len(br.List) != 1 {
				return true
			}
			copies := false
			for _, st := range br.Body {
				as, ok := st.(*ast.AssignStmt)
				if !ok || len(as.Lhs) != 1 || len(as.Rhs) != 1 {
					continue
				}
				l, okl := unparen(as.Lhs[0]).(*ast.SelectorExpr)
				rr, okr := unparen(as.Rhs[0]).(*ast.SelectorExpr)
				if okl && okr && selField(info, l) == findexFld && selField(info, rr) == findexFld {
					copies = true
				}
			}
			if !copies {
				return true
			}
			// only the assignment shortcut (its condition mentions the assignStmt kind)
			mentionsAssign := false
			ast.Inspect(br.List[0], func(y ast.Node) bool {
				if id, ok := y.(*ast.Ident); ok {
					if c, ok := info.Uses[id].(*types.Const); ok && c.Name() == "assignStmt" {
						mentionsAssign = true
					}
				}
				return true
			})
			if !mentionsAssign {
				return true
			}
			n++
			kind := labels[0]
			for _, l := range labels {
				if l == "binaryExpr" || l == "unaryExpr" {
					kind = l
				}
			}
			r.Check(len(callsIn(info, br.List[0], true, viaBlank...)) > 0, "R02.21", "cfg/case:"+kind+"/direct-store-shortcut/not-for-the-blank-identifier", ic.pos(br.Pos()), "the condition of the shortcut excludes the blank identifier",
				"the "+kind+" case of cfg takes the type and the location of the assignment's destination under "+types.ExprString(br.List[0])+", which does not exclude the blank identifier: `_` has no location nor type of its own when the operation is compiled, so `x := 1; _ = x == 2` stores a bool into a slot typed int (reflect.Value.SetBool on int Value) and `_ = -x` dereferences a nil type in the compiler")
			return true
		})
		return true
	})
	if n < 2 {
		r.Errorf("R02.21: only %d direct-store shortcuts found in the binaryExpr/unaryExpr cases of cfg (one each expected)", n)
	}
}

func init() {
	ruleText["R02.22"] = "division by a zero constant is an error only where Go makes it one: in typecheck.binaryExpr the error reported under the zero test of the divisor in the case of the division operator is further conditioned on the dividend - it is a constant (its rval is valid) or of integer type (isInt) - as in go/types ((x.mode == constant || allInteger(x.typ)) && y is a zero constant): a floating-point or complex variable divided by 0 is +Inf, not a compile error. The remainder operator is defined on integers only and needs no such condition"
}

// r2x22: D143. f := 1.0; f / 0 was rejected.
func (x *c02ctx) r2x22() {
	ic, r := x.ic, x.r
	info := ic.Info
	be := ic.fn(r, "typecheck.binaryExpr")
	if be == nil {
		return
	}
	n := 0
	ast.Inspect(be.Decl.Body, func(q ast.Node) bool {
		cc, ok := q.(*ast.CaseClause)
		if !ok {
			return true
		}
		quo := false
		for _, e := range cc.List {
			if id := identOf(e); id != nil && id.Name == "aQuo" {
				quo = true
			}
		}
		if !quo {
			return true
		}
		for _, st := range cc.Body {
			ifs, ok := st.(*ast.IfStmt)
			if !ok || len(callsIn(info, ifs.Cond, false, "interp.zeroConst")) == 0 {
				continue
			}
			n++
			intTest := len(callsIn(info, ifs.Cond, false, "interp.isInt")) > 0
			constTest := len(callsIn(info, ifs.Cond, false, "reflect.Value.IsValid")) > 0
			r.Check(intTest && constTest, "R02.22", fmt.Sprintf("typecheck.binaryExpr/case:aQuo/zero-divisor#%d/only-for-constant-or-integer-dividends", n), ic.pos(ifs.Pos()), "the error also requires a constant or integer dividend",
				"typecheck.binaryExpr reports a division by zero under "+types.ExprString(ifs.Cond)+", whatever the dividend: `f := 1.0; f / 0` and `c / 0` for a complex variable are rejected, where compiled Go accepts them and yields +Inf (go/types reports the error only for a constant or integer dividend)")
		}
		return true
	})
	if n == 0 {
		r.Errorf("R02.22: no zero-divisor test found in the aQuo case of typecheck.binaryExpr")
	}
}
