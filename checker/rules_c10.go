package main

import (
	"go/ast"
	"go/types"
	"strings"

	"golang.org/x/tools/go/ssa"
)

func init() {
	register("C10", &propMeta{
		Level: "other",
		Explanation: "Two structural clauses about run ids surviving a cancellation: R10.1 in Execute the root frame's id is refreshed from the interpreter's current id before any run on every path (go/cfg dominance); " +
			"R10.2 every callback handed to reflect.MakeFunc (the code a host, or a stored closure, re-enters later) gates its new frame on the interpreter's current run id and not on the id of a frame captured when the callback was created (SSA provenance of the id operand of newFrame). " +
			"Nothing else about the state after a cancellation is decided.",
		Assumptions: []string{"stop() only ever advances Interpreter.id (checked by C09/R09.5)"},
		Run:         runC10,
	})
	ruleText["R10.1"] = "in every function that calls (*Interpreter).run (Execute, importSrc), interp.frame.setrunid(interp.runid()) dominates every such call"
	ruleText["R10.2"] = "in a function literal passed to reflect.MakeFunc, the id passed to newFrame is not the runid() of a frame captured at creation time (a free variable): such an id is frozen while stop() advances the interpreter's id forever"
}

func runC10(c *Config, r *Report) {
	ic, err := loadInterp(c, true)
	if err != nil {
		r.Errorf("%v", err)
		return
	}
	// R10.1: every function that starts execution on the root frame refreshes its id first.
	frameFld := ic.field("Interpreter", "frame")
	starters := 0
	for _, name := range sortedKeys(ic.F) {
		ex := ic.F[name]
		if ex.Decl.Body == nil || name == "Interpreter.run" {
			continue
		}
		runs := callsIn(ic.Info, ex.Decl.Body, false, "interp.Interpreter.run")
		if len(runs) == 0 {
			continue
		}
		starters++
		var refresh ast.Node
		ast.Inspect(ex.Decl.Body, func(n ast.Node) bool {
			c, ok := n.(*ast.CallExpr)
			if !ok || !isCallTo(ic.Info, c, "interp.frame.setrunid") || len(c.Args) != 1 {
				return true
			}
			se := unparen(c.Fun).(*ast.SelectorExpr)
			if selField(ic.Info, se.X) != frameFld {
				return true
			}
			if a, ok := unparen(c.Args[0]).(*ast.CallExpr); ok && isCallTo(ic.Info, a, "interp.Interpreter.runid") {
				refresh = c
			}
			return true
		})
		key := name + "/refresh"
		if refresh == nil {
			r.Fail("R10.1", key, ic.pos(ex.Decl.Pos()), name+" runs code on the root frame but never refreshes the root frame's run id from the interpreter's current id: after one cancelled evaluation the package-level code it runs is silently skipped")
			continue
		}
		fg := buildFlow(ex.Decl.Body, ic.Info)
		all := true
		for _, rc := range runs {
			if d, ok := fg.dominates(refresh, rc); !ok || !d {
				all = false
				r.Fail("R10.1", key, ic.pos(rc.Pos()), "this run is not dominated by interp.frame.setrunid(interp.runid()): after a cancelled evaluation the root frame keeps a stale id and the run does nothing")
			}
		}
		if all {
			r.Pass("R10.1", key, ic.pos(refresh.Pos()), "root frame id refreshed before every run")
		}
	}
	if starters < 2 {
		r.Errorf("R10.1: %d functions calling (*Interpreter).run found; Execute and importSrc are expected", starters)
	}
	// R10.2
	g := buildSGraph(ic.SP)
	newFrame := ic.SP.Func("newFrame")
	if newFrame == nil {
		r.Errorf("anchor not resolved: newFrame")
		return
	}
	seen := map[*ssa.Function]bool{}
	n := 0
	for _, cb := range g.MakeFuncRoots {
		if seen[cb] {
			continue
		}
		seen[cb] = true
		root := cb
		for root.Parent() != nil {
			root = root.Parent()
		}
		for _, b := range cb.Blocks {
			for _, ins := range b.Instrs {
				call, ok := ins.(*ssa.Call)
				if !ok || call.Call.StaticCallee() != newFrame {
					continue
				}
				n++
				key := ssaFuncName(root) + "/makefunc-frame-id"
				id := call.Call.Args[2]
				stale := ""
				for _, o := range origins(id, map[ssa.Value]bool{}) {
					oc, ok := o.(*ssa.Call)
					if !ok {
						continue
					}
					if staticCalleeName(&oc.Call) == "interp.(*frame).runid" {
						for _, ro := range origins(oc.Call.Args[0], map[ssa.Value]bool{}) {
							if isCaptured(ro) {
								stale = describeValue(ro)
							}
						}
					}
				}
				r.Check(stale == "", "R10.2", key, ic.pos(call.Pos()), "the callback gates on the interpreter's current run id",
					"the callback created by "+ssaFuncName(root)+" passes to newFrame the run id of "+stale+", a frame captured when the callback was created: after any later cancellation (stop advances the interpreter id) the function runs no statement and returns zero values")
			}
		}
	}
	if n < 2 {
		r.Errorf("R10.2: %d newFrame calls found inside reflect.MakeFunc callbacks; the closure and named-function wrappers are expected", n)
	}
}

// isCaptured reports whether v is (a load of) a free variable of the enclosing closure.
func isCaptured(v ssa.Value) bool {
	switch x := v.(type) {
	case *ssa.FreeVar:
		return true
	case *ssa.UnOp:
		return isCaptured(x.X)
	}
	return false
}

var _ = strings.TrimSpace
var _ types.Type
