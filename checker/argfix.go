package main

import (
	"fmt"
	"go/ast"
	"go/types"
	"sort"
	"strings"

	"golang.org/x/tools/go/cfg"
)

// copiers returns the in-package functions func(reflect.Value) reflect.Value whose body
// allocates with reflect.New and copies with Set (role: "fix an argument value").
func copiers(ic *IC) map[*types.Func]bool {
	out := map[*types.Func]bool{}
	for _, fi := range ic.F {
		if fi.Decl.Body == nil || fi.Obj == nil {
			continue
		}
		sig := fi.Obj.Type().(*types.Signature)
		if sig.Params().Len() != 1 || sig.Results().Len() != 1 ||
			types.TypeString(sig.Params().At(0).Type(), nil) != "reflect.Value" || types.TypeString(sig.Results().At(0).Type(), nil) != "reflect.Value" {
			continue
		}
		hasNew := len(callsIn(ic.Info, fi.Decl.Body, true, "reflect.New")) > 0
		hasSet := len(callsIn(ic.Info, fi.Decl.Body, true, "reflect.Value.Set")) > 0
		if hasNew && hasSet {
			out[fi.Obj] = true
		}
	}
	return out
}

// isFreshValue reports whether e yields a reflect.Value that does not alias a frame slot:
// reflect.New(T).Elem(), a copier call, reflect.MakeFunc/ValueOf/Zero results.
func isFreshValue(ic *IC, cp map[*types.Func]bool, e ast.Expr) bool {
	call, ok := unparen(e).(*ast.CallExpr)
	if !ok {
		return false
	}
	f, _ := calleeOf(ic.Info, call).(*types.Func)
	if f == nil {
		return false
	}
	if cp[f] {
		return true
	}
	switch objKey(f) {
	case "reflect.MakeFunc", "reflect.ValueOf", "reflect.Zero":
		return true
	case "reflect.Value.Elem":
		if se, ok := unparen(call.Fun).(*ast.SelectorExpr); ok {
			if inner, ok := unparen(se.X).(*ast.CallExpr); ok && isCallTo(ic.Info, inner, "reflect.New") {
				return true
			}
		}
	}
	return false
}

type vecStore struct {
	idx ast.Expr
	rhs ast.Expr
	pos ast.Node
}

// vectorStores lists the element stores vec[i] = rhs inside body.
func vectorStores(ic *IC, body ast.Node, vec types.Object) []vecStore {
	var out []vecStore
	ast.Inspect(body, func(n ast.Node) bool {
		as, ok := n.(*ast.AssignStmt)
		if !ok || len(as.Lhs) != len(as.Rhs) {
			return true
		}
		for i, l := range as.Lhs {
			ix, ok := unparen(l).(*ast.IndexExpr)
			if !ok {
				continue
			}
			if id, ok := unparen(ix.X).(*ast.Ident); ok && ic.Info.ObjectOf(id) == vec {
				out = append(out, vecStore{ix.Index, as.Rhs[i], as})
			}
		}
		return true
	})
	return out
}

// freshSlotExceptions: stores into a fresh frame that deliberately alias something else,
// keyed "<function>: <range source>" for a call of a ranged-over closure.
// The former exception "call: rvalues" (the callee's result slots were the caller's destination
// slots, "by design") was a defect frozen as an exception: named results started from the
// destination's previous value, partial results of a panicking callee leaked, and a function
// with unnamed results that recovered returned the previous content (D74). The table is empty.
var freshSlotExceptions = map[string]string{}

// freshFrameSlots decides, for every function (literal) that creates a frame with newFrame,
// that the slots of the new frame are bound only to fresh storage: reflect.New(t).Elem(),
// a copier, or a function value wrapper. Arguments and receivers must be copied into the
// slots with Set; binding a slot to a value derived from the caller (src.Elem(), v(f)) makes
// the activation share the caller's variable: a value receiver reached through a pointer
// would be modified in place, and two activations would see each other's locals.
func freshFrameSlots(ic *IC, r *Report, rule string) {
	cp := copiers(ic)
	// in-package functions that build a reflect.MakeFunc value
	wrappers := map[*types.Func]bool{}
	for _, fi := range ic.F {
		if fi.Decl.Body != nil && fi.Obj != nil && len(callsIn(ic.Info, fi.Decl.Body, true, "reflect.MakeFunc")) > 0 {
			wrappers[fi.Obj] = true
		}
	}
	dataFld := ic.field("frame", "data")
	if dataFld == nil {
		r.Errorf("anchor not resolved: frame.data")
		return
	}
	nFrames, nStores := 0, 0
	cnt := map[string]int{}
	for _, name := range sortedKeys(ic.F) {
		fi := ic.F[name]
		if fi.Decl.Body == nil {
			continue
		}
		// every newFrame assignment in this declaration
		ast.Inspect(fi.Decl.Body, func(nd ast.Node) bool {
			as, ok := nd.(*ast.AssignStmt)
			if !ok || len(as.Lhs) != 1 || len(as.Rhs) != 1 {
				return true
			}
			call, ok := unparen(as.Rhs[0]).(*ast.CallExpr)
			if !ok || !isCallTo(ic.Info, call, "interp.newFrame") {
				return true
			}
			id, ok := as.Lhs[0].(*ast.Ident)
			if !ok {
				return true
			}
			fr := ic.Info.ObjectOf(id)
			if fr == nil {
				return true
			}
			nFrames++
			cnt[name]++
			// scope: the innermost function body containing the assignment
			var scope ast.Node = fi.Decl.Body
			for _, p := range enclosingPath(fi.Decl.Body, as) {
				if fl, ok := p.(*ast.FuncLit); ok {
					scope = fl.Body
				}
			}
			// rootedInData: e is fr.data, an alias, or a slice expression of one
			alias := map[types.Object]bool{}
			var rooted func(e ast.Expr) bool
			rooted = func(e ast.Expr) bool {
				switch x := unparen(e).(type) {
				case *ast.SelectorExpr:
					if selField(ic.Info, x) == dataFld {
						if xid, ok := unparen(x.X).(*ast.Ident); ok && ic.Info.ObjectOf(xid) == fr {
							return true
						}
					}
				case *ast.SliceExpr:
					return rooted(x.X)
				case *ast.Ident:
					return alias[ic.Info.ObjectOf(x)]
				}
				return false
			}
			for changed := true; changed; {
				changed = false
				ast.Inspect(scope, func(m ast.Node) bool {
					if a2, ok := m.(*ast.AssignStmt); ok && len(a2.Lhs) == len(a2.Rhs) {
						for i, rhs := range a2.Rhs {
							if lid, ok := a2.Lhs[i].(*ast.Ident); ok && rooted(rhs) {
								if o := ic.Info.ObjectOf(lid); o != nil && !alias[o] {
									alias[o] = true
									changed = true
								}
							}
						}
					}
					return true
				})
			}
			var bad []string
			stores := 0
			ast.Inspect(scope, func(m ast.Node) bool {
				a2, ok := m.(*ast.AssignStmt)
				if !ok || len(a2.Lhs) != len(a2.Rhs) {
					return true
				}
				for i, l := range a2.Lhs {
					ix, ok := unparen(l).(*ast.IndexExpr)
					if !ok || !rooted(ix.X) {
						continue
					}
					stores++
					rhs := a2.Rhs[i]
					if isFreshValue(ic, cp, rhs) {
						continue
					}
					if c, ok := unparen(rhs).(*ast.CallExpr); ok {
						// wrapper(...)(f): a function value built by reflect.MakeFunc
						if inner, ok := unparen(c.Fun).(*ast.CallExpr); ok {
							if f, ok := calleeOf(ic.Info, inner).(*types.Func); ok && wrappers[f] {
								continue
							}
						}
						// v(f) with v ranging over a frozen exception source
						if vid, ok := unparen(c.Fun).(*ast.Ident); ok {
							if src := rangeSourceOf(ic, scope, ic.Info.ObjectOf(vid)); src != "" {
								if _, ok := freshSlotExceptions[name+": "+src]; ok {
									continue
								}
							}
						}
					}
					bad = append(bad, types.ExprString(l)+" = "+types.ExprString(rhs)+" at "+ic.pos(a2.Pos()))
				}
				return true
			})
			nStores += stores
			key := fmt.Sprintf("%s/newFrame#%d/slots-fresh", name, cnt[name])
			if stores == 0 {
				r.Pass(rule, key, ic.pos(as.Pos()), "no slot of the new frame is rebound here (newFrame allocates them)")
				return true
			}
			r.Check(len(bad) == 0, rule, key, ic.pos(as.Pos()), fmt.Sprintf("%d slot bindings, all to fresh storage (or a frozen exception)", stores),
				"a slot of the frame created here is bound to a value that is not fresh storage: "+strings.Join(bad, "; ")+": the activation shares that variable with its caller instead of working on a copy (a value receiver reached through a pointer is modified in place; concurrent activations see each other's data)")
			return true
		})
	}
	if nFrames < 4 || nStores < 5 {
		r.Errorf("%s: %d frames created by newFrame and %d slot bindings found; 4 and 5 confirmed by reading", rule, nFrames, nStores)
	}
}

// rangeSourceOf returns the name of the variable ranged over by the range statement of scope
// whose value variable is v, or "".
func rangeSourceOf(ic *IC, scope ast.Node, v types.Object) string {
	out := ""
	if v == nil {
		return ""
	}
	ast.Inspect(scope, func(n ast.Node) bool {
		if rs, ok := n.(*ast.RangeStmt); ok {
			if id, ok := rs.Value.(*ast.Ident); ok && ic.Info.ObjectOf(id) == v {
				if sid, ok := unparen(rs.X).(*ast.Ident); ok {
					out = sid.Name
				}
			}
		}
		return true
	})
	return out
}

// cloneCopiesData: (*frame).clone gives the new frame a slot vector of its own. Every
// assignment to the data field of the frame it returns is a fresh slice (make, or append to
// an empty slice), and the old slots are copied into it; handing out the receiver's own
// vector makes a closure share the variables rebound later in the defining frame (per-iteration
// variables of a loop at interactive level, redeclared locals).
func cloneCopiesData(ic *IC, r *Report, rule string) {
	fi := ic.fn(r, "frame.clone")
	if fi == nil {
		return
	}
	info := ic.Info
	dataFld := ic.field("frame", "data")
	var bad []string
	fresh, copied := 0, false
	ast.Inspect(fi.Decl.Body, func(n ast.Node) bool {
		switch x := n.(type) {
		case *ast.AssignStmt:
			for i, l := range x.Lhs {
				if selField(info, l) != dataFld || i >= len(x.Rhs) {
					continue
				}
				okFresh := false
				if c, ok := unparen(x.Rhs[i]).(*ast.CallExpr); ok {
					if id, ok := c.Fun.(*ast.Ident); ok && (id.Name == "make" || id.Name == "append") {
						okFresh = true
						if id.Name == "append" && len(c.Args) > 0 {
							// append(f.data[:0:0], ...) / append([]T(nil), ...) are fresh; append(f.data, ...) is not
							if selFieldNode(info, unparen(c.Args[0])) == dataFld {
								okFresh = false
							}
						}
					}
				}
				if okFresh {
					fresh++
				} else {
					bad = append(bad, types.ExprString(l)+" = "+types.ExprString(x.Rhs[i])+" at "+ic.pos(x.Pos()))
				}
			}
		case *ast.KeyValueExpr:
			if id, ok := x.Key.(*ast.Ident); ok && id.Name == "data" {
				if v, ok := info.ObjectOf(id).(*types.Var); ok && v == dataFld {
					if c, ok := unparen(x.Value).(*ast.CallExpr); !ok || types.ExprString(c.Fun) != "make" {
						bad = append(bad, "data: "+types.ExprString(x.Value)+" at "+ic.pos(x.Pos()))
					} else {
						fresh++
					}
				}
			}
		case *ast.CallExpr:
			if id, ok := x.Fun.(*ast.Ident); ok && (id.Name == "copy" || id.Name == "append") && len(x.Args) >= 2 {
				copied = true
			}
		}
		return true
	})
	r.Check(len(bad) == 0 && fresh > 0 && copied, rule, "frame.clone/data-vector-copied", ic.pos(fi.Decl.Pos()), "the clone gets a fresh slot vector filled from the original",
		fmt.Sprintf("(*frame).clone does not give the new frame a slot vector of its own on every path (fresh vectors: %d, copy of the slots: %v, shared: %s): a closure value then sees the slots of its defining frame being rebound after its creation, e.g. closures created in a loop at interactive level all see the last iteration's variable", fresh, copied, strings.Join(bad, "; ")))
}

// copiersAlwaysCopy: a copier (role "fix an argument value": func(reflect.Value) reflect.Value
// allocating with reflect.New and copying with Set) hands back its argument itself only when
// the argument is not settable. A settable value is a frame slot, a field or an element: the
// arguments of a defer or go statement, fixed when the statement executes, must not follow a
// later assignment to the variable, whatever the kind of the value (a slice header, a pointer
// or a map variable can be reassigned like an int). Decided on the flow graph of the copier
// pruned under <param>.CanSet() == true: no `return <param>` is reachable.
func copiersAlwaysCopy(ic *IC, r *Report, rule string) {
	n := 0
	cps := copiers(ic)
	var objs []*types.Func
	for f := range cps {
		objs = append(objs, f)
	}
	sort.Slice(objs, func(i, j int) bool { return objs[i].Pos() < objs[j].Pos() })
	for _, f := range objs {
		fi := ic.G.Funcs[f]
		if fi == nil || fi.Decl.Body == nil || len(fi.Decl.Type.Params.List) != 1 || len(fi.Decl.Type.Params.List[0].Names) != 1 {
			continue
		}
		param := ic.Info.ObjectOf(fi.Decl.Type.Params.List[0].Names[0])
		n++
		atom := func(e ast.Expr) int {
			if c, ok := e.(*ast.CallExpr); ok && isCallTo(ic.Info, c, "reflect.Value.CanSet") {
				if se, ok := unparen(c.Fun).(*ast.SelectorExpr); ok {
					if id, ok := unparen(se.X).(*ast.Ident); ok && ic.Info.ObjectOf(id) == param {
						return triTrue
					}
				}
			}
			return triUnknown
		}
		g := cfg.New(fi.Decl.Body, func(c *ast.CallExpr) bool { return !noReturn(ic.Info, c) })
		var bad []string
		prunedWalk(g, atom, func(nd ast.Node) bool {
			if rs, ok := nd.(*ast.ReturnStmt); ok {
				if len(rs.Results) == 1 {
					if id, ok := unparen(rs.Results[0]).(*ast.Ident); ok && ic.Info.ObjectOf(id) == param {
						bad = append(bad, ic.pos(rs.Pos()))
					}
				}
				return true
			}
			return false
		})
		r.Check(len(bad) == 0, rule, funcName(fi.Decl)+"/settable-argument-copied", ic.pos(fi.Decl.Pos()), "a settable argument is never handed back itself",
			funcName(fi.Decl)+" can return its argument itself although it is settable (at "+strings.Join(bad, ", ")+"): the value still designates the variable, field or element it was read from, so the argument of a defer or go statement follows a later assignment (s := []int{1}; defer host.F(s); s = nil hands nil to F)")
	}
	if n == 0 {
		r.Errorf("%s: no argument copier (func(reflect.Value) reflect.Value using reflect.New and Set) found", rule)
	}
}
