package main

import (
	"fmt"
	"go/ast"
	"go/token"
	"go/types"
	"sort"
	"strings"
)

func init() {
	register("C05", &propMeta{
		Level: "other",
		Explanation: "One table-agreement clause of 'interpreted values handed to compiled code have their interpreted methods invoked': the special argument wrapping of compiled calls is triggered by a table keyed on function values (stdlib.MapTypes, re-keyed per interpreter by fixStdlib). " +
			"R05.1 decides that every key denotes the function value that is actually bound for its name in an interpreter (the default binding, or the fixStdlib override re-keyed from it), that every re-keying reads an existing key, and that sibling functions of identical signature in the same package are keyed alike. " +
			"R05.2 decides one clause of 'sees the same receiver state': a frame created for an activation (newFrame in call, the MakeFunc wrapper, run) has its slots bound only to fresh storage, so receivers and arguments are copied in with Set and a value-receiver method reached through a pointer works on a copy. " +
			"R05.3 decides that in the method-set computation the methods a type declares itself take precedence over promoted ones. " +
			"Method resolution, dynamic dispatch, type assertions and type switches are run-time facts of valueInterface contents and are not decided; wrapper forwarding is decided under C14 (R14.5).",
		Assumptions: []string{"reflect.Value map keys of package-level functions are equal exactly when they denote the same function"},
		Run:         runC05,
	})
	ruleText["R05.1"] = "for every MapTypes[reflect.ValueOf(p.F)] entry: the value bound for p.F in an interpreter is p.F itself, or fixStdlib both overrides p.F and re-keys mapTypes[override] from reflect.ValueOf(p.F); every re-keying in fixStdlib reads a key that exists in MapTypes; within a package, every bound exported function whose signature is identical to a keyed function's is keyed too"
	ruleText["R05.3"] = "in the recursive closure of (*itype).methods, no unconditional store merging the result of a recursive call is reachable from the store recording the type's own methods (range over itype.method)"
	ruleText["R05.4"] = "same analysis as C08/R08.1: no run-time closure writes (assignment, element/field store, also through a one-step local alias) to a variable captured from its generator; receivers and resolved method nodes are per-call values"
	ruleText["R05.5"] = "getWrapper reaches (*itype).methods through direct calls (depth 2), as (*itype).implements does: wrapper selection and interface satisfaction are decided on the same method set"
	ruleText["R05.7"] = "no run-time closure of the generator of type assertions calls methodSet.contains or methodSet.equals (names only): satisfaction of an interpreted interface is decided on the method signatures"
	ruleText["R05.6"] = "the SSA form of the method-resolution functions (methods, lookupMethod*, getMethod, lookupBinMethod*, lookupField, implements, lookupFieldOrMethod, getWrapper, with their closures) contains no Store/MapUpdate whose target is not a local (Alloc, MakeMap, captured local), no store into a package variable and no sync.Map mutation"
	ruleText["R05.2"] = "in every function that creates a frame with newFrame, each element store into the new frame's data vector (directly or through a local slice of it) has as right-hand side reflect.New(t).Elem(), a copier call, a MakeFunc-built function value, or the frozen exception of directly assigned result slots (call: rvalues)"
}

func runC05(c *Config, r *Report) {
	ic, err := loadInterp(c, true)
	if err != nil {
		r.Errorf("%v", err)
		return
	}
	freshFrameSlots(ic, r, "R05.2")
	pureLookups(ic, r, "R05.6")
	c05R7(ic, r)
	c05R8(ic, r, "R05.8")
	c05R9(ic, r)
	c05R10(ic, r)
	c05R12(ic, r)
	c05R13(ic, r)
	c05R14(ic, r)
	c05R16(ic, r)
	c05R17(ic, r)
	c05R18(ic, r)
	c05R19(ic, r)
	c05R20(ic, r)
	c05R21(ic, r)
	c05R22(ic, r)
	c04R20(ic, r, "R05.15")
	c05R11(ic, r)
	c05R3(ic, r)
	c05R5(ic, r)
	// R05.4: method resolution and receiver binding happen per call. The run-time closures keep
	// no mutable per-call-site state (same analysis as C08/R08.1): a node or receiver cached
	// in a captured variable is shared by every call through that site, so a method value
	// bound earlier sees the receiver of a later call.
	sub := newReport("C08")
	c08R1(ic, sub)
	for _, o := range sub.Obls {
		o.Rule = "R05.4"
		r.add(o)
	}
	r.Errors = append(r.Errors, sub.Errors...)
	prog, err := c.load(loadOpts{patterns: []string{"./stdlib"}})
	if err != nil {
		r.Errorf("%v", err)
		return
	}
	pk := prog.Pkgs[0]
	// keys of MapTypes
	type keyInfo struct {
		obj *types.Func
		pos string
	}
	keys := map[string]keyInfo{}
	for _, f := range pk.Syntax {
		ast.Inspect(f, func(n ast.Node) bool {
			as, ok := n.(*ast.AssignStmt)
			if !ok || len(as.Lhs) != 1 {
				return true
			}
			ix, ok := as.Lhs[0].(*ast.IndexExpr)
			if !ok {
				return true
			}
			id, ok := ix.X.(*ast.Ident)
			if !ok || id.Name != "MapTypes" || pk.TypesInfo.ObjectOf(id) == nil || pk.TypesInfo.ObjectOf(id).Parent() != pk.Types.Scope() {
				return true
			}
			arg := valueOfArg(pk.TypesInfo, ix.Index)
			if fo, ok := qualifiedObj(pk.TypesInfo, arg).(*types.Func); ok {
				keys[fo.Pkg().Path()+"."+fo.Name()] = keyInfo{fo, prog.pos(as.Pos())}
			} else if call, ok := arg.(*ast.CallExpr); ok {
				// composed interface wrappers: reflect.ValueOf((*_W)(nil)) keys used by getWrapper
				if _, isStar := unparen(call.Fun).(*ast.StarExpr); !isStar {
					r.Fail("R05.1", "MapTypes/key-form:"+types.ExprString(ix.Index), prog.pos(as.Pos()), "a MapTypes key is neither reflect.ValueOf(<package function>) nor a wrapper type key")
				}
			} else {
				r.Fail("R05.1", "MapTypes/key-form:"+types.ExprString(ix.Index), prog.pos(as.Pos()), "a MapTypes key is neither reflect.ValueOf(<package function>) nor a wrapper type key")
			}
			return true
		})
	}
	if len(keys) < 10 {
		r.Errorf("R05.1: only %d MapTypes keys found", len(keys))
		return
	}
	// default bindings
	bs, _ := collectBindings(pk, prog)
	bound := map[string]binding{}
	for _, b := range bs {
		bound[b.importPath+"."+b.name] = b
	}
	// fixStdlib overrides and re-keyings
	_, ovs := fixStdlibOverrides(ic, r)
	over := map[string]override{}
	for _, o := range ovs {
		over[o.pkgPath+"."+o.name] = o
	}
	rekeyed := map[string]string{} // pkg.Name (the p["N"] index) -> source key pkg.F
	mt := ic.field("Interpreter", "mapTypes")
	if fi := ic.F["fixStdlib"]; fi != nil && mt != nil {
		cur := map[types.Object]string{}
		binPkg := ic.field("Interpreter", "binPkg")
		ast.Inspect(fi.Decl.Body, func(n ast.Node) bool {
			as, ok := n.(*ast.AssignStmt)
			if !ok || len(as.Lhs) != len(as.Rhs) {
				return true
			}
			for i, l := range as.Lhs {
				if id, ok := l.(*ast.Ident); ok {
					if ix, ok := unparen(as.Rhs[i]).(*ast.IndexExpr); ok && selField(ic.Info, ix.X) == binPkg {
						if tv, ok := ic.Info.Types[ix.Index]; ok && tv.Value != nil {
							cur[ic.Info.ObjectOf(id)] = strings.Trim(tv.Value.ExactString(), `"`)
						}
					}
					continue
				}
				lix, ok := unparen(l).(*ast.IndexExpr)
				if !ok || selField(ic.Info, lix.X) != mt {
					continue
				}
				// key: p["N"]
				kix, ok := unparen(lix.Index).(*ast.IndexExpr)
				if !ok {
					continue
				}
				pid, ok := unparen(kix.X).(*ast.Ident)
				if !ok {
					continue
				}
				pkgPath := cur[ic.Info.ObjectOf(pid)]
				ntv, ok := ic.Info.Types[kix.Index]
				if !ok || ntv.Value == nil || pkgPath == "" {
					continue
				}
				name := strings.Trim(ntv.Value.ExactString(), `"`)
				// source: interp.mapTypes[reflect.ValueOf(pkg.F)]
				src := ""
				if rix, ok := unparen(as.Rhs[i]).(*ast.IndexExpr); ok && selField(ic.Info, rix.X) == mt {
					if fo, ok := qualifiedObj(ic.Info, valueOfArg(ic.Info, rix.Index)).(*types.Func); ok {
						src = fo.Pkg().Path() + "." + fo.Name()
					}
				}
				key := "fixStdlib/rekey:" + pkgPath + "." + name
				if src == "" {
					r.Fail("R05.1", key, ic.pos(as.Pos()), "the re-keying of "+pkgPath+"."+name+" does not read mapTypes[reflect.ValueOf(<package function>)]")
					continue
				}
				rekeyed[pkgPath+"."+name] = src
				_, exists := keys[src]
				r.Check(exists && src == pkgPath+"."+name, "R05.1", key, ic.pos(as.Pos()), "re-keyed from the existing key "+src,
					"fixStdlib re-keys "+pkgPath+"."+name+" from mapTypes[reflect.ValueOf("+src+")], "+map[bool]string{true: "which is the key of another function", false: "but stdlib.MapTypes has no such key: the copy is empty and interpreted Stringer/Formatter arguments of " + pkgPath + "." + name + " are not wrapped (their interpreted methods are not invoked)"}[exists])
			}
			return true
		})
	}
	for _, k := range sortedKeys(keys) {
		ki := keys[k]
		b, isBound := bound[k]
		_, isOver := over[k]
		key := "MapTypes/" + k
		switch {
		case !isBound:
			r.Fail("R05.1", key, ki.pos, k+" is a MapTypes key but is not bound in the default table")
		case isOver:
			src, ok := rekeyed[k]
			r.Check(ok && src == k, "R05.1", key, ki.pos, "overridden by fixStdlib and re-keyed there",
				"fixStdlib overrides "+k+" with a per-interpreter function but does not re-key mapTypes for it: the key denotes the original function, which is never the one called, so interpreted Stringer/Formatter arguments are passed unwrapped")
		default:
			arg := valueOfArg(pk.TypesInfo, b.val)
			same := false
			if fo, ok := qualifiedObj(pk.TypesInfo, arg).(*types.Func); ok && fo == ki.obj {
				same = true
			}
			r.Check(same, "R05.1", key, ki.pos, "the key is the bound function",
				k+" is a MapTypes key but the default table binds "+types.ExprString(b.val)+" under that name and fixStdlib does not re-key it: the special wrapping of interface arguments never triggers for the function scripts actually call")
		}
	}
	// sibling agreement: same package, identical signature, bound, exported
	byPkg := map[string][]keyInfo{}
	for _, k := range sortedKeys(keys) {
		byPkg[keys[k].obj.Pkg().Path()] = append(byPkg[keys[k].obj.Pkg().Path()], keys[k])
	}
	var pkgs []string
	for p := range byPkg {
		pkgs = append(pkgs, p)
	}
	sort.Strings(pkgs)
	nSib := 0
	for _, p := range pkgs {
		imp := pk.Imports[p]
		if imp == nil {
			continue
		}
		sc := imp.Types.Scope()
		for _, name := range sc.Names() {
			fo, ok := sc.Lookup(name).(*types.Func)
			if !ok || !fo.Exported() {
				continue
			}
			if _, bnd := bound[p+"."+name]; !bnd {
				continue
			}
			if _, isKey := keys[p+"."+name]; isKey {
				continue
			}
			// the family of a package's keyed functions: bound functions taking a variadic ...interface{}
			if variadicAny(fo) && variadicAny(byPkg[p][0].obj) {
				nSib++
				r.Fail("R05.1", "MapTypes/sibling:"+p+"."+name, byPkg[p][0].pos, fmt.Sprintf("%s.%s takes ...interface{} like the keyed functions of %s (%s, ...) and is bound, but is not a MapTypes key: an interpreted value with a String/Format/Scan method passed to it is not wrapped and its interpreted method is not invoked", p, name, p, byPkg[p][0].obj.Name()))
			}
		}
	}
	if nSib == 0 {
		r.Pass("R05.1", "MapTypes/siblings", "", fmt.Sprintf("%d keys in %d packages; no bound function with the signature of a keyed one is left out", len(keys), len(pkgs)))
	}
}

func variadicAny(f *types.Func) bool {
	sig := f.Type().(*types.Signature)
	if !sig.Variadic() {
		return false
	}
	last := sig.Params().At(sig.Params().Len() - 1).Type()
	if s, ok := last.(*types.Slice); ok {
		if it, ok := s.Elem().Underlying().(*types.Interface); ok && it.NumMethods() == 0 {
			return true
		}
	}
	return false
}

// c05R3: shadowing precedence in the method-set computation. The methods declared on a type
// hide the methods promoted from its embedded, pointed-to or underlying types, so in the
// function computing a method set the stores of the type's own methods must not be
// overwritten by a later merge of a recursive result (unless the merge tests for absence).
func c05R3(ic *IC, r *Report) {
	fi := ic.fn(r, "itype.methods")
	if fi == nil {
		return
	}
	methodFld := ic.field("itype", "method")
	if methodFld == nil {
		r.Errorf("anchor not resolved: itype.method")
		return
	}
	n := 0
	ast.Inspect(fi.Decl.Body, func(nd ast.Node) bool {
		fl, ok := nd.(*ast.FuncLit)
		if !ok {
			return true
		}
		// the recursive closure variable: fl assigned to an identifier called inside fl
		var self types.Object
		for _, p := range enclosingPath(fi.Decl.Body, fl) {
			if as, ok := p.(*ast.AssignStmt); ok && len(as.Lhs) == 1 && len(as.Rhs) == 1 && as.Rhs[0] == ast.Expr(fl) {
				if id, ok := as.Lhs[0].(*ast.Ident); ok {
					self = ic.Info.ObjectOf(id)
				}
			}
		}
		if self == nil {
			return true
		}
		var own, merges []*ast.AssignStmt
		ast.Inspect(fl.Body, func(m ast.Node) bool {
			rs, ok := m.(*ast.RangeStmt)
			if !ok {
				return true
			}
			isOwn := selFieldNode(ic.Info, rs.X) == methodFld
			isMerge := false
			if c, ok := unparen(rs.X).(*ast.CallExpr); ok {
				if id, ok := unparen(c.Fun).(*ast.Ident); ok && ic.Info.ObjectOf(id) == self {
					isMerge = true
				}
			}
			if !isOwn && !isMerge {
				return true
			}
			for _, s := range rs.Body.List {
				as, ok := s.(*ast.AssignStmt)
				if !ok || len(as.Lhs) != 1 {
					continue // a guarded merge (if _, ok := res[k]; !ok {...}) is not an unconditional overwrite
				}
				if _, ok := unparen(as.Lhs[0]).(*ast.IndexExpr); !ok {
					continue
				}
				if isOwn {
					own = append(own, as)
				} else {
					merges = append(merges, as)
				}
			}
			return true
		})
		if len(own) == 0 && len(merges) == 0 {
			return true
		}
		n++
		if len(own) == 0 || len(merges) < 2 {
			r.Errorf("R05.3: method-set closure recognised with %d own-method stores and %d merges (1 and >=2 expected)", len(own), len(merges))
			return true
		}
		fg := buildFlow(fl.Body, ic.Info)
		var bad []string
		for _, o := range own {
			for _, m := range merges {
				if re, ok := fg.reaches(o, m); ok && re {
					bad = append(bad, "merge at "+ic.pos(m.Pos())+" runs after the own methods are recorded at "+ic.pos(o.Pos()))
				} else if !ok {
					bad = append(bad, "undecided: statement not located in the flow graph")
				}
			}
		}
		r.Check(len(bad) == 0, "R05.3", "itype.methods/own-methods-shadow-promoted", ic.pos(fl.Pos()), fmt.Sprintf("own methods are recorded after the %d unconditional merges of promoted methods", len(merges)),
			strings.Join(dedupStr(bad), "; ")+": a method promoted from an embedded (or underlying, pointed-to) type replaces the method the type declares itself, so a type that shadows a promoted method with another signature is reported to implement the wrong interfaces (assertions and type switches take the other branch)")
		return true
	})
	if n == 0 {
		r.Errorf("R05.3: the recursive method-set closure of (*itype).methods was not recognised")
	}
}

// c05R5: which composed wrapper an interpreted value gets when it is handed to compiled code
// (io.Reader+WriteTo, http.ResponseWriter+Hijacker, ...) is decided on the value's *method
// set*: promoted methods, methods of embedded compiled types and pointer-receiver methods
// count, exactly as for `implements`. The selection in getWrapper must therefore be based on
// (*itype).methods (directly or through a helper); a lookup of directly declared methods only
// (getMethod) or of interpreted methods only (lookupMethod) silently picks the plain wrapper
// and the optional interface is never offered to the compiled caller.
func c05R5(ic *IC, r *Report) {
	fi := ic.fn(r, "getWrapper")
	impl := ic.fn(r, "itype.implements")
	if fi == nil || impl == nil {
		return
	}
	reaches := func(f *FuncInfo) bool {
		seen := map[*types.Func]bool{}
		var walk func(d *FuncInfo, depth int) bool
		walk = func(d *FuncInfo, depth int) bool {
			found := false
			ast.Inspect(d.Decl.Body, func(n ast.Node) bool {
				c, ok := n.(*ast.CallExpr)
				if !ok || found {
					return !found
				}
				g, ok := calleeOf(ic.Info, c).(*types.Func)
				if !ok || g.Pkg() != ic.Pk.Types {
					return true
				}
				if canonKey(g.Pkg(), shortKey(objKey(g))) == "interp.itype.methods" {
					found = true
					return false
				}
				if depth < 2 && !seen[g] {
					seen[g] = true
					if gd := ic.G.Funcs[g]; gd != nil && gd.Decl.Body != nil && gd.Decl.Recv == nil {
						if walk(gd, depth+1) {
							found = true
						}
					}
				}
				return true
			})
			return found
		}
		return walk(f, 0)
	}
	if !reaches(impl) {
		r.Pass("R05.5", "getWrapper/selection-on-method-set", ic.pos(fi.Decl.Pos()), "(*itype).implements is no longer based on (*itype).methods: the sibling rule does not apply")
		return
	}
	r.Check(reaches(fi), "R05.5", "getWrapper/selection-on-method-set", ic.pos(fi.Decl.Pos()), "the composed wrapper is selected on the full method set, like implements",
		"getWrapper no longer consults (*itype).methods (which (*itype).implements is based on) to decide whether the interpreted type has the methods of a composed wrapper: methods promoted from embedded fields, provided by embedded compiled types or declared on the pointer are not seen, so io.Copy never calls an interpreted WriteTo and the value silently gets the plain wrapper")
}

// c05R7: a type assertion x.(I) to an interface declared in the script succeeds only if the
// dynamic type has I's methods *with their signatures*. methodSet.contains (and equals, built
// on it) compares method names only - acceptable for what the compiler already type-checked,
// not for a run-time decision between interfaces with overlapping method names. No run-time
// closure of the generator of type assertions calls them; the closures that take two method
// sets compare their elements (an index expression into a method set).
func c05R7(ic *IC, r *Report) {
	fi := ic.fn(r, "typeAssert")
	if fi == nil {
		return
	}
	info := ic.Info
	n := 0
	for k, fl := range (&c02ctx{ic: ic}).closuresOf(fi) {
		sets := len(callsIn(info, fl.Body, true, "interp.itype.methods"))
		namesOnly := callsIn(info, fl.Body, true, "interp.methodSet.contains", "interp.methodSet.equals")
		if sets == 0 && len(namesOnly) == 0 {
			continue
		}
		n++
		var where []string
		for _, c := range namesOnly {
			where = append(where, ic.pos(c.Pos()))
		}
		r.Check(len(namesOnly) == 0, "R05.7", fmt.Sprintf("typeAssert/closure#%d/signatures-compared", k+1), ic.pos(fl.Pos()), "method sets are compared with their signatures",
			"this closure of the generator of type assertions decides x.(I) with methodSet.contains/equals (at "+strings.Join(where, ", ")+"), which compare method names only: a type with Get() int is accepted for an interface requiring Get() string, the wrong branch is taken and a later call panics")
	}
	if n == 0 {
		r.Errorf("R05.7: no closure of typeAssert compares method sets")
	}
}

func init() {
	ruleText["R05.8"] = "in the generator of interface wrappers, the wrapper is skipped because reflect reports that the frame type implements the interface only for non-struct types: every reflect.Type.Implements shortcut is conjoined with, or nested under, cat != structT (interpreted methods are not in reflect's method set; a struct can get promoted compiled methods that interpreted ones shadow)"
}

// c05R8: shared as R07.15. Two independent round-5 agents (C05, C07) removed or narrowed the
// struct test of genInterfaceWrapper.
func c05R8(ic *IC, r *Report, rule string) {
	info := ic.Info
	fi := ic.fn(r, "genInterfaceWrapper")
	if fi == nil {
		return
	}
	structT, _ := ic.Pk.Types.Scope().Lookup("structT").(*types.Const)
	if structT == nil {
		r.Errorf("%s: constant structT not found", rule)
		return
	}
	// locals holding n.typ.cat
	catFld := ic.field("itype", "cat")
	isCat := func(e ast.Expr) bool {
		if selField(info, e) == catFld {
			return true
		}
		if id := identOf(e); id != nil {
			obj := info.ObjectOf(id)
			found := false
			ast.Inspect(fi.Decl.Body, func(m ast.Node) bool {
				if as, ok := m.(*ast.AssignStmt); ok && len(as.Lhs) == len(as.Rhs) {
					for i, l := range as.Lhs {
						if lid := identOf(l); lid != nil && info.ObjectOf(lid) == obj && selField(info, as.Rhs[i]) == catFld {
							found = true
						}
					}
				}
				return true
			})
			return found
		}
		return false
	}
	notStruct := func(e ast.Expr) bool { // e contains, as a conjunct, X != structT
		ok := false
		var visit func(x ast.Expr)
		visit = func(x ast.Expr) {
			x = unparen(x)
			if be, isB := x.(*ast.BinaryExpr); isB {
				if be.Op == token.LAND {
					visit(be.X)
					visit(be.Y)
					return
				}
				if be.Op == token.NEQ {
					if id := identOf(be.Y); id != nil && info.ObjectOf(id) == structT && isCat(be.X) {
						ok = true
					}
				}
			}
		}
		visit(e)
		return ok
	}
	n := 0
	for _, c := range callsIn(info, fi.Decl.Body, true, "reflect.Type.Implements") {
		n++
		guarded := false
		for _, p := range enclosingPath(fi.Decl.Body, c) {
			if ifs, ok := p.(*ast.IfStmt); ok {
				inBody := ifs.Body.Pos() <= c.Pos() && c.End() <= ifs.Body.End()
				inCond := ifs.Cond.Pos() <= c.Pos() && c.End() <= ifs.Cond.End()
				if (inBody || inCond) && notStruct(ifs.Cond) {
					guarded = true
				}
			}
		}
		r.Check(guarded, rule, fmt.Sprintf("genInterfaceWrapper/implements-shortcut#%d/not-for-structs", n), ic.pos(c.Pos()), "the reflect shortcut is taken for non-struct types only",
			"genInterfaceWrapper skips the wrapper when reflect reports that the value's type implements the host interface ("+ic.pos(c.Pos())+") also for struct types: reflect only sees the methods promoted from embedded compiled types, so an interpreted method that redefines one of them (type T struct{ bytes.Buffer }; func (T) String() string) is bypassed when the value is handed to compiled code")
	}
	if n == 0 {
		r.Errorf("%s: no reflect.Type.Implements shortcut found in genInterfaceWrapper", rule)
	}
}

func init() {
	ruleText["R05.9"] = "in the generator of type assertions, the failure 'interface is nil' is decided on the validity of the dynamic value only: no IsNil/IsZero test (direct or through an in-package helper) leads to it - an interface holding a typed nil pointer, map, slice, func or channel is not a nil interface"
}

// c05R9: round-5 seed replaced !v.value.IsValid() by a helper that also tests IsNil.
func c05R9(ic *IC, r *Report) {
	info := ic.Info
	fi := ic.fn(r, "typeAssert")
	if fi == nil {
		return
	}
	callsNilTest := func(e ast.Node) string {
		bad := ""
		for _, c := range allCalls(e) {
			f, ok := calleeOf(info, c).(*types.Func)
			if !ok {
				continue
			}
			if f.Pkg() != nil && f.Pkg().Path() == "reflect" && (f.Name() == "IsNil" || f.Name() == "IsZero") {
				bad = "reflect.Value." + f.Name()
			}
			if f.Pkg() == ic.Pk.Types {
				if hd := ic.G.Funcs[f]; hd != nil && hd.Decl.Body != nil && hd.Decl.Recv == nil {
					takesValue := false
					sg := f.Type().(*types.Signature)
					for i := 0; i < sg.Params().Len(); i++ {
						if types.TypeString(sg.Params().At(i).Type(), nil) == "reflect.Value" {
							takesValue = true
						}
					}
					if takesValue && len(callsIn(info, hd.Decl.Body, true, "reflect.Value.IsNil", "reflect.Value.IsZero")) > 0 {
						bad = f.Name() + " (tests IsNil/IsZero)"
					}
				}
			}
		}
		return bad
	}
	n := 0
	ast.Inspect(fi.Decl.Body, func(m ast.Node) bool {
		ifs, ok := m.(*ast.IfStmt)
		if !ok {
			return true
		}
		mentions := false
		for s := range stringLits(ifs.Body) {
			if strings.Contains(s, "is nil, not") {
				mentions = true
			}
		}
		if !mentions {
			return true
		}
		n++
		bad := callsNilTest(ifs.Cond)
		r.Check(bad == "", "R05.9", fmt.Sprintf("typeAssert/nil-interface-test#%d/validity-only", n), ic.pos(ifs.Pos()), "the nil-interface failure is decided on IsValid",
			"typeAssert reports 'interface is nil' (or ok == false) under "+types.ExprString(ifs.Cond)+", which calls "+bad+": an interface value holding a typed nil pointer (or nil map, slice, func, channel) fails v.(*T) and v, ok := i.(*T) although its dynamic type is *T")
		return true
	})
	if n == 0 {
		r.Errorf("R05.9: no 'interface is nil' failure found in typeAssert")
	}
}

func init() {
	ruleText["R05.10"] = "every run-time closure of the generator of type assertions that reports a status also gives the result its zero value when the assertion fails: the function completing the two-value form (deferred, or called on the failing paths) sets the status and, under !ok, stores reflect.Zero into the result"
}

// c05R10: v, ok = x.(T) assigns the zero value of T to v when it fails (found D76: v kept the
// value of the previous successful assertion).
func c05R10(ic *IC, r *Report) {
	info := ic.Info
	fi := ic.fn(r, "typeAssert")
	if fi == nil {
		return
	}
	// completion functions: in-package functions (or literals) that call SetBool and, under a
	// negated boolean, Set(reflect.Zero(...)) / SetZero
	completes := func(body ast.Node) (status, zero bool) {
		ast.Inspect(body, func(m ast.Node) bool {
			c, ok := m.(*ast.CallExpr)
			if !ok {
				return true
			}
			if isCallTo(info, c, "reflect.Value.SetBool") {
				status = true
			}
			if isCallTo(info, c, "reflect.Value.SetZero") || (isCallTo(info, c, "reflect.Value.Set") && len(c.Args) == 1 && len(callsIn(info, c.Args[0], true, "reflect.Zero")) > 0) {
				// under a condition negating a bool
				for _, p := range enclosingPath(body, c) {
					if ifs, ok := p.(*ast.IfStmt); ok {
						ast.Inspect(ifs.Cond, func(q ast.Node) bool {
							if ue, ok := q.(*ast.UnaryExpr); ok && ue.Op == token.NOT {
								zero = true
							}
							return true
						})
					}
				}
			}
			return true
		})
		return
	}
	n := 0
	for k, fl := range (&c02ctx{ic: ic}).closuresOf(fi) {
		// does the closure report a status? (a deferred call, directly or through a helper)
		var deferred []ast.Node
		ast.Inspect(fl.Body, func(m ast.Node) bool {
			if ds, ok := m.(*ast.DeferStmt); ok {
				if dl, ok := ds.Call.Fun.(*ast.FuncLit); ok {
					deferred = append(deferred, dl.Body)
					for _, c := range allCalls(dl.Body) {
						if f, ok := calleeOf(info, c).(*types.Func); ok && f.Pkg() == ic.Pk.Types {
							if hd := ic.G.Funcs[f]; hd != nil && hd.Decl.Body != nil {
								deferred = append(deferred, hd.Decl.Body)
							}
						}
					}
				}
			}
			return true
		})
		st, ze := false, false
		for _, d := range deferred {
			s, z := completes(d)
			st, ze = st || s, ze || z
		}
		if !st {
			continue
		}
		n++
		r.Check(ze, "R05.10", fmt.Sprintf("typeAssert/closure#%d/failed-assertion-zeroes-the-result", k+1), ic.pos(fl.Pos()), "the completion of the two-value form zeroes the result when the assertion fails",
			"this closure of typeAssert sets the status of v, ok = x.(T) on its way out but leaves v untouched when the assertion fails: v keeps the value of a previous successful assertion ({2} false instead of {0} false)")
	}
	if n < 4 {
		r.Errorf("R05.10: only %d closures of typeAssert reporting a status found", n)
	}
}

func init() {
	ruleText["R05.11"] = "the generator of method values binds the receiver when the method value is evaluated: its run-time closure evaluates the receiver and records a copy of it (a receiver record whose value originates in reflect.New(T).Elem()) for methods declared with a value receiver; the receiver node alone would be evaluated at each later call"
}

// c05R11: found D80 (g := c.get; c.n = 5; g() returned 5).
func c05R11(ic *IC, r *Report) {
	info := ic.Info
	fi := ic.fn(r, "getMethod")
	if fi == nil {
		return
	}
	recvT, _ := ic.Pk.Types.Scope().Lookup("receiver").(*types.TypeName)
	n := 0
	for k, fl := range (&c02ctx{ic: ic}).closuresOf(fi) {
		n++
		// a composite literal receiver{val: X} (or &receiver{...}) with X a local assigned from reflect.New(...).Elem()
		ok := false
		helperWhy := ""
		ast.Inspect(fl.Body, func(m ast.Node) bool {
			cl, isCl := m.(*ast.CompositeLit)
			if !isCl || recvT == nil {
				return true
			}
			if t := info.TypeOf(cl); t == nil || !types.Identical(t, recvT.Type()) {
				return true
			}
			for _, e := range cl.Elts {
				kv, isKV := e.(*ast.KeyValueExpr)
				if !isKV {
					continue
				}
				if id := identOf(kv.Key); id == nil || id.Name != "val" {
					continue
				}
				// the receiver bound by a helper of the generator: the helper copies, and copies the
				// value the method works on - for a value receiver reached through a pointer the
				// copy is made after the dereference (a copy of the pointer followed by Elem()
				// aliases the pointed struct)
				if hc, isCall := unparen(kv.Value).(*ast.CallExpr); isCall {
					if h, isF := calleeOf(info, hc).(*types.Func); isF && h.Pkg() == ic.Pk.Types {
						if hd := ic.G.Funcs[h]; hd != nil && hd.Decl.Body != nil {
							var copyPos, derefPos token.Pos
							ast.Inspect(hd.Decl.Body, func(q ast.Node) bool {
								c, isC := q.(*ast.CallExpr)
								if !isC {
									return true
								}
								if g, isF := calleeOf(info, c).(*types.Func); isF && (copiers(ic)[g] || isCallTo(info, c, "reflect.New")) {
									if copyPos == token.NoPos || c.Pos() > copyPos {
										copyPos = c.Pos()
									}
								}
								if isCallTo(info, c, "reflect.Value.Elem") && len(callsIn(info, c, true, "reflect.New")) == 0 {
									if c.Pos() > derefPos {
										derefPos = c.Pos()
									}
								}
								return true
							})
							if copyPos != token.NoPos && (derefPos == token.NoPos || derefPos < copyPos) {
								ok = true
							} else if copyPos != token.NoPos {
								helperWhy = h.Name() + " copies the receiver (" + ic.pos(copyPos) + ") and dereferences it afterwards (" + ic.pos(derefPos) + "): for a value receiver reached through a pointer the copy is of the pointer, and the method value works on the pointed struct itself - f := p.M; p.x = 9; f() sees 9"
							}
						}
					}
				}
				if vid := identOf(kv.Value); vid != nil {
					// the recorded value, or a local it is assigned from, is reflect.New(T).Elem()
					var isCopy func(obj types.Object, depth int) bool
					isCopy = func(obj types.Object, depth int) bool {
						found := false
						ast.Inspect(fl.Body, func(q ast.Node) bool {
							if as, isAs := q.(*ast.AssignStmt); isAs && len(as.Lhs) == len(as.Rhs) {
								for i, l := range as.Lhs {
									if lid := identOf(l); lid != nil && info.ObjectOf(lid) == obj {
										if c, isC := unparen(as.Rhs[i]).(*ast.CallExpr); isC && (isCallTo(info, c, "reflect.Value.Elem") && len(callsIn(info, c, true, "reflect.New")) > 0 || copiers(ic)[funcOf(info, c)]) {
											found = true
										}
										if rid := identOf(as.Rhs[i]); rid != nil && depth < 2 && info.ObjectOf(rid) != obj && isCopy(info.ObjectOf(rid), depth+1) {
											found = true
										}
									}
								}
							}
							return true
						})
						return found
					}
					if isCopy(info.ObjectOf(vid), 0) {
						ok = true
					}
				}
			}
			return true
		})
		detail := "the run-time closure of getMethod hands the receiver *node* to the function value: the receiver expression is evaluated again at each call, so g := c.get; c.n = 5; g() sees n == 5 where compiled Go bound a copy of c when g was evaluated (1)"
		if helperWhy != "" {
			detail = "the run-time closure of getMethod binds the receiver through a helper that does not copy the value the method works on: " + helperWhy
		}
		r.Check(ok, "R05.11", fmt.Sprintf("getMethod/closure#%d/receiver-bound-at-evaluation", k+1), ic.pos(fl.Pos()), "the method value records a copy of its receiver",
			detail)
	}
	if n == 0 {
		r.Errorf("R05.11: no run-time closure found in getMethod")
	}
	// the receiver generator is built whatever the kind of receiver the method declares: a
	// pointer receiver is a value too (the pointer), read from a variable that can be assigned
	// before the method value is called (go w.run(out) in a loop over []*worker, f := w.get; w = other)
	nGen := 0
	for _, c := range callsIn(info, fi.Decl.Body, false, "interp.genValueRecv") {
		nGen++
		bad := ""
		for _, g := range pathGuards(fi.Decl.Body, c) {
			if len(callsIn(info, g.cond, true, "interp.hasPtrRecv")) > 0 {
				bad = types.ExprString(g.cond)
			}
		}
		r.Check(bad == "", "R05.11", fmt.Sprintf("getMethod/receiver-generator#%d/for-pointer-receivers-too", nGen), ic.pos(c.Pos()), "the receiver is evaluated with the method value whatever the declared receiver",
			"getMethod evaluates the receiver with the method value only under "+bad+": for a method declared with a pointer receiver the receiver variable is read when the function value is called - go w.run(out) in a loop over []*worker starts every goroutine on the last worker ([3 3 3 3]), and f := w.get; w = other; f() calls other's")
	}
	if nGen == 0 {
		r.Errorf("R05.11: getMethod builds no receiver generator (genValueRecv)")
	}
}

func init() {
	ruleText["R05.12"] = "every exit of every run-time closure of the type-assertion generator completes the two-value form: the closure defers the completion (status, and zero result on failure), or each of its return statements calls a completion or comes after one in an enclosing statement list"
}

// c05R12: round-6 seed. The deferred completion was replaced by explicit calls and one failing
// exit (method missing from the dynamic type) was forgotten: j, ok := x.(J) kept the j and ok of
// the previous execution of the statement.
func c05R12(ic *IC, r *Report) {
	info := ic.Info
	fi := ic.fn(r, "typeAssert")
	if fi == nil {
		return
	}
	execFld := ic.field("node", "exec")
	// in-package completion functions: set a bool status
	setsStatus := func(body ast.Node) bool {
		return len(callsIn(info, body, true, "reflect.Value.SetBool")) > 0
	}
	completer := map[types.Object]bool{}
	for f, hd := range ic.G.Funcs {
		if hd.Decl.Body != nil && hd.Decl.Recv == nil && setsStatus(hd.Decl.Body) && len(hd.Decl.Body.List) <= 6 {
			completer[f] = true
		}
	}
	// local closures of typeAssert that complete (directly or through a completion function)
	completesIn := func(body ast.Node) bool {
		if setsStatus(body) {
			return true
		}
		for _, c := range allCalls(body) {
			if o := calleeOf(info, c); o != nil && completer[o] {
				return true
			}
		}
		return false
	}
	ast.Inspect(fi.Decl.Body, func(m ast.Node) bool {
		as, ok := m.(*ast.AssignStmt)
		if !ok || len(as.Lhs) != 1 || len(as.Rhs) != 1 {
			return true
		}
		if fl, ok := unparen(as.Rhs[0]).(*ast.FuncLit); ok && selField(info, as.Lhs[0]) != execFld {
			if id := identOf(as.Lhs[0]); id != nil && completesIn(fl.Body) {
				completer[info.ObjectOf(id)] = true
			}
		}
		return true
	})
	isCompletion := func(n ast.Node) bool {
		found := false
		ast.Inspect(n, func(q ast.Node) bool {
			if c, ok := q.(*ast.CallExpr); ok {
				if isCallTo(info, c, "reflect.Value.SetBool") {
					found = true
				}
				if o := calleeOf(info, c); o != nil && completer[o] {
					found = true
				}
				if id := identOf(c.Fun); id != nil && completer[info.ObjectOf(id)] {
					found = true
				}
			}
			return true
		})
		return found
	}
	n := 0
	ast.Inspect(fi.Decl.Body, func(m ast.Node) bool {
		as, ok := m.(*ast.AssignStmt)
		if !ok || len(as.Lhs) != 1 || len(as.Rhs) != 1 || selField(info, as.Lhs[0]) != execFld {
			return true
		}
		fl, ok := unparen(as.Rhs[0]).(*ast.FuncLit)
		if !ok {
			return true
		}
		n++
		// the deferred form
		deferredOK := false
		for _, st := range fl.Body.List {
			var ds *ast.DeferStmt
			switch y := st.(type) {
			case *ast.DeferStmt:
				ds = y
			case *ast.IfStmt:
				// if withOk { defer ... }: the test is a parameter of the generator
				if id := identOf(y.Cond); id != nil && len(y.Body.List) == 1 {
					if _, isParam := info.ObjectOf(id).(*types.Var); isParam {
						ds, _ = y.Body.List[0].(*ast.DeferStmt)
					}
				}
			case *ast.ReturnStmt:
			}
			if ds != nil && isCompletion(ds.Call) {
				deferredOK = true
			}
			if _, isRet := st.(*ast.ReturnStmt); isRet {
				break
			}
			if deferredOK {
				break
			}
			// only leading statements without a return may precede the defer
			hasRet := false
			ast.Inspect(st, func(q ast.Node) bool {
				if _, ok := q.(*ast.FuncLit); ok {
					return false
				}
				if _, ok := q.(*ast.ReturnStmt); ok {
					hasRet = true
				}
				return true
			})
			if hasRet {
				break
			}
		}
		var bad []string
		if !deferredOK {
			var visit func(list []ast.Stmt, covered bool)
			var visitStmt func(s ast.Stmt, covered bool)
			visit = func(list []ast.Stmt, covered bool) {
				for _, s := range list {
					visitStmt(s, covered)
					switch y := s.(type) {
					case *ast.ExprStmt:
						if isCompletion(y) {
							covered = true
						}
					case *ast.IfStmt:
						// if withOk { completion }
						if id := identOf(y.Cond); id != nil && y.Else == nil && isCompletion(y.Body) {
							covered = true
						}
					}
				}
			}
			visitStmt = func(s ast.Stmt, covered bool) {
				switch y := s.(type) {
				case *ast.ReturnStmt:
					if !covered && !isCompletion(y) {
						bad = append(bad, ic.pos(y.Pos()))
					}
				case *ast.BlockStmt:
					visit(y.List, covered)
				case *ast.IfStmt:
					visit(y.Body.List, covered)
					if y.Else != nil {
						visitStmt(y.Else, covered)
					}
				case *ast.ForStmt:
					visit(y.Body.List, covered)
				case *ast.RangeStmt:
					visit(y.Body.List, covered)
				case *ast.SwitchStmt:
					for _, c := range y.Body.List {
						visit(c.(*ast.CaseClause).Body, covered)
					}
				case *ast.TypeSwitchStmt:
					for _, c := range y.Body.List {
						visit(c.(*ast.CaseClause).Body, covered)
					}
				case *ast.LabeledStmt:
					visitStmt(y.Stmt, covered)
				}
			}
			visit(fl.Body.List, false)
		}
		r.Check(len(bad) == 0, "R05.12", fmt.Sprintf("typeAssert/closure#%d/every-exit-completes-the-two-value-form", n), ic.pos(fl.Pos()), "the completion is deferred, or made at every return",
			"this closure of typeAssert does not defer the completion of v, ok = x.(T) and leaves through the return(s) at "+strings.Join(bad, ", ")+" without setting the status: ok (and v) keep what the previous execution of the statement left - a failed assertion in a loop reports the success of the iteration before")
		return true
	})
	if n < 4 {
		r.Errorf("R05.12: only %d run-time closures of typeAssert found", n)
	}
}

func init() {
	ruleText["R05.13"] = "a field found by a selector is always weighed against a method of the same name: no condition on the way to the depth comparison (methodDepth) in cfg reads the method list of the selected type itself (directly or through a helper) - promoted methods come from the embedded types, whatever the outer type declares"
}

// c05R13: round-6 seed. The depth look-up was skipped "for types which have no method": a method
// promoted from an embedded type, shallower than a promoted field of the same name, was ignored
// when the outer struct declared no method of its own.
func c05R13(ic *IC, r *Report) {
	info := ic.Info
	cfgFn := ic.fn(r, "Interpreter.cfg")
	if cfgFn == nil {
		return
	}
	methFld := ic.field("itype", "method")
	readsMethods := map[types.Object]bool{}
	for f, hd := range ic.G.Funcs {
		if hd.Decl.Body == nil {
			continue
		}
		ast.Inspect(hd.Decl.Body, func(q ast.Node) bool {
			if se, ok := q.(*ast.SelectorExpr); ok && selField(info, se) == methFld {
				readsMethods[f] = true
			}
			return true
		})
	}
	direct := map[types.Object]bool{}
	for f := range readsMethods {
		direct[f] = true
	}
	for f, hd := range ic.G.Funcs {
		if hd.Decl.Body == nil || readsMethods[f] {
			continue
		}
		for _, c := range allCalls(hd.Decl.Body) {
			if o := calleeOf(info, c); o != nil && direct[o] {
				readsMethods[f] = true
			}
		}
	}
	calls := callsIn(info, cfgFn.Decl.Body, true, "interp.itype.methodDepth")
	if len(calls) < 2 {
		r.Errorf("R05.13: %d depth comparisons (methodDepth) found in cfg, 2 expected (interpreted field, field of an embedded compiled struct)", len(calls))
		return
	}
	for i, c := range calls {
		bad := ""
		for _, g := range pathGuards(cfgFn.Decl.Body, c) {
			ast.Inspect(g.cond, func(q ast.Node) bool {
				switch y := q.(type) {
				case *ast.SelectorExpr:
					if selField(info, y) == methFld {
						bad = types.ExprString(g.cond)
					}
				case *ast.CallExpr:
					if o := calleeOf(info, y); o != nil && readsMethods[o] {
						bad = types.ExprString(g.cond)
					}
				}
				return true
			})
		}
		r.Check(bad == "", "R05.13", fmt.Sprintf("cfg/selector/depth-comparison#%d/whatever-the-type-declares", i+1), ic.pos(c.Pos()), "no condition on the way reads the type's own method list",
			"cfg compares the depth of the field with that of a method of the same name only under "+bad+", which reads the method list of the selected type: a method promoted from an embedded type is not in that list, so when the outer struct declares no method the shallower promoted method loses against a deeper field of the same name (x.Name() is rejected, or calls the func-typed field)")
	}
}

func init() {
	ruleText["R05.15"] = "= R04.20 shared: the dynamic value of an interface is a copy of the value it was made from"
	ruleText["R05.14"] = "the field path of a method receiver (receiver.index) is walked through the interface wrappers: every loop over that path (in the function reading it or in the helper it is handed to) that steps with reflect.Value.Field also asserts valueInterface at each step, and the path is never given to reflect's FieldByIndex - the embedded field may be an interface whose dynamic value holds the receiver"
}

// c05R14: round-6 seed. The walk was extracted into a fieldByIndex helper without the
// unwrapping: a method promoted inside the dynamic value of an embedded interface panicked.
func c05R14(ic *IC, r *Report) {
	info := ic.Info
	idxFld := ic.field("receiver", "index")
	if idxFld == nil {
		r.Errorf("R05.14: field receiver.index not found")
		return
	}
	isVI := func(t types.Type) bool { return t != nil && isNamed(t, "valueInterface") }
	// walkOK examines the loops over the variable obj inside body
	var examine func(owner string, body ast.Node, obj types.Object, depth int) (loops int, bad []string)
	examine = func(owner string, body ast.Node, obj types.Object, depth int) (loops int, bad []string) {
		ast.Inspect(body, func(q ast.Node) bool {
			switch y := q.(type) {
			case *ast.RangeStmt:
				if id := identOf(y.X); id != nil && info.ObjectOf(id) == obj {
					if len(callsIn(info, y.Body, true, "reflect.Value.Field")) == 0 {
						return true
					}
					loops++
					unwraps := false
					ast.Inspect(y.Body, func(z ast.Node) bool {
						if ta, ok := z.(*ast.TypeAssertExpr); ok && ta.Type != nil && isVI(info.TypeOf(ta.Type)) {
							unwraps = true
						}
						return true
					})
					if !unwraps {
						bad = append(bad, "the loop of "+owner+" at "+ic.pos(y.Pos())+" steps with Field and never asserts valueInterface")
					}
				}
			case *ast.CallExpr:
				for ai, a := range y.Args {
					id := identOf(a)
					if id == nil || info.ObjectOf(id) != obj {
						continue
					}
					if isCallTo(info, y, "reflect.Value.FieldByIndex", "reflect.Value.FieldByIndexErr") {
						loops++
						bad = append(bad, owner+" hands the path to "+types.ExprString(y.Fun)+" at "+ic.pos(y.Pos()))
						continue
					}
					if g, ok := calleeOf(info, y).(*types.Func); ok && g.Pkg() == ic.Pk.Types && depth < 2 {
						if gi := ic.G.Funcs[g]; gi != nil && gi.Decl.Body != nil {
							sg := g.Type().(*types.Signature)
							if ai < sg.Params().Len() {
								l, b := examine(g.Name(), gi.Decl.Body, sg.Params().At(ai), depth+1)
								loops += l
								bad = append(bad, b...)
							}
						}
					}
				}
			}
			return true
		})
		return
	}
	nLoops := 0
	for _, name := range sortedKeys(ic.F) {
		fi := ic.F[name]
		if fi.Decl.Body == nil {
			continue
		}
		// locals assigned from the field, and direct uses
		ast.Inspect(fi.Decl.Body, func(q ast.Node) bool {
			as, ok := q.(*ast.AssignStmt)
			if !ok || len(as.Lhs) != len(as.Rhs) {
				return true
			}
			for i, rh := range as.Rhs {
				if selField(info, rh) != idxFld {
					continue
				}
				l := identOf(as.Lhs[i])
				if l == nil || info.ObjectOf(l) == nil {
					continue
				}
				loops, bad := examine(name, fi.Decl.Body, info.ObjectOf(l), 0)
				if loops == 0 {
					continue
				}
				nLoops += loops
				r.Check(len(bad) == 0, "R05.14", name+"/receiver-path-walked-through-interface-wrappers", ic.pos(as.Pos()), "each step of the walk unwraps valueInterface",
					strings.Join(bad, "; ")+": when an embedded field on the path is an interface, the rest of the path is inside the dynamic value it wraps - the walk panics (Field of an interface Value) when a method promoted through that interface is called")
			}
			return true
		})
	}
	if nLoops == 0 {
		r.Errorf("R05.14: no walk of a receiver field path found")
	}
}

// funcOf returns the *types.Func a call statically invokes, or nil.
func funcOf(info *types.Info, c *ast.CallExpr) *types.Func {
	f, _ := calleeOf(info, c).(*types.Func)
	return f
}

func init() {
	ruleText["R05.16"] = "a failed single-value type assertion panics: in the run-time closures of the type-assertion generator every failing exit (a return reached under !ok, or right after ok = false) is preceded in its block by the panic of the single-value form (if !withOk { panic(...) }) or returns through a helper of the generator that panics in that form"
}

// c05R16: found through the round-6 report on C05 (D8). When the dynamic type had as many
// methods as the asserted interface but lacked one of them, j := x.(J) did not panic: j was the
// zero value and the program went on.
func c05R16(ic *IC, r *Report) {
	info := ic.Info
	fi := ic.fn(r, "typeAssert")
	if fi == nil {
		return
	}
	execFld := ic.field("node", "exec")
	// helpers of the generator that panic
	panics := map[types.Object]bool{}
	ast.Inspect(fi.Decl.Body, func(q ast.Node) bool {
		as, ok := q.(*ast.AssignStmt)
		if !ok || len(as.Lhs) != 1 || len(as.Rhs) != 1 {
			return true
		}
		if lit, ok := unparen(as.Rhs[0]).(*ast.FuncLit); ok && selField(info, as.Lhs[0]) != execFld {
			has := false
			ast.Inspect(lit.Body, func(z ast.Node) bool {
				if c, ok := z.(*ast.CallExpr); ok {
					if id := identOf(c.Fun); id != nil && id.Name == "panic" {
						has = true
					}
				}
				return true
			})
			if id := identOf(as.Lhs[0]); id != nil && has {
				panics[info.ObjectOf(id)] = true
			}
		}
		return true
	})
	isNotOk := func(e ast.Expr) bool {
		ue, ok := unparen(e).(*ast.UnaryExpr)
		if !ok || ue.Op != token.NOT {
			return false
		}
		id := identOf(ue.X)
		return id != nil && id.Name == "ok"
	}
	hasPanic := func(n ast.Node) bool {
		found := false
		ast.Inspect(n, func(z ast.Node) bool {
			if c, ok := z.(*ast.CallExpr); ok {
				if id := identOf(c.Fun); id != nil && (id.Name == "panic" || panics[info.ObjectOf(id)]) {
					found = true
				}
			}
			return true
		})
		return found
	}
	nExits, k := 0, 0
	ast.Inspect(fi.Decl.Body, func(m ast.Node) bool {
		as, ok := m.(*ast.AssignStmt)
		if !ok || len(as.Lhs) != 1 || len(as.Rhs) != 1 || selField(info, as.Lhs[0]) != execFld {
			return true
		}
		fl, ok := unparen(as.Rhs[0]).(*ast.FuncLit)
		if !ok {
			return true
		}
		k++
		var bad []string
		var visit func(list []ast.Stmt, underNotOk bool)
		visit = func(list []ast.Stmt, underNotOk bool) {
			failing := underNotOk
			covered := false
			for _, st := range list {
				switch y := st.(type) {
				case *ast.AssignStmt:
					if len(y.Lhs) == 1 && len(y.Rhs) == 1 {
						if l, rr := identOf(y.Lhs[0]), identOf(y.Rhs[0]); l != nil && rr != nil && l.Name == "ok" && rr.Name == "false" {
							failing = true
						}
					}
				case *ast.IfStmt:
					if hasPanic(y.Body) {
						if ue, ok := unparen(y.Cond).(*ast.UnaryExpr); ok && ue.Op == token.NOT {
							covered = true
						}
					}
					visit(y.Body.List, underNotOk || isNotOk(y.Cond))
					if blk, ok := y.Else.(*ast.BlockStmt); ok {
						visit(blk.List, underNotOk)
					}
				case *ast.ForStmt:
					visit(y.Body.List, underNotOk)
				case *ast.RangeStmt:
					visit(y.Body.List, underNotOk)
				case *ast.BlockStmt:
					visit(y.List, underNotOk)
				case *ast.ReturnStmt:
					if failing {
						nExits++
						if !covered && !hasPanic(y) {
							bad = append(bad, ic.pos(y.Pos()))
						}
					}
				}
			}
		}
		visit(fl.Body.List, false)
		r.Check(len(bad) == 0, "R05.16", fmt.Sprintf("typeAssert/closure#%d/failed-single-value-assertion-panics", k), ic.pos(fl.Pos()), "every failing exit panics in the single-value form",
			"this closure of typeAssert leaves through a failing exit ("+strings.Join(bad, ", ")+") without the panic of the single-value form: j := x.(J) on a value that lacks a method of J (but has as many methods) yields the zero value of J and the program goes on, where compiled Go panics with 'interface conversion: ... missing method N'")
		return true
	})
	if nExits < 4 {
		r.Errorf("R05.16: only %d failing exits found in the closures of typeAssert", nExits)
	}
}

func init() {
	ruleText["R05.17"] = "in the type-switch case generator every branch taken for a value of an interpreted interface type (guarded by a successful assertion to the interface wrapper) decides the match with a predicate that knows the three kinds of case: nil (the zero interface value), a concrete type (identity of the dynamic type) and an interface type (method set inclusion) - comparing type identities alone never matches case nil nor an interface case"
}

// c05R17: found through the round-6 report on C05 (D11, D13). switch v := x.(type) { case J: }
// with x of an interpreted interface type never took an interface case, and case nil never
// matched the nil value of such a type.
func c05R17(ic *IC, r *Report) {
	info := ic.Info
	fi := ic.fn(r, "_case")
	if fi == nil {
		return
	}
	viT, _ := ic.Pk.Types.Scope().Lookup("valueInterface").(*types.TypeName)
	if viT == nil {
		r.Errorf("R05.17: type valueInterface not found")
		return
	}
	// the predicates: in-package functions taking the wrapper and a type, mentioning nilT and a method-set inclusion
	matcher := map[types.Object]bool{}
	for f, hd := range ic.G.Funcs {
		if hd.Decl.Body == nil {
			continue
		}
		sg := f.Type().(*types.Signature)
		takes := false
		for i := 0; i < sg.Params().Len(); i++ {
			if types.Identical(sg.Params().At(i).Type(), viT.Type()) {
				takes = true
			}
		}
		if !takes {
			continue
		}
		nilCase, incl := false, false
		ast.Inspect(hd.Decl.Body, func(q ast.Node) bool {
			switch y := q.(type) {
			case *ast.Ident:
				if c, ok := info.Uses[y].(*types.Const); ok && c.Name() == "nilT" {
					nilCase = true
				}
			case *ast.CallExpr:
				if se, ok := unparen(y.Fun).(*ast.SelectorExpr); ok && (se.Sel.Name == "contains" || se.Sel.Name == "implements") {
					incl = true
				}
			}
			return true
		})
		if nilCase && incl {
			matcher[f] = true
		}
	}
	n := 0
	ast.Inspect(fi.Decl.Body, func(q ast.Node) bool {
		ifs, ok := q.(*ast.IfStmt)
		if !ok || ifs.Init == nil {
			return true
		}
		as, ok := ifs.Init.(*ast.AssignStmt)
		if !ok || len(as.Rhs) != 1 {
			return true
		}
		ta, ok := unparen(as.Rhs[0]).(*ast.TypeAssertExpr)
		if !ok || ta.Type == nil || !types.Identical(info.TypeOf(ta.Type), viT.Type()) {
			return true
		}
		if id := identOf(ifs.Cond); id == nil || id.Name != "ok" {
			return true
		}
		n++
		uses := false
		for _, c := range allCalls(ifs.Body) {
			if o := calleeOf(info, c); o != nil && matcher[o] {
				uses = true
			}
		}
		r.Check(uses, "R05.17", fmt.Sprintf("_case/interface-value-branch#%d/nil-concrete-and-interface-cases", n), ic.pos(ifs.Pos()), "the match is decided by a predicate handling nil, concrete and interface cases",
			"this branch of the type-switch case generator handles a value of an interpreted interface type by comparing the identity of its dynamic type with the case type only: case nil never matches the nil interface value and a case naming an interface never matches (type I interface{ M() }; var x I = T{}; switch x.(type) { case J: } takes default although T implements J)")
		return true
	})
	// the form without guard variable uses "val, ok := ival.(valueInterface)" followed by "if !ok { ... return }": its tail
	tail := 0
	ast.Inspect(fi.Decl.Body, func(q ast.Node) bool {
		fl, ok := q.(*ast.FuncLit)
		if !ok {
			return true
		}
		for i, st := range fl.Body.List {
			as, ok := st.(*ast.AssignStmt)
			if !ok || len(as.Rhs) != 1 || len(as.Lhs) != 2 {
				continue
			}
			ta, ok := unparen(as.Rhs[0]).(*ast.TypeAssertExpr)
			if !ok || ta.Type == nil || !types.Identical(info.TypeOf(ta.Type), viT.Type()) {
				continue
			}
			tail++
			n++
			uses := false
			for _, rest := range fl.Body.List[i+1:] {
				if ifs, ok := rest.(*ast.IfStmt); ok {
					if ue, ok := unparen(ifs.Cond).(*ast.UnaryExpr); ok && ue.Op == token.NOT {
						continue // the branch of the values that are not wrappers
					}
				}
				for _, c := range allCalls(rest) {
					if o := calleeOf(info, c); o != nil && matcher[o] {
						uses = true
					}
				}
			}
			r.Check(uses, "R05.17", fmt.Sprintf("_case/interface-value-tail#%d/nil-concrete-and-interface-cases", tail), ic.pos(as.Pos()), "the match is decided by a predicate handling nil, concrete and interface cases",
				"after the assertion to the interface wrapper this closure of the type-switch case generator compares the identity of the dynamic type with the case types only: case nil and interface cases never match a value of an interpreted interface type")
		}
		return true
	})
	if n < 3 {
		r.Errorf("R05.17: only %d branches for values of an interpreted interface type found in _case (3 forms expected)", n)
	}
}

func init() {
	ruleText["R05.18"] = "a promoted field or method is the shallowest one: in the look-up functions of itype no loop over the fields of a type returns the first hit of a recursive look-up (depth-first); a loop that recurses keeps the candidate whose path is the shortest (a comparison of path lengths), or the look-up proceeds level by level without recursion"
}

// c05R18: found through the round-6 report on C05 (D1). type A struct { B; C } with M declared on
// C and on D embedded in B: a.M() called D.M (depth 2) instead of C.M (depth 1); same for fields.
func c05R18(ic *IC, r *Report) {
	info := ic.Info
	fieldFld := ic.field("itype", "field")
	n := 0
	for _, name := range sortedKeys(ic.F) {
		fi := ic.F[name]
		if fi.Decl.Body == nil || fi.Obj == nil || fi.Decl.Recv == nil || !strings.HasPrefix(fi.Obj.Name(), "lookup") {
			continue
		}
		if sg := fi.Obj.Type().(*types.Signature); sg.Recv() == nil || !isNamedPtr(sg.Recv().Type(), "itype") {
			continue
		}
		// functions and literals of this declaration that may be re-entered: the declared function, and local func variables
		recursive := func(c *ast.CallExpr) bool {
			if o := calleeOf(info, c); o != nil && o == types.Object(fi.Obj) {
				return true
			}
			if id := identOf(c.Fun); id != nil {
				if v, ok := info.ObjectOf(id).(*types.Var); ok && v.Pos() > fi.Decl.Pos() && v.Pos() < fi.Decl.End() {
					if _, isSig := v.Type().Underlying().(*types.Signature); isSig {
						return true
					}
				}
			}
			return false
		}
		k := 0
		ast.Inspect(fi.Decl.Body, func(q ast.Node) bool {
			rs, ok := q.(*ast.RangeStmt)
			if !ok || selField(info, rs.X) != fieldFld {
				return true
			}
			rec := false
			for _, c := range allCalls(rs.Body) {
				if recursive(c) {
					rec = true
				}
			}
			if !rec {
				return true
			}
			k++
			n++
			// first-hit return inside the loop, without any comparison of path lengths
			firstHit := ""
			ast.Inspect(rs.Body, func(z ast.Node) bool {
				if ret, ok := z.(*ast.ReturnStmt); ok {
					firstHit = ic.pos(ret.Pos())
				}
				return true
			})
			compares := false
			ast.Inspect(rs.Body, func(z ast.Node) bool {
				if be, ok := z.(*ast.BinaryExpr); ok && (be.Op == token.LSS || be.Op == token.LEQ || be.Op == token.GTR || be.Op == token.GEQ) {
					if strings.Contains(types.ExprString(be), "len(") {
						compares = true
					}
				}
				return true
			})
			r.Check(firstHit == "" && compares, "R05.18", fmt.Sprintf("%s/fields-loop#%d/shallowest-candidate-kept", name, k), ic.pos(rs.Pos()), "the loop over the fields compares the depths of the candidates and returns after it",
				name+" explores the fields depth-first and takes the first hit"+func() string {
					if firstHit != "" {
						return " (return at " + firstHit + ")"
					}
					return " (no comparison of path lengths)"
				}()+": a method or field promoted through the first embedded field wins whatever its depth - type A struct { B; C }, M on C and on D embedded in B: a.M() calls D.M, where the Go specification selects the shallowest, C.M")
			return true
		})
	}
	if n < 2 {
		r.Errorf("R05.18: only %d recursive loops over the fields found in the look-up functions of itype", n)
	}
}

func init() {
	ruleText["R05.19"] = "a composite literal is not built in place of a destination whose type is an interface of a compiled package, the predeclared error included: in the assignStmt/defineStmt case of cfg, the branch that lets a literal take the location of its destination (the one whose condition tests aCompositeLit) leaves that shortcut under a condition that calls isInterfaceBin (which covers error), or that tests the errorT category next to the valueT one - the literal is a struct, the slot an interface: the assignment must wrap it"
}

// c05R19: D139 (round-7 report on C05, D09/D10). `var e error; e = MyErr{2}` panicked.
func c05R19(ic *IC, r *Report) {
	info := ic.Info
	cfgFn := ic.fn(r, "Interpreter.cfg")
	if cfgFn == nil {
		return
	}
	n := 0
	ast.Inspect(cfgFn.Decl.Body, func(q ast.Node) bool {
		br, ok := q.(*ast.CaseClause)
		if !ok || len(br.List) != 1 {
			return true
		}
		lit := false
		ast.Inspect(br.List[0], func(z ast.Node) bool {
			if id, ok := z.(*ast.Ident); ok {
				if c, ok := info.Uses[id].(*types.Const); ok && c.Name() == "aCompositeLit" {
					lit = true
				}
			}
			return true
		})
		if !lit {
			return true
		}
		// the shortcut: the source takes the destination's frame index in this branch
		findexFld := ic.field("node", "findex")
		takes := false
		for _, st := range br.Body {
			if as, ok := st.(*ast.AssignStmt); ok && len(as.Lhs) == 1 && len(as.Rhs) == 1 {
				l, okl := unparen(as.Lhs[0]).(*ast.SelectorExpr)
				rr, okr := unparen(as.Rhs[0]).(*ast.SelectorExpr)
				if okl && okr && selField(info, l) == findexFld && selField(info, rr) == findexFld {
					takes = true
				}
			}
		}
		if !takes {
			return true
		}
		n++
		ok = false
		for _, st := range br.Body {
			ifs, isIf := st.(*ast.IfStmt)
			if !isIf {
				continue
			}
			leaves := false
			for _, b := range ifs.Body.List {
				if bs, ok := b.(*ast.BranchStmt); ok && bs.Tok == token.BREAK {
					leaves = true
				}
			}
			if !leaves {
				continue
			}
			if len(callsIn(info, ifs.Cond, true, "interp.isInterfaceBin", "interp.isInterface")) > 0 {
				ok = true
			}
			ast.Inspect(ifs.Cond, func(z ast.Node) bool {
				if id, isId := z.(*ast.Ident); isId {
					if c, isC := info.Uses[id].(*types.Const); isC && c.Name() == "errorT" {
						ok = true
					}
				}
				return true
			})
		}
		r.Check(ok, "R05.19", fmt.Sprintf("cfg/case:assignStmt/literal-in-place#%d/not-for-compiled-interfaces-nor-error", n), ic.pos(br.Pos()), "the shortcut is left for a destination of a compiled interface type or of type error",
			"the branch of the assignStmt/defineStmt case of cfg that builds a composite literal at the location of its destination is not left for a destination of type error (only, at most, for interface types of compiled packages): the literal - a struct - is stored into a slot of type error, `var e error; e = MyErr{2}` panics (reflect.Set: value of type struct { ... } is not assignable to type error) and `var e error = MyErr{3}; e.Error()` fails with Method index out of range")
		return true
	})
	if n == 0 {
		r.Errorf("R05.19: the branch of the assign case that builds a composite literal in place was not found")
	}
}

func init() {
	ruleText["R05.20"] = "the nil value of an interpreted interface type is recognised before it is looked into: in the closures generated by typeAssert, a variable obtained by asserting a value to valueInterface has its node field compared with nil (in an if condition) before the first read through it (v.node.typ ...) - the zero valueInterface is what an uninitialised variable of an interpreted interface type holds, and its node is nil"
}

// c05R20: D140 (round-7 report on C05, D04). var g Getter; _, ok := g.(Namer) dereferenced nil.
func c05R20(ic *IC, r *Report) {
	info := ic.Info
	ta := ic.fn(r, "typeAssert")
	if ta == nil {
		return
	}
	nodeFld := ic.field("valueInterface", "node")
	if nodeFld == nil {
		r.Errorf("R05.20: field valueInterface.node not found")
		return
	}
	n := 0
	ast.Inspect(ta.Decl.Body, func(q ast.Node) bool {
		fl, ok := q.(*ast.FuncLit)
		if !ok {
			return true
		}
		// v, ok := X.(valueInterface)
		ast.Inspect(fl.Body, func(z ast.Node) bool {
			as, ok := z.(*ast.AssignStmt)
			if !ok || len(as.Lhs) != 2 || len(as.Rhs) != 1 {
				return true
			}
			tae, ok := unparen(as.Rhs[0]).(*ast.TypeAssertExpr)
			if !ok || tae.Type == nil {
				return true
			}
			if nt, ok := info.TypeOf(tae.Type).(*types.Named); !ok || nt.Obj().Name() != "valueInterface" {
				return true
			}
			id := identOf(as.Lhs[0])
			if id == nil || id.Name == "_" {
				return true
			}
			v := info.ObjectOf(id)
			// the first read through v.node, and the first nil test of v.node
			firstRead, firstTest := token.NoPos, token.NoPos
			ast.Inspect(fl.Body, func(y ast.Node) bool {
				switch x := y.(type) {
				case *ast.IfStmt:
					ast.Inspect(x.Cond, func(w ast.Node) bool {
						b, ok := w.(*ast.BinaryExpr)
						if !ok || (b.Op != token.EQL && b.Op != token.NEQ) {
							return true
						}
						se, ok := unparen(b.X).(*ast.SelectorExpr)
						if !ok || selField(info, se) != nodeFld {
							return true
						}
						if rid := identOf(se.X); rid == nil || info.ObjectOf(rid) != v {
							return true
						}
						if nid := identOf(b.Y); nid != nil && nid.Name == "nil" && (firstTest == token.NoPos || b.Pos() < firstTest) {
							firstTest = b.Pos()
						}
						return true
					})
				case *ast.SelectorExpr:
					// a read through the node: v.node.X
					if inner, ok := unparen(x.X).(*ast.SelectorExpr); ok && selField(info, inner) == nodeFld {
						if rid := identOf(inner.X); rid != nil && info.ObjectOf(rid) == v {
							if firstRead == token.NoPos || x.Pos() < firstRead {
								firstRead = x.Pos()
							}
						}
					}
				}
				return true
			})
			if firstRead == token.NoPos {
				return true
			}
			n++
			r.Check(firstTest != token.NoPos && firstTest < firstRead, "R05.20", fmt.Sprintf("typeAssert/asserted-value#%d/nil-node-tested-before-use", n), ic.pos(as.Pos()), "the node of the asserted value is compared with nil before it is read",
				"typeAssert reads through "+id.Name+".node at "+ic.pos(firstRead)+" without having compared it with nil: the zero valueInterface - what an uninitialised variable of an interpreted interface type holds - passes the assertion to valueInterface with a nil node, so `var g Getter; _, ok := g.(Namer)` dereferences nil (compiled Go: ok is false)")
			return true
		})
		return true
	})
	if n < 2 {
		r.Errorf("R05.20: only %d values asserted to valueInterface and then read through their node found in typeAssert", n)
	}
}

func init() {
	ruleText["R05.21"] = "fields and methods are promoted through embedded fields only: every look-up method of *itype (name starting with lookup) that loops over the fields of a struct type and goes on into the type of a field (uses the loop variable's typ) tests the embed flag of that field inside the loop - sibling agreement: lookupBinField, lookupMethod and lookupBinMethod did, lookupField did not, so t.X resolved to the field X of a *named* field's type"
}

// c05R21: D141 (round-6 report on C12, 2.1; round-7 report on C05, D20).
func c05R21(ic *IC, r *Report) {
	info := ic.Info
	fieldFld := ic.field("itype", "field")
	typFld := ic.field("structField", "typ")
	embFld := ic.field("structField", "embed")
	if fieldFld == nil || typFld == nil || embFld == nil {
		r.Errorf("R05.21: itype.field / structField.typ / structField.embed not found")
		return
	}
	n := 0
	for _, name := range sortedKeys(ic.F) {
		fi := ic.F[name]
		if fi.Decl.Body == nil || !strings.HasPrefix(name, "itype.lookup") {
			continue
		}
		k := 0
		ast.Inspect(fi.Decl.Body, func(q ast.Node) bool {
			rs, ok := q.(*ast.RangeStmt)
			if !ok || rs.Value == nil {
				return true
			}
			if se, ok := unparen(rs.X).(*ast.SelectorExpr); !ok || selField(info, se) != fieldFld {
				return true
			}
			vid := identOf(rs.Value)
			if vid == nil {
				return true
			}
			v := info.ObjectOf(vid)
			usesTyp, testsEmbed := false, false
			ast.Inspect(rs.Body, func(z ast.Node) bool {
				se, ok := z.(*ast.SelectorExpr)
				if !ok {
					return true
				}
				if id := identOf(se.X); id != nil && info.ObjectOf(id) == v {
					switch selField(info, se) {
					case typFld:
						usesTyp = true
					case embFld:
						testsEmbed = true
					}
				}
				return true
			})
			if !usesTyp {
				return true
			}
			n++
			k++
			r.Check(testsEmbed, "R05.21", fmt.Sprintf("%s/field-loop#%d/only-embedded-fields-promote", name, k), ic.pos(rs.Pos()), "the loop tests the embed flag of the field before going into its type",
				name+" goes into the type of every field of a struct ("+ic.pos(rs.Pos())+") without testing whether the field is embedded: the fields (or methods) of a *named* field's type are found as if they were promoted - with type U struct{ X int }; type T struct{ U U }, t.X is accepted and reads t.U.X, and in a deeper structure the field of a named field can win over the promoted one (compiled Go: t.X undefined)")
			return true
		})
	}
	if n < 3 {
		r.Errorf("R05.21: only %d loops over struct fields going into the field types found in the look-up methods of itype", n)
	}
}

func init() {
	ruleText["R05.22"] = "the depth of a promoted method is compared with the depth of a field in the same unit: (*itype).methodDepth returns len(path)+c for the path of embedded fields leading to the method (c read from its return statements; a method of the type itself has an empty path), a field's index path has one element more than its depth; so every comparison in cfg of a value obtained from methodDepth with the length of a field index path has the form len(path)+k with k == c-1 - with k == c a method one level deeper than the field makes the selector 'ambiguous', and a method at the same depth silently wins"
}

// c05R22: D142 (round-7 report on C05, D22).
func c05R22(ic *IC, r *Report) {
	info := ic.Info
	md := ic.fn(r, "itype.methodDepth")
	cfgFn := ic.fn(r, "Interpreter.cfg")
	if md == nil || cfgFn == nil {
		return
	}
	// len(x)+k
	lenPlus := func(e ast.Expr) (int, bool) {
		e = unparen(e)
		k := 0
		if b, ok := e.(*ast.BinaryExpr); ok && (b.Op == token.ADD || b.Op == token.SUB) {
			if l, ok := unparen(b.Y).(*ast.BasicLit); ok && l.Kind == token.INT {
				fmt.Sscanf(l.Value, "%d", &k)
				if b.Op == token.SUB {
					k = -k
				}
				e = unparen(b.X)
			}
		}
		c, ok := e.(*ast.CallExpr)
		if !ok {
			return 0, false
		}
		if id := identOf(c.Fun); id == nil || id.Name != "len" {
			return 0, false
		}
		return k, true
	}
	c, okc := 0, true
	first := true
	ast.Inspect(md.Decl.Body, func(q ast.Node) bool {
		rs, ok := q.(*ast.ReturnStmt)
		if !ok || len(rs.Results) != 1 {
			return true
		}
		if u, ok := unparen(rs.Results[0]).(*ast.UnaryExpr); ok && u.Op == token.SUB {
			return true // -1: not found
		}
		k, ok := lenPlus(rs.Results[0])
		if !ok {
			okc = false
			return true
		}
		if first {
			c, first = k, false
		} else if k != c {
			okc = false
		}
		return true
	})
	if !okc || first {
		r.Fail("R05.22", "itype.methodDepth/unit", ic.pos(md.Decl.Pos()), "undecided: the returns of (*itype).methodDepth are not all of the form len(path)+c with one c")
		return
	}
	n := 0
	ast.Inspect(cfgFn.Decl.Body, func(q ast.Node) bool {
		as, ok := q.(*ast.AssignStmt)
		if !ok || len(as.Lhs) != 1 || len(as.Rhs) != 1 || len(callsIn(info, as.Rhs[0], false, "interp.itype.methodDepth")) == 0 {
			return true
		}
		id := identOf(as.Lhs[0])
		if id == nil {
			return true
		}
		d := info.ObjectOf(id)
		// the comparisons of d in the enclosing block
		path := enclosingPath(cfgFn.Decl.Body, as)
		var blk *ast.BlockStmt
		for i := len(path) - 1; i >= 0; i-- {
			if b, ok := path[i].(*ast.BlockStmt); ok {
				blk = b
				break
			}
		}
		if blk == nil {
			return true
		}
		ast.Inspect(blk, func(z ast.Node) bool {
			b, ok := z.(*ast.BinaryExpr)
			if !ok {
				return true
			}
			switch b.Op {
			case token.LSS, token.LEQ, token.GTR, token.GEQ, token.EQL, token.NEQ:
			default:
				return true
			}
			if xid := identOf(b.X); xid == nil || info.ObjectOf(xid) != d {
				return true
			}
			k, isLen := lenPlus(b.Y)
			if !isLen {
				return true
			}
			n++
			r.Check(k == c-1, "R05.22", fmt.Sprintf("cfg/selector/method-vs-field-depth#%d/same-unit", n), ic.pos(b.Pos()), fmt.Sprintf("the method depth (len(path)%+d) is compared with len(index path)%+d", c, k),
				fmt.Sprintf("cfg compares a method depth, which (*itype).methodDepth gives as len(path)%+d, with %s, i.e. len(index path)%+d: the index path of a field has one element more than its depth, so the comparison is off by one - a field at depth 1 and a method of the same name at depth 2 are reported as an ambiguous selector (compiled Go selects the field), and a method at the depth of the field silently wins", c, types.ExprString(b.Y), k))
			return true
		})
		return true
	})
	if n < 2 {
		r.Errorf("R05.22: only %d comparisons of a method depth with the length of a field index path found in cfg", n)
	}
}
