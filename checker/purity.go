package main

import (
	"fmt"
	"go/token"
	"go/types"
	"sort"
	"strings"

	"golang.org/x/tools/go/ssa"
)

// pureLookups decides that the method-resolution functions recompute their answer at each
// use: they store nothing outside their own locals (no field store through the receiver or a
// parameter, no update of a map that is not created locally, no package-level store, no
// sync.Map mutation). Methods can be declared after a type has been used (a later Eval, a
// later declaration in source order, a type embedding another one), so a memoised method
// set or lookup result goes stale: an assertion silently takes the other branch, a promoted
// method keeps shadowing the one declared later.
var pureLookupFuncs = []string{
	"itype.methods", "itype.lookupMethod", "itype.lookupMethod2", "itype.getMethod",
	"itype.lookupBinMethod", "itype.lookupBinMethod2", "itype.lookupField", "itype.lookupBinField",
	"itype.implements", "itype.methodCallType", "lookupFieldOrMethod", "getWrapper",
}

func pureLookups(ic *IC, r *Report, rule string) {
	pureFuncs(ic, r, rule, pureLookupFuncs, 8, "recomputed-at-each-use",
		"methods can be declared after the type has been used (a later evaluation, a declaration further down, an embedding type), so a remembered method set or lookup result goes stale and assertions, interface satisfaction or promoted-method resolution silently give the answer of the earlier state", true)
}

// pureFuncs: each named function stores nothing outside its own locals (see pureLookups).
func pureFuncs(ic *IC, r *Report, rule string, names []string, floor int, keySuffix, consequence string, memoClause bool) {
	if ic.SP == nil {
		r.Errorf("%s: SSA form of package interp not loaded", rule)
		return
	}
	var isLocal func(v ssa.Value, depth int) bool
	isLocal = func(v ssa.Value, depth int) bool {
		if depth > 8 {
			return false
		}
		switch x := v.(type) {
		case *ssa.Alloc, *ssa.MakeMap, *ssa.MakeSlice, *ssa.MakeChan, *ssa.MakeClosure, *ssa.Const:
			return true
		case *ssa.FieldAddr:
			return isLocal(x.X, depth+1)
		case *ssa.IndexAddr:
			return isLocal(x.X, depth+1)
		case *ssa.Slice:
			return isLocal(x.X, depth+1)
		case *ssa.Phi:
			for _, e := range x.Edges {
				if !isLocal(e, depth+1) {
					return false
				}
			}
			return true
		case *ssa.UnOp:
			// a load from a local cell: where do the stored values come from?
			if al, ok := x.X.(*ssa.Alloc); ok {
				sts := storesTo(al)
				if len(sts) == 0 {
					return true
				}
				for _, st := range sts {
					if !isLocal(st.Val, depth+1) {
						return false
					}
				}
				return true
			}
			if fv, ok := x.X.(*ssa.FreeVar); ok {
				os := freeVarOrigins(fv)
				if len(os) == 0 {
					return false
				}
				for _, o := range os {
					if !isLocal(o, depth+1) {
						return false
					}
				}
				return true
			}
			return false
		case *ssa.FreeVar:
			// the cell itself (captured local variable)
			fn := x.Parent()
			parent := fn.Parent()
			if parent == nil {
				return false
			}
			for i, fv := range fn.FreeVars {
				if fv != x {
					continue
				}
				okAll, found := true, false
				for _, b := range parent.Blocks {
					for _, ins := range b.Instrs {
						if mc, ok := ins.(*ssa.MakeClosure); ok && mc.Fn == ssa.Value(fn) && i < len(mc.Bindings) {
							found = true
							if !isLocal(mc.Bindings[i], depth+1) {
								okAll = false
							}
						}
					}
				}
				return found && okAll
			}
			return false
		case *ssa.Call:
			// the result of append to a local slice stays local
			if b, ok := x.Call.Value.(*ssa.Builtin); ok && b.Name() == "append" && len(x.Call.Args) > 0 {
				return isLocal(x.Call.Args[0], depth+1)
			}
			return false
		}
		return false
	}
	n := 0
	for _, name := range names {
		var fn *ssa.Function
		if i := strings.Index(name, "."); i >= 0 {
			fn = ic.ssaMeth(name[:i], name[i+1:])
		} else {
			fn = ic.ssaFunc(name)
		}
		if fn == nil {
			continue // not every helper exists in every revision; the floor below guards the rule
		}
		n++
		var bad []string
		visited := map[*ssa.Function]bool{fn: true}
		depth := 0
		var visit func(f *ssa.Function)
		visit = func(f *ssa.Function) {
			for _, b := range f.Blocks {
				for _, ins := range b.Instrs {
					switch x := ins.(type) {
					case *ssa.Store:
						if !isLocal(x.Addr, 0) {
							what := "a store through " + x.Addr.String()
							if fa, ok := x.Addr.(*ssa.FieldAddr); ok {
								if st, ok := fa.X.Type().Underlying().(*types.Pointer); ok {
									if s, ok := st.Elem().Underlying().(*types.Struct); ok {
										what = "a store into field " + s.Field(fa.Field).Name()
									}
								}
							}
							if g, ok := x.Addr.(*ssa.Global); ok {
								what = "a store into package variable " + g.Name()
							}
							bad = append(bad, what+" at "+ic.pos(x.Pos()))
						}
					case *ssa.MapUpdate:
						// a visited set handed down by the caller (map[K]bool parameter, possibly
						// replaced by a local map when nil) is traversal state, not memory
						visited := func(v ssa.Value) bool {
							okAll := true
							for _, o := range origins(v, map[ssa.Value]bool{}) {
								if isLocal(o, 0) {
									continue
								}
								p, isParam := o.(*ssa.Parameter)
								if !isParam {
									okAll = false
									continue
								}
								m, isMap := p.Type().Underlying().(*types.Map)
								if !isMap || !types.Identical(m.Elem(), types.Typ[types.Bool]) {
									okAll = false
								}
							}
							return okAll
						}
						if !isLocal(x.Map, 0) && !visited(x.Map) {
							bad = append(bad, "an update of a map that is not local at "+ic.pos(x.Pos()))
						}
					case *ssa.Call:
						// a helper handed a table (a map whose elements are not booleans) is part
						// of the function: what it stores there is remembered by the caller's caller
						if callee := x.Call.StaticCallee(); callee != nil && callee.Pkg == f.Pkg && !visited[callee] && depth < 2 {
							for _, a := range x.Call.Args {
								if m, ok := a.Type().Underlying().(*types.Map); ok && !types.Identical(m.Elem(), types.Typ[types.Bool]) {
									visited[callee] = true
									depth++
									visit(callee)
									depth--
									break
								}
							}
						}
						if callee := x.Call.StaticCallee(); callee != nil && callee.Pkg != nil && callee.Pkg.Pkg.Path() == "sync" {
							switch callee.Name() {
							case "Store", "LoadOrStore", "Swap", "CompareAndSwap", "Delete", "LoadAndDelete":
								bad = append(bad, "sync.Map."+callee.Name()+" at "+ic.pos(x.Pos()))
							}
						}
					}
				}
			}
			for _, a := range f.AnonFuncs {
				visit(a)
			}
		}
		visit(fn)
		sort.Strings(bad)
		r.Check(len(bad) == 0, rule, name+"/"+keySuffix, ic.pos(fn.Pos()), "stores only into its own locals",
			fmt.Sprintf("%s keeps state between calls (%s): %s", name, strings.Join(dedupStr(bad), "; "), consequence))
	}
	if n < floor {
		r.Errorf("%s: only %d of the functions %v found", rule, n, names)
	}
	if !memoClause {
		return
	}
	// no interpreter-wide memo table: nothing in package interp mutates a sync.Map (there is
	// none today); such a table keyed by interpreter type outlives the facts it was computed from
	var memo []string
	for _, f := range allSSAFuncs(ic.SP) {
		for _, b := range f.Blocks {
			for _, ins := range b.Instrs {
				if c, ok := ins.(*ssa.Call); ok {
					if callee := c.Call.StaticCallee(); callee != nil && callee.Pkg != nil && callee.Pkg.Pkg.Path() == "sync" && callee.Signature.Recv() != nil &&
						strings.Contains(callee.Signature.Recv().Type().String(), "sync.Map") {
						switch callee.Name() {
						case "Store", "LoadOrStore", "Swap", "CompareAndSwap":
							root := f
							for root.Parent() != nil {
								root = root.Parent()
							}
							memo = append(memo, ssaFuncName(root)+" at "+ic.pos(c.Pos()))
						}
					}
				}
			}
		}
	}
	r.Check(len(memo) == 0, rule, "package/no-interpreter-wide-memo-table", "", "no sync.Map is filled anywhere in package interp",
		"a sync.Map is filled in "+strings.Join(dedupStr(memo), ", ")+": an interpreter-wide memo table (wrapper choice, method lookup) is keyed by less than what the answer depends on and is never invalidated, so the first use fixes the answer for every later one")
}

// noProcessWideMemo: nothing in package interp fills, after package initialisation, a table that
// outlives an interpreter: a sync.Map, or a map held in a package-level variable. Such a memo is
// keyed by less than what the cached answer depends on (a printed constant, a reflect type, a
// name) and shared by every interpreter of the process (round-6 seed: converted constants cached
// under their 6-digit printed form; round-4: a per-type method cache).
func noProcessWideMemo(ic *IC, r *Report, rule string) {
	var memo []string
	n := 0
	for _, f := range allSSAFuncs(ic.SP) {
		root := f
		for root.Parent() != nil {
			root = root.Parent()
		}
		if root.Name() == "init" || strings.HasPrefix(root.Name(), "init#") {
			continue
		}
		for _, b := range f.Blocks {
			for _, ins := range b.Instrs {
				switch x := ins.(type) {
				case *ssa.Call:
					n++
					if callee := x.Call.StaticCallee(); callee != nil && callee.Pkg != nil && callee.Pkg.Pkg.Path() == "sync" && callee.Signature.Recv() != nil &&
						strings.Contains(callee.Signature.Recv().Type().String(), "sync.Map") {
						switch callee.Name() {
						case "Store", "LoadOrStore", "Swap", "CompareAndSwap":
							memo = append(memo, "sync.Map."+callee.Name()+" in "+ssaFuncName(root)+" at "+ic.pos(x.Pos()))
						}
					}
				case *ssa.MapUpdate:
					if ld, ok := x.Map.(*ssa.UnOp); ok && ld.Op == token.MUL {
						if g, ok := ld.X.(*ssa.Global); ok && g.Pkg == ic.SP {
							memo = append(memo, "package-level map "+g.Name()+" updated in "+ssaFuncName(root)+" at "+ic.pos(x.Pos()))
						}
					}
				}
			}
		}
	}
	sort.Strings(memo)
	if n == 0 {
		r.Errorf("%s: no call instruction found (SSA not built)", rule)
		return
	}
	r.Check(len(memo) == 0, rule, "package/no-process-wide-memo-table", "", "no sync.Map or package-level map is filled after package initialisation",
		"a process-wide table is filled while programs are compiled or run ("+strings.Join(dedupStr(memo), "; ")+"): what is cached under the key does not depend on the key alone (two constants printed alike, a type that gains a method, a second interpreter), so a later use gets the answer computed for another value")
}
