package main

import (
	"fmt"
	"go/ast"
	"go/token"
	"go/types"
	"os"
	"sort"
	"strings"

	"golang.org/x/tools/go/cfg"
	"golang.org/x/tools/go/ssa"
)

func init() {
	register("C12", &propMeta{
		Level: "other",
		Explanation: "Structural clauses of 'rejected before anything runs': R12.1 every Execute of a compiled program is dominated by the nil test of the compile step's error (SSA dominance), and importSrc never goes back from run/genRun to gta/cfg (go/cfg); " +
			"R12.2 no function reachable from CompileAST on the static call graph reaches the execution functions; " +
			"R12.3 error discipline in the compile passes: no implicitly discarded error, explicit discards only from a frozen table, no error definition overwritten by a possibly-nil one before it is tested (reaching definitions on go/cfg); " +
			"R12.4 every method of typecheck is reachable from the cfg pass. The predicates inside the type rules (assignableTo, convertibleTo, ...) are not decided: a loosened predicate is invisible here.",
		Assumptions: []string{"dynamic calls are not followed by the call graph", "cfgErrorf always returns a non-nil error (read in the source)"},
		Run:         runC12,
	})
	ruleText["R12.1"] = "a call of Execute on a program produced by a compile step is dominated by the branch on which that compile step's error is nil; in importSrc no control-flow path leads from run/genRun back to gta/gtaRetry/cfg"
	ruleText["R12.2"] = "no function reachable from (*Interpreter).CompileAST on the static call graph calls (*Interpreter).run or runCfg"
	ruleText["R12.3"] = "in the compile passes, a call returning an error is never an expression statement; `_`-discards are limited to the frozen (function, callee) table; an error definition does not reach a later possibly-nil definition of the same variable without an intervening read"
	ruleText["R12.6"] = "every entry of binaryOpPredicates / unaryOpPredicates accepts exactly the reflect kinds of the operand classes the Go specification gives the operator (kind sets read from the bodies of the kind predicates; disjunctions only), the tables are complete, and isInt/isUint/isFloat/isComplex/isBoolean/isString/isNumber list exactly the kinds of their class"
	ruleText["R12.7"] = "on the flow graph of (*itype).assignableTo pruned under (A1) both operands named, unequal, underlying types differ and under (A2) both named, unequal, neither defined from the other, every reachable return is `return false`"
	ruleText["R12.8"] = "the len/cap case of typecheck.builtin accepts Array, Slice, Chan for both and String, Map only under name == bltnLen; on the flow graph of arrayDeref pruned under 'the argument is a pointer to a slice' (helpers evaluated three-valued) every reachable return yields the argument itself"
	ruleText["R12.9"] = "same analysis as C01/R01.1: the node kinds that push a scope in cfg's pre-order pass are those that pop one in the post-order pass, and no post-order case leaves (return, break) before popping unless guarded by the pass's error"
	ruleText["R12.10"] = "on the flow graph of the method loop of typeAssertionExpr pruned under tm == nil, im != nil, isBin(typ) == false, no continue and no fall-through is reachable: every path returns an error"
	ruleText["R12.11"] = "the bound each caller passes to typecheck.index (operand length plus an offset read from the argument expression and the caller's assignments) is consistent with the helper's comparison: with `>=`, 0 for element accesses and +1 for slice bounds; with `>`, -1 and 0"
	ruleText["R12.5"] = "(a) inside the callbacks of cfg/gta no variable that shadows the pass's error variable receives the error of an in-package call; (b) every post-order case of cfg that wires the false branch of a condition child (setFNext on a local bound from n.child[k]) also checks that the condition is boolean, like its siblings"
	ruleText["R12.4"] = "every method of type typecheck is reachable from (*Interpreter).cfg on the static call graph (a rule whose call was dropped is dead code)"
}

func runC12(c *Config, r *Report) {
	ic, err := loadInterp(c, true)
	if err != nil {
		r.Errorf("%v", err)
		return
	}
	c12R1(ic, r)
	c12R2(ic, r)
	c12R3(ic, r)
	c12R4(ic, r)
	c12R5(ic, r)
	c12R6(ic, r)
	c12R7(ic, r)
	c12R8(ic, r)
	c12R10(ic, r)
	c12R11(ic, r)
	c12R13(ic, r)
	c12R15(ic, r)
	c12R16(ic, r)
	c12R17and18(ic, r)
	c12R19(ic, r)
	c12R20(ic, r)
	c12R21(ic, r)
	c12R22(ic, r)
	c12R23to25(ic, r)
	c12R26to30(ic, r)
	c12R35(ic, r)
	c01R42(ic, r, "R12.37")
	c12R36(ic, r)
	c12R38(ic, r)
	c03R25(ic, r, "R12.39")
	{
		// R12.31 = R01.37 (b), (c): break and continue outside of a loop of the same function are rejected
		sub := newReport("C01")
		c01R37(ic, sub)
		for _, o := range sub.Obls {
			if strings.HasSuffix(o.Key, "/target-tested") || strings.HasPrefix(o.Key, "scope.push/") {
				o.Rule = "R12.31"
				r.add(o)
			}
		}
		r.Errors = append(r.Errors, sub.Errors...)
	}
	{
		// R12.14 = R06.15: an ill-typed program that makes a compile pass fault is rejected with
		// an error, not with a panic of the host
		sub := newReport("C06")
		c06R1(ic, sub)
		for _, o := range sub.Obls {
			if o.Rule == "R06.15" {
				o.Rule = "R12.14"
				r.add(o)
			}
		}
		r.Errors = append(r.Errors, sub.Errors...)
	}
	{
		sub := newReport("C03")
		c03R4(ic, sub)
		c03R8(ic, sub)
		c03R8width(ic, sub)
		relabel(r, sub, "R12.12")
	}
	// R12.9: an identifier is reported as undefined only if the scopes are balanced: a scope left
	// on the stack keeps the identifiers of a function visible to the code that follows (same
	// analysis as C01/R01.1, including the path rule: no case leaves before popping its scope).
	{
		sub := newReport("C01")
		c01R1(ic, sub)
		for _, o := range sub.Obls {
			o.Rule = "R12.9"
			r.add(o)
		}
		r.Errors = append(r.Errors, sub.Errors...)
	}
}

// shadow exceptions: function -> callee, with the reason.
var c12Shadows = map[string]string{
	"Interpreter.cfg -> nodeType": "funcDecl pre-order: a receiver type that cannot be resolved here (generic receiver) makes the walk skip the method subtree on purpose; undefined receiver types of ordinary methods are reported by gta before cfg runs",
}

// c12R5: (a) no variable declared inside a pass callback shadows the pass's error variable
// while receiving the error of an in-package call: such an error can never reach the
// variable the pass returns; (b) sibling agreement: every post-order case of cfg that
// wires a false branch for a condition child checks that the condition is boolean.
func c12R5(ic *IC, r *Report) {
	n := 0
	for _, name := range []string{"Interpreter.cfg", "Interpreter.gta"} {
		fi := ic.F[name]
		if fi == nil || fi.Decl.Body == nil {
			r.Errorf("anchor not resolved: %s", name)
			continue
		}
		seen := map[string]bool{}
		ast.Inspect(fi.Decl.Body, func(nd ast.Node) bool {
			fl, ok := nd.(*ast.FuncLit)
			if !ok {
				return true
			}
			ast.Inspect(fl.Body, func(m ast.Node) bool {
				as, ok := m.(*ast.AssignStmt)
				if !ok || as.Tok != token.DEFINE || len(as.Rhs) != 1 {
					return true
				}
				call, ok := unparen(as.Rhs[0]).(*ast.CallExpr)
				if !ok || !inPkgCallee(ic, call) {
					return true
				}
				for _, l := range as.Lhs {
					id, ok := l.(*ast.Ident)
					if !ok {
						continue
					}
					v, ok := ic.Info.Defs[id].(*types.Var)
					if !ok || !isErrorType(v.Type()) {
						continue
					}
					n++
					sc := ic.Pk.Types.Scope().Innermost(fl.Pos())
					if sc == nil {
						continue
					}
					_, o := sc.LookupParent(id.Name, fl.Pos())
					ov, ok := o.(*types.Var)
					if !ok || !isErrorType(ov.Type()) || ov.Parent() == ic.Pk.Types.Scope() || !(ov.Pos() >= fi.Decl.Pos() && ov.Pos() < fl.Pos()) {
						continue
					}
					cn, _ := calleeName(ic, call)
					key := name + "/shadow:" + cn
					if seen[key] {
						continue
					}
					seen[key] = true
					if why, ok := c12Shadows[name+" -> "+cn]; ok {
						r.Pass("R12.5", key, ic.pos(as.Pos()), "frozen exception: "+why)
						continue
					}
					r.Fail("R12.5", key, ic.pos(as.Pos()), "the error of "+cn+" is received by a new variable "+id.Name+" that shadows the error variable returned by "+name+" (declared at "+ic.pos(ov.Pos())+"): whatever the callback does with it, the pass returns nil and the program is accepted")
				}
				return true
			})
			return true
		})
		r.Pass("R12.5", name+"/shadow-scan", ic.pos(fi.Decl.Pos()), "callbacks scanned for error variables shadowing the pass's error variable")
	}
	// (b) condition checks
	cfgFn := ic.F["Interpreter.cfg"]
	if cfgFn == nil {
		return
	}
	isBoolFn := ic.F["isBool"]
	var boolObj *types.Func
	if isBoolFn != nil {
		boolObj = isBoolFn.Obj
	}
	if boolObj == nil {
		r.Errorf("anchor not resolved: isBool")
		return
	}
	// helpers: functions that call isBool directly, or call such a function (direct calls
	// only; function values are not followed, they would reach the whole run-time).
	reachesBool := map[*types.Func]bool{boolObj: true}
	for depth := 0; depth < 2; depth++ {
		for f, fi := range ic.G.Funcs {
			if reachesBool[f] || fi.Decl.Body == nil {
				continue
			}
			ast.Inspect(fi.Decl.Body, func(k ast.Node) bool {
				if c, ok := k.(*ast.CallExpr); ok {
					if g, ok := calleeOf(ic.Info, c).(*types.Func); ok && reachesBool[g] && g != f {
						reachesBool[f] = true
					}
				}
				return true
			})
		}
	}
	// a guard shared by several kinds: `if c, _ := H(n); c != nil && !isBool(c.typ) { err = ... }`
	// placed in cfg outside the kind switch, H being a plain helper that returns the condition
	// child per node kind: the kinds listed in H's cases are checked by that guard
	sharedChecked := map[string]bool{}
	ast.Inspect(cfgFn.Decl.Body, func(nd ast.Node) bool {
		ifs, ok := nd.(*ast.IfStmt)
		if !ok || ifs.Init == nil {
			return true
		}
		as, ok := ifs.Init.(*ast.AssignStmt)
		if !ok || len(as.Rhs) != 1 {
			return true
		}
		hc, ok := unparen(as.Rhs[0]).(*ast.CallExpr)
		if !ok {
			return true
		}
		h, _ := calleeOf(ic.Info, hc).(*types.Func)
		if h == nil || h.Pkg() != ic.Pk.Types || len(callsIn(ic.Info, ifs.Cond, true, "interp.isBool")) == 0 {
			return true
		}
		// the guard must reject: its body assigns the pass's error or returns
		if hfi := ic.G.Funcs[h]; hfi != nil && hfi.Decl.Body != nil {
			ast.Inspect(hfi.Decl.Body, func(k ast.Node) bool {
				if cc, ok := k.(*ast.CaseClause); ok {
					for _, e := range cc.List {
						if id := identOf(e); id != nil {
							if c, ok := ic.Info.Uses[id].(*types.Const); ok {
								sharedChecked[c.Name()] = true
							}
						}
					}
				}
				return true
			})
		}
		return true
	})
	sites := 0
	ast.Inspect(cfgFn.Decl.Body, func(nd ast.Node) bool {
		cc, ok := nd.(*ast.CaseClause)
		if !ok || len(cc.List) == 0 {
			return true
		}
		// locals bound from n.child[k] at the top level of the case
		locals := map[types.Object]bool{}
		for _, st := range cc.Body {
			as, ok := st.(*ast.AssignStmt)
			if !ok || as.Tok != token.DEFINE {
				continue
			}
			for i, l := range as.Lhs {
				if i >= len(as.Rhs) {
					break
				}
				id, ok := l.(*ast.Ident)
				if !ok {
					continue
				}
				if ix, ok := unparen(as.Rhs[i]).(*ast.IndexExpr); ok {
					if se, ok := unparen(ix.X).(*ast.SelectorExpr); ok && se.Sel.Name == "child" {
						if rid, ok := unparen(se.X).(*ast.Ident); ok && rid.Name == "n" {
							locals[ic.Info.ObjectOf(id)] = true
						}
					}
				}
			}
		}
		// ... and the conditions visited by a loop over a list of nodes (the case expressions of a
		// switch without tag: for j, cond := range conds)
		for _, st := range cc.Body {
			ast.Inspect(st, func(m ast.Node) bool {
				if rs, ok := m.(*ast.RangeStmt); ok && rs.Tok == token.DEFINE {
					if id := identOf(rs.Value); id != nil && id.Name != "_" {
						if sl, ok := ic.Info.TypeOf(rs.X).(*types.Slice); ok && isNamedPtr(sl.Elem(), "node") {
							locals[ic.Info.ObjectOf(id)] = true
						}
					}
				}
				return true
			})
		}
		if len(locals) == 0 {
			return true
		}
		for _, st := range cc.Body {
			ast.Inspect(st, func(m ast.Node) bool {
				call, ok := m.(*ast.CallExpr)
				if !ok || !isCallTo(ic.Info, call, "interp.setFNext") || len(call.Args) != 2 {
					return true
				}
				id, ok := unparen(call.Args[0]).(*ast.Ident)
				if !ok || !locals[ic.Info.ObjectOf(id)] {
					return true
				}
				cond := ic.Info.ObjectOf(id)
				sites++
				label := types.ExprString(cc.List[0])
				// is there a boolean check of cond in this case (or in a guard shared by its kind)?
				checked := false
				for _, e := range cc.List {
					if id := identOf(e); id != nil && sharedChecked[id.Name] {
						checked = true
					}
				}
				for _, st2 := range cc.Body {
					ast.Inspect(st2, func(k ast.Node) bool {
						c2, ok := k.(*ast.CallExpr)
						if !ok {
							return true
						}
						f, _ := calleeOf(ic.Info, c2).(*types.Func)
						if f == nil || !reachesBool[f] {
							return true
						}
						for _, a := range c2.Args {
							if rid := rootIdent(a); rid != nil && ic.Info.ObjectOf(rid) == cond {
								checked = true
								if os.Getenv("YVERIF_DEBUG") != "" {
									fmt.Println("    cond check via", f.Name(), ic.pos(c2.Pos()))
								}
							}
						}
						return true
					})
				}
				r.Check(checked, "R12.5", "cfg/case:"+label+"/cond-is-bool", ic.pos(call.Pos()), "the condition's type is checked to be boolean before its false branch is wired",
					"post-order case "+label+" wires the false branch of condition "+id.Name+" (setFNext) but, unlike its sibling cases, never checks that the condition is boolean (no call reaching isBool on it): a non-boolean condition is accepted in this statement form")
				return true
			})
		}
		return true
	})
	if sites < 6 {
		r.Errorf("R12.5: only %d condition-wiring cases found in cfg (for/if forms expected)", sites)
	}
}

func isErrorType(t types.Type) bool { return t != nil && types.TypeString(t, nil) == "error" }

func c12R1(ic *IC, r *Report) {
	// Compile steps: in-package functions returning (*Program, error).
	isCompile := func(f *ssa.Function) bool {
		if f == nil || f.Pkg != ic.SP {
			return false
		}
		res := f.Signature.Results()
		return res.Len() == 2 && isNamed(res.At(0).Type(), "Program") && isErrorType(res.At(1).Type())
	}
	isExecute := func(f *ssa.Function) bool {
		if f == nil || f.Pkg != ic.SP || f.Signature.Recv() == nil {
			return false
		}
		return f.Name() == "Execute" || f.Name() == "ExecuteWithContext"
	}
	n := 0
	for _, fn := range allSSAFuncs(ic.SP) {
		for _, b := range fn.Blocks {
			for _, ins := range b.Instrs {
				call, ok := ins.(*ssa.Call)
				if !ok || !isExecute(call.Call.StaticCallee()) {
					continue
				}
				// program argument: last arg of type *Program
				var prog ssa.Value
				for _, a := range call.Call.Args {
					if isNamed(a.Type(), "Program") {
						prog = a
					}
				}
				if prog == nil {
					continue
				}
				for _, o := range origins(prog, map[ssa.Value]bool{}) {
					ex, ok := o.(*ssa.Extract)
					if !ok {
						continue // a program received as parameter: the caller's responsibility
					}
					cc, ok := ex.Tuple.(*ssa.Call)
					if !ok || !isCompile(cc.Call.StaticCallee()) {
						continue
					}
					n++
					key := ssaFuncName(fn) + "/" + cc.Call.StaticCallee().Name() + "->" + call.Call.StaticCallee().Name()
					ok2, why := errNilDominates(cc, call.Block())
					r.Check(ok2, "R12.1", key, ic.pos(call.Pos()), "Execute is dominated by the nil branch of the compile error",
						"Execute of the program compiled by "+cc.Call.StaticCallee().Name()+" is not dominated by the branch where its error is nil ("+why+"): a program that failed to compile is executed")
				}
			}
		}
	}
	if n == 0 {
		r.Errorf("R12.1: no function both compiling and executing a program found (eval expected)")
	}
	// importSrc: no path back from execution to compilation.
	is := ic.fn(r, "Interpreter.importSrc")
	if is != nil {
		fg := buildFlow(is.Decl.Body, ic.Info)
		execs := callsIn(ic.Info, is.Decl.Body, false, "interp.Interpreter.run", "interp.genRun")
		comps := callsIn(ic.Info, is.Decl.Body, false, "interp.Interpreter.gta", "interp.Interpreter.gtaRetry", "interp.Interpreter.cfg")
		if len(execs) == 0 || len(comps) == 0 {
			r.Errorf("R12.1: importSrc: run/genRun (%d) or gta/cfg (%d) calls not found", len(execs), len(comps))
		} else {
			bad := ""
			for _, e := range execs {
				for _, cmp := range comps {
					if re, _ := fg.reaches(e, cmp); re {
						bad = ic.pos(e.Pos()) + " -> " + ic.pos(cmp.Pos())
					}
				}
			}
			r.Check(bad == "", "R12.1", "importSrc/compile-then-run", ic.pos(is.Decl.Pos()), fmt.Sprintf("%d compile calls all precede %d execution calls", len(comps), len(execs)),
				"importSrc can return from execution to compilation ("+bad+"): part of a package runs before the rest of it is type-checked")
			// every compile call's error is tested before the first execution
			for _, e := range execs {
				for _, cmp := range comps {
					if d, _ := fg.dominates(cmp, e); !d {
						// compile calls inside loops do not dominate syntactically later code only if the loop may not execute: accept reachability order
						if re, _ := fg.reaches(cmp, e); !re {
							r.Fail("R12.1", "importSrc/compile-then-run", ic.pos(e.Pos()), "an execution call is not preceded by the compile calls")
						}
					}
				}
			}
		}
	}
}

// errNilDominates reports whether block b is dominated by the successor taken when the
// error result of call is nil.
func errNilDominates(call *ssa.Call, b *ssa.BasicBlock) (bool, string) {
	var errv ssa.Value
	for _, ref := range *call.Referrers() {
		if ex, ok := ref.(*ssa.Extract); ok && isErrorType(ex.Type()) {
			errv = ex
		}
	}
	if errv == nil {
		return false, "the error result is discarded"
	}
	fn := call.Parent()
	for _, blk := range fn.Blocks {
		if len(blk.Instrs) == 0 {
			continue
		}
		iff, ok := blk.Instrs[len(blk.Instrs)-1].(*ssa.If)
		if !ok {
			continue
		}
		nilSucc := nilBranch(iff.Cond, errv, blk)
		if nilSucc == nil {
			continue
		}
		if len(nilSucc.Preds) == 1 && nilSucc.Dominates(b) {
			return true, ""
		}
		// The non-nil successor returns: then the block after the if is only reached with a nil error.
		other := blk.Succs[0]
		if other == nilSucc {
			other = blk.Succs[1]
		}
		if blk.Dominates(b) && !reachesBlock(other, b, blk) {
			return true, ""
		}
	}
	return false, "no test of the error dominates the call"
}

// nilBranch returns the successor of blk taken when errv is nil, if cond tests it.
func nilBranch(cond ssa.Value, errv ssa.Value, blk *ssa.BasicBlock) *ssa.BasicBlock {
	be, ok := cond.(*ssa.BinOp)
	if !ok || (be.Op != token.NEQ && be.Op != token.EQL) {
		return nil
	}
	isErr := func(v ssa.Value) bool {
		for _, o := range origins(v, map[ssa.Value]bool{}) {
			if o == errv {
				return true
			}
		}
		return false
	}
	isNil := func(v ssa.Value) bool { c, ok := v.(*ssa.Const); return ok && c.IsNil() }
	if !((isErr(be.X) && isNil(be.Y)) || (isErr(be.Y) && isNil(be.X))) {
		return nil
	}
	if be.Op == token.EQL {
		return blk.Succs[0]
	}
	return blk.Succs[1]
}

func reachesBlock(from, to, avoid *ssa.BasicBlock) bool {
	seen := map[*ssa.BasicBlock]bool{avoid: true}
	st := []*ssa.BasicBlock{from}
	for len(st) > 0 {
		x := st[len(st)-1]
		st = st[:len(st)-1]
		if seen[x] {
			continue
		}
		seen[x] = true
		if x == to {
			return true
		}
		st = append(st, x.Succs...)
	}
	return false
}

func c12R2(ic *IC, r *Report) {
	g := buildSGraph(ic.SP)
	root := ic.ssaMeth("Interpreter", "CompileAST")
	run := ic.ssaMeth("Interpreter", "run")
	runCfg := ic.ssaFunc("runCfg")
	if root == nil || run == nil || runCfg == nil {
		r.Errorf("anchor not resolved: CompileAST / run / runCfg")
		return
	}
	set, parent := g.reachSet(true, root)
	r.Info["functions_reachable_from_CompileAST"] = len(set)
	hits := 0
	var fs []*ssa.Function
	for f := range set {
		fs = append(fs, f)
	}
	sort.Slice(fs, func(i, j int) bool { return ssaFuncName(fs[i]) < ssaFuncName(fs[j]) })
	for _, f := range fs {
		for _, e := range g.Out[f] {
			if (e.To == run || e.To == runCfg) && f != run {
				hits++
				rootName := ssaFuncName(f)
				if i := strings.Index(rootName, "$"); i > 0 {
					rootName = rootName[:i]
				}
				r.Fail("R12.2", "exec-during-compile/"+rootName+"->"+ssaFuncName(e.To), ic.pos(e.Pos),
					"interpreted code is executed while a program is still being compiled: "+strings.Join(append(ssaPath(parent, f), ssaFuncName(e.To)), " -> ")+": statements (package initialisation of an imported source package) run before a later static error of the importer is reported")
			}
		}
	}
	if hits == 0 {
		r.Pass("R12.2", "exec-during-compile", ic.pos(root.Pos()), fmt.Sprintf("%d functions reachable from CompileAST, none calls run/runCfg", len(set)))
	}
	if len(set) < 50 {
		r.Errorf("R12.2: only %d functions reachable from CompileAST", len(set))
	}
}

// ---- R12.3 -----------------------------------------------------------------------------

// explicit discards accepted today, keyed function -> callee, with the reason.
var c12Discards = map[string]string{
	"isBinCall -> nodeType":              "a type that cannot be inferred here makes isBinCall false; the error is reported when the call itself is compiled",
	"itype.refType -> itype.zero":        "zero() fails only for incomplete types, which refType is completing",
	"Interpreter.cfg -> Interpreter.cfg": "recursive early compilation of a constant sub-declaration: its error is reported when the declaration itself is reached",
}

// overwrites accepted today, keyed function: first-callee => second-callee.
var c12Overwrites = map[string]string{
	"Interpreter.cfg: node.cfgErrorf => typecheck.index":                              "indexExpr post-order case: the cfgErrorf for a non-indexable operand is overwritten by check.index; for every such operand tried (pointer to non-array, struct, float, chan, func, binary types) the earlier valueTOf(typ.Elem()) / nil type already panics in the same case, so the overwritten error is not the verdict that matters (the input is rejected by a panic, reported as CFG post-order panic)",
	"Interpreter.cfg: Interpreter.cfg => nil":                                         "constDecl pre-order case: early compilation of a local constant declaration; its error is cleared on purpose (source comment) because the declaration is compiled again, and its error reported, when the walk reaches it",
	"Interpreter.gta: Interpreter.cfg => nil":                                         "constDecl case of gta: early compilation of a constant declaration; cleared on purpose, the declaration is compiled again by cfg, which reports the error",
	"Interpreter.gta: nodeType => nil":                                                "typeSpec case of gta: a type that cannot be resolved yet is queued in revisit and retried by gtaRetry, which reports the error if it never resolves",
	"Interpreter.importSrc: Interpreter.pkgDir => Interpreter.rootFromSourceLocation": "package directory lookup: a failed lookup is retried from the source location; both retry errors are returned",
	"nodeType2: nodeType2 => nodeType2":                                               "binary-expression case: the error of the second operand's nodeType2 is replaced by the next nodeType2 call; when it is non-nil t1 is nil and the very next statement dereferences it (panic), so no program is accepted through this overwrite",
}

type errDef struct {
	node   ast.Node
	callee string
	nonNil bool // the defined value is never nil (cfgErrorf, errors.New, fmt.Errorf)
	isNil  bool // literal nil
}

func calleeName(ic *IC, e ast.Expr) (string, bool) {
	call, ok := unparen(e).(*ast.CallExpr)
	if !ok {
		return "", false
	}
	if o := calleeOf(ic.Info, call); o != nil {
		k := shortKey(objKey(o))
		k = strings.TrimPrefix(k, "interp.")
		return k, true
	}
	return types.ExprString(call.Fun), true
}

var nonNilErrorMakers = map[string]bool{"node.cfgErrorf": true, "fmt.Errorf": true, "errors.New": true}

func c12R3(ic *IC, r *Report) {
	// Scope: functions reachable from CompileAST and importSrc that are not reachable from
	// the execution functions, plus the closures they contain.
	g := ic.G
	roots := []*types.Func{}
	for _, n := range []string{"Interpreter.CompileAST", "Interpreter.importSrc"} {
		if fi := ic.F[n]; fi != nil {
			roots = append(roots, fi.Obj)
		}
	}
	comp, _ := g.Reach(roots...)
	scope := []*FuncInfo{}
	for _, fi := range g.reachedDecls(comp) {
		name := funcName(fi.Decl)
		// run-time side: generators (bltnGenerator signature func(*node)) and value generators are not type rules
		if fi.Decl.Recv == nil && isGenerator(ic, fi) {
			continue
		}
		_ = name
		scope = append(scope, fi)
	}
	r.Info["compile_pass_functions"] = len(scope)
	if len(scope) < 40 {
		r.Errorf("R12.3: only %d compile-pass functions in scope", len(scope))
	}
	implicit, explicit, defsSeen := 0, 0, 0
	perFunc := map[string]int{}
	for _, fi := range scope {
		name := funcName(fi.Decl)
		// (a) discards
		ast.Inspect(fi.Decl.Body, func(n ast.Node) bool {
			switch x := n.(type) {
			case *ast.ExprStmt:
				call, ok := unparen(x.X).(*ast.CallExpr)
				if !ok {
					return true
				}
				if tv, ok := ic.Info.Types[call]; ok && returnsError(tv.Type) {
					cn, _ := calleeName(ic, call)
					if inPkgCallee(ic, call) {
						implicit++
						r.Fail("R12.3", name+"/implicit-discard:"+cn, ic.pos(x.Pos()), "the error returned by "+cn+" is dropped (call statement) in compile pass "+name+": a static error it detects is never reported")
					}
				}
			case *ast.AssignStmt:
				if len(x.Rhs) != 1 {
					return true
				}
				call, ok := unparen(x.Rhs[0]).(*ast.CallExpr)
				if !ok || !inPkgCallee(ic, call) {
					return true
				}
				tv, ok := ic.Info.Types[call]
				if !ok || !returnsError(tv.Type) {
					return true
				}
				last := x.Lhs[len(x.Lhs)-1]
				if id, ok := last.(*ast.Ident); ok && id.Name == "_" {
					explicit++
					cn, _ := calleeName(ic, call)
					k := name + " -> " + cn
					why, okd := c12Discards[k]
					r.Check(okd, "R12.3", name+"/discard:"+cn, ic.pos(x.Pos()), "frozen exception: "+why,
						"the error of "+cn+" is explicitly discarded in "+name+" and this (function, callee) pair is not in the reviewed exception table: a type rule's verdict is ignored")
				}
			}
			return true
		})
		// (b) overwritten definitions, on the body and on each nested literal.
		bodies := []*ast.BlockStmt{fi.Decl.Body}
		ast.Inspect(fi.Decl.Body, func(n ast.Node) bool {
			if fl, ok := n.(*ast.FuncLit); ok {
				bodies = append(bodies, fl.Body)
			}
			return true
		})
		for bi, body := range bodies {
			owner := name
			_ = bi
			hits, nd := overwrittenErrDefs(ic, body)
			defsSeen += nd
			perFunc[name] += nd
			for _, h := range hits {
				k := owner + ": " + h.first.callee + " => " + h.second.callee
				if why, ok := c12Overwrites[k]; ok {
					r.Pass("R12.3", owner+"/overwrite:"+h.first.callee+"=>"+h.second.callee, ic.pos(h.first.node.Pos()), "frozen exception: "+why)
					continue
				}
				r.Fail("R12.3", owner+"/overwrite:"+h.first.callee+"=>"+h.second.callee, ic.pos(h.first.node.Pos()),
					"the error defined here from "+h.first.callee+" can reach the definition at "+ic.pos(h.second.node.Pos())+" (from "+h.second.callee+", possibly nil) without being read: the first error is lost and the program may be accepted")
			}
		}
	}
	for _, name := range sortedKeys(perFunc) {
		if perFunc[name] == 0 {
			continue
		}
		bad := false
		for _, o := range r.Obls {
			if o.Rule == "R12.3" && strings.HasPrefix(o.Key, name+"/") && !o.OK {
				bad = true
			}
		}
		if !bad {
			r.Pass("R12.3", name+"/error-flow", "", fmt.Sprintf("%d error definitions, none dropped or overwritten before being read", perFunc[name]))
		}
	}
	r.Info["error_definitions_analysed"] = defsSeen
	r.Info["explicit_discards"] = explicit
	if defsSeen < 100 {
		r.Errorf("R12.3: only %d error definitions analysed in the compile passes", defsSeen)
	}
	r.Pass("R12.3", "compile-passes/analysed", "", fmt.Sprintf("%d functions, %d error definitions, %d implicit discards, %d explicit discards", len(scope), defsSeen, implicit, explicit))
}

func returnsError(t types.Type) bool {
	if tup, ok := t.(*types.Tuple); ok {
		return tup.Len() > 0 && isErrorType(tup.At(tup.Len()-1).Type())
	}
	return isErrorType(t)
}

func inPkgCallee(ic *IC, call *ast.CallExpr) bool {
	f, ok := calleeOf(ic.Info, call).(*types.Func)
	return ok && f.Pkg() == ic.Pk.Types
}

// isGenerator: func(n *node) with no result (a bltn generator), or returning a func(*frame) value.
func isGenerator(ic *IC, fi *FuncInfo) bool {
	sig := fi.Obj.Type().(*types.Signature)
	if sig.Params().Len() >= 1 && isNamed(sig.Params().At(0).Type(), "node") && sig.Results().Len() == 0 {
		// generators install n.exec
		installs := false
		ast.Inspect(fi.Decl.Body, func(n ast.Node) bool {
			if fl, ok := n.(*ast.FuncLit); ok && isFrameClosure(ic.Info, fl) {
				installs = true
			}
			return true
		})
		return installs
	}
	return false
}

type overwriteHit struct{ first, second errDef }

// overwrittenErrDefs runs a forward may-analysis "pending (unread) error definitions" on
// the go/cfg of body, for every variable of type error assigned in body.
func overwrittenErrDefs(ic *IC, body *ast.BlockStmt) ([]overwriteHit, int) {
	// Collect candidate variables: error-typed variables assigned in this body (own nodes).
	vars := map[*types.Var]bool{}
	ownNodes(body, func(n ast.Node) bool {
		if as, ok := n.(*ast.AssignStmt); ok {
			for _, l := range as.Lhs {
				if id, ok := l.(*ast.Ident); ok && id.Name != "_" {
					if v, ok := ic.Info.ObjectOf(id).(*types.Var); ok && isErrorType(v.Type()) {
						vars[v] = true
					}
				}
			}
		}
		return true
	})
	if len(vars) == 0 {
		return nil, 0
	}
	g := cfg.New(body, func(c *ast.CallExpr) bool { return !noReturn(ic.Info, c) })
	type defKey struct {
		v *types.Var
		n ast.Node
	}
	defs := map[defKey]errDef{}
	// per node: uses then defs
	type event struct {
		use bool
		v   *types.Var
		def errDef
	}
	nodeEvents := func(n ast.Node) []event {
		var evs []event
		lhsIdents := map[*ast.Ident]bool{}
		var assigns []*ast.AssignStmt
		ownNodes(n, func(m ast.Node) bool {
			if as, ok := m.(*ast.AssignStmt); ok {
				assigns = append(assigns, as)
				for _, l := range as.Lhs {
					if id, ok := l.(*ast.Ident); ok {
						lhsIdents[id] = true
					}
				}
			}
			return true
		})
		// uses (nested function literals count as uses: they may read or test the variable)
		ast.Inspect(n, func(m ast.Node) bool {
			if id, ok := m.(*ast.Ident); ok && !lhsIdents[id] {
				if v, ok := ic.Info.Uses[id].(*types.Var); ok && vars[v] {
					evs = append(evs, event{use: true, v: v})
				}
			}
			return true
		})
		for _, as := range assigns {
			for i, l := range as.Lhs {
				id, ok := l.(*ast.Ident)
				if !ok {
					continue
				}
				v, ok := ic.Info.ObjectOf(id).(*types.Var)
				if !ok || !vars[v] {
					continue
				}
				var rhs ast.Expr
				if len(as.Rhs) == len(as.Lhs) {
					rhs = as.Rhs[i]
				} else if len(as.Rhs) == 1 {
					rhs = as.Rhs[0]
				}
				d := errDef{node: as}
				if rhs != nil {
					if cn, ok := calleeName(ic, rhs); ok {
						d.callee = cn
						d.nonNil = nonNilErrorMakers[cn]
					} else if rid, ok := unparen(rhs).(*ast.Ident); ok && rid.Name == "nil" {
						d.isNil = true
						d.callee = "nil"
					} else {
						d.callee = types.ExprString(rhs)
					}
				}
				evs = append(evs, event{v: v, def: d})
			}
		}
		return evs
	}
	// nilTest recognises a block ending in the pure test `v != nil` / `v == nil` of a tracked
	// variable and returns v and the successor taken when v is not nil. On that successor the
	// pending definition is known to be an error (confirmed); on the other one it is nil and
	// nothing is lost by overwriting it.
	nilTest := func(b *cfg.Block) (*types.Var, *cfg.Block, *cfg.Block) {
		if len(b.Succs) != 2 || len(b.Nodes) == 0 {
			return nil, nil, nil
		}
		be, ok := b.Nodes[len(b.Nodes)-1].(*ast.BinaryExpr)
		if !ok || (be.Op != token.NEQ && be.Op != token.EQL) {
			return nil, nil, nil
		}
		x, y := unparen(be.X), unparen(be.Y)
		if id, ok := x.(*ast.Ident); ok && id.Name == "nil" {
			x, y = y, x
		}
		xid, ok1 := x.(*ast.Ident)
		yid, ok2 := y.(*ast.Ident)
		if !ok1 || !ok2 || yid.Name != "nil" {
			return nil, nil, nil
		}
		v, ok := ic.Info.Uses[xid].(*types.Var)
		if !ok || !vars[v] {
			return nil, nil, nil
		}
		if be.Op == token.NEQ {
			return v, b.Succs[0], b.Succs[1]
		}
		return v, b.Succs[1], b.Succs[0]
	}
	// state: 1 = defined and not read yet, 2 = tested and known to be a non-nil error, still not
	// returned, wrapped or handed to anyone.
	type state map[defKey]int
	in := map[*cfg.Block]state{}
	out := map[*cfg.Block]state{}
	evCache := map[ast.Node][]event{}
	hits := map[string]overwriteHit{}
	ndefs := 0
	counted := map[ast.Node]bool{}
	changed := true
	for iter := 0; changed && iter < 50; iter++ {
		changed = false
		for _, b := range g.Blocks {
			if !b.Live {
				continue
			}
			st := state{}
			for k, lv := range in[b] {
				st[k] = lv
			}
			tv, nonNilSucc, nilSucc := nilTest(b)
			for ni, n := range b.Nodes {
				if tv != nil && ni == len(b.Nodes)-1 {
					break // the nil test itself: handled on the edges below
				}
				evs, ok := evCache[n]
				if !ok {
					evs = nodeEvents(n)
					evCache[n] = evs
				}
				for _, ev := range evs {
					if ev.use {
						for k := range st {
							if k.v == ev.v {
								delete(st, k)
							}
						}
						continue
					}
					if !counted[ev.def.node] {
						counted[ev.def.node] = true
						ndefs++
					}
					// a definition: report pending ones when this one may be nil
					if !ev.def.nonNil {
						for k, lv := range st {
							if k.v == ev.v && (k.n != ev.def.node || lv == 2) {
								first := defs[k]
								hk := fmt.Sprint(first.node.Pos(), ev.def.node.Pos())
								hits[hk] = overwriteHit{first, ev.def}
							}
						}
					}
					for k := range st {
						if k.v == ev.v {
							delete(st, k)
						}
					}
					if !ev.def.isNil && ev.def.callee != "" {
						k := defKey{ev.v, ev.def.node}
						defs[k] = ev.def
						st[k] = 1
					}
				}
			}
			// propagate
			prev := out[b]
			if len(prev) != len(st) {
				changed = true
			} else {
				for k, lv := range st {
					if prev[k] != lv {
						changed = true
					}
				}
			}
			out[b] = st
			for _, s := range b.Succs {
				if in[s] == nil {
					in[s] = state{}
				}
				for k, lv := range st {
					if tv != nil && k.v == tv {
						if s == nilSucc && s != nonNilSucc {
							continue // nil on this edge: nothing pending
						}
						if s == nonNilSucc {
							lv = 2
						}
					}
					if in[s][k] < lv {
						in[s][k] = lv
						changed = true
					}
				}
			}
		}
	}
	var res []overwriteHit
	var keys []string
	for k := range hits {
		keys = append(keys, k)
	}
	sort.Strings(keys)
	for _, k := range keys {
		res = append(res, hits[k])
	}
	return res, ndefs
}

func c12R4(ic *IC, r *Report) {
	g := buildSGraph(ic.SP)
	root := ic.ssaMeth("Interpreter", "cfg")
	if root == nil {
		r.Errorf("anchor not resolved: (*Interpreter).cfg")
		return
	}
	// closures of cfg are its callbacks: include them as roots.
	roots := []*ssa.Function{root}
	var addAnon func(f *ssa.Function)
	addAnon = func(f *ssa.Function) {
		for _, a := range f.AnonFuncs {
			roots = append(roots, a)
			addAnon(a)
		}
	}
	addAnon(root)
	set, _ := g.reachSet(true, roots...)
	tc := ic.Pk.Types.Scope().Lookup("typecheck")
	if tc == nil {
		r.Errorf("anchor not resolved: type typecheck")
		return
	}
	n := 0
	var direct []string
	for _, name := range sortedKeys(ic.F) {
		if !strings.HasPrefix(name, "typecheck.") {
			continue
		}
		fi := ic.F[name]
		f := ic.P.SSA.FuncValue(fi.Obj)
		if f == nil {
			continue
		}
		n++
		r.Check(set[f], "R12.4", name+"/wired", ic.pos(fi.Decl.Pos()), "reachable from the cfg pass",
			"type rule "+name+" is not reachable from (*Interpreter).cfg on the static call graph: the rule is never applied")
		for _, rt := range roots {
			for _, e := range g.Out[rt] {
				if e.To == f {
					direct = append(direct, name)
				}
			}
		}
	}
	sort.Strings(direct)
	r.Info["typecheck_methods_called_directly_from_cfg"] = dedup(direct)
	if n < 10 {
		r.Errorf("R12.4: only %d methods of typecheck found", n)
	}
}

func dedup(s []string) []string {
	var out []string
	for i, x := range s {
		if i == 0 || x != s[i-1] {
			out = append(out, x)
		}
	}
	return out
}

func init() {
	ruleText["R12.17"] = "a constant is narrowed to a type only after it was found representable in it: in every function of the type checker, each call of convertConst is dominated (flow graph) by a call of representable - no condition on the types lets a constant reach the conversion unchecked"
	ruleText["R12.18"] = "in the check of array and slice literals the duplicate-index test applies to every element: the test of the visited set that raises the error is not nested under the key-value case - an unkeyed element lands on the index following the previous one, which an earlier key may already have set"
}

// c12R17: round-6 seed. convertUntyped skipped the representability check when the constant
// kept its default type: var x int = 1 << 70 was accepted.
// c12R18: round-6 seed. The duplicate test was moved into the key-value case:
// []int{1: 10, 0: 5, 20} was accepted.
func c12R17and18(ic *IC, r *Report) {
	info := ic.Info
	n := 0
	for _, name := range sortedKeys(ic.F) {
		fi := ic.F[name]
		if fi.Decl.Body == nil {
			continue
		}
		convs := callsIn(info, fi.Decl.Body, false, "interp.typecheck.convertConst")
		if len(convs) == 0 {
			continue
		}
		reprs := callsIn(info, fi.Decl.Body, false, "interp.typecheck.representable")
		fg := buildFlow(fi.Decl.Body, info)
		for i, c := range convs {
			n++
			okDom := false
			for _, rp := range reprs {
				if d, ok := fg.dominates(rp, c); ok && d {
					okDom = true
				}
			}
			r.Check(okDom, "R12.17", fmt.Sprintf("%s/conversion#%d/after-the-representability-check", name, i+1), ic.pos(c.Pos()), "a call of representable dominates the conversion",
				name+" narrows a constant with convertConst at "+ic.pos(c.Pos())+" on a path that does not pass the representability check: var x int = 1 << 70, or a constant argument overflowing its parameter type, is accepted and silently truncated instead of being rejected with 'overflows'")
		}
	}
	if n == 0 {
		r.Errorf("R12.17: no call of convertConst found in the type checker")
	}
	// R12.18
	fi := ic.fn(r, "typecheck.arrayLitExpr")
	if fi == nil {
		return
	}
	// the visited set: a local map[int]bool indexed in a condition whose body returns an error
	k := 0
	ast.Inspect(fi.Decl.Body, func(q ast.Node) bool {
		ifs, ok := q.(*ast.IfStmt)
		if !ok {
			return true
		}
		ix, ok := unparen(ifs.Cond).(*ast.IndexExpr)
		if !ok {
			return true
		}
		if t := info.TypeOf(ix.X); t == nil || types.TypeString(t, nil) != "map[int]bool" {
			return true
		}
		if len(ifs.Body.List) == 0 {
			return true
		}
		if _, isRet := ifs.Body.List[len(ifs.Body.List)-1].(*ast.ReturnStmt); !isRet {
			return true
		}
		k++
		under := ""
		for _, p := range enclosingPath(fi.Decl.Body, ifs) {
			switch y := p.(type) {
			case *ast.CaseClause:
				for _, e := range y.List {
					under = "the case " + types.ExprString(e)
				}
			case *ast.IfStmt:
				if y != ifs {
					under = "the test " + types.ExprString(y.Cond)
				}
			}
		}
		r.Check(under == "", "R12.18", fmt.Sprintf("typecheck.arrayLitExpr/duplicate-index-test#%d/for-every-element", k), ic.pos(ifs.Pos()), "the duplicate test is made for keyed and unkeyed elements alike",
			"typecheck.arrayLitExpr tests the index against the elements already set only under "+under+": an unkeyed element takes the index after the previous element, which an earlier key may have set - []int{1: 10, 0: 5, 20} is accepted (and the last value silently wins) instead of 'duplicate index 1'")
		return true
	})
	if k == 0 {
		r.Errorf("R12.18: no duplicate-index test found in typecheck.arrayLitExpr")
	}
}

func init() {
	ruleText["R12.19"] = "a source package is recorded as imported only once it is type-checked: in importSrc no call of the checking passes (ast, gta, gtaRetry, cfg) is reachable (flow graph) from the store into Interpreter.srcPkg - a package that fails its check is not found imported by the next evaluation"
}

// c12R19: round-6 seed. The registration was moved before the generation of the control flow
// graphs (where the type check happens): an ill-typed package was rejected the first time only.
func c12R19(ic *IC, r *Report) {
	info := ic.Info
	fi := ic.fn(r, "Interpreter.importSrc")
	if fi == nil {
		return
	}
	srcPkg := ic.field("Interpreter", "srcPkg")
	var stores []ast.Node
	ast.Inspect(fi.Decl.Body, func(q ast.Node) bool {
		as, ok := q.(*ast.AssignStmt)
		if !ok {
			return true
		}
		for _, l := range as.Lhs {
			if ix, ok := unparen(l).(*ast.IndexExpr); ok && selField(info, ix.X) == srcPkg {
				stores = append(stores, as)
			}
		}
		return true
	})
	if len(stores) == 0 {
		r.Errorf("R12.19: no store into Interpreter.srcPkg found in importSrc")
		return
	}
	passes := callsIn(info, fi.Decl.Body, false, "interp.Interpreter.cfg", "interp.Interpreter.gta", "interp.Interpreter.gtaRetry", "interp.Interpreter.ast")
	if len(passes) < 4 {
		r.Errorf("R12.19: only %d calls of the checking passes found in importSrc (ast, gta, gtaRetry, cfg expected)", len(passes))
		return
	}
	fg := buildFlow(fi.Decl.Body, info)
	for i, st := range stores {
		var bad []string
		for _, p := range passes {
			if re, ok := fg.reaches(st, p); !ok || re {
				bad = append(bad, types.ExprString(p.Fun)+" at "+ic.pos(p.Pos()))
			}
		}
		r.Check(len(bad) == 0, "R12.19", fmt.Sprintf("importSrc/registration#%d/after-the-checking-passes", i+1), ic.pos(st.Pos()), fmt.Sprintf("none of the %d calls of the checking passes is reachable from the registration", len(passes)),
			"importSrc records the package as imported at "+ic.pos(st.Pos())+" and can still run "+strings.Join(bad, ", ")+" afterwards: when that pass rejects the package the record stays, so the same program evaluated again finds the package already imported and runs against the ill-typed package with a nil error")
	}
}

func init() {
	ruleText["R12.20"] = "the division-by-constant-zero rule of binary expressions (a) is applied to the assignment forms too: every case of typecheck.binaryExpr that calls the zero test lists the assignment action with the plain one (or the switch is over the normalised action), and (b) asks the value of the divisor only when there is one: in the zero test every use of the node's constant value (Interface(), a type assertion) is dominated by a validity test - an untyped operand is not always a constant (1 << n)"
}

// c12R20: found through the round-6 report on C12 (2.2 and 2.3). a /= 0 was compiled and
// panicked at run time; a / (1 << n) - well typed - was rejected by a compiler panic in zeroConst.
func c12R20(ic *IC, r *Report) {
	info := ic.Info
	fi := ic.fn(r, "typecheck.binaryExpr")
	zc := ic.F["zeroConst"]
	if fi == nil || zc == nil || zc.Decl.Body == nil {
		r.Errorf("R12.20: typecheck.binaryExpr or zeroConst not found")
		return
	}
	n := 0
	ast.Inspect(fi.Decl.Body, func(q ast.Node) bool {
		cc, ok := q.(*ast.CaseClause)
		if !ok || len(callsIn(info, cc, false, "interp.zeroConst")) == 0 {
			return true
		}
		// the switch tag: n.action (both forms must be listed) or a normalised local (one is enough)
		var sw *ast.SwitchStmt
		for _, p := range enclosingPath(fi.Decl.Body, cc) {
			if s, ok := p.(*ast.SwitchStmt); ok {
				sw = s
			}
		}
		names := map[string]bool{}
		for _, e := range cc.List {
			if id := identOf(e); id != nil {
				names[id.Name] = true
			}
		}
		n++
		okForms := false
		if sw != nil && sw.Tag != nil {
			if v := selField(info, sw.Tag); v == nil {
				okForms = true // a local holding the normalised action
			}
		}
		for nm := range names {
			if names[nm+"Assign"] {
				okForms = true
			}
		}
		var list []string
		for nm := range names {
			list = append(list, nm)
		}
		sort.Strings(list)
		r.Check(okForms, "R12.20", "typecheck.binaryExpr/zero-divisor-case:"+strings.Join(list, ",")+"/assignment-form-too", ic.pos(cc.Pos()), "the case covers the assignment form",
			"typecheck.binaryExpr applies the division-by-zero rule under case "+strings.Join(list, ", ")+" of a switch over the node's action: the assignment form (a /= 0, a %= 0) has another action and is accepted; the program starts and panics at run time (integer divide by zero) where compiled Go rejects it")
		return true
	})
	if n == 0 {
		r.Errorf("R12.20: no case of typecheck.binaryExpr calls the zero test")
	}
	// (b)
	fg := buildFlow(zc.Decl.Body, info)
	valid := callsIn(info, zc.Decl.Body, false, "reflect.Value.IsValid")
	var uses []ast.Node
	ast.Inspect(zc.Decl.Body, func(q ast.Node) bool {
		switch y := q.(type) {
		case *ast.CallExpr:
			if isCallTo(info, y, "reflect.Value.Interface") {
				uses = append(uses, y)
			}
		case *ast.TypeAssertExpr:
			uses = append(uses, y)
		}
		return true
	})
	bad := ""
	for _, u := range uses {
		dom := false
		for _, v := range valid {
			if d, ok := fg.dominates(v, u); ok && d {
				dom = true
			}
		}
		if !dom {
			bad = types.ExprString(u.(ast.Expr)) + " at " + ic.pos(u.Pos())
		}
	}
	r.Check(bad == "", "R12.20", "zeroConst/value-read-only-when-valid", ic.pos(zc.Decl.Pos()), fmt.Sprintf("%d direct reads of the constant value, each after a validity test", len(uses)),
		"zeroConst reads the constant value of its operand ("+bad+") without a dominating validity test: an untyped operand that is not a constant (the shift 1 << n) has no value, the read panics and the well-typed expression a / (1 << n) is rejected with a compiler panic")
}

func init() {
	ruleText["R12.21"] = "the arity rule of return statements counts the values actually returned: in the returnStmt case of cfg both arity errors (too many, not enough) compare the number of results with a count that is replaced by the number of results of the callee when the single operand is a call, and the 'not enough' test is not restricted to functions with unnamed results - only a return without operand may rely on named results"
}

// c12R21: found through the round-6 report on C12 (2.1, 2.2). func f() (a, b int) { return 1 }
// was accepted, and func g() (int, int) { return f() } with f returning three values was
// compiled and failed at run time (index out of range).
func c12R21(ic *IC, r *Report) {
	info := ic.Info
	cfgFn := ic.fn(r, "Interpreter.cfg")
	if cfgFn == nil {
		return
	}
	var cc *ast.CaseClause
	ast.Inspect(cfgFn.Decl.Body, func(q ast.Node) bool {
		c, ok := q.(*ast.CaseClause)
		if !ok {
			return true
		}
		for _, l := range kindLabels(ic, c) {
			if l == "returnStmt" && len(callsIn(info, c, true, "interp.mustReturnValue")) > 0 {
				cc = c
			}
		}
		return true
	})
	if cc == nil {
		r.Errorf("R12.21: the returnStmt case of cfg (the one consulting mustReturnValue) was not found")
		return
	}
	// the count: a local initialised from len(n.child) and reassigned from numOut under an isCall test
	var count types.Object
	ast.Inspect(cc, func(q ast.Node) bool {
		as, ok := q.(*ast.AssignStmt)
		if !ok || len(as.Lhs) != 1 || len(as.Rhs) != 1 {
			return true
		}
		if c, ok := unparen(as.Rhs[0]).(*ast.CallExpr); ok && isCallTo(info, c, "interp.itype.numOut") {
			for _, g := range pathGuards(cc, as) {
				if len(callsIn(info, g.cond, true, "interp.isCall")) > 0 {
					if id := identOf(as.Lhs[0]); id != nil {
						count = info.ObjectOf(id)
					}
				}
			}
		}
		return true
	})
	uses := func(e ast.Expr) bool {
		found := false
		ast.Inspect(e, func(q ast.Node) bool {
			if id, ok := q.(*ast.Ident); ok && count != nil && info.ObjectOf(id) == count {
				found = true
			}
			return true
		})
		return found
	}
	n := 0
	ast.Inspect(cc, func(q ast.Node) bool {
		ifs, ok := q.(*ast.IfStmt)
		if !ok {
			return true
		}
		// an arity test: a condition comparing a count with the number of results of the function
		// (sc.def.typ.numOut()), whose body raises an error; the direction of the comparison tells which
		msg := ""
		if len(callsIn(info, ifs.Cond, true, "interp.itype.numOut")) == 0 || len(callsIn(info, ifs.Body, true, "interp.node.cfgErrorf")) == 0 {
			return true
		}
		ast.Inspect(ifs.Cond, func(z ast.Node) bool {
			be, ok := z.(*ast.BinaryExpr)
			if !ok {
				return true
			}
			right := len(callsIn(info, be.Y, true, "interp.itype.numOut")) > 0 && strings.Contains(types.ExprString(be.Y), "def")
			left := len(callsIn(info, be.X, true, "interp.itype.numOut")) > 0 && strings.Contains(types.ExprString(be.X), "def")
			switch {
			case right && be.Op == token.GTR, left && be.Op == token.LSS:
				msg = "too many arguments to return"
			case right && be.Op == token.LSS, left && be.Op == token.GTR:
				msg = "not enough arguments to return"
			}
			return true
		})
		if msg == "" {
			return true
		}
		n++
		why := ""
		if !uses(ifs.Cond) {
			why = "it compares " + types.ExprString(ifs.Cond) + ", not the number of values of a single call operand"
		}
		if strings.HasPrefix(msg, "not enough") {
			// not only for unnamed results: every guard mentioning mustReturnValue offers an alternative
			for _, g := range pathGuards(cc, ifs) {
				if g.want && len(callsIn(info, g.cond, true, "interp.mustReturnValue")) > 0 {
					if be, ok := unparen(g.cond).(*ast.BinaryExpr); !ok || be.Op != token.LOR {
						why = "it is made only under " + types.ExprString(g.cond)
					}
				}
			}
			if len(callsIn(info, ifs.Cond, true, "interp.mustReturnValue")) > 0 {
				if evalCond(ifs.Cond, func(e ast.Expr) int {
					if c, ok := unparen(e).(*ast.CallExpr); ok && isCallTo(info, c, "interp.mustReturnValue") {
						return triFalse
					}
					return triUnknown
				}) == triFalse {
					why = "it requires mustReturnValue (unnamed results): " + types.ExprString(ifs.Cond)
				}
			}
		}
		r.Check(why == "", "R12.21", "cfg/case:returnStmt/arity:"+strings.Fields(msg)[0]+"-"+strings.Fields(msg)[1], ic.pos(ifs.Pos()), "the arity test counts the values of a call operand and applies to named results",
			"the '"+msg+"' test of the returnStmt case is too narrow: "+why+". func f() (a, b int) { return 1 } is accepted, and return f() with a callee returning more values than the function has results is compiled and fails at run time")
		return true
	})
	if n < 2 {
		r.Errorf("R12.21: %d arity tests found in the returnStmt case (too many, not enough expected)", n)
	}
}

func init() {
	ruleText["R12.22"] = "the case expressions of an expression switch are type-checked against the tag: the post-order case of cfg for switch statements contains, for the statements with a tag, a loop over the clauses in which a type relation between a case expression and the tag (assignableTo, equals, comparison) decides an error - a case whose type cannot be compared with the tag is rejected, not compiled into a comparison that is always false (or panics in reflect)"
}

// c12R22: found through the round-6 report on C12 (2.1: no check at all of case expressions).
// a := 1; switch a { case "x": } was accepted.
func c12R22(ic *IC, r *Report) {
	info := ic.Info
	cfgFn := ic.fn(r, "Interpreter.cfg")
	if cfgFn == nil {
		return
	}
	var cc *ast.CaseClause
	ast.Inspect(cfgFn.Decl.Body, func(q ast.Node) bool {
		c, ok := q.(*ast.CaseClause)
		if !ok {
			return true
		}
		for _, l := range kindLabels(ic, c) {
			if l == "switchStmt" && len(callsIn(info, c, true, "interp.nextClause")) > 0 {
				cc = c
			}
		}
		return true
	})
	if cc == nil {
		r.Errorf("R12.22: the post-order case of cfg for switch statements (the one chaining the clauses) was not found")
		return
	}
	found := ""
	ast.Inspect(cc, func(q ast.Node) bool {
		ifs, ok := q.(*ast.IfStmt)
		if !ok {
			return true
		}
		rel := len(callsIn(info, ifs.Cond, true, "interp.itype.assignableTo", "interp.itype.equals", "interp.itype.comparable", "interp.typecheck.comparison", "interp.typecheck.assignExpr")) > 0
		if !rel || len(callsIn(info, ifs.Body, true, "interp.node.cfgErrorf")) == 0 {
			return true
		}
		// inside a loop (over the clauses or their expressions)
		for _, p := range enclosingPath(cc, ifs) {
			switch p.(type) {
			case *ast.RangeStmt, *ast.ForStmt:
				found = ic.pos(ifs.Pos())
			}
		}
		return true
	})
	r.Check(found != "", "R12.22", "cfg/case:switchStmt/case-expressions-checked-against-the-tag", ic.pos(cc.Pos()), "a type relation between the case expressions and the tag decides an error ("+found+")",
		"the switch case of cfg chains the clauses without ever relating the type of a case expression to the type of the tag: a := 1; switch a { case \"x\": } is accepted (compiled Go: cannot convert \"x\" to type int) and compiled into a comparison that can never hold or that panics in reflect")
}

func init() {
	ruleText["R12.23"] = "a call is unpacked into parameters only when it returns several values: in the function turning the argument list of a call into parameters (unpackParams) the guard of the unpacking compares the number of results of the callee with a constant so that it implies at least two (numOut() > 1) - a call that returns nothing is not an empty argument list"
	ruleText["R12.24"] = "a return statement is checked against the result types of the function it belongs to as the scope records it: in the returnStmt case of cfg the type each operand is compared with derives from the scope's current function (sc.def), not from a variable of the walk assigned when functions are entered and left - such a hand-made stack is right only up to the depth its author thought of"
	ruleText["R12.25"] = "function, slice and map values are not comparable: every case of (*itype).comparable that lists the function, slice, map or variadic category returns false only"
}

// c12R23to25: round-7 seeds on C12.
func c12R23to25(ic *IC, r *Report) {
	info := ic.Info
	// ---- R12.23
	if up := ic.F["typecheck.unpackParams"]; up != nil && up.Decl.Body != nil {
		n := 0
		ast.Inspect(up.Decl.Body, func(q ast.Node) bool {
			ifs, ok := q.(*ast.IfStmt)
			if !ok || len(callsIn(info, ifs.Cond, true, "interp.isCall")) == 0 {
				return true
			}
			// the unpacking: a loop over the results in the body
			hasLoop := false
			ast.Inspect(ifs.Body, func(z ast.Node) bool {
				switch z.(type) {
				case *ast.ForStmt, *ast.RangeStmt:
					hasLoop = true
				}
				return true
			})
			if !hasLoop {
				return true
			}
			n++
			implies := false
			ast.Inspect(ifs.Cond, func(z ast.Node) bool {
				be, ok := z.(*ast.BinaryExpr)
				if !ok || len(callsIn(info, be.X, true, "interp.itype.numOut")) == 0 {
					return true
				}
				if bl, ok := unparen(be.Y).(*ast.BasicLit); ok {
					if (be.Op == token.GTR && bl.Value != "0") || (be.Op == token.GEQ && bl.Value != "0" && bl.Value != "1") {
						implies = true
					}
				}
				return true
			})
			// the comparison must be a conjunct of the condition
			r.Check(implies, "R12.23", fmt.Sprintf("typecheck.unpackParams/unpacking#%d/only-for-several-values", n), ic.pos(ifs.Pos()), "the guard implies that the call returns at least two values",
				"typecheck.unpackParams unpacks a single call argument under "+types.ExprString(ifs.Cond)+", which does not imply that the callee returns several values: a call returning nothing becomes an empty parameter list, so f(g()) with a variadic f (or println(g()), recover(g())) is accepted although g() has no value")
			return true
		})
		if n == 0 {
			r.Errorf("R12.23: the unpacking of a single call argument was not found in typecheck.unpackParams")
		}
	} else {
		r.Errorf("R12.23: typecheck.unpackParams not found")
	}
	// ---- R12.24
	cfgFn := ic.fn(r, "Interpreter.cfg")
	if cfgFn != nil {
		var cc *ast.CaseClause
		ast.Inspect(cfgFn.Decl.Body, func(q ast.Node) bool {
			c, ok := q.(*ast.CaseClause)
			if !ok {
				return true
			}
			for _, l := range kindLabels(ic, c) {
				if l == "returnStmt" && len(callsIn(info, c, true, "interp.mustReturnValue")) > 0 {
					cc = c
				}
			}
			return true
		})
		if cc == nil {
			r.Errorf("R12.24: the returnStmt case of cfg was not found")
		} else {
			defFld := ic.field("scope", "def")
			var fromDef func(e ast.Expr, depth int) bool
			fromDef = func(e ast.Expr, depth int) bool {
				found := false
				ast.Inspect(e, func(z ast.Node) bool {
					switch y := z.(type) {
					case *ast.SelectorExpr:
						if selField(info, y) == defFld {
							found = true
						}
					case *ast.Ident:
						if v, ok := info.Uses[y].(*types.Var); ok && !v.IsField() && depth < 3 {
							// definitions inside the case only: a variable assigned elsewhere is walk state
							ast.Inspect(cc, func(d ast.Node) bool {
								if as, ok := d.(*ast.AssignStmt); ok {
									for i, l := range as.Lhs {
										if id := identOf(l); id != nil && info.ObjectOf(id) == types.Object(v) {
											if len(as.Rhs) == len(as.Lhs) {
												if fromDef(as.Rhs[i], depth+1) {
													found = true
												}
											} else if len(as.Rhs) == 1 && fromDef(as.Rhs[0], depth+1) {
												found = true
											}
										}
									}
								}
								return true
							})
						}
					}
					return true
				})
				return found
			}
			n := 0
			for _, c := range callsIn(info, cc, true, "interp.itype.assignableTo") {
				if len(c.Args) != 1 {
					continue
				}
				n++
				r.Check(fromDef(c.Args[0], 0), "R12.24", fmt.Sprintf("cfg/case:returnStmt/operand-check#%d/result-types-of-the-current-function", n), ic.pos(c.Pos()), "the result type derives from the scope's current function",
					"the returnStmt case of cfg compares an operand with "+types.ExprString(c.Args[0])+", which does not derive from the scope's current function (sc.def) inside the case: it is state of the walk, assigned when functions are entered and left, and goes stale for a nesting its bookkeeping does not foresee - a return of a literal nested two levels deep is checked against the results of the enclosing declaration")
			}
			if n == 0 {
				r.Errorf("R12.24: no assignability test of the operands found in the returnStmt case of cfg")
			}
		}
	}
	// ---- R12.25
	cmp := ic.F["itype.comparable"]
	if cmp == nil || cmp.Decl.Body == nil {
		r.Errorf("R12.25: (*itype).comparable not found")
		return
	}
	nCase, bad := 0, ""
	ast.Inspect(cmp.Decl.Body, func(q ast.Node) bool {
		c, ok := q.(*ast.CaseClause)
		if !ok {
			return true
		}
		lists := ""
		for _, e := range c.List {
			if id := identOf(e); id != nil {
				switch id.Name {
				case "funcT", "sliceT", "mapT", "variadicT":
					lists = id.Name
				}
			}
		}
		if lists == "" {
			return true
		}
		nCase++
		ast.Inspect(c, func(z ast.Node) bool {
			if rs, ok := z.(*ast.ReturnStmt); ok && len(rs.Results) == 1 {
				if id := identOf(rs.Results[0]); id == nil || id.Name != "false" {
					bad = "the case listing " + lists + " returns " + types.ExprString(rs.Results[0]) + " at " + ic.pos(rs.Pos())
				}
			}
			return true
		})
		return true
	})
	r.Check(bad == "", "R12.25", "itype.comparable/functions-slices-maps-never-comparable", ic.pos(cmp.Decl.Pos()), fmt.Sprintf("%d cases list such categories, all return false (the others are left to reflect)", nCase),
		"(*itype).comparable answers that such values can be compared: "+bad+". f == g with two function values (or structs and arrays containing them) is then accepted by the type checker, where compiled Go rejects it (func can only be compared to nil)")
}
