package main

import (
	"fmt"
	"go/ast"
	"go/token"
	"go/types"
	"sort"
	"strings"

	"golang.org/x/tools/go/cfg"
)

// R12.6: the operator tables of the type checker agree with the operand classes of the Go
// specification (Arithmetic operators, Logical operators): + on integers, floats, complex
// values and strings; - * / on integers, floats and complex values; % & | ^ &^ on integers;
// && || ! on booleans; unary + - on numbers, ^ on integers; ++ -- on numbers. The accepted
// kinds of a table entry are read from the bodies of the kind predicates it is built from
// (disjunctions only); the predicates themselves must list every kind of their class.

var specOperandClasses = map[string][]string{
	"aAdd": {"int", "uint", "float", "complex", "string"},
	"aSub": {"int", "uint", "float", "complex"}, "aMul": {"int", "uint", "float", "complex"}, "aQuo": {"int", "uint", "float", "complex"},
	"aRem": {"int", "uint"}, "aAnd": {"int", "uint"}, "aOr": {"int", "uint"}, "aXor": {"int", "uint"}, "aAndNot": {"int", "uint"},
	"aLand": {"bool"}, "aLor": {"bool"},
	"aInc": {"int", "uint", "float", "complex"}, "aDec": {"int", "uint", "float", "complex"},
	"aPos": {"int", "uint", "float", "complex"}, "aNeg": {"int", "uint", "float", "complex"},
	"aBitNot": {"int", "uint"}, "aNot": {"bool"},
}

var specTables = map[string][]string{
	"binaryOpPredicates": {"aAdd", "aSub", "aMul", "aQuo", "aRem", "aAnd", "aOr", "aXor", "aAndNot", "aLand", "aLor"},
	"unaryOpPredicates":  {"aInc", "aDec", "aPos", "aNeg", "aBitNot", "aNot"},
}

func c12R6(ic *IC, r *Report) {
	info := ic.Info
	// kind predicates: func(reflect.Type) bool declared in the package
	isKindPred := func(f *types.Func) bool {
		sig, ok := f.Type().(*types.Signature)
		return ok && sig.Recv() == nil && sig.Params().Len() == 1 && sig.Results().Len() == 1 &&
			types.TypeString(sig.Params().At(0).Type(), nil) == "reflect.Type" && types.Identical(sig.Results().At(0).Type(), types.Typ[types.Bool])
	}
	memo := map[*types.Func]map[string]bool{}
	var undecided []string
	var kindsOfExpr func(e ast.Expr, depth int) map[string]bool
	var kindsOfFunc func(f *types.Func, depth int) map[string]bool
	kindsOfFunc = func(f *types.Func, depth int) map[string]bool {
		if m, ok := memo[f]; ok {
			return m
		}
		out := map[string]bool{}
		memo[f] = out
		fi := ic.G.Funcs[f]
		if fi == nil || fi.Decl.Body == nil || depth > 4 {
			return out
		}
		ast.Inspect(fi.Decl.Body, func(n ast.Node) bool {
			switch x := n.(type) {
			case *ast.SelectorExpr:
				if c, ok := info.Uses[x.Sel].(*types.Const); ok && c.Pkg() != nil && c.Pkg().Path() == "reflect" && kindClass[c.Name()] != "" {
					out[c.Name()] = true
				}
			case *ast.CallExpr:
				if g, ok := calleeOf(info, x).(*types.Func); ok && g.Pkg() == ic.Pk.Types && isKindPred(g) && g != f {
					for k := range kindsOfFunc(g, depth+1) {
						out[k] = true
					}
				}
			case *ast.UnaryExpr:
				if x.Op == token.NOT {
					// t != nil guards are written with !=, a negated predicate would invert the set
					if _, isCall := unparen(x.X).(*ast.CallExpr); isCall {
						undecided = append(undecided, f.Name()+" negates a predicate")
					}
				}
			}
			return true
		})
		return out
	}
	kindsOfExpr = func(e ast.Expr, depth int) map[string]bool {
		out := map[string]bool{}
		switch x := unparen(e).(type) {
		case *ast.Ident:
			if f, ok := info.Uses[x].(*types.Func); ok && isKindPred(f) {
				return kindsOfFunc(f, depth)
			}
		case *ast.FuncLit:
			ast.Inspect(x.Body, func(n ast.Node) bool {
				switch y := n.(type) {
				case *ast.CallExpr:
					if g, ok := calleeOf(info, y).(*types.Func); ok && g.Pkg() == ic.Pk.Types && isKindPred(g) {
						for k := range kindsOfFunc(g, depth+1) {
							out[k] = true
						}
					}
				case *ast.BinaryExpr:
					if y.Op == token.LAND {
						undecided = append(undecided, "a table entry combines predicates with &&")
					}
				case *ast.UnaryExpr:
					if y.Op == token.NOT {
						undecided = append(undecided, "a table entry negates a predicate")
					}
				}
				return true
			})
		}
		return out
	}
	classKinds := func(classes []string) map[string]bool {
		out := map[string]bool{}
		for k, c := range kindClass {
			for _, w := range classes {
				if c == w {
					out[k] = true
				}
			}
		}
		return out
	}
	diff := func(have, want map[string]bool) (missing, extra []string) {
		for k := range want {
			if !have[k] {
				missing = append(missing, k)
			}
		}
		for k := range have {
			if !want[k] {
				extra = append(extra, k)
			}
		}
		sort.Strings(missing)
		sort.Strings(extra)
		return
	}
	// (a) the class predicates list exactly the kinds of their class
	for _, pc := range []struct {
		name    string
		classes []string
	}{{"isInt", []string{"int", "uint"}}, {"isUint", []string{"uint"}}, {"isFloat", []string{"float"}}, {"isComplex", []string{"complex"}}, {"isBoolean", []string{"bool"}}, {"isString", []string{"string"}}, {"isNumber", []string{"int", "uint", "float", "complex"}}} {
		fi := ic.F[pc.name]
		if fi == nil || fi.Obj == nil {
			r.Errorf("anchor not resolved: kind predicate %s", pc.name)
			continue
		}
		missing, extra := diff(kindsOfFunc(fi.Obj, 0), classKinds(pc.classes))
		r.Check(len(missing) == 0 && len(extra) == 0, "R12.6", "predicate/"+pc.name, ic.pos(fi.Decl.Pos()), "accepts exactly the kinds of its class",
			fmt.Sprintf("the kind predicate %s lacks %v and wrongly accepts %v: operators are accepted or rejected on the wrong operand types (a missing kind makes valid programs fail to compile, an extra kind lets an invalid operation through to run time)", pc.name, missing, extra))
	}
	// (a') ordered operands: integers, floats and strings (not complex values, not booleans)
	if fi := ic.F["itype.ordered"]; fi != nil && fi.Obj != nil {
		missing, extra := diff(kindsOfFunc(fi.Obj, 0), classKinds([]string{"int", "uint", "float", "string"}))
		r.Check(len(missing) == 0 && len(extra) == 0, "R12.6", "predicate/itype.ordered", ic.pos(fi.Decl.Pos()), "ordered types are the integer, float and string kinds",
			fmt.Sprintf("(*itype).ordered lacks %v and wrongly accepts %v: < <= > >= are accepted on operands the Go specification does not order (complex values, booleans) or rejected on ordered ones", missing, extra))
		// and the ordering operators consult it for both operands
		if cmp := ic.F["typecheck.comparison"]; cmp != nil && cmp.Decl.Body != nil {
			okBoth := false
			ast.Inspect(cmp.Decl.Body, func(n ast.Node) bool {
				cc, ok := n.(*ast.CaseClause)
				if !ok {
					return true
				}
				isOrd := false
				for _, e := range cc.List {
					if id, ok := unparen(e).(*ast.Ident); ok && (id.Name == "aLower" || id.Name == "aGreater") {
						isOrd = true
					}
				}
				if isOrd {
					calls := 0
					for _, st := range cc.Body {
						calls += len(callsIn(info, st, false, "interp.itype.ordered"))
					}
					and := false
					for _, st := range cc.Body {
						ast.Inspect(st, func(m ast.Node) bool {
							if be, ok := m.(*ast.BinaryExpr); ok && be.Op == token.LAND {
								and = true
							}
							return true
						})
					}
					okBoth = calls >= 2 && and
				}
				return true
			})
			r.Check(okBoth, "R12.6", "comparison/ordering-operators-need-ordered-operands", ic.pos(cmp.Decl.Pos()), "the ordering operators require both operands to be ordered",
				"the case of < <= > >= in typecheck.comparison does not require ordered() of both operands: an ordering of complex values or booleans is compiled")
		} else {
			r.Errorf("anchor not resolved: typecheck.comparison")
		}
	} else {
		r.Errorf("anchor not resolved: (*itype).ordered")
	}
	// (b) the operator tables
	nTables := 0
	for _, f := range ic.Pk.Syntax {
		for _, d := range f.Decls {
			gd, ok := d.(*ast.GenDecl)
			if !ok || gd.Tok != token.VAR {
				continue
			}
			for _, sp := range gd.Specs {
				vs := sp.(*ast.ValueSpec)
				for i, nm := range vs.Names {
					want, ok := specTables[nm.Name]
					if !ok || i >= len(vs.Values) {
						continue
					}
					cl, ok := vs.Values[i].(*ast.CompositeLit)
					if !ok {
						continue
					}
					nTables++
					have := map[string]ast.Expr{}
					for _, e := range cl.Elts {
						if kv, ok := e.(*ast.KeyValueExpr); ok {
							if id, ok := unparen(kv.Key).(*ast.Ident); ok {
								have[id.Name] = kv.Value
							}
						}
					}
					for _, a := range want {
						v, ok := have[a]
						if !ok {
							r.Fail("R12.6", nm.Name+"/"+a, ic.pos(cl.Pos()), "the table "+nm.Name+" has no entry for "+a+": the operator is reported as unknown for every operand type")
							continue
						}
						missing, extra := diff(kindsOfExpr(v, 0), classKinds(specOperandClasses[a]))
						r.Check(len(missing) == 0 && len(extra) == 0, "R12.6", nm.Name+"/"+a, ic.pos(v.Pos()), "operand kinds = "+strings.Join(specOperandClasses[a], "+"),
							fmt.Sprintf("the entry %s of %s accepts operand kinds that differ from the Go specification (%s): lacks %v, wrongly accepts %v; an operation such as 1.5 %% 2 or \"a\" - \"b\" is then compiled and fails (or misbehaves) at run time", a, nm.Name, strings.Join(specOperandClasses[a], "+"), missing, extra))
					}
					for a := range have {
						if _, ok := specOperandClasses[a]; !ok {
							r.Fail("R12.6", nm.Name+"/"+a, ic.pos(cl.Pos()), "the table "+nm.Name+" has an entry for "+a+", which is not an operator of that class")
						}
					}
				}
			}
		}
	}
	for _, u := range dedupStr(undecided) {
		r.Fail("R12.6", "undecided", "", "undecided: "+u+" (only disjunctions of kind predicates are understood)")
	}
	if nTables < 2 {
		r.Errorf("R12.6: %d operator predicate tables found (binaryOpPredicates and unaryOpPredicates expected)", nTables)
	}
}

// R12.7: two distinct named types are assignable to one another only if they have the same
// underlying type AND one is defined from the other (yaegi's approximation of "identical
// underlying types and at least one is not a named type"). Decided on the flow graph of
// (*itype).assignableTo pruned under each assumption: (A1) both operands named, not equal,
// underlying types differ; (A2) both named, not equal, neither defined from the other. Under
// either, no `return true` (and no delegation to reflect's AssignableTo, which knows nothing
// of named interpreter types) may be reachable.
func c12R7(ic *IC, r *Report) {
	fi := ic.fn(r, "itype.assignableTo")
	if fi == nil {
		return
	}
	info := ic.Info
	isLinkedCmp := func(be *ast.BinaryExpr) bool {
		se, ok := unparen(be.X).(*ast.SelectorExpr)
		if !ok || se.Sel.Name != "cat" {
			return false
		}
		id, ok := unparen(be.Y).(*ast.Ident)
		return ok && id.Name == "linkedT"
	}
	isUnderlyingID := func(e ast.Expr) bool {
		c, ok := unparen(e).(*ast.CallExpr)
		if !ok {
			return false
		}
		se, ok := unparen(c.Fun).(*ast.SelectorExpr)
		if !ok || se.Sel.Name != "id" {
			return false
		}
		inner, ok := unparen(se.X).(*ast.CallExpr)
		if !ok {
			return false
		}
		se2, ok := unparen(inner.Fun).(*ast.SelectorExpr)
		return ok && se2.Sel.Name == "underlying"
	}
	mkAtom := func(underDiffer, defined int) func(ast.Expr) int {
		return func(e ast.Expr) int {
			switch x := e.(type) {
			case *ast.BinaryExpr:
				if (x.Op == token.EQL || x.Op == token.NEQ) && isLinkedCmp(x) {
					if x.Op == token.EQL {
						return triTrue
					}
					return triFalse
				}
				if (x.Op == token.EQL || x.Op == token.NEQ) && isUnderlyingID(x.X) && isUnderlyingID(x.Y) {
					if underDiffer == triUnknown {
						return triUnknown
					}
					if x.Op == token.NEQ {
						return underDiffer
					}
					return 1 - underDiffer
				}
			case *ast.CallExpr:
				if isCallTo(info, x, "interp.typeDefined") {
					return defined
				}
				if isCallTo(info, x, "interp.itype.equals") {
					return triFalse
				}
				if isCallTo(info, x, "interp.itype.isNil", "interp.itype.hasNil") {
					return triFalse // named non-nil operands
				}
			}
			return triUnknown
		}
	}
	g := cfg.New(fi.Decl.Body, func(c *ast.CallExpr) bool { return !noReturn(info, c) })
	run := func(label string, atom func(ast.Expr) int) []string {
		var bad []string
		seen := map[*cfg.Block]bool{}
		var walk func(b *cfg.Block)
		walk = func(b *cfg.Block) {
			if seen[b] {
				return
			}
			seen[b] = true
			for _, n := range b.Nodes {
				if rs, ok := n.(*ast.ReturnStmt); ok && len(rs.Results) == 1 {
					if types.ExprString(rs.Results[0]) != "false" {
						bad = append(bad, "return "+types.ExprString(rs.Results[0])+" at "+ic.pos(rs.Pos()))
					}
					return
				}
			}
			if len(b.Succs) == 2 && len(b.Nodes) > 0 {
				if cond, ok := b.Nodes[len(b.Nodes)-1].(ast.Expr); ok {
					switch evalCond(cond, atom) {
					case triTrue:
						walk(b.Succs[0])
						return
					case triFalse:
						walk(b.Succs[1])
						return
					}
				}
			}
			for _, s := range b.Succs {
				walk(s)
			}
		}
		if len(g.Blocks) > 0 {
			walk(g.Blocks[0])
		}
		return bad
	}
	for _, a := range []struct {
		key, what string
		atom      func(ast.Expr) int
	}{
		{"distinct-underlying", "two distinct named types whose underlying types differ", mkAtom(triTrue, triUnknown)},
		{"not-defined-from-each-other", "two distinct named types neither of which is defined from the other (type A int; type B int)", mkAtom(triUnknown, triFalse)},
	} {
		bad := run(a.key, a.atom)
		r.Check(len(bad) == 0, "R12.7", "assignableTo/named-types/"+a.key, ic.pos(fi.Decl.Pos()), "never assignable: every path ends in return false",
			"for "+a.what+", (*itype).assignableTo can reach "+strings.Join(dedupStr(bad), ", ")+": the two types are used interchangeably (var b B = a compiles and runs) although the Go specification rejects the program")
	}
}

// evalBoolFunc evaluates a small boolean helper three-valued: a sequence of
// `if C { return E }` statements and local definitions followed by `return E`.
func evalBoolFunc(body *ast.BlockStmt, atom func(ast.Expr) int) int {
	for _, st := range body.List {
		switch x := st.(type) {
		case *ast.IfStmt:
			if x.Init != nil || x.Else != nil || len(x.Body.List) != 1 {
				return triUnknown
			}
			rs, ok := x.Body.List[0].(*ast.ReturnStmt)
			if !ok || len(rs.Results) != 1 {
				return triUnknown
			}
			switch evalCond(x.Cond, atom) {
			case triTrue:
				return evalCond(rs.Results[0], atom)
			case triFalse:
				continue
			default:
				return triUnknown
			}
		case *ast.AssignStmt, *ast.DeclStmt:
			continue
		case *ast.ReturnStmt:
			if len(x.Results) != 1 {
				return triUnknown
			}
			return evalCond(x.Results[0], atom)
		default:
			return triUnknown
		}
	}
	return triUnknown
}

// R12.8: len and cap. The Go specification accepts for len: string, array, pointer to array,
// slice, map, channel; for cap: array, pointer to array, slice, channel. (a) the kind cases of
// the builtin check list exactly those kinds, string and map under a test that the builtin is
// len; (b) the helper that looks through a pointer argument does so only for pointers to
// arrays: under the assumption "the argument is a pointer to a slice" every reachable return
// of arrayDeref returns its argument unchanged.
func c12R8(ic *IC, r *Report) {
	info := ic.Info
	bfi := ic.fn(r, "typecheck.builtin")
	dfi := ic.fn(r, "arrayDeref")
	if bfi == nil || dfi == nil {
		return
	}
	// (a)
	var lenCase *ast.CaseClause
	ast.Inspect(bfi.Decl.Body, func(n ast.Node) bool {
		if cc, ok := n.(*ast.CaseClause); ok {
			names := map[string]bool{}
			for _, e := range cc.List {
				if id, ok := unparen(e).(*ast.Ident); ok {
					names[id.Name] = true
				}
			}
			if names["bltnLen"] && names["bltnCap"] {
				lenCase = cc
			}
		}
		return true
	})
	if lenCase == nil {
		r.Errorf("R12.8: the case of len/cap was not found in typecheck.builtin")
	} else {
		both, lenOnly := map[string]bool{}, map[string]bool{}
		ast.Inspect(lenCase, func(n ast.Node) bool {
			cc, ok := n.(*ast.CaseClause)
			if !ok || cc == lenCase {
				return true
			}
			var kinds []string
			for _, e := range cc.List {
				if se, ok := unparen(e).(*ast.SelectorExpr); ok {
					if c, ok := info.Uses[se.Sel].(*types.Const); ok && c.Pkg() != nil && c.Pkg().Path() == "reflect" {
						kinds = append(kinds, c.Name())
					}
				}
			}
			if len(kinds) == 0 {
				return true
			}
			// ok = true  /  ok = name == bltnLen
			onlyLen := false
			uncond := false
			for _, st := range cc.Body {
				if as, ok := st.(*ast.AssignStmt); ok && len(as.Rhs) == 1 {
					switch v := unparen(as.Rhs[0]).(type) {
					case *ast.Ident:
						if v.Name == "true" {
							uncond = true
						}
					case *ast.BinaryExpr:
						if v.Op == token.EQL && (types.ExprString(v.Y) == "bltnLen" || types.ExprString(v.X) == "bltnLen") {
							onlyLen = true
						}
					}
				}
			}
			for _, k := range kinds {
				if uncond {
					both[k] = true
				} else if onlyLen {
					lenOnly[k] = true
				}
			}
			return true
		})
		wantBoth := map[string]bool{"Array": true, "Slice": true, "Chan": true}
		wantLen := map[string]bool{"String": true, "Map": true}
		same := func(a, b map[string]bool) bool {
			if len(a) != len(b) {
				return false
			}
			for k := range a {
				if !b[k] {
					return false
				}
			}
			return true
		}
		r.Check(same(both, wantBoth) && same(lenOnly, wantLen), "R12.8", "builtin/len-cap/argument-kinds", ic.pos(lenCase.Pos()), "len: string, array, slice, map, chan; cap: array, slice, chan",
			fmt.Sprintf("the check of len/cap accepts for both builtins the kinds %s and for len only %s; the Go specification gives Array Chan Slice and Map String: an invalid call such as cap(m) of a map is compiled and fails at run time, or a valid one is rejected", joinSorted(both), joinSorted(lenOnly)))
	}
	// (b)
	var param types.Object
	if len(dfi.Decl.Type.Params.List) > 0 && len(dfi.Decl.Type.Params.List[0].Names) > 0 {
		param = info.ObjectOf(dfi.Decl.Type.Params.List[0].Names[0])
	}
	depth := 0
	var atom func(e ast.Expr) int
	atom = func(e ast.Expr) int {
		switch x := e.(type) {
		case *ast.BinaryExpr:
			if x.Op != token.EQL && x.Op != token.NEQ {
				return triUnknown
			}
			res := triUnknown
			switch types.ExprString(x.Y) {
			case "reflect.Array", "arrayT":
				res = triFalse
			case "reflect.Slice", "sliceT":
				// the pointee is a slice; the pointer itself is not
				if strings.Contains(types.ExprString(x.X), "Elem") || strings.Contains(types.ExprString(x.X), ".val") || strings.Contains(types.ExprString(x.X), "elem") {
					res = triTrue
				} else if id, ok := unparen(x.X).(*ast.Ident); ok && id.Name == "k" {
					res = triTrue
				}
			case "reflect.Ptr", "reflect.Pointer", "ptrT":
				if !strings.Contains(types.ExprString(x.X), "Elem") && !strings.Contains(types.ExprString(x.X), ".val.") {
					// either representation of the pointer may be the one at hand
					res = triUnknown
				}
			case "nilT":
				res = triFalse
			}
			if res != triUnknown && x.Op == token.NEQ {
				res = 1 - res
			}
			return res
		case *ast.CallExpr:
			f, ok := calleeOf(info, x).(*types.Func)
			if !ok || f.Pkg() != ic.Pk.Types || depth > 1 {
				return triUnknown
			}
			if d := ic.G.Funcs[f]; d != nil && d.Decl.Body != nil && types.Identical(f.Type().(*types.Signature).Results().At(0).Type(), types.Typ[types.Bool]) {
				// the argument tells whether the helper looks at the pointer or at the pointee
				pointee := len(x.Args) == 1 && (strings.Contains(types.ExprString(x.Args[0]), "elem") || strings.Contains(types.ExprString(x.Args[0]), "Elem") || strings.Contains(types.ExprString(x.Args[0]), ".val"))
				inner := func(e2 ast.Expr) int {
					be, ok := e2.(*ast.BinaryExpr)
					if !ok || (be.Op != token.EQL && be.Op != token.NEQ) {
						return triUnknown
					}
					res := triUnknown
					switch types.ExprString(be.Y) {
					case "reflect.Array", "arrayT":
						res = triFalse
					case "reflect.Slice", "sliceT":
						if pointee {
							res = triTrue
						} else {
							res = triFalse
						}
					case "reflect.Ptr", "ptrT":
						if pointee {
							res = triFalse
						} else {
							res = triTrue
						}
					case "nilT":
						res = triFalse
					}
					if res != triUnknown && be.Op == token.NEQ {
						res = 1 - res
					}
					return res
				}
				depth++
				v := evalBoolFunc(d.Decl.Body, inner)
				depth--
				return v
			}
		}
		return triUnknown
	}
	g := cfg.New(dfi.Decl.Body, func(c *ast.CallExpr) bool { return !noReturn(info, c) })
	var bad []string
	seen := map[*cfg.Block]bool{}
	var walk func(b *cfg.Block)
	walk = func(b *cfg.Block) {
		if seen[b] {
			return
		}
		seen[b] = true
		for _, n := range b.Nodes {
			if rs, ok := n.(*ast.ReturnStmt); ok && len(rs.Results) == 1 {
				if id, ok := unparen(rs.Results[0]).(*ast.Ident); !ok || info.ObjectOf(id) != param {
					bad = append(bad, "return "+types.ExprString(rs.Results[0])+" at "+ic.pos(rs.Pos()))
				}
				return
			}
		}
		if len(b.Succs) == 2 && len(b.Nodes) > 0 {
			if cond, ok := b.Nodes[len(b.Nodes)-1].(ast.Expr); ok {
				switch evalCond(cond, atom) {
				case triTrue:
					walk(b.Succs[0])
					return
				case triFalse:
					walk(b.Succs[1])
					return
				}
			}
		}
		for _, s := range b.Succs {
			walk(s)
		}
	}
	if len(g.Blocks) > 0 {
		walk(g.Blocks[0])
	}
	r.Check(len(bad) == 0, "R12.8", "arrayDeref/only-pointers-to-arrays", ic.pos(dfi.Decl.Pos()), "a pointer to a slice is not looked through",
		"for a pointer to a slice arrayDeref can reach "+strings.Join(dedupStr(bad), ", ")+": len(p) and cap(p) with p of type *[]T are accepted by the type checker (only pointers to arrays may be looked through) and fail or misbehave at run time")
}

// R12.10: an impossible type assertion is rejected. In the loop of typeAssertionExpr over the
// methods of the asserted-from interface, for an interpreted (non compiled) type that lacks
// the method, every path through the iteration ends in a return of an error: decided on the
// flow graph of the loop body pruned under `tm == nil` (the type has no such method),
// `im != nil` and `isBin(typ) == false`. Reaching a continue, or the end of the body, means
// the missing method is ignored and the assertion is compiled.
func c12R10(ic *IC, r *Report) {
	fi := ic.fn(r, "typecheck.typeAssertionExpr")
	if fi == nil {
		return
	}
	info := ic.Info
	// the loop ranging over the method set, and the two lookups
	var loop *ast.RangeStmt
	ast.Inspect(fi.Decl.Body, func(n ast.Node) bool {
		if rs, ok := n.(*ast.RangeStmt); ok && loop == nil {
			if len(callsIn(info, rs.Body, false, "interp.lookupFieldOrMethod")) >= 2 {
				loop = rs
			}
		}
		return true
	})
	if loop == nil {
		r.Errorf("R12.10: the loop over the interface's methods (two lookupFieldOrMethod calls) was not found in typeAssertionExpr")
		return
	}
	// im := lookup(n.typ, name) (the interface side, first), tm := lookup(typ, name)
	var lookups []types.Object
	for _, st := range loop.Body.List {
		if as, ok := st.(*ast.AssignStmt); ok && len(as.Lhs) == 1 && len(as.Rhs) == 1 {
			if c, ok := unparen(as.Rhs[0]).(*ast.CallExpr); ok && isCallTo(info, c, "interp.lookupFieldOrMethod") {
				if id, ok := as.Lhs[0].(*ast.Ident); ok {
					lookups = append(lookups, info.ObjectOf(id))
				}
			}
		}
	}
	if len(lookups) != 2 {
		r.Errorf("R12.10: %d method lookups at the top of the loop body (2 expected)", len(lookups))
		return
	}
	// which one is the asserted type's? the one whose first argument is the function's type parameter
	var typParam types.Object
	if ps := fi.Decl.Type.Params.List; len(ps) >= 2 && len(ps[1].Names) > 0 {
		typParam = info.ObjectOf(ps[1].Names[0])
	}
	var tm, im types.Object
	for _, st := range loop.Body.List {
		if as, ok := st.(*ast.AssignStmt); ok && len(as.Rhs) == 1 {
			if c, ok := unparen(as.Rhs[0]).(*ast.CallExpr); ok && isCallTo(info, c, "interp.lookupFieldOrMethod") && len(c.Args) == 2 {
				id, _ := as.Lhs[0].(*ast.Ident)
				if aid, ok := unparen(c.Args[0]).(*ast.Ident); ok && info.ObjectOf(aid) == typParam {
					tm = info.ObjectOf(id)
				} else {
					im = info.ObjectOf(id)
				}
			}
		}
	}
	if tm == nil || im == nil {
		r.Errorf("R12.10: the lookups on the asserted type and on the interface were not told apart")
		return
	}
	atom := func(e ast.Expr) int {
		switch x := e.(type) {
		case *ast.BinaryExpr:
			if x.Op == token.EQL || x.Op == token.NEQ {
				if id, ok := unparen(x.X).(*ast.Ident); ok && types.ExprString(x.Y) == "nil" {
					res := triUnknown
					switch info.ObjectOf(id) {
					case tm:
						res = triTrue
					case im:
						res = triFalse
					}
					if res != triUnknown && x.Op == token.NEQ {
						res = 1 - res
					}
					return res
				}
			}
		case *ast.CallExpr:
			if isCallTo(info, x, "interp.isBin") {
				return triFalse
			}
		}
		return triUnknown
	}
	g := cfg.New(loop.Body, func(c *ast.CallExpr) bool { return !noReturn(info, c) })
	var bad []string
	seen := map[*cfg.Block]bool{}
	var walk func(b *cfg.Block)
	walk = func(b *cfg.Block) {
		if seen[b] {
			return
		}
		seen[b] = true
		for _, n := range b.Nodes {
			if _, ok := n.(*ast.ReturnStmt); ok {
				return // rejected (every return in the loop returns an error)
			}
			if bs, ok := n.(*ast.BranchStmt); ok && bs.Tok == token.CONTINUE {
				bad = append(bad, "continue at "+ic.pos(bs.Pos()))
				return
			}
		}
		if len(b.Succs) == 0 {
			bad = append(bad, "the end of the loop body")
			return
		}
		if len(b.Succs) == 2 && len(b.Nodes) > 0 {
			if cond, ok := b.Nodes[len(b.Nodes)-1].(ast.Expr); ok {
				switch evalCond(cond, atom) {
				case triTrue:
					walk(b.Succs[0])
					return
				case triFalse:
					walk(b.Succs[1])
					return
				}
			}
		}
		for _, s := range b.Succs {
			walk(s)
		}
	}
	if len(g.Blocks) > 0 {
		walk(g.Blocks[0])
	}
	// every return inside the loop carries an error
	nilRet := false
	ast.Inspect(loop.Body, func(n ast.Node) bool {
		if rs, ok := n.(*ast.ReturnStmt); ok && len(rs.Results) == 1 && types.ExprString(rs.Results[0]) == "nil" {
			nilRet = true
		}
		return true
	})
	if nilRet {
		bad = append(bad, "a return nil inside the loop")
	}
	r.Check(len(bad) == 0, "R12.10", "typeAssertionExpr/missing-method-is-an-error", ic.pos(loop.Pos()), "an interpreted type lacking a method of the interface makes the assertion impossible on every path",
		"for an interpreted type that lacks a method of the asserted-from interface, the check can reach "+strings.Join(dedupStr(bad), ", ")+" without reporting the impossible type assertion: x.(T) with T missing the method compiles and the program runs")
}

// R12.11: constant index bounds. The helper checking a constant index compares it with a bound
// `max`; the callers that check an element access (index expression, array literal key) and
// the one that checks a slice bound must pass bounds consistent with the comparison used:
// with `index >= max` rejected, elements pass the length and slice bounds the length + 1;
// with `index > max`, elements pass length - 1 and slice bounds the length. A change of the
// helper that is not followed by every caller accepts a[len] (or rejects a[len-1]).
func c12R11(ic *IC, r *Report) {
	fi := ic.fn(r, "typecheck.index")
	if fi == nil {
		return
	}
	info := ic.Info
	var maxParam types.Object
	if ps := fi.Decl.Type.Params.List; len(ps) >= 2 && len(ps[1].Names) > 0 {
		maxParam = info.ObjectOf(ps[1].Names[0])
	}
	op := token.ILLEGAL
	ast.Inspect(fi.Decl.Body, func(n ast.Node) bool {
		be, ok := n.(*ast.BinaryExpr)
		if !ok || (be.Op != token.GEQ && be.Op != token.GTR && be.Op != token.LSS && be.Op != token.LEQ) {
			return true
		}
		if id, ok := unparen(be.Y).(*ast.Ident); ok && info.ObjectOf(id) == maxParam {
			// the comparison of the index value (not of max itself: `max < 1` has max on the left)
			if len(callsIn(info, be.X, true, "interp.vInt")) > 0 {
				op = be.Op
			}
		}
		return true
	})
	if op != token.GEQ && op != token.GTR {
		r.Errorf("R12.11: the comparison of the constant index with the bound was not found in typecheck.index")
		return
	}
	// offset of the bound passed by each caller, relative to the operand's length
	offsetOf := func(caller *FuncInfo, arg ast.Expr) (int, bool) {
		var eval func(e ast.Expr, depth int) (int, bool)
		eval = func(e ast.Expr, depth int) (int, bool) {
			switch x := unparen(e).(type) {
			case *ast.BinaryExpr:
				if tv, ok := info.Types[x.Y]; ok && tv.Value != nil && tv.Value.ExactString() == "1" {
					if base, ok := eval(x.X, depth); ok {
						if x.Op == token.ADD {
							return base + 1, true
						}
						if x.Op == token.SUB {
							return base - 1, true
						}
					}
				}
			case *ast.Ident:
				if tv, ok := info.Types[x]; ok && tv.Value != nil {
					return 0, false // a constant: no bound (e.g. -1)
				}
				if depth > 2 {
					return 0, true
				}
				// a local re-assigned from <length> + 1 somewhere in the caller: take the largest offset
				best, found := 0, false
				obj := info.ObjectOf(x)
				ast.Inspect(caller.Decl.Body, func(n ast.Node) bool {
					if as, ok := n.(*ast.AssignStmt); ok && len(as.Lhs) == len(as.Rhs) {
						for i, l := range as.Lhs {
							if lid, ok := l.(*ast.Ident); ok && info.ObjectOf(lid) == obj {
								if be, ok := unparen(as.Rhs[i]).(*ast.BinaryExpr); ok && (be.Op == token.ADD || be.Op == token.SUB) {
									if o, ok := eval(be, depth+1); ok && (!found || o > best) {
										best, found = o, true
									}
								}
							}
						}
					}
					return true
				})
				if found {
					return best, true
				}
				return 0, true
			case *ast.UnaryExpr:
				return 0, false
			case *ast.BasicLit:
				return 0, false
			}
			return 0, true
		}
		return eval(arg, 0)
	}
	wantElem, wantSlice := 0, 1
	if op == token.GTR {
		wantElem, wantSlice = -1, 0
	}
	n := 0
	for _, name := range sortedKeys(ic.F) {
		caller := ic.F[name]
		if caller.Decl.Body == nil || caller == fi {
			continue
		}
		for _, c := range callsIn(info, caller.Decl.Body, true, "interp.typecheck.index") {
			if len(c.Args) != 2 {
				continue
			}
			off, bounded := offsetOf(caller, c.Args[1])
			if !bounded {
				continue
			}
			n++
			isSlice := strings.Contains(strings.ToLower(name), "slice")
			want := wantElem
			kind := "an element access"
			if isSlice {
				want = wantSlice
				kind = "a slice bound"
			}
			r.Check(off == want, "R12.11", name+"/constant-index-bound", ic.pos(c.Pos()), fmt.Sprintf("%s passes length%+d to a helper rejecting index %s bound", kind, off, op),
				fmt.Sprintf("%s checks %s by passing length%+d to typecheck.index, which rejects index %s bound: consistent would be length%+d. A constant index equal to the length of an array (a[3] with [3]int) is compiled and panics at run time, or a valid last index is rejected", name, kind, off, op, want))
		}
	}
	if n < 3 {
		r.Errorf("R12.11: only %d bounded callers of typecheck.index found (index expression, array literal, slice expression expected)", n)
	}
}

func init() {
	ruleText["R12.12"] = "= R03.4 / R03.8 shared: the representability function bounds signed kinds with width-1 bits and rounds a floating-point constant with the accessor of the target's own width (an out-of-range constant is a static error of the class C12 lists)"
	ruleText["R12.14"] = "= R06.15 shared: every path from an exported entry point to a compile pass goes through a converting recover"
	ruleText["R12.13"] = "in (*itype).convertibleTo no shortcut accepts a conversion because of the operands' kinds when neither is unsafe.Pointer: evaluated three-valued for (pointer, pointer), (pointer, uintptr) and (uintptr, pointer), no condition guarding a 'return true' is definitely true"
}

// c12R13: conversions between unrelated pointer types, and between pointers and uintptr, need
// unsafe.Pointer. Round-5 seed: isPointerKind(tt.Kind()) && isPointerKind(ot.Kind()).
func c12R13(ic *IC, r *Report) {
	info := ic.Info
	fi := ic.fn(r, "itype.convertibleTo")
	if fi == nil {
		return
	}
	// the reflect types of the receiver and of the operand: locals assigned from X.TypeOf()
	recv := ic.Info.ObjectOf(fi.Decl.Recv.List[0].Names[0])
	var param types.Object
	if len(fi.Decl.Type.Params.List) == 1 && len(fi.Decl.Type.Params.List[0].Names) == 1 {
		param = info.ObjectOf(fi.Decl.Type.Params.List[0].Names[0])
	}
	side := map[types.Object]int{} // local -> 0 (receiver) / 1 (operand)
	ast.Inspect(fi.Decl.Body, func(m ast.Node) bool {
		as, ok := m.(*ast.AssignStmt)
		if !ok || len(as.Lhs) != len(as.Rhs) {
			return true
		}
		for i, rhs := range as.Rhs {
			c, ok := unparen(rhs).(*ast.CallExpr)
			if !ok {
				continue
			}
			se, ok := c.Fun.(*ast.SelectorExpr)
			if !ok || se.Sel.Name != "TypeOf" {
				continue
			}
			if id := identOf(se.X); id != nil {
				if lid := identOf(as.Lhs[i]); lid != nil {
					switch info.ObjectOf(id) {
					case recv:
						side[info.ObjectOf(lid)] = 0
					case param:
						side[info.ObjectOf(lid)] = 1
					}
				}
			}
		}
		return true
	})
	// kindOf(e): which side's Kind() e denotes: X.Kind() with X a side local, or t.TypeOf().Kind()
	kindSide := func(e ast.Expr) int {
		c, ok := unparen(e).(*ast.CallExpr)
		if !ok {
			return -1
		}
		se, ok := c.Fun.(*ast.SelectorExpr)
		if !ok || se.Sel.Name != "Kind" {
			return -1
		}
		if id := identOf(se.X); id != nil {
			if s, ok := side[info.ObjectOf(id)]; ok {
				return s
			}
		}
		if inner, ok := unparen(se.X).(*ast.CallExpr); ok {
			if ise, ok := inner.Fun.(*ast.SelectorExpr); ok && ise.Sel.Name == "TypeOf" {
				if id := identOf(ise.X); id != nil {
					switch info.ObjectOf(id) {
					case recv:
						return 0
					case param:
						return 1
					}
				}
			}
		}
		return -1
	}
	kindName := func(e ast.Expr) string {
		if se, ok := unparen(e).(*ast.SelectorExpr); ok {
			if id := identOf(se.X); id != nil && id.Name == "reflect" {
				return se.Sel.Name
			}
		}
		return ""
	}
	scenarios := [][2]string{{"Ptr", "Ptr"}, {"Ptr", "Uintptr"}, {"Uintptr", "Ptr"}}
	nIf := 0
	for _, sc := range scenarios {
		var atom func(e ast.Expr) int
		atomWith := func(bind map[types.Object]string) func(e ast.Expr) int {
			return func(e ast.Expr) int {
				switch x := e.(type) {
				case *ast.BinaryExpr:
					if x.Op != token.EQL && x.Op != token.NEQ {
						return triUnknown
					}
					for _, pr := range [][2]ast.Expr{{x.X, x.Y}, {x.Y, x.X}} {
						k := kindName(pr[1])
						if k == "" {
							continue
						}
						have := ""
						if s := kindSide(pr[0]); s >= 0 {
							have = sc[s]
						} else if id := identOf(pr[0]); id != nil && bind != nil {
							have = bind[info.ObjectOf(id)]
						}
						if have == "" {
							continue
						}
						res := triFalse
						if have == k {
							res = triTrue
						}
						if x.Op == token.NEQ {
							res = 1 - res
						}
						return res
					}
				case *ast.CallExpr:
					// boolean helper applied to kinds: inline with its parameters bound
					f, ok := calleeOf(info, x).(*types.Func)
					if !ok || f.Pkg() != ic.Pk.Types {
						return triUnknown
					}
					hd := ic.G.Funcs[f]
					if hd == nil || hd.Decl.Body == nil || hd.Decl.Recv != nil {
						return triUnknown
					}
					b := map[types.Object]string{}
					pi := 0
					for _, fl := range hd.Decl.Type.Params.List {
						for _, pn := range fl.Names {
							if pi < len(x.Args) {
								if s := kindSide(x.Args[pi]); s >= 0 {
									b[info.ObjectOf(pn)] = sc[s]
								}
							}
							pi++
						}
					}
					if len(b) == 0 {
						return triUnknown
					}
					inner := func(e ast.Expr) int { return triUnknown }
					_ = inner
					sub := func(bind map[types.Object]string) func(ast.Expr) int { return nil }
					_ = sub
					return evalBoolFunc(hd.Decl.Body, func(e2 ast.Expr) int {
						if be, ok := e2.(*ast.BinaryExpr); ok && (be.Op == token.EQL || be.Op == token.NEQ) {
							for _, pr := range [][2]ast.Expr{{be.X, be.Y}, {be.Y, be.X}} {
								k := kindName(pr[1])
								id := identOf(pr[0])
								if k == "" || id == nil || b[info.ObjectOf(id)] == "" {
									continue
								}
								res := triFalse
								if b[info.ObjectOf(id)] == k {
									res = triTrue
								}
								if be.Op == token.NEQ {
									res = 1 - res
								}
								return res
							}
						}
						return triUnknown
					})
				}
				return triUnknown
			}
		}
		atom = atomWith(nil)
		ast.Inspect(fi.Decl.Body, func(m ast.Node) bool {
			ifs, ok := m.(*ast.IfStmt)
			if !ok {
				return true
			}
			returnsTrue := false
			for _, s := range ifs.Body.List {
				if rs, ok := s.(*ast.ReturnStmt); ok && len(rs.Results) == 1 {
					if id := identOf(rs.Results[0]); id != nil && id.Name == "true" {
						returnsTrue = true
					}
				}
			}
			if !returnsTrue {
				return true
			}
			nIf++
			v := evalCond(ifs.Cond, atom)
			if v == triTrue {
				r.Fail("R12.13", fmt.Sprintf("itype.convertibleTo/accepts:%s->%s", sc[0], sc[1]), ic.pos(ifs.Pos()),
					fmt.Sprintf("(*itype).convertibleTo returns true under %s, which holds for every conversion from a %s type to a %s type: *T(p) for unrelated pointer types, uintptr(p) and (*T)(u) are accepted without unsafe.Pointer and executed", types.ExprString(ifs.Cond), strings.ToLower(sc[0]), strings.ToLower(sc[1])))
			}
			return true
		})
	}
	if nIf == 0 {
		r.Errorf("R12.13: no conditional 'return true' found in (*itype).convertibleTo")
		return
	}
	failed := false
	for _, o := range r.Obls {
		if o.Rule == "R12.13" && !o.OK {
			failed = true
		}
	}
	if !failed {
		r.Pass("R12.13", "itype.convertibleTo/no-kind-shortcut-without-unsafe.Pointer", ic.pos(fi.Decl.Pos()), fmt.Sprintf("%d guarded acceptances evaluated under 3 kind scenarios", nIf/len(scenarios)))
	}
}

func init() {
	ruleText["R12.15"] = "every node kind the AST builder gives to a binary operator (binaryExpr, and the kinds of && and ||) has a post-order case in cfg that calls a method of typecheck before wiring its operands: no operator reaches execution with operands of a type it is not defined on"
}

// c12R15: the && and || cases of cfg wired their operands without any type check (found D78:
// `x := 1; _ = x && x` ran and panicked in reflect).
func c12R15(ic *IC, r *Report) {
	info := ic.Info
	astFi := ic.fn(r, "Interpreter.ast")
	cfgFi := ic.fn(r, "Interpreter.cfg")
	if astFi == nil || cfgFi == nil {
		return
	}
	// kinds assigned in the BinaryExpr case of the AST builder
	kinds := map[types.Object]bool{}
	ast.Inspect(astFi.Decl.Body, func(m ast.Node) bool {
		cc, ok := m.(*ast.CaseClause)
		if !ok || len(cc.List) != 1 {
			return true
		}
		if t := info.TypeOf(cc.List[0]); t == nil || types.TypeString(t, nil) != "*go/ast.BinaryExpr" {
			return true
		}
		ast.Inspect(cc, func(k ast.Node) bool {
			id, ok := k.(*ast.Ident)
			if !ok {
				return true
			}
			if c, ok := info.Uses[id].(*types.Const); ok && isNamed(c.Type(), "nkind") {
				kinds[c] = true
			}
			return true
		})
		return false
	})
	if len(kinds) < 3 {
		r.Errorf("R12.15: only %d node kinds found in the BinaryExpr case of the AST builder (binaryExpr, landExpr, lorExpr expected)", len(kinds))
		return
	}
	var names []string
	byName := map[string]types.Object{}
	for k := range kinds {
		names = append(names, k.Name())
		byName[k.Name()] = k
	}
	sort.Strings(names)
	for _, name := range names {
		kobj := byName[name]
		checked := false
		var at token.Pos = cfgFi.Decl.Pos()
		found := false
		ast.Inspect(cfgFi.Decl.Body, func(m ast.Node) bool {
			cc, ok := m.(*ast.CaseClause)
			if !ok {
				return true
			}
			is := false
			for _, l := range cc.List {
				if id := identOf(l); id != nil && info.ObjectOf(id) == kobj {
					is = true
				}
			}
			if !is {
				return true
			}
			// the post-order case wires successors (tnext / setFNext / wireChild)
			post := len(callsIn(info, cc, true, "interp.setFNext", "interp.wireChild")) > 0
			if !post {
				return true
			}
			found = true
			at = cc.Pos()
			for _, c := range allCalls(cc) {
				if f, ok := calleeOf(info, c).(*types.Func); ok {
					if sg := f.Type().(*types.Signature); sg.Recv() != nil && isNamed(sg.Recv().Type(), "typecheck") {
						checked = true
					}
				}
			}
			return true
		})
		if !found {
			r.Errorf("R12.15: no post-order case of cfg for node kind %s", name)
			continue
		}
		r.Check(checked, "R12.15", "cfg/case:"+name+"/operands-type-checked", ic.pos(at), "the operator's operands are type-checked before being wired",
			"the "+name+" case of cfg wires the operands of its operator without calling any method of typecheck: an operand of a type the operator is not defined on (x && x with x an int) is compiled, the program starts running, and fails in reflect when the expression is reached")
	}
}

func init() {
	ruleText["R12.16"] = "the send statement case of cfg consults the direction of the channel (a predicate reading reflect.RecvDir or the receive-only category) and type-checks the sent value (a method of typecheck): a send on a receive-only channel or of a value of another type is a static error"
}

// c12R16: found D79 ("wrong channel direction" is a class the property names).
func c12R16(ic *IC, r *Report) {
	info := ic.Info
	cfgFi := ic.fn(r, "Interpreter.cfg")
	if cfgFi == nil {
		return
	}
	sendK, _ := ic.Pk.Types.Scope().Lookup("sendStmt").(*types.Const)
	n := 0
	ast.Inspect(cfgFi.Decl.Body, func(m ast.Node) bool {
		cc, ok := m.(*ast.CaseClause)
		if !ok || len(cc.List) != 1 {
			return true
		}
		if id := identOf(cc.List[0]); id == nil || sendK == nil || info.ObjectOf(id) != sendK {
			return true
		}
		n++
		dir, typed := false, false
		for _, c := range allCalls(cc) {
			f, ok := calleeOf(info, c).(*types.Func)
			if !ok {
				continue
			}
			if sg := f.Type().(*types.Signature); sg.Recv() != nil && isNamed(sg.Recv().Type(), "typecheck") {
				typed = true
			}
			if sg := f.Type().(*types.Signature); f.Pkg() == ic.Pk.Types && sg.Results().Len() == 1 && types.Identical(sg.Results().At(0).Type(), types.Typ[types.Bool]) {
				if hd := ic.G.Funcs[f]; hd != nil && hd.Decl.Body != nil {
					ast.Inspect(hd.Decl.Body, func(k ast.Node) bool {
						switch x := k.(type) {
						case *ast.SelectorExpr:
							if x.Sel.Name == "RecvDir" {
								dir = true
							}
						case *ast.Ident:
							if x.Name == "chanRecvT" {
								dir = true
							}
						}
						return true
					})
				}
			}
		}
		r.Check(dir, "R12.16", "cfg/case:sendStmt/channel-direction-checked", ic.pos(cc.Pos()), "a send on a receive-only channel is rejected",
			"the sendStmt case of cfg never consults the direction of the channel: c <- v with c of type <-chan T is compiled, the program starts and panics in reflect (send on recv-only channel)")
		r.Check(typed, "R12.16", "cfg/case:sendStmt/sent-value-type-checked", ic.pos(cc.Pos()), "the sent value is checked against the element type",
			"the sendStmt case of cfg does not type-check the sent value against the channel's element type: c <- \"a\" on a chan int, or c <- 200 on a chan int8, is compiled and fails or wraps at run time")
		return true
	})
	if n == 0 {
		r.Errorf("R12.16: no sendStmt case found in cfg")
	}
}
