package main

import (
	"fmt"
	"go/ast"
	"go/constant"
	"go/parser"
	"go/token"
	"go/types"
	"sort"
	"strings"
)

func init() {
	register("C03", &propMeta{
		Level: "other",
		Explanation: "Structural clauses of constant handling: R03.1 every constant folder registered in constOp folds with exactly the go/constant token (and Go operator) of its action; " +
			"R03.2 wherever a reflect kind is switched on and a go/constant accessor is used, the accessor is the one of that kind (Int64Val for signed, Uint64Val for unsigned, Float32Val for float32/complex64, Float64Val for float64/complex128, BoolVal, StringVal) and complex kinds read both Real and Imag; " +
			"R03.3 the width table used for integer representability equals 8*sizeof of each integer kind of the analysed configuration and lists every integer kind; " +
			"R03.4 the representability bound applied to signed kinds differs from the one applied to unsigned kinds of the same width and the full-width comparison is unreachable for signed kinds; " +
			"R03.5 the two places that advance scope.iota reset it on the last spec and increment it otherwise, identically; R03.6 literals are valued by go/constant's parser (rune literals by UnquoteChar); R03.7 shared type objects are never overwritten in place. Arbitrary-precision arithmetic, default types and rounding are computed by go/constant and trusted.",
		Assumptions: []string{"go/constant computes exact results", "the width table is checked for the host configuration in the quick tier and also for GOARCH=386 in the thorough tier"},
		Run:         runC03,
	})
	ruleText["R03.1"] = "for every action a with a constant folder, constOp[a] passes to go/constant (BinaryOp/UnaryOp/Shift/Compare), and uses directly, exactly the operator of a (QUO_ASSIGN being go/constant's integer division for /)"
	ruleText["R03.2"] = "in a case of a switch over reflect kinds, go/constant accessors are those of the case's kinds: Int64Val (Int*), Uint64Val (Uint*), Float32Val (Float32, Complex64), Float64Val (Float64, Complex128), BoolVal (Bool), StringVal (String); a complex case reads Real and Imag"
	ruleText["R03.3"] = "the integer width table has an entry for every integer kind equal to 8*Sizeof(kind) of the analysed configuration"
	ruleText["R03.4"] = "in the function deciding whether a constant is representable, the case of signed kinds bounds the value with width-1 magnitude bits and cannot reach the full-width comparison used for unsigned kinds"
	ruleText["R03.8"] = "in the cases of the representability function that round through constant.Float32Val/Float64Val (float and complex kinds), every return that is not the constant false derives its value from math.IsInf"
	ruleText["R03.9"] = "a comparison of reflect.Type.Bits() with a constant, under a guard isComplex/isFloat/isInt/isUint on the same type, uses a width kinds of that class can have (64/128, 32/64, 8..64)"
	ruleText["R03.10"] = "every boolean predicate whose truth leads to the 'division by zero' error calls constant.Sign and converts no reflect.Value / constant to a machine number"
	ruleText["R03.11"] = "in arrayTypeLen the index of an element without key is not computed from the variable whose final value + 1 is returned (the running maximum): it follows the previous element"
	ruleText["R03.7"] = "no assignment in package interp has the form *p = v with p of type *itype: a node's type is changed by replacing the pointer, never by overwriting the shared type object"
	ruleText["R03.6"] = "in the AST builder, the value of an INT, FLOAT, IMAG or STRING literal is constant.MakeFromLiteral(lit.Value, lit.Kind, 0) on every path (go/constant's parser defines the exact value of a literal)"
	ruleText["R03.16"] = "= R02.14 shared: no process-wide memo table (a constant converted once under its printed form is handed to every constant printed alike)"
	ruleText["R03.5"] = "every function assigning scope.iota does so in an if/else that resets it to 0 when the spec is the last child of its declaration and increments it otherwise; all such sites use the same condition"
}

func runC03(c *Config, r *Report) {
	ic, err := loadInterp(c, false)
	if err != nil {
		r.Errorf("%v", err)
		return
	}
	x := &c02ctx{ic: ic, r: r, actName: map[int64]string{}, spelling: map[int64]string{}, builtin: map[int64]*types.Func{}, constOp: map[int64]*types.Func{}, srcToken: map[int64]token.Token{}, tokenKind: map[int64]string{}, silent: true}
	if x.readTables() {
		x.r1()
		x.folders("R03.1")
		x.r12()
		x.r13()
		c03R17to19(ic, x, r)
		c03R21(ic, x, r)
		x.rule16 = "R03.20"
		x.r2x13()
	}
	c12R32(ic, r, "R03.22")
	c03R23(ic, r)
	c03R24(ic, r)
	c03R25(ic, r, "R03.25")
	c03R2(ic, r)
	c03R3(ic, r)
	c03R4(ic, r)
	c03R8(ic, r)
	c03R8width(ic, r)
	c03R9(ic, r)
	c03R10(ic, r)
	c03R11(ic, r)
	c03R14(ic, r)
	c03R15(ic, r)
	if icS, err := loadInterp(c, true); err == nil {
		noProcessWideMemo(icS, r, "R03.16")
	} else {
		r.Errorf("R03.16: %v", err)
	}
	c03R5(ic, r)
	c03R6(ic, r)
	c03R7(ic, r)
	if c.Tier == "thorough" {
		ic386, err := loadInterp(c, false, "GOARCH=386")
		if err != nil {
			r.Errorf("GOARCH=386: %v", err)
			return
		}
		c03R3cfg(ic386, r, "GOARCH=386/")
		r.Note("thorough: R03.3 repeated for the 32-bit configuration GOARCH=386")
	}
}

// c03R6: literals are materialised by go/constant's own parser.
func c03R6(ic *IC, r *Report) {
	fi := ic.fn(r, "Interpreter.ast")
	if fi == nil {
		return
	}
	rval := ic.field("node", "rval")
	found := false
	ast.Inspect(fi.Decl.Body, func(n ast.Node) bool {
		sw, ok := n.(*ast.SwitchStmt)
		if !ok || sw.Tag == nil {
			return true
		}
		se, ok := unparen(sw.Tag).(*ast.SelectorExpr)
		if !ok || se.Sel.Name != "Kind" || types.TypeString(ic.Info.TypeOf(se.X), nil) != "*go/ast.BasicLit" {
			return true
		}
		found = true
		lit := types.ExprString(se.X)
		have := map[token.Token]bool{}
		for _, st := range sw.Body.List {
			cc := st.(*ast.CaseClause)
			var toks []token.Token
			for _, l := range cc.List {
				if tv, ok := ic.Info.Types[l]; ok && tv.Value != nil {
					iv, _ := constant.Int64Val(tv.Value)
					toks = append(toks, token.Token(iv))
					have[token.Token(iv)] = true
				}
			}
			exact := false
			for _, t := range toks {
				if t == token.INT || t == token.FLOAT || t == token.IMAG || t == token.STRING {
					exact = true
				}
			}
			isChar := false
			for _, t := range toks {
				if t == token.CHAR {
					isChar = true
				}
			}
			if isChar && !exact {
				// a rune literal is decoded by strconv.UnquoteChar (or by go/constant): going
				// through a string (strconv.Unquote, then a []rune conversion) re-decodes the
				// bytes as UTF-8, which turns '\xff' and '\377' into U+FFFD.
				okDec, viaString := false, ""
				for _, s := range cc.Body {
					ast.Inspect(s, func(m ast.Node) bool {
						if call, isCall := m.(*ast.CallExpr); isCall {
							switch {
							case isCallTo(ic.Info, call, "strconv.UnquoteChar"), isCallTo(ic.Info, call, "go/constant.MakeFromLiteral"):
								okDec = true
							case isCallTo(ic.Info, call, "strconv.Unquote"), isCallTo(ic.Info, call, "unicode/utf8.DecodeRuneInString"), isCallTo(ic.Info, call, "unicode/utf8.DecodeRune"):
								viaString = types.ExprString(call.Fun)
							}
						}
						return true
					})
				}
				r.Check(okDec && viaString == "", "R03.6", "ast/literal:CHAR", ic.pos(cc.Pos()), "rune literals are decoded by strconv.UnquoteChar / go/constant",
					"a CHAR literal is decoded through "+map[bool]string{true: viaString + " (a string, re-decoded as UTF-8)", false: "neither strconv.UnquoteChar nor constant.MakeFromLiteral"}[viaString != ""]+": literals with a byte escape of 0x80..0xFF ('\\xff', '\\377') evaluate to U+FFFD instead of 128..255")
			}
			if !exact {
				continue
			}
			// locals defined from MakeFromLiteral(lit.Value, lit.Kind, ...)
			good := map[types.Object]bool{}
			isMake := func(e ast.Expr) bool {
				ok := false
				ast.Inspect(e, func(m ast.Node) bool {
					if call, isCall := m.(*ast.CallExpr); isCall && isCallTo(ic.Info, call, "go/constant.MakeFromLiteral") && len(call.Args) == 3 {
						if types.ExprString(call.Args[0]) == lit+".Value" && types.ExprString(call.Args[1]) == lit+".Kind" {
							ok = true
						}
					}
					if id, isID := m.(*ast.Ident); isID && good[ic.Info.ObjectOf(id)] {
						ok = true
					}
					return true
				})
				return ok
			}
			for _, s := range cc.Body {
				ast.Inspect(s, func(m ast.Node) bool {
					as, ok := m.(*ast.AssignStmt)
					if !ok || len(as.Lhs) != len(as.Rhs) {
						return true
					}
					for i, l := range as.Lhs {
						if id, ok := l.(*ast.Ident); ok && isMake(as.Rhs[i]) {
							good[ic.Info.ObjectOf(id)] = true
						}
						if selField(ic.Info, l) == rval && rval != nil {
							key := "ast/literal:" + toks[0].String()
							r.Check(isMake(as.Rhs[i]), "R03.6", key, ic.pos(as.Pos()), "the literal's value is constant.MakeFromLiteral("+lit+".Value, "+lit+".Kind, 0)",
								"a "+toks[0].String()+" literal's value is stored from "+types.ExprString(as.Rhs[i])+", not from go/constant's parser on the literal's own text and kind: forms that another parser reads differently (legacy octal 0644, hex floats, separators, imaginary) get a wrong exact value")
						}
					}
					return true
				})
			}
		}
		for _, t := range []token.Token{token.INT, token.FLOAT, token.IMAG, token.CHAR, token.STRING} {
			if !have[t] {
				r.Fail("R03.6", "ast/literal:"+t.String()+"/case", ic.pos(sw.Pos()), "no case for "+t.String()+" literals in the AST builder: such literals have no value")
			}
		}
		return true
	})
	if !found {
		r.Errorf("anchor not resolved: switch over the kind of *ast.BasicLit in (*Interpreter).ast")
	}
}

var constAccessorFor = map[string]string{
	"Int": "Int64Val", "Int8": "Int64Val", "Int16": "Int64Val", "Int32": "Int64Val", "Int64": "Int64Val",
	"Uint": "Uint64Val", "Uint8": "Uint64Val", "Uint16": "Uint64Val", "Uint32": "Uint64Val", "Uint64": "Uint64Val", "Uintptr": "Uint64Val",
	"Float32": "Float32Val", "Complex64": "Float32Val", "Float64": "Float64Val", "Complex128": "Float64Val",
	"Bool": "BoolVal", "String": "StringVal",
}

func c03R2(ic *IC, r *Report) {
	nCases := 0
	for _, name := range sortedKeys(ic.F) {
		fi := ic.F[name]
		if fi.Decl.Body == nil {
			continue
		}
		var problems []string
		var firstPos token.Pos
		cases := 0
		ast.Inspect(fi.Decl.Body, func(n ast.Node) bool {
			sw, ok := n.(*ast.SwitchStmt)
			if !ok || sw.Tag == nil {
				return true
			}
			// the tag must be of type reflect.Kind
			if types.TypeString(ic.Info.TypeOf(sw.Tag), nil) != "reflect.Kind" {
				return true
			}
			for _, st := range sw.Body.List {
				cc := st.(*ast.CaseClause)
				want := map[string]bool{}
				complexCase := false
				var kinds []string
				for _, l := range cc.List {
					if se, ok := unparen(l).(*ast.SelectorExpr); ok {
						if c, ok := ic.Info.Uses[se.Sel].(*types.Const); ok && c.Pkg() != nil && c.Pkg().Path() == "reflect" {
							kinds = append(kinds, c.Name())
							if a := constAccessorFor[c.Name()]; a != "" {
								want[a] = true
							} else {
								want["<none>"] = true
							}
							if strings.HasPrefix(c.Name(), "Complex") {
								complexCase = true
							}
						}
					}
				}
				if len(want) == 0 {
					continue
				}
				used := map[string]bool{}
				real, imag := false, false
				var pos token.Pos
				for _, s := range cc.Body {
					ast.Inspect(s, func(m ast.Node) bool {
						if inner, ok := m.(*ast.SwitchStmt); ok && inner.Tag != nil && types.TypeString(ic.Info.TypeOf(inner.Tag), nil) == "reflect.Kind" {
							return false
						}
						call, ok := m.(*ast.CallExpr)
						if !ok {
							return true
						}
						f, _ := calleeOf(ic.Info, call).(*types.Func)
						if f == nil || f.Pkg() == nil || f.Pkg().Path() != "go/constant" {
							return true
						}
						switch f.Name() {
						case "Int64Val", "Uint64Val", "Float32Val", "Float64Val", "BoolVal", "StringVal":
							used[f.Name()] = true
							if !pos.IsValid() {
								pos = call.Pos()
							}
						case "Real":
							real = true
						case "Imag":
							imag = true
						}
						return true
					})
				}
				if complexCase && (real != imag) {
					problems = append(problems, fmt.Sprintf("case %s reads constant.%s but never constant.%s: one part of the complex constant is not examined", strings.Join(kinds, ","), map[bool]string{true: "Real", false: "Imag"}[real], map[bool]string{true: "Imag", false: "Real"}[real]))
					if !firstPos.IsValid() {
						firstPos = cc.Pos()
					}
					cases++
				}
				if len(used) == 0 {
					continue
				}
				cases++
				nCases++
				for u := range used {
					if !want[u] || len(want) != 1 {
						problems = append(problems, fmt.Sprintf("case %s uses constant.%s (expected %s)", strings.Join(kinds, ","), u, strings.Join(sortedKeys(want), "/")))
						if !firstPos.IsValid() {
							firstPos = pos
						}
					}
				}
				if complexCase && !(real && imag) {
					problems = append(problems, fmt.Sprintf("case %s does not read both constant.Real and constant.Imag", strings.Join(kinds, ",")))
					if !firstPos.IsValid() {
						firstPos = pos
					}
				}
			}
			return true
		})
		if cases == 0 {
			continue
		}
		pos := ic.pos(fi.Decl.Pos())
		if firstPos.IsValid() {
			pos = ic.pos(firstPos)
		}
		r.Check(len(problems) == 0, "R03.2", name+"/constant-accessors", pos, fmt.Sprintf("%d kind cases read constants through the accessor of their kind", cases),
			name+": "+strings.Join(dedupStr(problems), "; ")+": the constant is truncated, rounded twice or tested against the wrong range for that kind")
	}
	if nCases < 10 {
		r.Errorf("R03.2: only %d kind cases using go/constant accessors found (convertConst and representableConst expected)", nCases)
	}
	// Real/Imag pairing: a block that examines one part of a complex constant examines the other.
	pairs := 0
	for _, name := range sortedKeys(ic.F) {
		fi := ic.F[name]
		if fi.Decl.Body == nil {
			continue
		}
		count := func(n ast.Node) (re, im int, first token.Pos) {
			ast.Inspect(n, func(m ast.Node) bool {
				if call, ok := m.(*ast.CallExpr); ok {
					if isCallTo(ic.Info, call, "go/constant.Real") {
						re++
						if !first.IsValid() {
							first = call.Pos()
						}
					}
					if isCallTo(ic.Info, call, "go/constant.Imag") {
						im++
						if !first.IsValid() {
							first = call.Pos()
						}
					}
				}
				return true
			})
			return
		}
		// role: functions converting/testing a constant against a target kind
		hasTarget := false
		if fi.Obj != nil {
			sig := fi.Obj.Type().(*types.Signature)
			for i := 0; i < sig.Params().Len(); i++ {
				ts := types.TypeString(sig.Params().At(i).Type(), nil)
				if ts == "reflect.Type" || ts == "reflect.Kind" {
					hasTarget = true
				}
			}
		}
		if !hasTarget {
			continue
		}
		re, im, first := count(fi.Decl.Body)
		if re+im == 0 {
			continue
		}
		pairs++
		bad := ""
		pos := first
		// per innermost case clause
		ast.Inspect(fi.Decl.Body, func(n ast.Node) bool {
			cc, ok := n.(*ast.CaseClause)
			if !ok {
				return true
			}
			// innermost: no nested case clause containing Real/Imag
			nested := false
			for _, s := range cc.Body {
				ast.Inspect(s, func(m ast.Node) bool {
					if c2, ok := m.(*ast.CaseClause); ok {
						if a, b, _ := count(c2); a+b > 0 {
							nested = true
						}
					}
					return true
				})
			}
			if nested {
				return true
			}
			a, b, p := count(cc)
			if a != b {
				bad = fmt.Sprintf("a case reads constant.Real %d time(s) and constant.Imag %d time(s)", a, b)
				pos = p
			}
			return true
		})
		if bad == "" && re != im {
			bad = fmt.Sprintf("constant.Real is read %d time(s) and constant.Imag %d time(s)", re, im)
		}
		r.Check(bad == "", "R03.2", name+"/real-imag-pairing", ic.pos(pos), "both parts of complex constants are examined", name+": "+bad+": one part of a complex constant is examined twice and the other never (an overflowing or non-zero part goes unnoticed)")
	}
	if pairs < 2 {
		r.Errorf("R03.2: only %d functions examining the parts of complex constants found", pairs)
	}
}

// widthTable finds the package-level array/map literal keyed by integer reflect kinds with int values.
func widthTable(ic *IC) (*types.Var, map[string]int64, *ast.CompositeLit) {
	for _, f := range ic.Pk.Syntax {
		for _, d := range f.Decls {
			gd, ok := d.(*ast.GenDecl)
			if !ok || gd.Tok != token.VAR {
				continue
			}
			for _, s := range gd.Specs {
				vs := s.(*ast.ValueSpec)
				if len(vs.Names) != 1 || len(vs.Values) != 1 {
					continue
				}
				cl, ok := vs.Values[0].(*ast.CompositeLit)
				if !ok {
					continue
				}
				ent := map[string]int64{}
				okAll := len(cl.Elts) > 0
				for _, e := range cl.Elts {
					kv, ok := e.(*ast.KeyValueExpr)
					if !ok {
						okAll = false
						break
					}
					se, ok := unparen(kv.Key).(*ast.SelectorExpr)
					if !ok {
						okAll = false
						break
					}
					c, ok := ic.Info.Uses[se.Sel].(*types.Const)
					if !ok || c.Pkg() == nil || c.Pkg().Path() != "reflect" {
						okAll = false
						break
					}
					tv, ok := ic.Info.Types[kv.Value]
					if !ok || tv.Value == nil || tv.Value.Kind() != constant.Int {
						okAll = false
						break
					}
					v, _ := constant.Int64Val(tv.Value)
					ent[c.Name()] = v
				}
				if okAll && ent["Int8"] != 0 && ent["Uint8"] != 0 {
					v, _ := ic.Info.Defs[vs.Names[0]].(*types.Var)
					return v, ent, cl
				}
			}
		}
	}
	return nil, nil, nil
}

func c03R3(ic *IC, r *Report) {
	c03R3cfg(ic, r, "")
	// the kinds whose size depends on the platform must not be written as literals
	v, _, cl := widthTable(ic)
	if v == nil {
		return
	}
	for _, e := range cl.Elts {
		kv, ok := e.(*ast.KeyValueExpr)
		if !ok {
			continue
		}
		se, ok := unparen(kv.Key).(*ast.SelectorExpr)
		if !ok {
			continue
		}
		switch se.Sel.Name {
		case "Int", "Uint", "Uintptr":
			_, lit := unparen(kv.Value).(*ast.BasicLit)
			r.Check(!lit, "R03.3", v.Name()+"/"+se.Sel.Name+"/platform-dependent", ic.pos(kv.Pos()), "width taken from a platform-dependent constant ("+types.ExprString(kv.Value)+")",
				"the width of reflect."+se.Sel.Name+" is the literal "+types.ExprString(kv.Value)+": on a host where int has another size (GOARCH=386) out-of-range constants are accepted and wrap (var x int = 5000000000)")
		}
	}
}

func c03R3cfg(ic *IC, r *Report, prefix string) {
	v, ent, cl := widthTable(ic)
	if v == nil {
		r.Errorf("anchor not resolved: integer width table (literal keyed by reflect integer kinds)")
		return
	}
	sz := ic.Pk.TypesSizes
	if sz == nil {
		r.Errorf("R03.3: no type sizes for the analysed configuration")
		return
	}
	want := map[string]types.BasicKind{"Int": types.Int, "Int8": types.Int8, "Int16": types.Int16, "Int32": types.Int32, "Int64": types.Int64,
		"Uint": types.Uint, "Uint8": types.Uint8, "Uint16": types.Uint16, "Uint32": types.Uint32, "Uint64": types.Uint64, "Uintptr": types.Uintptr}
	for _, k := range sortedKeys(want) {
		w := 8 * sz.Sizeof(types.Typ[want[k]])
		got, ok := ent[k]
		key := prefix + v.Name() + "/" + k
		switch {
		case !ok:
			r.Fail("R03.3", key, ic.pos(cl.Pos()), "the width table has no entry for reflect."+k+": its width reads as 0 and every constant is reported as overflowing (or none)")
		default:
			r.Check(got == w, "R03.3", key, ic.pos(cl.Pos()), fmt.Sprintf("%d bits", w), fmt.Sprintf("width of reflect.%s is %d in the table, %d in the analysed configuration: out-of-range constants are accepted or valid ones rejected", k, got, w))
		}
	}
	for k := range ent {
		if _, ok := want[k]; !ok {
			r.Fail("R03.3", prefix+v.Name()+"/"+k, ic.pos(cl.Pos()), "the width table lists reflect."+k+", which is not an integer kind")
		}
	}
}

func c03R4(ic *IC, r *Report) {
	wt, _, _ := widthTable(ic)
	// role: the function taking a constant.Value and a reflect.Type and returning bool
	var fi *FuncInfo
	for _, name := range sortedKeys(ic.F) {
		f := ic.F[name]
		if f.Decl.Body == nil || f.Obj == nil {
			continue
		}
		sig := f.Obj.Type().(*types.Signature)
		if sig.Params().Len() == 2 && sig.Results().Len() == 1 &&
			types.TypeString(sig.Params().At(0).Type(), nil) == "go/constant.Value" &&
			types.TypeString(sig.Params().At(1).Type(), nil) == "reflect.Type" &&
			types.Identical(sig.Results().At(0).Type(), types.Typ[types.Bool]) {
			fi = f
		}
	}
	if fi == nil || wt == nil {
		r.Errorf("anchor not resolved: representability function (constant.Value, reflect.Type) bool, or width table")
		return
	}
	name := funcName(fi.Decl)
	// locals holding the width (n := bitlen[t.Kind()]) or the width minus one (s := uint(bitlen[k] - 1))
	fullAlias := map[types.Object]bool{}
	minusAlias := map[types.Object]bool{}
	var usesWidth func(n ast.Node) bool
	usesWidth = func(n ast.Node) bool {
		found := false
		ast.Inspect(n, func(m ast.Node) bool {
			if id, ok := m.(*ast.Ident); ok && (ic.Info.Uses[id] == wt || fullAlias[ic.Info.Uses[id]]) {
				found = true
			}
			return true
		})
		return found
	}
	hasMinusOne := func(n ast.Node) bool {
		found := false
		ast.Inspect(n, func(m ast.Node) bool {
			if be, ok := m.(*ast.BinaryExpr); ok && be.Op == token.SUB && usesWidth(be.X) {
				if tv, ok := ic.Info.Types[be.Y]; ok && tv.Value != nil && tv.Value.ExactString() == "1" {
					found = true
				}
			}
			if id, ok := m.(*ast.Ident); ok && minusAlias[ic.Info.Uses[id]] {
				found = true
			}
			return true
		})
		return found
	}
	for round := 0; round < 2; round++ {
		ast.Inspect(fi.Decl.Body, func(n ast.Node) bool {
			if as, ok := n.(*ast.AssignStmt); ok && len(as.Lhs) == len(as.Rhs) {
				for i, l := range as.Lhs {
					id, ok := l.(*ast.Ident)
					if !ok {
						continue
					}
					o := ic.Info.ObjectOf(id)
					if o == nil || !usesWidth(as.Rhs[i]) {
						continue
					}
					if hasMinusOne(as.Rhs[i]) {
						minusAlias[o] = true
					} else {
						fullAlias[o] = true
					}
				}
			}
			return true
		})
	}
	var signedCase, unsignedCase *ast.CaseClause
	ast.Inspect(fi.Decl.Body, func(n ast.Node) bool {
		cc, ok := n.(*ast.CaseClause)
		if !ok {
			return true
		}
		cls := map[string]bool{}
		for _, l := range cc.List {
			if se, ok := unparen(l).(*ast.SelectorExpr); ok {
				if c, ok := ic.Info.Uses[se.Sel].(*types.Const); ok && c.Pkg() != nil && c.Pkg().Path() == "reflect" {
					cls[kindClass[c.Name()]] = true
				}
			}
		}
		if len(cls) == 1 && cls["int"] {
			signedCase = cc
		}
		if len(cls) == 1 && cls["uint"] {
			unsignedCase = cc
		}
		return true
	})
	if signedCase == nil || unsignedCase == nil {
		r.Fail("R03.4", name+"/signed-unsigned-cases", ic.pos(fi.Decl.Pos()), "the representability function does not distinguish signed from unsigned integer kinds: both get the same bound, so int8(200) or uint8(-1)-like constants are accepted")
		return
	}
	// (1) the signed case bounds with width-1: an expression <width> - 1, or a strict < against the width
	minusOne := false
	var looseInSigned []string
	for _, s := range signedCase.Body {
		var stack []ast.Node
		ast.Inspect(s, func(m ast.Node) bool {
			if m == nil {
				stack = stack[:len(stack)-1]
				return true
			}
			stack = append(stack, m)
			be, ok := m.(*ast.BinaryExpr)
			if !ok {
				if id, ok := m.(*ast.Ident); ok && minusAlias[ic.Info.Uses[id]] {
					minusOne = true
				}
				return true
			}
			if be.Op == token.SUB && usesWidth(be.X) {
				if tv, ok := ic.Info.Types[be.Y]; ok && tv.Value != nil && tv.Value.ExactString() == "1" {
					minusOne = true
				}
			}
			if be.Op == token.LSS && usesWidth(be.Y) && !hasMinusOne(be.Y) {
				minusOne = true
			}
			// a non-strict comparison of a bit length against the full width, standing alone
			if (be.Op == token.LEQ && usesWidth(be.Y) && !hasMinusOne(be.Y)) || (be.Op == token.GEQ && usesWidth(be.X) && !hasMinusOne(be.X)) {
				conj := false
				for _, anc := range stack[:len(stack)-1] {
					if ab, ok := anc.(*ast.BinaryExpr); ok && ab.Op == token.LAND {
						conj = true
					}
				}
				if !conj {
					looseInSigned = append(looseInSigned, types.ExprString(be)+" at "+ic.pos(be.Pos()))
				}
			}
			return true
		})
	}
	r.Check(len(looseInSigned) == 0, "R03.4", name+"/signed-no-full-width", ic.pos(signedCase.Pos()), "no branch of the signed case admits a full-width magnitude",
		"in the case of signed kinds "+strings.Join(looseInSigned, ", ")+" admits constants whose magnitude needs all n bits: for a negative constant that is every value down to -(2^n - 1), e.g. int8(-129) is accepted and wraps to 127")
	r.Check(minusOne, "R03.4", name+"/signed-bound", ic.pos(signedCase.Pos()), "signed kinds are bounded with width-1 magnitude bits",
		"the case of signed kinds in "+name+" never uses width-1 (no '<width> - 1' and no strict comparison against the width): a signed n-bit kind accepts constants up to 2^n-1, e.g. var x int8 = 200")
	// (2) the full-width comparison must be unreachable from the signed case
	fg := buildFlow(fi.Decl.Body, ic.Info)
	var full []*ast.BinaryExpr
	ast.Inspect(fi.Decl.Body, func(n ast.Node) bool {
		if be, ok := n.(*ast.BinaryExpr); ok && be.Op == token.LEQ && usesWidth(be.Y) {
			isMinus := false
			ast.Inspect(be.Y, func(m ast.Node) bool {
				if b2, ok := m.(*ast.BinaryExpr); ok && b2.Op == token.SUB {
					isMinus = true
				}
				return true
			})
			if !isMinus && !(be.Pos() >= signedCase.Pos() && be.End() <= signedCase.End()) {
				full = append(full, be)
			}
		}
		return true
	})
	reach := false
	if len(signedCase.Body) > 0 {
		for _, be := range full {
			if re, _ := fg.reaches(signedCase.Body[0], be); re {
				reach = true
			}
			// also when the comparison directly follows in the same block
			b1, _ := fg.locate(signedCase.Body[len(signedCase.Body)-1])
			b2, _ := fg.locate(be)
			if b1 != nil && b2 != nil && b1 != b2 && reachAvoiding(b1, b2, nil) {
				reach = true
			}
		}
	}
	r.Check(!reach, "R03.4", name+"/full-width-unreachable", ic.pos(signedCase.Pos()), "signed kinds never reach the full-width (unsigned) comparison",
		"control can flow from the case of signed kinds to the full-width comparison BitLen(x) <= width: for those paths a signed n-bit kind accepts constants of n magnitude bits")
}

func c03R5(ic *IC, r *Report) {
	iota := ic.field("scope", "iota")
	if iota == nil {
		r.Errorf("anchor not resolved: scope.iota")
		return
	}
	conds := map[string]string{}
	for _, name := range sortedKeys(ic.F) {
		fi := ic.F[name]
		if fi.Decl.Body == nil {
			continue
		}
		// assignments to iota
		var sites []ast.Node
		ast.Inspect(fi.Decl.Body, func(n ast.Node) bool {
			switch s := n.(type) {
			case *ast.AssignStmt:
				for _, l := range s.Lhs {
					if selField(ic.Info, l) == iota {
						sites = append(sites, s)
					}
				}
			case *ast.IncDecStmt:
				if selField(ic.Info, s.X) == iota {
					sites = append(sites, s)
				}
			}
			return true
		})
		if len(sites) == 0 {
			continue
		}
		// each site must sit in an if/else pair: Body {iota = 0} Else {iota++}
		okAll := true
		why := ""
		var condText string
		for _, s := range sites {
			path := enclosingPath(fi.Decl.Body, s)
			// a reset to 0 in the case that handles the constDecl kind itself (the start of a
			// declaration, R03.24) is not an advance of the counter
			if as, ok := s.(*ast.AssignStmt); ok && len(as.Rhs) == 1 {
				if l, ok := unparen(as.Rhs[0]).(*ast.BasicLit); ok && l.Value == "0" {
					start := false
					for i := len(path) - 1; i >= 0; i-- {
						if cc, ok := path[i].(*ast.CaseClause); ok {
							if ls := kindLabels(ic, cc); len(ls) == 1 && ls[0] == "constDecl" {
								start = true
							}
							if len(kindLabels(ic, cc)) > 0 {
								break
							}
						}
					}
					if start {
						continue
					}
				}
			}
			var ifs *ast.IfStmt
			for i := len(path) - 1; i >= 0; i-- {
				if x, ok := path[i].(*ast.IfStmt); ok {
					ifs = x
					break
				}
			}
			if ifs == nil || ifs.Else == nil {
				okAll, why = false, "an assignment of scope.iota is not inside an if/else"
				continue
			}
			reset, incr := false, false
			for _, st := range ifs.Body.List {
				if as, ok := st.(*ast.AssignStmt); ok && len(as.Lhs) == 1 && selField(ic.Info, as.Lhs[0]) == iota {
					if tv, ok := ic.Info.Types[as.Rhs[0]]; ok && tv.Value != nil && tv.Value.ExactString() == "0" {
						reset = true
					}
				}
			}
			if eb, ok := ifs.Else.(*ast.BlockStmt); ok {
				for _, st := range eb.List {
					if id, ok := st.(*ast.IncDecStmt); ok && id.Tok == token.INC && selField(ic.Info, id.X) == iota {
						incr = true
					}
				}
			}
			if !reset || !incr {
				okAll, why = false, "the if/else around scope.iota does not reset it to 0 in one branch and increment it in the other"
			}
			// condition: <pos> == len(<children>) - 1
			be, ok := unparen(ifs.Cond).(*ast.BinaryExpr)
			if !ok || be.Op != token.EQL || !strings.Contains(types.ExprString(be.Y), "len(") || !strings.HasSuffix(strings.ReplaceAll(types.ExprString(be.Y), " ", ""), "-1") {
				okAll, why = false, "the reset condition "+types.ExprString(ifs.Cond)+" is not 'position == len(children)-1' (last spec of the declaration)"
			}
			condText = types.ExprString(ifs.Cond)
			// iota counts specifications, not names: inside the loop over the names of a specification
			// the update is guarded by a test of the last name (found D88: const ( j, k = iota, iota;
			// l, m = iota, iota ) gave l == 2)
			for i := len(path) - 1; i >= 0; i-- {
				fs, isFor := path[i].(*ast.ForStmt)
				if !isFor || fs.Cond == nil || !strings.Contains(types.ExprString(fs.Cond), "nleft") {
					continue
				}
				var idx types.Object
				if as, ok := fs.Init.(*ast.AssignStmt); ok && len(as.Lhs) == 1 {
					if id := identOf(as.Lhs[0]); id != nil {
						idx = ic.Info.ObjectOf(id)
					}
				}
				lastName := false
				for _, p2 := range path[i+1:] {
					if g, ok := p2.(*ast.IfStmt); ok && idx != nil && strings.Contains(types.ExprString(g.Cond), "nleft") {
						ast.Inspect(g.Cond, func(q ast.Node) bool {
							if id, ok := q.(*ast.Ident); ok && ic.Info.ObjectOf(id) == idx {
								lastName = true
							}
							return true
						})
					}
				}
				if !lastName {
					okAll, why = false, "scope.iota is advanced inside the loop over the names of a specification ("+types.ExprString(fs.Cond)+") without a test of the last name: it counts names instead of specifications (const ( j, k = iota, iota; l, m = iota, iota ) gives l == 2)"
				}
				break
			}
			// every spec advances iota, also a blank one: inside the block holding the if/else
			// no statement before it leaves the block (continue, return, goto, break)
			for i := len(path) - 1; i > 0; i-- {
				// every block from the if/else up to the loop over the names of the specification
				if _, isFor := path[i].(*ast.ForStmt); isFor {
					break
				}
				if _, isLit := path[i].(*ast.FuncLit); isLit {
					break
				}
				if g, isIf := path[i].(*ast.IfStmt); isIf && strings.Contains(types.ExprString(g.Cond), "constDecl") {
					break // the section executed for constant specifications only starts here
				}
				if path[i].Pos() > ifs.Pos() {
					continue
				}
				blk, ok := path[i-1].(*ast.BlockStmt)
				if !ok {
					continue
				}
				for _, st := range blk.List {
					if st == path[i] {
						break
					}
					depth := 0
					var visit func(m ast.Node) bool
					visit = func(m ast.Node) bool {
						switch x := m.(type) {
						case *ast.FuncLit:
							return false
						case *ast.ForStmt, *ast.RangeStmt, *ast.SwitchStmt, *ast.TypeSwitchStmt, *ast.SelectStmt:
							depth++
							for _, c := range childrenOf(m) {
								ast.Inspect(c, visit)
							}
							depth--
							return false
						case *ast.ReturnStmt:
							okAll, why = false, "a return at "+ic.pos(x.Pos())+" leaves the constant specification before scope.iota is advanced"
						case *ast.BranchStmt:
							if x.Tok == token.GOTO || x.Label != nil || x.Tok == token.CONTINUE && depth == 0 || x.Tok == token.BREAK && depth == 0 {
								okAll, why = false, "a "+x.Tok.String()+" at "+ic.pos(x.Pos())+" leaves the constant specification before scope.iota is advanced (a blank or otherwise special constant still counts: const ( A = iota; _; C ) gives C == 2)"
							}
						}
						return true
					}
					ast.Inspect(st, visit)
				}
			}
		}
		conds[name] = condText
		r.Check(okAll, "R03.5", name+"/iota", ic.pos(sites[0].Pos()), "reset on the last spec, incremented otherwise: "+condText, name+": "+why+": iota takes wrong values in const blocks")
	}
	if len(conds) < 2 {
		r.Errorf("R03.5: %d functions advancing scope.iota found, expected the gta and cfg sites", len(conds))
		return
	}
	first := ""
	same := true
	for _, n := range sortedKeys(conds) {
		if first == "" {
			first = conds[n]
		} else if conds[n] != first {
			same = false
		}
	}
	r.Check(same, "R03.5", "iota/sibling-agreement", "", "all sites use the condition "+first, fmt.Sprintf("the sites advancing scope.iota disagree on the reset condition: %v: the two passes compute different iota values for the same const block", conds))
}

// c03R7: type objects are shared. The type of a named constant, and the single universe type
// of iota, are referenced by every use of the constant, so promoting an untyped operand must
// replace the node's type pointer (n.typ = typ), never overwrite the pointed-to object:
// *n.typ = *typ changes the kind of every other use, and later expressions compute in the
// wrong kind. The rule forbids whole-object stores through an *itype anywhere in the package.
func wholeObjectStores(info *types.Info, root ast.Node, typeName string) []*ast.AssignStmt {
	var out []*ast.AssignStmt
	ast.Inspect(root, func(n ast.Node) bool {
		as, ok := n.(*ast.AssignStmt)
		if !ok {
			return true
		}
		for _, l := range as.Lhs {
			st, ok := unparen(l).(*ast.StarExpr)
			if !ok {
				continue
			}
			if nt, ok := info.TypeOf(st).(*types.Named); ok && nt.Obj().Name() == typeName {
				out = append(out, as)
			}
		}
		return true
	})
	return out
}

// c03InPlaceOK: whole-object stores accepted today, keyed by function.
var c03InPlaceOK = map[string]string{
	"itype.defaultType": "*typ = *t in the default case is reached only while typ still aliases t (typ is re-pointed only to typed universe types, for which the enclosing 'if typ.untyped' is false): a self-copy",
}

// freshTargetBefore reports whether the statement preceding as in its block assigns a fresh
// &itype{} (or new(itype)) to the pointer that as stores through.
func freshTargetBefore(ic *IC, fd *ast.FuncDecl, as *ast.AssignStmt) bool {
	st, ok := unparen(as.Lhs[0]).(*ast.StarExpr)
	if !ok {
		return false
	}
	target := types.ExprString(st.X)
	path := enclosingPath(fd.Body, as)
	for i := len(path) - 2; i >= 0; i-- {
		var list []ast.Stmt
		switch b := path[i].(type) {
		case *ast.BlockStmt:
			list = b.List
		case *ast.CaseClause:
			list = b.Body
		default:
			continue
		}
		for j, s := range list {
			if s == ast.Stmt(as) && j > 0 {
				if prev, ok := list[j-1].(*ast.AssignStmt); ok && len(prev.Lhs) == 1 && len(prev.Rhs) == 1 && types.ExprString(prev.Lhs[0]) == target {
					switch x := unparen(prev.Rhs[0]).(type) {
					case *ast.UnaryExpr:
						_, isLit := x.X.(*ast.CompositeLit)
						return x.Op == token.AND && isLit
					case *ast.CallExpr:
						if id, ok := x.Fun.(*ast.Ident); ok && id.Name == "new" {
							return true
						}
					}
				}
			}
		}
		return false
	}
	return false
}

const c03Control = `package ctl
type itype struct{ cat int; untyped bool }
type node struct{ typ *itype }
func promote(n *node, typ *itype) {
	*n.typ = *typ
	n.typ = typ
	n.typ.untyped = false
	var p *int
	*p = 3
}
`

func c03R7(ic *IC, r *Report) {
	fset := token.NewFileSet()
	f, err := parser.ParseFile(fset, "control.go", c03Control, 0)
	if err != nil {
		r.Errorf("R03.7 positive control does not parse: %v", err)
		return
	}
	info := &types.Info{Types: map[ast.Expr]types.TypeAndValue{}, Defs: map[*ast.Ident]types.Object{}, Uses: map[*ast.Ident]types.Object{}, Selections: map[*ast.SelectorExpr]*types.Selection{}}
	if _, err := (&types.Config{}).Check("ctl", fset, []*ast.File{f}, info); err != nil {
		r.Errorf("R03.7 positive control does not type-check: %v", err)
		return
	}
	if n := len(wholeObjectStores(info, f, "itype")); n != 1 {
		r.Errorf("R03.7 positive control: matcher found %d whole-object stores in the control snippet, want 1", n)
		return
	}
	if ic.Pk.Types.Scope().Lookup("itype") == nil {
		r.Errorf("anchor not resolved: type itype")
		return
	}
	nFiles := 0
	bad := 0
	for _, file := range ic.Pk.Syntax {
		nFiles++
		for _, as := range wholeObjectStores(ic.Info, file, "itype") {
			owner := ""
			var ofd *ast.FuncDecl
			for _, d := range file.Decls {
				if fd, ok := d.(*ast.FuncDecl); ok && fd.Pos() <= as.Pos() && as.End() <= fd.End() {
					owner = funcName(fd)
					ofd = fd
				}
			}
			// a copy into an object allocated by the statement just before (x = &itype{}; *x = *y)
			if ofd != nil && freshTargetBefore(ic, ofd, as) {
				r.Pass("R03.7", owner+"/copy-into-fresh-itype", ic.pos(as.Pos()), "the overwritten object was allocated by the preceding statement")
				continue
			}
			if why, ok := c03InPlaceOK[owner]; ok {
				r.Pass("R03.7", owner+"/itype-overwritten-in-place", ic.pos(as.Pos()), "frozen exception: "+why)
				continue
			}
			bad++
			r.Fail("R03.7", owner+"/itype-overwritten-in-place", ic.pos(as.Pos()), "the type object is overwritten through its pointer ("+types.ExprString(as.Lhs[0])+" = ...): the object is shared by every use of a named constant (and by every iota), so after one mixed-kind use such as c * 1.5 the later uses of c compute in the wrong kind (c / 2 becomes a float division, c % 2 is rejected)")
		}
	}
	if bad == 0 {
		r.Pass("R03.7", "itype/never-overwritten-in-place", "", fmt.Sprintf("%d files of package interp, no store of the form *p = v with p of type *itype (positive control matched)", nFiles))
	}
}

// c03R8: a constant is representable in a floating-point (or complex) type when, rounded to
// that type, it does not overflow to an infinity. In the representability function, inside the
// cases whose body rounds through go/constant's Float32Val/Float64Val, every return that can
// accept the constant derives its verdict from math.IsInf applied to the rounded value: an
// accepting return that bypasses the rounding (a shortcut on the magnitude of an integer
// constant, for instance) decides on a bound the checker cannot confirm and is reported.
func c03R8(ic *IC, r *Report) {
	var fi *FuncInfo
	for _, name := range sortedKeys(ic.F) {
		f := ic.F[name]
		if f.Decl.Body == nil || f.Obj == nil {
			continue
		}
		sig := f.Obj.Type().(*types.Signature)
		if sig.Params().Len() == 2 && sig.Results().Len() == 1 &&
			types.TypeString(sig.Params().At(0).Type(), nil) == "go/constant.Value" &&
			types.TypeString(sig.Params().At(1).Type(), nil) == "reflect.Type" &&
			types.Identical(sig.Results().At(0).Type(), types.Typ[types.Bool]) {
			fi = f
		}
	}
	if fi == nil {
		r.Errorf("anchor not resolved: representability function (constant.Value, reflect.Type) bool")
		return
	}
	name := funcName(fi.Decl)
	info := ic.Info
	n := 0
	ast.Inspect(fi.Decl.Body, func(m ast.Node) bool {
		sw, ok := m.(*ast.SwitchStmt)
		if !ok || sw.Tag != nil {
			return true
		}
		for _, st := range sw.Body.List {
			cc := st.(*ast.CaseClause)
			if len(cc.List) != 1 {
				continue
			}
			body := &ast.BlockStmt{List: cc.Body, Lbrace: cc.Colon, Rbrace: cc.End()}
			if len(callsIn(info, body, true, "go/constant.Float32Val", "go/constant.Float64Val")) == 0 {
				continue
			}
			n++
			label := types.ExprString(cc.List[0])
			if c, ok := unparen(cc.List[0]).(*ast.CallExpr); ok {
				if f, ok := calleeOf(info, c).(*types.Func); ok {
					label = f.Name()
				}
			}
			var bad []string
			ast.Inspect(body, func(k ast.Node) bool {
				if _, ok := k.(*ast.FuncLit); ok {
					return false
				}
				rs, ok := k.(*ast.ReturnStmt)
				if !ok || len(rs.Results) != 1 {
					return true
				}
				if tv, ok := info.Types[rs.Results[0]]; ok && tv.Value != nil && tv.Value.Kind() == constant.Bool && !constant.BoolVal(tv.Value) {
					return true
				}
				if len(callsIn(info, rs.Results[0], true, "math.IsInf")) == 0 {
					bad = append(bad, "return "+types.ExprString(rs.Results[0])+" at "+ic.pos(rs.Pos()))
				}
				return true
			})
			r.Check(len(bad) == 0, "R03.8", name+"/"+label+"/verdict-from-the-rounded-value", ic.pos(cc.Pos()), "every accepting return tests the rounded value for infinity",
				"in the "+label+" case of "+name+", "+strings.Join(bad, ", ")+" accepts the constant without rounding it to the target type (Float32Val/Float64Val) and testing the result with math.IsInf: the bound it relies on is not the type's (an integer of 128 bits exceeds MaxFloat32 although 2^127 does not), so an overflowing constant is accepted and silently becomes +Inf")
		}
		return true
	})
	// a case may instead hand both parts of a complex constant to the function itself (the
	// float case then decides): it must do so for the real and for the imaginary part
	delegating := 0
	ast.Inspect(fi.Decl.Body, func(m ast.Node) bool {
		cc, ok := m.(*ast.CaseClause)
		if !ok || len(cc.List) != 1 {
			return true
		}
		body := &ast.BlockStmt{List: cc.Body}
		real, imag := false, false
		for _, c := range allCalls(body) {
			if f, ok := calleeOf(info, c).(*types.Func); ok && f == fi.Obj && len(c.Args) > 0 {
				if len(callsIn(info, c.Args[0], true, "go/constant.Real")) > 0 {
					real = true
				}
				if len(callsIn(info, c.Args[0], true, "go/constant.Imag")) > 0 {
					imag = true
				}
			}
		}
		if real || imag {
			delegating++
			r.Check(real && imag, "R03.8", name+"/"+types.ExprString(cc.List[0])+"/both-parts-delegated", ic.pos(cc.Pos()), "the real and the imaginary part are both decided by the float case",
				"the "+types.ExprString(cc.List[0])+" case of "+name+" hands only one part of the complex constant to the float case: the other part is never range-checked")
		}
		return true
	})
	if n+delegating < 2 {
		r.Errorf("R03.8: %d cases rounding through Float32Val/Float64Val (and %d delegating to them) found in %s; the float and the complex case are expected", n, delegating, name)
	}
}

// c03R9: reflect.Type.Bits under a kind-class guard is compared with a width that kinds of the
// class can have (complex kinds have 64 or 128 bits, floats 32 or 64, integers 8 to 64): a
// comparison with another constant is never true, so the branch it selects (the narrow type's
// range check, typically) is dead.
func c03R9(ic *IC, r *Report) {
	info := ic.Info
	widths := map[string]map[string]bool{
		"isComplex": {"64": true, "128": true},
		"isFloat":   {"32": true, "64": true},
		"isInt":     {"8": true, "16": true, "32": true, "64": true},
		"isUint":    {"8": true, "16": true, "32": true, "64": true},
	}
	n, nBad := 0, 0
	for _, name := range sortedKeys(ic.F) {
		fi := ic.F[name]
		if fi.Decl.Body == nil {
			continue
		}
		ast.Inspect(fi.Decl.Body, func(m ast.Node) bool {
			be, ok := m.(*ast.BinaryExpr)
			if !ok || (be.Op != token.EQL && be.Op != token.NEQ) {
				return true
			}
			c, ok := unparen(be.X).(*ast.CallExpr)
			if !ok || !isCallTo(info, c, "reflect.Type.Bits") {
				return true
			}
			tv, ok := info.Types[be.Y]
			if !ok || tv.Value == nil {
				return true
			}
			recv := types.ExprString(unparen(c.Fun).(*ast.SelectorExpr).X)
			// the class guard on the same type expression
			for _, g := range pathGuards(fi.Decl.Body, be) {
				if !g.want {
					continue
				}
				for _, conj := range splitExpr(g.cond, token.LAND) {
					pc, ok := conj.(*ast.CallExpr)
					if !ok || len(pc.Args) != 1 || types.ExprString(pc.Args[0]) != recv {
						continue
					}
					pf, _ := calleeOf(info, pc).(*types.Func)
					if pf == nil || widths[pf.Name()] == nil {
						continue
					}
					n++
					if !widths[pf.Name()][tv.Value.ExactString()] {
						nBad++
						r.Fail("R03.9", fmt.Sprintf("%s/bits-of-a-%s-kind:%s", name, strings.TrimPrefix(pf.Name(), "is"), tv.Value.ExactString()), ic.pos(be.Pos()),
							"under "+types.ExprString(pc)+", "+types.ExprString(be)+" can never hold (kinds of that class have "+strings.Join(sortedKeys(widths[pf.Name()]), ", ")+" bits): the branch it selects is dead, e.g. complex64 constants are range-checked as float64 pairs and 1e39 is accepted")
					}
				}
			}
			return true
		})
	}
	if nBad == 0 {
		r.Pass("R03.9", "package/bits-comparisons-feasible", "", fmt.Sprintf("%d comparisons of reflect.Type.Bits under a kind-class guard, all with a width the class can have", n))
	}
}

// childrenOf returns the direct child nodes of n.
func childrenOf(n ast.Node) []ast.Node {
	var out []ast.Node
	first := true
	ast.Inspect(n, func(m ast.Node) bool {
		if first {
			first = false
			return true
		}
		if m != nil {
			out = append(out, m)
		}
		return false
	})
	return out
}

// c03R10: whether a constant divisor is zero is decided on the exact constant (go/constant's
// Sign), never on a machine number: a divisor smaller than the smallest float64 is not zero
// (1e-390 / 1e-400 is the valid constant 1e10). The predicates whose truth makes the type
// checker report "division by zero" call constant.Sign and no in-package conversion of a
// reflect.Value to a machine number.
func c03R10(ic *IC, r *Report) {
	info := ic.Info
	preds := map[*types.Func]token.Pos{}
	for _, name := range sortedKeys(ic.F) {
		fi := ic.F[name]
		if fi.Decl.Body == nil {
			continue
		}
		ast.Inspect(fi.Decl.Body, func(m ast.Node) bool {
			ifs, ok := m.(*ast.IfStmt)
			if !ok {
				return true
			}
			mentions := false
			ast.Inspect(ifs.Body, func(k ast.Node) bool {
				if bl, ok := k.(*ast.BasicLit); ok && bl.Kind == token.STRING && strings.Contains(bl.Value, "division by zero") {
					mentions = true
				}
				return true
			})
			if !mentions {
				return true
			}
			for _, c := range allCalls(ifs.Cond) {
				if f, ok := calleeOf(info, c).(*types.Func); ok && f.Pkg() == ic.Pk.Types {
					if sg := f.Type().(*types.Signature); sg.Results().Len() == 1 && types.Identical(sg.Results().At(0).Type(), types.Typ[types.Bool]) {
						// a predicate over a type (isInt(t reflect.Type)) says which dividends are
						// concerned, not whether the divisor is zero
						if sg.Params().Len() == 1 && types.TypeString(sg.Params().At(0).Type(), nil) == "reflect.Type" {
							continue
						}
						preds[f] = c.Pos()
					}
				}
			}
			return true
		})
	}
	if len(preds) == 0 {
		r.Errorf("R03.10: no predicate guarding a division-by-zero error found")
		return
	}
	var fs []*types.Func
	for f := range preds {
		fs = append(fs, f)
	}
	sort.Slice(fs, func(i, j int) bool { return fs[i].Pos() < fs[j].Pos() })
	for _, f := range fs {
		fi := ic.G.Funcs[f]
		if fi == nil || fi.Decl.Body == nil {
			continue
		}
		exact := len(callsIn(info, fi.Decl.Body, true, "go/constant.Sign", "go/constant.Compare")) > 0
		var machine []string
		for _, c := range allCalls(fi.Decl.Body) {
			g, ok := calleeOf(info, c).(*types.Func)
			if !ok {
				continue
			}
			sg := g.Type().(*types.Signature)
			if g.Pkg() == ic.Pk.Types && sg.Params().Len() == 1 && types.TypeString(sg.Params().At(0).Type(), nil) == "reflect.Value" && sg.Results().Len() == 1 {
				if b, ok := sg.Results().At(0).Type().Underlying().(*types.Basic); ok && b.Info()&types.IsNumeric != 0 {
					machine = append(machine, g.Name()+" at "+ic.pos(c.Pos()))
				}
			}
			switch objKey(g) {
			case "reflect.Value.Float", "reflect.Value.Complex", "reflect.Value.Int", "reflect.Value.Uint", "go/constant.Float64Val", "go/constant.Float32Val":
				machine = append(machine, shortKey(objKey(g))+" at "+ic.pos(c.Pos()))
			}
		}
		r.Check(exact && len(machine) == 0, "R03.10", funcName(fi.Decl)+"/zero-divisor-decided-exactly", ic.pos(fi.Decl.Pos()), "the zero test uses constant.Sign on the exact value",
			funcName(fi.Decl)+", whose truth makes the type checker report a division by zero, "+map[bool]string{true: "converts the constant to a machine number (" + strings.Join(machine, ", ") + ")", false: "uses neither constant.Sign nor constant.Compare"}[len(machine) > 0]+": a non-zero divisor below the smallest float64 underflows to 0 and the valid constant expression 1e-390 / 1e-400 is rejected")
	}
}

// c03R11: the length of [...]T{...} is one more than the highest element index, where an element
// without key takes the index *following the previous element* (not the highest index so far):
// [...]int{5: 1, 2: 3, 4} has length 6. In the function computing that length, the index
// given to an unkeyed element is not derived from the variable whose final value yields the
// result (the running maximum) - as the literal generator does, it follows a variable that is
// assigned for every element.
func c03R11(ic *IC, r *Report) {
	fi := ic.fn(r, "arrayTypeLen")
	if fi == nil {
		return
	}
	info := ic.Info
	// the running maximum: the variable of the final `return V + 1`
	var maxVar types.Object
	ast.Inspect(fi.Decl.Body, func(m ast.Node) bool {
		rs, ok := m.(*ast.ReturnStmt)
		if !ok || len(rs.Results) < 1 {
			return true
		}
		if be, ok := unparen(rs.Results[0]).(*ast.BinaryExpr); ok && be.Op == token.ADD {
			if id := identOf(be.X); id != nil {
				maxVar = info.ObjectOf(id)
			}
		}
		return true
	})
	if maxVar == nil {
		r.Errorf("R03.11: the running maximum of arrayTypeLen (return <max> + 1) was not identified")
		return
	}
	n := 0
	ast.Inspect(fi.Decl.Body, func(m ast.Node) bool {
		ifs, ok := m.(*ast.IfStmt)
		if !ok {
			return true
		}
		// the branch taken for an element without key: cond `c.kind != keyValueExpr`
		be, ok := unparen(ifs.Cond).(*ast.BinaryExpr)
		if !ok || be.Op != token.NEQ {
			return true
		}
		if id := identOf(be.Y); id == nil || id.Name != "keyValueExpr" {
			return true
		}
		n++
		fromMax := ""
		ast.Inspect(ifs.Body, func(k ast.Node) bool {
			as, ok := k.(*ast.AssignStmt)
			if !ok || len(as.Rhs) != 1 {
				return true
			}
			if b2, ok := unparen(as.Rhs[0]).(*ast.BinaryExpr); ok && b2.Op == token.ADD {
				if id := identOf(b2.X); id != nil && info.ObjectOf(id) == maxVar {
					fromMax = types.ExprString(as.Lhs[0]) + " = " + types.ExprString(as.Rhs[0]) + " at " + ic.pos(as.Pos())
				}
			}
			return true
		})
		r.Check(fromMax == "", "R03.11", "arrayTypeLen/unkeyed-element-follows-the-previous-one", ic.pos(ifs.Pos()), "the index of an unkeyed element is not derived from the running maximum",
			"arrayTypeLen gives an element without key the index following the highest index so far ("+fromMax+") instead of the index following the previous element: len([...]int{5: 1, 2: 3, 4}) is 7 where the Go specification gives 6, and the array type differs from the one the literal generator fills")
		return true
	})
	if n == 0 {
		r.Errorf("R03.11: the unkeyed-element branch (c.kind != keyValueExpr) of arrayTypeLen was not found")
	}
}
