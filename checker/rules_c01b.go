package main

import (
	"fmt"
	"go/ast"
	"go/token"
	"go/types"
	"strings"

	"golang.org/x/tools/go/cfg"
)

// R01.7: a return statement with several operands evaluates all of them before it sets any
// result. With named results the operands can name the results (return y, x), so a closure of
// the return generator that stores result i and then evaluates operand i+1 returns the wrong
// values. The sequential form is accepted where it cannot be reached with named results and
// several operands (guard on mustReturnValue / the operand count).

func c01R7(ic *IC, r *Report) {
	fi := ic.fn(r, "_return")
	if fi == nil {
		return
	}
	info := ic.Info
	dataFld := ic.field("frame", "data")
	if dataFld == nil {
		r.Errorf("anchor not resolved: frame.data")
		return
	}
	// the slice of operand generators: a local []func(*frame) reflect.Value
	isGen := func(t types.Type) bool {
		sig, ok := t.Underlying().(*types.Signature)
		return ok && sig.Params().Len() == 1 && isNamed(sig.Params().At(0).Type(), "frame") && sig.Results().Len() == 1 && types.TypeString(sig.Results().At(0).Type(), nil) == "reflect.Value"
	}
	gens := map[types.Object]bool{}     // variables holding one operand generator
	genSlice := map[types.Object]bool{} // slices of them
	ast.Inspect(fi.Decl.Body, func(n ast.Node) bool {
		id, ok := n.(*ast.Ident)
		if !ok {
			return true
		}
		o := info.ObjectOf(id)
		v, ok := o.(*types.Var)
		if !ok {
			return true
		}
		if isGen(v.Type()) {
			gens[o] = true
		} else if s, ok := v.Type().Underlying().(*types.Slice); ok && isGen(s.Elem()) {
			genSlice[o] = true
		}
		return true
	})
	if len(genSlice) == 0 {
		r.Errorf("R01.7: the slice of operand generators of the return generator was not identified")
		return
	}
	// reachability of the closure installations under the assumption: several operands, named results
	atom := func(e ast.Expr) int {
		switch v := e.(type) {
		case *ast.CallExpr:
			if f, ok := calleeOf(info, v).(*types.Func); ok && f.Pkg() == ic.Pk.Types && canonKey(f.Pkg(), shortKey(objKey(f))) == "interp.mustReturnValue" {
				return triFalse
			}
		case *ast.BinaryExpr:
			c, ok := unparen(v.X).(*ast.CallExpr)
			if !ok || len(c.Args) != 1 {
				return triUnknown
			}
			if id, ok := c.Fun.(*ast.Ident); !ok || id.Name != "len" {
				return triUnknown
			}
			tv, ok := info.Types[v.Y]
			if !ok || tv.Value == nil {
				return triUnknown
			}
			k := tv.Value.ExactString()
			switch {
			case v.Op == token.GTR && (k == "1" || k == "0"), v.Op == token.GEQ && (k == "2" || k == "1"), v.Op == token.NEQ && (k == "1" || k == "0"):
				return triTrue
			case v.Op == token.LSS && (k == "2" || k == "1"), v.Op == token.LEQ && (k == "1" || k == "0"), v.Op == token.EQL && (k == "1" || k == "0"):
				return triFalse
			}
		}
		return triUnknown
	}
	g := cfg.New(fi.Decl.Body, func(c *ast.CallExpr) bool { return !noReturn(info, c) })
	reach := map[*cfg.Block]bool{}
	var walk func(b *cfg.Block)
	walk = func(b *cfg.Block) {
		if reach[b] {
			return
		}
		reach[b] = true
		if len(b.Succs) == 2 && len(b.Nodes) > 0 {
			if cond, ok := b.Nodes[len(b.Nodes)-1].(ast.Expr); ok {
				switch evalCond(cond, atom) {
				case triTrue:
					walk(b.Succs[0])
					return
				case triFalse:
					walk(b.Succs[1])
					return
				}
			}
		}
		for _, s := range b.Succs {
			walk(s)
		}
	}
	if len(g.Blocks) > 0 {
		walk(g.Blocks[0])
	}
	installed := func(fl *ast.FuncLit) bool {
		for _, b := range g.Blocks {
			if !reach[b] {
				continue
			}
			for _, n := range b.Nodes {
				if n.Pos() <= fl.Pos() && fl.End() <= n.End() {
					return true
				}
			}
		}
		return false
	}
	nClosures, nMulti := 0, 0
	for _, fl := range (&c02ctx{ic: ic}).closuresOf(fi) {
		nClosures++
		var fparam types.Object
		if len(fl.Type.Params.List) > 0 && len(fl.Type.Params.List[0].Names) > 0 {
			fparam = info.ObjectOf(fl.Type.Params.List[0].Names[0])
		}
		isResultStore := func(call *ast.CallExpr) bool {
			se, ok := unparen(call.Fun).(*ast.SelectorExpr)
			if !ok || se.Sel.Name != "Set" {
				return false
			}
			ix, ok := unparen(se.X).(*ast.IndexExpr)
			if !ok || selField(info, ix.X) != dataFld {
				return false
			}
			id, ok := unparen(ix.X.(*ast.SelectorExpr).X).(*ast.Ident)
			return ok && info.ObjectOf(id) == fparam
		}
		isEval := func(call *ast.CallExpr) bool {
			switch fx := unparen(call.Fun).(type) {
			case *ast.Ident:
				return gens[info.ObjectOf(fx)]
			case *ast.IndexExpr:
				if id, ok := unparen(fx.X).(*ast.Ident); ok {
					return genSlice[info.ObjectOf(id)]
				}
			}
			return false
		}
		var stores, evals []*ast.CallExpr
		loops := false
		ast.Inspect(fl.Body, func(n ast.Node) bool {
			switch x := n.(type) {
			case *ast.CallExpr:
				if isResultStore(x) {
					stores = append(stores, x)
				}
				if isEval(x) {
					evals = append(evals, x)
				}
			case *ast.RangeStmt, *ast.ForStmt:
				loops = true
			}
			return true
		})
		if len(stores) == 0 || (len(stores) < 2 && !loops) {
			continue
		}
		nMulti++
		key := fmt.Sprintf("_return/closure#%d/operands-before-results", nMulti)
		if !installed(fl) {
			r.Pass("R01.7", key, ic.pos(fl.Pos()), "sequential form, not installed when several operands are returned from a function with named results")
			continue
		}
		fg := buildFlow(fl.Body, info)
		var bad []string
		for _, s := range stores {
			for _, e := range evals {
				if e.Pos() >= s.Pos() && e.End() <= s.End() {
					// the operand evaluated as the argument of this very store: evaluated before it
					// is stored, but it is a later evaluation for every earlier store
					continue
				}
				if re, ok := fg.reaches(s, e); ok && re {
					bad = append(bad, "operand evaluated at "+ic.pos(e.Pos())+" after the result store at "+ic.pos(s.Pos()))
				}
			}
			// a store inside a loop that also evaluates: the next iteration evaluates after this store
			for _, e := range evals {
				if e.Pos() >= s.Pos() && e.End() <= s.End() && loops {
					if re, ok := fg.reaches(s, s); ok && re {
						bad = append(bad, "the loop at "+ic.pos(s.Pos())+" stores a result and evaluates the next operand in turn")
					}
				}
			}
		}
		r.Check(len(bad) == 0, "R01.7", key, ic.pos(fl.Pos()), "every operand is evaluated (into a temporary) before the first result is set",
			strings.Join(dedupStr(bad), "; ")+": with named results an operand can be a result variable, so func f() (x, y int) { ...; return y, x } returns y, y")
	}
	if nMulti < 1 {
		r.Errorf("R01.7: %d closures of the return generator set several results (of %d closures); at least 1 expected", nMulti, nClosures)
	}
}
