#!/usr/bin/env python3
"""Validate MANIFEST.json and evidence files against the harness schemas."""
import json, sys, glob, os
try:
    import jsonschema
except ImportError:
    sys.path.insert(0, '/opt/veriftools/pyvenv/lib/python3.11/site-packages')
    import jsonschema
V = os.path.dirname(os.path.dirname(os.path.abspath(__file__)))
m = json.load(open(V + '/MANIFEST.json'))
jsonschema.validate(m, json.load(open('/root/.vp/MANIFEST.schema.json')))
es = json.load(open('/root/.vp/EVIDENCE.schema.json'))
ids = [l for l in (json.loads(x)['id'] for x in open(V + '/properties.jsonl'))]
claimed = [c['property_id'] for c in m['checks']]
na = [c['property_id'] for c in m.get('not_applicable', [])]
assert sorted(claimed + na) == sorted(ids), (sorted(claimed + na), 'must cover every property exactly once')
for c in m['checks']:
    p = V + '/evidence/%s.json' % c['property_id']
    if os.path.exists(p):
        e = json.load(open(p))
        jsonschema.validate(e, es)
        assert e['level'] == c['level_claimed']['category'], c['property_id']
    else:
        print('no evidence yet for', c['property_id'])
print('manifest ok: claimed', claimed, 'not_applicable', na)
