#!/bin/sh
# Entry point of every registered command: (re)builds the checker from /verif/checker when
# needed and runs it against /repo's current working tree. Everything is offline.
set -e
VERIF="$(cd "$(dirname "$0")" && pwd)"
export GOFLAGS=-mod=mod GOPROXY=off GOSUMDB=off GOTOOLCHAIN=local CGO_ENABLED=0
unset GOWORK GOOS GOARCH
mkdir -p "$VERIF/bin"
( cd "$VERIF/checker" && go build -o "$VERIF/bin/yverif" . ) || { echo "VIOLATION property=${2:-unknown} replay=$VERIF/checker (checker build failed)"; exit 1; }
exec "$VERIF/bin/yverif" "$@"
