package main

import (
	"bufio"
	"fmt"
	"go/ast"
	"go/build/constraint"
	"go/constant"
	"go/token"
	"go/types"
	"math/big"
	"os"
	"path"
	"path/filepath"
	"regexp"
	"runtime"
	"sort"
	"strconv"
	"strings"
	"sync"

	"golang.org/x/tools/go/packages"
)

func init() {
	register("C14", &propMeta{
		Level: "translation_validation",
		Explanation: "Complete validation of the committed output of the extract translator (the binding tables under stdlib/) against its input (the Go standard library as type-checked by go/types, and GOROOT/api for per-release deltas): " +
			"R14.1 every entry denotes the identically named object of its package in one of the generated forms (function/typed constant by value, variable by address, type by nil pointer, untyped constant by a literal of exactly the same value); " +
			"R14.3 the set of bound names equals the exported non-generic package-level objects of the package for the release in the file name; R14.4 keys, duplicates and build-constraint headers; " +
			"R14.5 every interface wrapper has exactly the interface's exported methods as same-named W-fields of identical signature and each method forwards its parameters in order to that field.",
		Assumptions: []string{
			"go/types, go/constant and GOROOT/api of the installed Go 1.23.5 toolchain are the reference; a go1.21/go1.22 symbol denotes the same object in the installed library (Go 1 compatibility)",
			"reflect.ValueOf / constant.MakeFromLiteral behave as documented (the run-time content of stdlib.Symbols is what these init functions build)",
		},
		Run: runC14,
	})
	ruleText["R14.1"] = "Symbols[\"importpath/name\"][N] is reflect.ValueOf(p.N) for a func or typed/bool/complex constant, reflect.ValueOf(&p.N).Elem() for a variable, reflect.ValueOf((*p.N)(nil)) for a type, or reflect.ValueOf(constant.MakeFromLiteral(lit, kind, 0)) with lit exactly equal to the untyped constant p.N (or the exact fraction constant.BinaryOp(num, token.QUO, den) for an untyped float constant without finite decimal form); p resolves to importpath; the only other accepted form is a replacement listed in extract.restricted"
	ruleText["R14.3"] = "for each wrapped package and release: bound names = exported, non-generic, non-constraint package-level objects of the installed library minus objects first declared by GOROOT/api files of later releases"
	ruleText["R14.4"] = "the table key is importpath + \"/\" + the package's declared name; a key is assigned once per build configuration; the build constraint of a go1_NN_ file selects exactly release NN (go1_21) or >= NN (go1_22)"
	ruleText["R14.6"] = "every use of a package's Symbols variable is a validated binding statement (Symbols[\"k\"] = map literal, Symbols[\"k\"][\"N\"] = v with constant keys), the self-description reflect.ValueOf(Symbols), or a read of an entry value: no write under computed keys, delete, reassignment or map-typed alias"
	ruleText["R14.7"] = "same analysis as C13/R13.6: every map stored into Interpreter.binPkg[k] is created by the storing function, never a map of the Exports argument - the per-interpreter re-bindings of fixStdlib cannot reach the shipped tables"
	ruleText["R14.5"] = "wrapper struct: field 0 is IValue interface{}, the other fields are exactly W<M> for each exported method M of the interface (for the file's release), typed identically to M's signature; method M of the wrapper has that signature and its body is a single call W.W<M>(params in order[, last...]) returned iff M has results (the nil guard on String is the one accepted extra statement)"
}

// c14ReleaseDrift lists constants whose value changed between the release of a table and
// the installed library (the only reference available): they cannot be judged here.
// Keyed release/platform/package.Name, one line of reason each.
var c14ReleaseDrift = map[string]string{
	"go1.21/js-wasm/syscall.SOMAXCONN":     "syscall/net_fake.go was rewritten in go1.22 (fake network for js/wasip1): the go1.22 table of the same platform binds the library's value",
	"go1.21/js-wasm/syscall.SO_ERROR":      "syscall/net_fake.go was rewritten in go1.22: the go1.22 table of the same platform binds the library's value",
	"go1.21/wasip1-wasm/syscall.SOMAXCONN": "syscall/net_fake.go was rewritten in go1.22: the go1.22 table of the same platform binds the library's value",
	"go1.21/wasip1-wasm/syscall.SO_ERROR":  "syscall/net_fake.go was rewritten in go1.22: the go1.22 table of the same platform binds the library's value",
}

var stdlibPatterns = []string{"./stdlib", "./stdlib/unsafe", "./stdlib/syscall", "./stdlib/unrestricted"}

// readRepoFile reads a repository file through the selftest overlay.
func (c *Config) readRepoFile(p string) ([]byte, error) {
	if b, ok := c.Overlay[p]; ok {
		return b, nil
	}
	return os.ReadFile(p)
}

var (
	reGoBuild21  = regexp.MustCompile(`(?m)^//go:build go1\.21 && !go1\.22`)
	rePlusBuild1 = regexp.MustCompile(`(?m)^// \+build go1\.21,!go1\.22`)
)

// releaseOverlay makes the go1_<rel>_ files the active ones whatever the installed
// toolchain is, by rewriting only their constraint lines.
func releaseOverlay(c *Config, rel int, dirs []string) (map[string][]byte, error) {
	ov := map[string][]byte{}
	for _, d := range dirs {
		ents, err := os.ReadDir(d)
		if err != nil {
			return nil, err
		}
		for _, e := range ents {
			n := e.Name()
			if !strings.HasSuffix(n, ".go") || !strings.HasPrefix(n, "go1_") {
				continue
			}
			p := filepath.Join(d, n)
			b, err := c.readRepoFile(p)
			if err != nil {
				return nil, err
			}
			s := string(b)
			mine := strings.HasPrefix(n, fmt.Sprintf("go1_%d_", rel))
			// only touch the header (before the package clause)
			i := strings.Index(s, "\npackage ")
			if i < 0 {
				continue
			}
			head, rest := s[:i], s[i:]
			if mine {
				head = strings.Replace(head, " && !go1.22", "", 1)
				head = strings.Replace(head, ",!go1.22", "", 1)
			} else {
				head = strings.ReplaceAll(head, "go1.22", "yverifnever")
				head = strings.ReplaceAll(head, "go1.21", "yverifnever")
			}
			if head+rest != s {
				ov[p] = []byte(head + rest)
			}
		}
	}
	return ov, nil
}

type binding struct {
	table      string // "importpath/name"
	importPath string
	name       string
	val        ast.Expr
	pk         *packages.Package
	file       string
	generated  bool
}

// collectBindings finds Symbols["k"] = map[string]reflect.Value{...} and Symbols["k"]["n"] = v.
func collectBindings(pk *packages.Package, prog *Prog) (out []binding, tables map[string][]token.Pos) {
	tables = map[string][]token.Pos{}
	for i, f := range pk.Syntax {
		fname := pk.CompiledGoFiles[i]
		gen := false
		for _, cg := range f.Comments {
			if cg.Pos() < f.Package && strings.Contains(cg.Text(), "Code generated by 'yaegi extract") {
				gen = true
			}
		}
		ast.Inspect(f, func(n ast.Node) bool {
			as, ok := n.(*ast.AssignStmt)
			if !ok || len(as.Lhs) != 1 || len(as.Rhs) != 1 {
				return true
			}
			ix, ok := as.Lhs[0].(*ast.IndexExpr)
			if !ok {
				return true
			}
			str := func(e ast.Expr) (string, bool) {
				if tv, ok := pk.TypesInfo.Types[e]; ok && tv.Value != nil && tv.Value.Kind() == constant.String {
					return constant.StringVal(tv.Value), true
				}
				return "", false
			}
			isSymbols := func(e ast.Expr) bool {
				id, ok := e.(*ast.Ident)
				return ok && id.Name == "Symbols" && pk.TypesInfo.ObjectOf(id) != nil && pk.TypesInfo.ObjectOf(id).Parent() == pk.Types.Scope()
			}
			if isSymbols(ix.X) {
				k, ok := str(ix.Index)
				if !ok {
					return true
				}
				cl, ok := as.Rhs[0].(*ast.CompositeLit)
				if !ok {
					return true
				}
				tables[k] = append(tables[k], as.Pos())
				for _, e := range cl.Elts {
					kv, ok := e.(*ast.KeyValueExpr)
					if !ok {
						continue
					}
					name, ok := str(kv.Key)
					if !ok {
						continue
					}
					out = append(out, binding{table: k, importPath: path.Dir(k), name: name, val: kv.Value, pk: pk, file: fname, generated: gen})
				}
				return true
			}
			if inner, ok := ix.X.(*ast.IndexExpr); ok && isSymbols(inner.X) {
				k, ok1 := str(inner.Index)
				name, ok2 := str(ix.Index)
				if ok1 && ok2 {
					out = append(out, binding{table: k, importPath: path.Dir(k), name: name, val: as.Rhs[0], pk: pk, file: fname, generated: gen})
				}
			}
			return true
		})
	}
	return
}

// restrictedNames reads the keys of extract.restricted from extract/extract.go.
func restrictedNames(c *Config) (map[string]bool, error) {
	p, err := c.load(loadOpts{patterns: []string{"./extract"}})
	if err != nil {
		return nil, err
	}
	out := map[string]bool{}
	pk := p.Pkgs[0]
	for _, f := range pk.Syntax {
		for _, d := range f.Decls {
			gd, ok := d.(*ast.GenDecl)
			if !ok {
				continue
			}
			for _, s := range gd.Specs {
				vs, ok := s.(*ast.ValueSpec)
				if !ok || len(vs.Names) != 1 || vs.Names[0].Name != "restricted" || len(vs.Values) != 1 {
					continue
				}
				if cl, ok := vs.Values[0].(*ast.CompositeLit); ok {
					for _, e := range cl.Elts {
						if kv, ok := e.(*ast.KeyValueExpr); ok {
							if tv, ok := pk.TypesInfo.Types[kv.Key]; ok && tv.Value != nil {
								out[constant.StringVal(tv.Value)] = true
							}
						}
					}
				}
			}
		}
	}
	if len(out) == 0 {
		return nil, fmt.Errorf("extract.restricted not found or empty")
	}
	return out, nil
}

// valueOfArg returns the argument of reflect.ValueOf(x), or nil.
func valueOfArg(info *types.Info, e ast.Expr) ast.Expr {
	call, ok := unparen(e).(*ast.CallExpr)
	if !ok || len(call.Args) != 1 || !isCallTo(info, call, "reflect.ValueOf") {
		return nil
	}
	return unparen(call.Args[0])
}

type c14ctx struct {
	c          *Config
	r          *Report
	prog       *Prog
	release    int
	platform   string // GOOS-GOARCH
	restricted map[string]bool
	api        *apiDB
	cfgKey     string // release/platform prefix of obligation keys for non-host configurations
	mu         *sync.Mutex
	stats      *c14stats
	rebinds    map[string]bool // "importpath.Name" re-bound by fixStdlib from the host's own constant of that name
}

type c14stats struct {
	bindings, tables, wrappers, constants, names int
	samples                                      []map[string]string
}

func (x *c14ctx) pass(rule, key, pos, detail string) {
	x.mu.Lock()
	defer x.mu.Unlock()
	x.r.Pass(rule, x.cfgKey+key, pos, detail)
}
func (x *c14ctx) fail(rule, key, pos, detail string) {
	x.mu.Lock()
	defer x.mu.Unlock()
	x.r.Fail(rule, x.cfgKey+key, pos, detail)
}

// targetPkg finds the types.Package of importPath among the imports of pk.
func targetPkg(pk *packages.Package, importPath string) *types.Package {
	if imp := pk.Imports[importPath]; imp != nil && imp.Types != nil {
		return imp.Types
	}
	return nil
}

// checkDenotation decides R14.1 for one binding. It returns the form name.
func (x *c14ctx) checkDenotation(b binding) (form string, ok bool, msg string) {
	info := b.pk.TypesInfo
	tp := targetPkg(b.pk, b.importPath)
	arg := valueOfArg(info, b.val)
	if call, isCall := unparen(b.val).(*ast.CallExpr); isCall && arg == nil {
		// reflect.ValueOf(&p.N).Elem()
		if se, ok := unparen(call.Fun).(*ast.SelectorExpr); ok && se.Sel.Name == "Elem" && isCallTo(info, call, "reflect.Value.Elem") {
			inner := valueOfArg(info, se.X)
			if u, ok := inner.(*ast.UnaryExpr); ok && u.Op == token.AND {
				obj := qualifiedObj(info, u.X)
				if obj == nil {
					return "var", false, "operand of & is not a package-qualified identifier"
				}
				v, isVar := obj.(*types.Var)
				if !isVar {
					return "var", false, fmt.Sprintf("&%s is not a variable", obj.Name())
				}
				return "var", v.Pkg() != nil && v.Pkg().Path() == b.importPath && v.Name() == b.name,
					fmt.Sprintf("entry %q is bound to the address of %s.%s", b.name, v.Pkg().Path(), v.Name())
			}
		}
		return "other", false, "value is not one of the generated forms: " + types.ExprString(b.val)
	}
	if arg == nil {
		return "other", false, "value is not reflect.ValueOf(...): " + types.ExprString(b.val)
	}
	// wrapper entries "_N"
	if strings.HasPrefix(b.name, "_") {
		return "wrapper", true, ""
	}
	switch a := arg.(type) {
	case *ast.CallExpr:
		// (*p.N)(nil)
		if len(a.Args) == 1 {
			if id, ok := unparen(a.Args[0]).(*ast.Ident); ok && id.Name == "nil" {
				if st, ok := unparen(a.Fun).(*ast.StarExpr); ok {
					obj := qualifiedObj(info, st.X)
					if id, ok := unparen(st.X).(*ast.Ident); ok && obj == nil {
						// a replacement type provided by the binding package (logLogger for log.Logger)
						if lo := info.ObjectOf(id); lo != nil && lo.Pkg() == b.pk.Types && x.restricted[id.Name] {
							want := path.Base(b.importPath) + b.name
							return "restricted", id.Name == want, fmt.Sprintf("restricted replacement %s is bound under %s.%s (it stands for %s)", id.Name, b.importPath, b.name, want)
						}
					}
					tn, isTN := obj.(*types.TypeName)
					if !isTN {
						return "type", false, "(*X)(nil): X is not a package-qualified type name"
					}
					return "type", tn.Pkg() != nil && tn.Pkg().Path() == b.importPath && tn.Name() == b.name,
						fmt.Sprintf("entry %q is bound to type %s.%s", b.name, tn.Pkg().Path(), tn.Name())
				}
			}
		}
		// constant.BinaryOp(MakeFromLiteral(num, INT, 0), token.QUO, MakeFromLiteral(den, INT, 0)):
		// the exact fraction of an untyped float constant without finite decimal representation
		if isCallTo(info, a, "go/constant.BinaryOp") && len(a.Args) == 3 {
			if tp == nil {
				return "const", false, "package " + b.importPath + " is not imported by the binding file"
			}
			obj, _ := tp.Scope().Lookup(b.name).(*types.Const)
			bt, _ := types.Type(nil).(*types.Basic)
			if obj != nil {
				bt, _ = obj.Type().(*types.Basic)
			}
			if obj == nil || bt == nil || bt.Kind() != types.UntypedFloat {
				return "const", false, fmt.Sprintf("%s.%s is not an untyped float constant but is bound as a fraction", b.importPath, b.name)
			}
			part := func(e ast.Expr) (constant.Value, bool) {
				c, ok := unparen(e).(*ast.CallExpr)
				if !ok || !isCallTo(info, c, "go/constant.MakeFromLiteral") || len(c.Args) != 3 {
					return nil, false
				}
				ltv, ok1 := info.Types[c.Args[0]]
				ktv, ok2 := info.Types[c.Args[1]]
				if !ok1 || !ok2 || ltv.Value == nil || ktv.Value == nil {
					return nil, false
				}
				k, _ := constant.Int64Val(ktv.Value)
				v := constant.MakeFromLiteral(constant.StringVal(ltv.Value), token.Token(k), 0)
				return v, v.Kind() == constant.Int
			}
			num, ok1 := part(a.Args[0])
			den, ok2 := part(a.Args[2])
			optv, ok3 := info.Types[a.Args[1]]
			if !ok1 || !ok2 || !ok3 || optv.Value == nil {
				return "const", false, "fraction form: numerator, denominator or operator is not a constant integer literal"
			}
			op, _ := constant.Int64Val(optv.Value)
			if token.Token(op) != token.QUO || constant.Sign(den) == 0 {
				return "const", false, "fraction form: the operator is not token.QUO or the denominator is zero"
			}
			got := constant.BinaryOp(num, token.QUO, den)
			if !constant.Compare(constant.ToFloat(got), token.EQL, constant.ToFloat(obj.Val())) {
				return "const", false, fmt.Sprintf("%s.%s: bound fraction %s differs from the constant's exact value %s", b.importPath, b.name, fmtConst(got), fmtConst(obj.Val()))
			}
			return "const", true, ""
		}
		// constant.MakeFromLiteral(lit, token.K, 0)
		if isCallTo(info, a, "go/constant.MakeFromLiteral") && len(a.Args) == 3 {
			if tp == nil {
				return "const", false, "package " + b.importPath + " is not imported by the binding file: cannot resolve the constant"
			}
			obj, _ := tp.Scope().Lookup(b.name).(*types.Const)
			if obj == nil {
				return "const", false, fmt.Sprintf("%s.%s is not a constant of the library", b.importPath, b.name)
			}
			bt, _ := obj.Type().(*types.Basic)
			if bt == nil || bt.Info()&types.IsUntyped == 0 {
				return "const", false, fmt.Sprintf("%s.%s is a typed constant (%s) but is bound as an untyped literal: its type is lost", b.importPath, b.name, obj.Type())
			}
			litTV, ok1 := info.Types[a.Args[0]]
			kindTV, ok2 := info.Types[a.Args[1]]
			if !ok1 || !ok2 || litTV.Value == nil || kindTV.Value == nil {
				return "const", false, "literal or kind is not a constant expression"
			}
			k, _ := constant.Int64Val(kindTV.Value)
			lit := constant.StringVal(litTV.Value)
			got := constant.MakeFromLiteral(lit, token.Token(k), 0)
			if got.Kind() == constant.Unknown {
				return "const", false, fmt.Sprintf("literal %q of kind %s does not parse", lit, token.Token(k))
			}
			want := obj.Val()
			wantKind := map[constant.Kind]token.Token{constant.Int: token.INT, constant.Float: token.FLOAT, constant.String: token.STRING}[want.Kind()]
			if bt.Kind() == types.UntypedRune {
				wantKind = token.INT // extract prints runes as INT
			}
			if bt.Kind() == types.UntypedFloat {
				wantKind = token.FLOAT
				if want.Kind() == constant.Int {
					want = constant.ToFloat(want)
				}
			}
			if token.Token(k) != wantKind && !(bt.Kind() == types.UntypedFloat && token.Token(k) == token.FLOAT) {
				// an integer-valued untyped float constant printed as INT would change its default type
				if !(want.Kind() == got.Kind()) {
					return "const", false, fmt.Sprintf("kind token.%s does not match the constant's kind %s", token.Token(k), bt.Name())
				}
			}
			if bt.Kind() == types.UntypedFloat && got.Kind() == constant.Int {
				return "const", false, fmt.Sprintf("untyped float constant %s.%s is bound as an integer literal: its default type becomes int", b.importPath, b.name)
			}
			if bt.Kind() == types.UntypedInt || bt.Kind() == types.UntypedRune {
				if got.Kind() != constant.Int {
					return "const", false, fmt.Sprintf("untyped integer constant %s.%s is bound as a %s literal", b.importPath, b.name, token.Token(k))
				}
			}
			if !constant.Compare(constant.ToFloat(got), token.EQL, constant.ToFloat(want)) && !(got.Kind() == constant.String && want.Kind() == constant.String && constant.StringVal(got) == constant.StringVal(want)) {
				g, w := fmtConst(got), fmtConst(want)
				return "const", false, fmt.Sprintf("%s.%s: bound literal %s differs from the constant's exact value %s", b.importPath, b.name, g, w)
			}
			return "const", true, ""
		}
		return "other", false, "value is not one of the generated forms: " + types.ExprString(b.val)
	case *ast.SelectorExpr:
		obj := qualifiedObj(info, a)
		if obj == nil {
			return "value", false, "not a package-qualified identifier: " + types.ExprString(a)
		}
		same := obj.Pkg() != nil && obj.Pkg().Path() == b.importPath && obj.Name() == b.name
		switch o := obj.(type) {
		case *types.Func:
			return "func", same, fmt.Sprintf("entry %q is bound to function %s.%s", b.name, obj.Pkg().Path(), obj.Name())
		case *types.Const:
			bt, _ := o.Type().(*types.Basic)
			if bt != nil && bt.Info()&types.IsUntyped != 0 {
				switch bt.Kind() {
				case types.UntypedBool, types.UntypedComplex:
					// extract keeps these by name
				default:
					return "const", false, fmt.Sprintf("untyped constant %s.%s is bound by name: it takes its default type and loses exactness", obj.Pkg().Path(), obj.Name())
				}
			}
			return "typedconst", same, fmt.Sprintf("entry %q is bound to constant %s.%s", b.name, obj.Pkg().Path(), obj.Name())
		case *types.Var:
			return "var", false, fmt.Sprintf("variable %s.%s is bound by value (a copy taken at init time), not by address", obj.Pkg().Path(), obj.Name())
		}
		return "value", false, "unexpected object kind"
	case *ast.Ident:
		// a replacement provided by the binding package itself
		obj := info.ObjectOf(a)
		if obj == nil || obj.Pkg() != b.pk.Types {
			return "local", false, "identifier does not resolve to the binding package"
		}
		if x.restricted[a.Name] {
			// osExit stands for os.Exit: the name encodes package + symbol.
			want := path.Base(b.importPath) + b.name
			return "restricted", a.Name == want, fmt.Sprintf("restricted replacement %s is bound under %s.%s (it stands for %s)", a.Name, b.importPath, b.name, want)
		}
		if !b.generated {
			return "handwritten", true, "hand-written emulation " + a.Name
		}
		return "local", false, fmt.Sprintf("generated table binds %q to the local object %s, which is not a documented restricted replacement", b.name, a.Name)
	case *ast.FuncLit:
		if !b.generated {
			return "handwritten", true, "hand-written function literal"
		}
	}
	return "other", false, "value is not one of the generated forms: " + types.ExprString(b.val)
}

// qualifiedObj resolves p.N where p is an imported package name.
func qualifiedObj(info *types.Info, e ast.Expr) types.Object {
	se, ok := unparen(e).(*ast.SelectorExpr)
	if !ok {
		return nil
	}
	id, ok := se.X.(*ast.Ident)
	if !ok {
		return nil
	}
	if _, ok := info.Uses[id].(*types.PkgName); !ok {
		return nil
	}
	return info.Uses[se.Sel]
}

// ---- api deltas ---------------------------------------------------------------------

type apiFeature struct {
	pkg, platform, name, method string // method: interface method name for "type T interface, M(...)" lines
}

type apiDB struct {
	byRelease map[int][]apiFeature
	contexts  map[string]bool
	latest    int
}

var reAPI = regexp.MustCompile(`^pkg ([^ ,]+)(?: \(([^)]+)\))?, (const|func|var|type|method) (.*)$`)

func loadAPI() (*apiDB, error) {
	root := runtime.GOROOT()
	if gr := os.Getenv("GOROOT"); gr != "" {
		root = gr
	}
	dir := filepath.Join(root, "api")
	db := &apiDB{byRelease: map[int][]apiFeature{}, contexts: map[string]bool{}}
	ents, err := os.ReadDir(dir)
	if err != nil {
		return nil, err
	}
	for _, e := range ents {
		n := e.Name()
		if !strings.HasPrefix(n, "go1") || !strings.HasSuffix(n, ".txt") {
			continue
		}
		rel := 0
		if n != "go1.txt" {
			v, err := strconv.Atoi(strings.TrimSuffix(strings.TrimPrefix(n, "go1."), ".txt"))
			if err != nil {
				continue
			}
			rel = v
		}
		if rel > db.latest {
			db.latest = rel
		}
		f, err := os.Open(filepath.Join(dir, n))
		if err != nil {
			return nil, err
		}
		sc := bufio.NewScanner(f)
		sc.Buffer(make([]byte, 1<<20), 1<<20)
		for sc.Scan() {
			line := sc.Text()
			if i := strings.Index(line, " #"); i >= 0 {
				line = line[:i]
			}
			line = strings.TrimSuffix(strings.TrimSpace(line), " //deprecated")
			m := reAPI.FindStringSubmatch(line)
			if m == nil {
				continue
			}
			ft := apiFeature{pkg: m[1], platform: m[2]}
			if m[2] != "" {
				db.contexts[strings.TrimSuffix(m[2], "-cgo")] = true
			}
			rest := m[4]
			switch m[3] {
			case "method":
				continue
			case "type":
				// "T struct", "T interface, M(...) R", "T interface { ... }", "T[$0 any] struct"
				parts := strings.SplitN(rest, " ", 2)
				ft.name = parts[0]
				if len(parts) == 2 && strings.HasPrefix(parts[1], "interface, ") {
					mm := strings.TrimPrefix(parts[1], "interface, ")
					if i := strings.Index(mm, "("); i > 0 {
						ft.method = mm[:i]
					}
				}
			default:
				i := strings.IndexAny(rest, " (=[")
				if i < 0 {
					i = len(rest)
				}
				ft.name = rest[:i]
			}
			if i := strings.Index(ft.name, "["); i >= 0 {
				ft.name = ft.name[:i]
			}
			db.byRelease[rel] = append(db.byRelease[rel], ft)
		}
		f.Close()
	}
	if len(db.byRelease) < 20 {
		return nil, fmt.Errorf("GOROOT/api: only %d release files parsed", len(db.byRelease))
	}
	return db, nil
}

// addedAfter returns the names (and interface methods) of pkg first described by api files
// of releases > rel, for the given platform.
func (db *apiDB) addedAfter(rel int, pkg, platform string) (names map[string]bool, methods map[string]map[string]bool) {
	names = map[string]bool{}
	methods = map[string]map[string]bool{}
	old := map[string]bool{}
	oldM := map[string]bool{}
	match := func(p string) bool {
		return p == "" || strings.TrimSuffix(p, "-cgo") == platform
	}
	for r, fs := range db.byRelease {
		if r > rel {
			continue
		}
		for _, f := range fs {
			if f.pkg == pkg && match(f.platform) {
				if f.method == "" {
					old[f.name] = true
				} else {
					old[f.name] = true
					oldM[f.name+"."+f.method] = true
				}
			}
		}
	}
	for r, fs := range db.byRelease {
		if r <= rel {
			continue
		}
		for _, f := range fs {
			if f.pkg != pkg || !match(f.platform) {
				continue
			}
			if f.method != "" {
				if !oldM[f.name+"."+f.method] && old[f.name] {
					if methods[f.name] == nil {
						methods[f.name] = map[string]bool{}
					}
					methods[f.name][f.method] = true
				}
			}
			if !old[f.name] {
				names[f.name] = true
			}
		}
	}
	return
}

// ---- the run ---------------------------------------------------------------------------

func runC14(c *Config, r *Report) {
	restricted, err := restrictedNames(c)
	if err != nil {
		r.Errorf("%v", err)
		return
	}
	api, err := loadAPI()
	if err != nil {
		r.Errorf("%v", err)
		return
	}
	stats := &c14stats{}
	mu := &sync.Mutex{}
	rebinds := map[string]bool{}
	if ic, err := loadInterp(c, true); err != nil {
		r.Errorf("%v", err)
		return
	} else if _, ovs := fixStdlibOverrides(ic, r); ovs != nil {
		// R14.7: the interpreter works on its own copy of the tables: Use and the per-interpreter
		// re-binding (fixStdlib) never write into the shipped maps (same analysis as C13/R13.6)
		checkBinPkgOwnership(ic, r, "R14.7")
		for _, o := range ovs {
			if cst := hostConstRebind(ic, o.val); cst != nil && cst.Pkg() != nil && cst.Pkg().Path() == o.pkgPath && cst.Name() == o.name {
				rebinds[o.pkgPath+"."+o.name] = true
			}
		}
		r.Info["constants_rebound_from_host_by_fixStdlib"] = sortedKeys(rebinds)
		c14R8(ic, r, ovs)
	}
	dirs := []string{}
	for _, p := range stdlibPatterns {
		dirs = append(dirs, filepath.Join(c.Repo, p))
	}
	host := runtime.GOOS + "-" + runtime.GOARCH
	type job struct {
		rel      int
		platform string
		patterns []string
		hostCfg  bool
	}
	jobs := []job{{22, host, stdlibPatterns, true}, {21, host, stdlibPatterns, true}}
	if c.Tier == "thorough" {
		plats := map[string]bool{}
		ents, _ := os.ReadDir(filepath.Join(c.Repo, "stdlib/syscall"))
		re := regexp.MustCompile(`^go1_2[12]_syscall_([a-z0-9]+)_([a-z0-9]+)\.go$`)
		for _, e := range ents {
			if m := re.FindStringSubmatch(e.Name()); m != nil {
				plats[m[1]+"-"+m[2]] = true
			}
		}
		for _, p := range sortedKeys(plats) {
			if p == host {
				continue
			}
			jobs = append(jobs, job{22, p, []string{"./stdlib/syscall", "./stdlib/unrestricted", "./stdlib"}, false}, job{21, p, []string{"./stdlib/syscall", "./stdlib/unrestricted", "./stdlib"}, false})
		}
		r.Info["platforms"] = len(plats)
	}
	var wg sync.WaitGroup
	sem := make(chan struct{}, 6)
	configs := []string{}
	for _, j := range jobs {
		configs = append(configs, fmt.Sprintf("go1.%d/%s", j.rel, j.platform))
		wg.Add(1)
		go func(j job) {
			defer wg.Done()
			sem <- struct{}{}
			defer func() { <-sem }()
			defer func() {
				if e := recover(); e != nil {
					mu.Lock()
					r.Errorf("internal error validating go1.%d/%s: %v\n%s", j.rel, j.platform, e, stack())
					mu.Unlock()
				}
			}()
			ov, err := releaseOverlay(c, j.rel, dirs)
			if err != nil {
				mu.Lock()
				r.Errorf("%v", err)
				mu.Unlock()
				return
			}
			var env []string
			if !j.hostCfg {
				parts := strings.SplitN(j.platform, "-", 2)
				env = []string{"GOOS=" + parts[0], "GOARCH=" + parts[1]}
			}
			prog, err := c.load(loadOpts{patterns: j.patterns, overlay: ov, env: env, noExport: !j.hostCfg})
			if err != nil {
				mu.Lock()
				r.Errorf("go1.%d/%s: %v", j.rel, j.platform, err)
				mu.Unlock()
				return
			}
			x := &c14ctx{c: c, r: r, prog: prog, release: j.rel, platform: j.platform, restricted: restricted, api: api, mu: mu, stats: stats, rebinds: rebinds}
			x.cfgKey = fmt.Sprintf("go1.%d/", j.rel)
			if !j.hostCfg {
				x.cfgKey = fmt.Sprintf("go1.%d/%s/", j.rel, j.platform)
			}
			x.validate(j.hostCfg)
		}(j)
	}
	wg.Wait()
	r.Info["configurations"] = configs
	r.Info["programs"] = stats.tables
	r.Info["bindings_validated"] = stats.bindings
	r.Info["wrappers_validated"] = stats.wrappers
	r.Info["untyped_constants_compared"] = stats.constants
	r.Info["names_checked_for_completeness"] = stats.names
	nd := 0
	for _, o := range r.Obls {
		if !o.OK {
			nd++
		}
	}
	r.Info["disagreements_checked"] = nd
	r.Info["exhaustive"] = true
	r.Info["binding_samples"] = stats.samples
	if stats.bindings < 5000 || stats.wrappers < 100 || stats.tables < 100 {
		r.Errorf("C14: only %d bindings, %d wrappers, %d tables validated (expected > 16000, > 350, > 300 on the host configuration)", stats.bindings, stats.wrappers, stats.tables)
	}
	c14Headers(c, r, dirs)
}

func (x *c14ctx) validate(hostCfg bool) {
	type tableInfo struct {
		names map[string]bool
		pos   string
		pk    *packages.Package
		file  string
	}
	allTables := map[string]*tableInfo{}
	for _, pk := range x.prog.Pkgs {
		if !hostCfg && strings.HasSuffix(pk.PkgPath, "/stdlib") {
			// foreign platforms: only the platform-dependent tables of package stdlib would differ
			// (log/syslog, os/signal...); they are validated through the same code below.
		}
		bs, tables := collectBindings(pk, x.prog)
		pkgShort := shortKey(pk.PkgPath)
		if hostCfg {
			x.checkTableWriters(pk)
		}
		// The files of package stdlib carry no GOOS/GOARCH constraint (except log/syslog): on a
		// foreign configuration their obligations are merged with the host's (same key), so that
		// only facts that differ between platforms appear as new constructs.
		saved := x.cfgKey
		if !hostCfg && strings.HasSuffix(pk.PkgPath, "/stdlib") {
			x.cfgKey = fmt.Sprintf("go1.%d/", x.release)
		}
		for k, poss := range tables {
			if len(poss) > 1 {
				x.fail("R14.4", pkgShort+":"+k+"/single-table", x.prog.pos(poss[1]), fmt.Sprintf("table %q is assigned %d times in one build configuration: the later assignment silently replaces the earlier one", k, len(poss)))
			}
		}
		perTable := map[string][]binding{}
		for _, b := range bs {
			perTable[b.table] = append(perTable[b.table], b)
		}
		for _, k := range sortedKeys(perTable) {
			tb := perTable[k]
			importPath := path.Dir(k)
			if strings.HasPrefix(importPath, "github.com/traefik/yaegi") || k == "." {
				continue // self-description tables (Symbols, MapTypes)
			}
			key := pkgShort + ":" + k
			tp := targetPkg(tb[0].pk, importPath)
			pos := x.prog.pos(tb[0].val.Pos())
			// R14.4 key name
			if tp != nil {
				if tp.Name() != path.Base(k) {
					x.fail("R14.4", key+"/key", pos, fmt.Sprintf("table key %q: package %s is named %s, not %s: imports of %s would not find the table", k, importPath, tp.Name(), path.Base(k), importPath))
				} else {
					x.pass("R14.4", key+"/key", pos, "key = import path + package name")
				}
			} else if importPath != "unsafe" {
				x.fail("R14.4", key+"/key", pos, "package "+importPath+" is not imported by the file holding its table")
			}
			names := map[string]bool{}
			bad := 0
			forms := map[string]int{}
			for _, b := range tb {
				x.mu.Lock()
				x.stats.bindings++
				x.mu.Unlock()
				if names[b.name] {
					x.fail("R14.1", key+"/"+b.name+"/dup", x.prog.pos(b.val.Pos()), "name bound twice in the same table")
				}
				names[b.name] = true
				form, ok, msg := x.checkDenotation(b)
				forms[form]++
				if form == "const" {
					x.mu.Lock()
					x.stats.constants++
					x.mu.Unlock()
				}
				if !ok && form == "const" {
					if why, drift := c14ReleaseDrift[fmt.Sprintf("go1.%d/%s/%s.%s", x.release, x.platform, importPath, b.name)]; drift {
						ok = true
						forms["release-drift"]++
						x.mu.Lock()
						x.r.Note("R14.1: %s.%s in the go1.%d table for %s differs from the installed 1.23.5 library: %s", importPath, b.name, x.release, x.platform, why)
						x.mu.Unlock()
					}
				}
				if !ok && form == "const" && x.rebinds[importPath+"."+b.name] {
					// platform-dependent constant re-bound per interpreter from the host's own constant
					ok = true
					forms["rebound-at-runtime"]++
				}
				if !ok {
					bad++
					if !hostCfg {
						msg += " (configuration " + x.platform + ")"
					}
					x.fail("R14.1", key+"/"+b.name, x.prog.pos(b.val.Pos()), "binding "+k+"."+b.name+" does not denote its namesake: "+msg)
				}
				if form == "wrapper" {
					x.checkWrapper(b, tp, key)
				}
			}
			if bad == 0 {
				fs := []string{}
				for _, f := range sortedKeys(forms) {
					fs = append(fs, fmt.Sprintf("%s=%d", f, forms[f]))
				}
				x.pass("R14.1", key+"/denotation", pos, fmt.Sprintf("%d entries, each denotes its namesake (%s)", len(tb), strings.Join(fs, " ")))
			}
			x.mu.Lock()
			x.stats.tables++
			if len(x.stats.samples) < 6 && len(tb) > 0 {
				b := tb[len(tb)/2]
				x.stats.samples = append(x.stats.samples, map[string]string{"config": x.cfgKey, "table": k, "name": b.name, "value": types.ExprString(b.val)})
			}
			x.mu.Unlock()
			if t := allTables[k]; t != nil {
				for n := range names {
					t.names[n] = true
				}
			} else {
				allTables[k] = &tableInfo{names: names, pos: pos, pk: tb[0].pk, file: tb[0].file}
			}
		}
		x.cfgKey = saved
	}
	// R14.3 completeness, per table over the union of the packages (syscall is split).
	_ = 0
	for _, k := range sortedKeys(allTables) {
		t := allTables[k]
		importPath := path.Dir(k)
		tp := targetPkg(t.pk, importPath)
		if tp == nil || importPath == "unsafe" {
			continue
		}
		if importPath == "syscall" && !x.api.contexts[x.platform] {
			x.pass("R14.3", "syscall/completeness-not-decided", t.pos, "GOROOT/api does not describe "+x.platform+": completeness of syscall is not decided for this platform (denotation is)")
			continue
		}
		// tables of package unrestricted other than syscall are deliberate subsets
		if strings.Contains(t.file, "/unrestricted/") && importPath != "syscall" {
			continue
		}
		later, _ := x.api.addedAfter(x.release, importPath, x.platform)
		var missing, extra []string
		n := 0
		sc := tp.Scope()
		for _, name := range sc.Names() {
			o := sc.Lookup(name)
			if !o.Exported() || later[name] {
				continue
			}
			switch oo := o.(type) {
			case *types.Func:
				if sig := oo.Type().(*types.Signature); sig.TypeParams().Len() > 0 {
					continue
				}
			case *types.TypeName:
				if oo.IsAlias() {
					if _, ok := types.Unalias(oo.Type()).(*types.Named); !ok {
						// alias of an unnamed type: still bindable
					}
				}
				if nt, ok := oo.Type().(*types.Named); ok && nt.TypeParams().Len() > 0 {
					continue
				}
				if it, ok := oo.Type().Underlying().(*types.Interface); ok && it.NumMethods() == 0 && it.NumEmbeddeds() != 0 {
					continue // constraint interface
				}
			}
			n++
			if !t.names[name] {
				missing = append(missing, name)
			}
		}
		for name := range t.names {
			if strings.HasPrefix(name, "_") {
				continue
			}
			o := sc.Lookup(name)
			if o == nil || later[name] {
				extra = append(extra, name)
			}
		}
		sort.Strings(missing)
		sort.Strings(extra)
		x.mu.Lock()
		x.stats.names += n
		x.mu.Unlock()
		for _, m := range missing {
			x.fail("R14.3", k+"/missing:"+m, t.pos, fmt.Sprintf("exported object %s.%s of release go1.%d is not bound: a script using it fails with 'undefined'", importPath, m, x.release))
		}
		for _, m := range extra {
			x.fail("R14.3", k+"/extra:"+m, t.pos, fmt.Sprintf("%s.%s is bound but release go1.%d does not declare it", importPath, m, x.release))
		}
		if len(missing)+len(extra) == 0 {
			x.pass("R14.3", k+"/complete", t.pos, fmt.Sprintf("%d exported non-generic objects, all bound, nothing extra", n))
		}
	}
}

// checkWrapper decides R14.5 for one "_N" entry.
func (x *c14ctx) checkWrapper(b binding, tp *types.Package, key string) {
	x.mu.Lock()
	x.stats.wrappers++
	x.mu.Unlock()
	info := b.pk.TypesInfo
	pos := x.prog.pos(b.val.Pos())
	k := key + "/" + b.name
	arg := valueOfArg(info, b.val)
	call, ok := arg.(*ast.CallExpr)
	if !ok {
		x.fail("R14.5", k, pos, "wrapper entry is not reflect.ValueOf((*W)(nil))")
		return
	}
	st, ok := unparen(call.Fun).(*ast.StarExpr)
	if !ok {
		x.fail("R14.5", k, pos, "wrapper entry is not reflect.ValueOf((*W)(nil))")
		return
	}
	wid, ok := st.X.(*ast.Ident)
	if !ok {
		x.fail("R14.5", k, pos, "wrapper type is not a local type")
		return
	}
	wobj, _ := info.ObjectOf(wid).(*types.TypeName)
	if wobj == nil || tp == nil {
		x.fail("R14.5", k, pos, "wrapper type or target package not resolved")
		return
	}
	iname := strings.TrimPrefix(b.name, "_")
	iobj, _ := tp.Scope().Lookup(iname).(*types.TypeName)
	if iobj == nil {
		x.fail("R14.5", k, pos, fmt.Sprintf("%s.%s does not exist", tp.Path(), iname))
		return
	}
	iface, ok := iobj.Type().Underlying().(*types.Interface)
	if !ok {
		x.fail("R14.5", k, pos, fmt.Sprintf("%s.%s is not an interface", tp.Path(), iname))
		return
	}
	wst, ok := wobj.Type().Underlying().(*types.Struct)
	if !ok || wst.NumFields() == 0 {
		x.fail("R14.5", k, pos, "wrapper is not a struct with an IValue field")
		return
	}
	var problems []string
	if f0 := wst.Field(0); f0.Name() != "IValue" || !types.Identical(f0.Type(), types.NewInterfaceType(nil, nil)) {
		problems = append(problems, "field 0 is not IValue interface{}")
	}
	_, laterM := x.api.addedAfter(x.release, tp.Path(), x.platform)
	want := map[string]*types.Func{}
	hasUnexported := false
	for i := 0; i < iface.NumMethods(); i++ {
		m := iface.Method(i)
		if !m.Exported() {
			hasUnexported = true
			continue
		}
		if laterM[iname][m.Name()] {
			continue
		}
		want[m.Name()] = m
	}
	fields := map[string]*types.Var{}
	for i := 1; i < wst.NumFields(); i++ {
		f := wst.Field(i)
		if !strings.HasPrefix(f.Name(), "W") {
			problems = append(problems, "unexpected field "+f.Name())
			continue
		}
		fields[f.Name()[1:]] = f
	}
	for _, m := range sortedKeys(want) {
		f := fields[m]
		if f == nil {
			problems = append(problems, "method "+m+" has no field W"+m+": an interpreted value's "+m+" is never called")
			continue
		}
		msig := want[m].Type().(*types.Signature)
		fsig, ok := f.Type().(*types.Signature)
		if !ok || !sameSig(msig, fsig) {
			problems = append(problems, fmt.Sprintf("field W%s has type %s, method %s has signature %s", m, f.Type(), m, msig))
		}
	}
	for _, m := range sortedKeys(fields) {
		if want[m] == nil {
			problems = append(problems, "field W"+m+" does not correspond to an exported method of "+iname+" in release go1."+strconv.Itoa(x.release))
		}
	}
	// methods of the wrapper: declared in the same package
	decls := map[string]*ast.FuncDecl{}
	for _, f := range b.pk.Syntax {
		for _, d := range f.Decls {
			fd, ok := d.(*ast.FuncDecl)
			if !ok || fd.Recv == nil || len(fd.Recv.List) != 1 {
				continue
			}
			if id, ok := fd.Recv.List[0].Type.(*ast.Ident); ok && info.ObjectOf(id) == wobj {
				decls[fd.Name.Name] = fd
			}
		}
	}
	for _, m := range sortedKeys(want) {
		fd := decls[m]
		if fd == nil {
			problems = append(problems, "wrapper has no method "+m)
			continue
		}
		mobj, _ := info.Defs[fd.Name].(*types.Func)
		if mobj == nil || !sameSig(want[m].Type().(*types.Signature), mobj.Type().(*types.Signature)) {
			problems = append(problems, "method "+m+" of the wrapper has a different signature than "+iname+"."+m)
			continue
		}
		if p := forwardProblem(info, fd, m, want[m].Type().(*types.Signature)); p != "" {
			problems = append(problems, "method "+m+": "+p)
		}
	}
	for _, m := range sortedKeys(decls) {
		if want[m] == nil {
			problems = append(problems, "wrapper declares method "+m+" which "+iname+" does not have in release go1."+strconv.Itoa(x.release))
		}
	}
	if !hasUnexported && len(problems) == 0 {
		if !types.Implements(wobj.Type(), iface) {
			missing, _ := types.MissingMethod(wobj.Type(), iface, true)
			if missing == nil || !laterM[iname][missing.Name()] {
				problems = append(problems, "wrapper does not implement "+tp.Path()+"."+iname)
			}
		}
	}
	if len(problems) > 0 {
		x.fail("R14.5", k, pos, "interface wrapper "+wobj.Name()+" for "+tp.Path()+"."+iname+": "+strings.Join(problems, "; "))
	} else {
		x.pass("R14.5", k, pos, fmt.Sprintf("%d methods forwarded to same-named fields with identical signatures", len(want)))
	}
}

func sameSig(a, b *types.Signature) bool {
	return types.Identical(types.NewSignatureType(nil, nil, nil, a.Params(), a.Results(), a.Variadic()),
		types.NewSignatureType(nil, nil, nil, b.Params(), b.Results(), b.Variadic()))
}

// forwardProblem checks the body of a wrapper method: [nil guard on String;] [return] W.W<M>(params...).
func forwardProblem(info *types.Info, fd *ast.FuncDecl, m string, sig *types.Signature) string {
	if fd.Body == nil {
		return "no body"
	}
	stmts := fd.Body.List
	if m == "String" && len(stmts) == 2 {
		if ifs, ok := stmts[0].(*ast.IfStmt); ok {
			be, ok := ifs.Cond.(*ast.BinaryExpr)
			if ok && be.Op == token.EQL && strings.HasSuffix(types.ExprString(be.X), ".WString") && types.ExprString(be.Y) == "nil" {
				stmts = stmts[1:]
			}
		}
	}
	if len(stmts) != 1 {
		return fmt.Sprintf("body has %d statements, expected a single forwarding call", len(stmts))
	}
	var call *ast.CallExpr
	switch s := stmts[0].(type) {
	case *ast.ReturnStmt:
		if sig.Results().Len() == 0 || len(s.Results) != 1 {
			return "return statement does not return the forwarded call"
		}
		call, _ = unparen(s.Results[0]).(*ast.CallExpr)
	case *ast.ExprStmt:
		if sig.Results().Len() != 0 {
			return "results of the forwarded call are dropped"
		}
		call, _ = unparen(s.X).(*ast.CallExpr)
	}
	if call == nil {
		return "body is not a forwarding call"
	}
	se, ok := unparen(call.Fun).(*ast.SelectorExpr)
	if !ok {
		return "callee is not a field of the receiver"
	}
	recvName := ""
	if len(fd.Recv.List[0].Names) == 1 {
		recvName = fd.Recv.List[0].Names[0].Name
	}
	if id, ok := se.X.(*ast.Ident); !ok || id.Name != recvName {
		return "callee is not a field of the receiver"
	}
	if se.Sel.Name != "W"+m {
		return "forwards to field " + se.Sel.Name + " instead of W" + m
	}
	// parameters in order
	var params []*types.Var
	for _, fl := range fd.Type.Params.List {
		for _, n := range fl.Names {
			if v, ok := info.Defs[n].(*types.Var); ok {
				params = append(params, v)
			}
		}
	}
	if len(params) != sig.Params().Len() || len(call.Args) != len(params) {
		return fmt.Sprintf("forwards %d arguments, the method has %d parameters", len(call.Args), sig.Params().Len())
	}
	for i, a := range call.Args {
		id, ok := unparen(a).(*ast.Ident)
		if !ok || info.Uses[id] != params[i] {
			return fmt.Sprintf("argument %d is not parameter %d", i, i)
		}
	}
	if sig.Variadic() != call.Ellipsis.IsValid() {
		return "variadic parameter is not forwarded with ..."
	}
	return ""
}

// c14Headers decides the constraint-header part of R14.4 on the raw files.
func c14Headers(c *Config, r *Report, dirs []string) {
	n := 0
	for _, d := range dirs {
		ents, _ := os.ReadDir(d)
		for _, e := range ents {
			name := e.Name()
			if !strings.HasPrefix(name, "go1_") || !strings.HasSuffix(name, ".go") {
				continue
			}
			rel := 0
			fmt.Sscanf(name, "go1_%d_", &rel)
			p := filepath.Join(d, name)
			b, err := c.readRepoFile(p)
			if err != nil {
				r.Errorf("%v", err)
				continue
			}
			var expr constraint.Expr
			for _, line := range strings.Split(string(b), "\n") {
				if strings.HasPrefix(line, "package ") {
					break
				}
				if constraint.IsGoBuild(line) {
					expr, _ = constraint.Parse(line)
				}
			}
			rp, _ := filepath.Rel(c.Repo, p)
			key := rp + "/header"
			if expr == nil {
				r.Fail("R14.4", key, rp+":3", "generated binding file without //go:build line: it would be compiled for every release")
				continue
			}
			n++
			sel := func(release int) bool {
				return expr.Eval(func(tag string) bool {
					if strings.HasPrefix(tag, "go1.") {
						v, err := strconv.Atoi(tag[4:])
						return err == nil && v <= release
					}
					return false // GOOS/GOARCH negations only appear negated
				})
			}
			ok := true
			var why string
			for release := 21; release <= 24; release++ {
				want := (rel == 21 && release == 21) || (rel == 22 && release >= 22)
				if sel(release) != want {
					ok = false
					why = fmt.Sprintf("selected=%v for go1.%d", sel(release), release)
				}
			}
			if !ok {
				r.Fail("R14.4", key, rp+":3", "build constraint "+expr.String()+" does not select exactly the release in the file name ("+why+"): two binding sets, or none, would be compiled")
			}
		}
	}
	if n > 0 {
		r.Pass("R14.4", "headers/analysed", "", fmt.Sprintf("%d generated files: constraint selects the release of the file name", n))
	}
	if n < 300 {
		r.Errorf("R14.4: only %d generated binding files found", n)
	}
}

// fmtConst prints a numeric constant with 75 significant digits (or a shortened string).
func fmtConst(v constant.Value) string {
	switch v.Kind() {
	case constant.Int, constant.Float:
		f := new(big.Float).SetPrec(1024)
		switch x := constant.Val(constant.ToFloat(v)).(type) {
		case *big.Rat:
			f.SetRat(x)
		case *big.Float:
			f.Set(x)
		default:
			if v.Kind() == constant.Int {
				if i, ok := constant.Val(v).(*big.Int); ok {
					f.SetInt(i)
				} else if i64, ok := constant.Int64Val(v); ok {
					f.SetInt64(i64)
				}
			}
		}
		s := f.Text('g', 75)
		return s
	}
	s := v.ExactString()
	if len(s) > 70 {
		s = s[:70] + "..."
	}
	return s
}

// checkTableWriters (R14.6): the symbol table of a package is written only by the statements
// the denotation rule validates: Symbols["k"] = map[string]reflect.Value{...} and
// Symbols["k"]["N"] = v with constant keys. Any other statement that can change the table
// after the generated tables are installed (a write under computed keys, delete, assignment of
// the variable itself, a map-typed alias of the table or of one of its entries handed to other
// code) rebinds names behind the validation: reads of an entry value are not restricted.
func (x *c14ctx) checkTableWriters(pk *packages.Package) {
	obj := pk.Types.Scope().Lookup("Symbols")
	if obj == nil {
		return
	}
	info := pk.TypesInfo
	isConstStr := func(e ast.Expr) bool {
		tv, ok := info.Types[e]
		return ok && tv.Value != nil && tv.Value.Kind() == constant.String
	}
	pkgShort := shortKey(pk.PkgPath)
	uses, bad := 0, 0
	for _, f := range pk.Syntax {
		var stack []ast.Node
		ast.Inspect(f, func(n ast.Node) bool {
			if n == nil {
				stack = stack[:len(stack)-1]
				return true
			}
			stack = append(stack, n)
			id, ok := n.(*ast.Ident)
			if !ok || info.Uses[id] != obj {
				return true
			}
			uses++
			// climb the index expressions rooted at the identifier
			i := len(stack) - 2
			var cur ast.Node = id
			constKeys := true
			depth := 0
			for i >= 0 {
				ix, ok := stack[i].(*ast.IndexExpr)
				if !ok || ix.X != cur {
					break
				}
				if !isConstStr(ix.Index) {
					constKeys = false
				}
				cur = ix
				depth++
				i--
			}
			why := ""
			if i >= 0 {
				switch p := stack[i].(type) {
				case *ast.AssignStmt:
					isLHS := false
					for _, l := range p.Lhs {
						if l == cur {
							isLHS = true
						}
					}
					switch {
					case isLHS && depth == 0:
						why = "the table variable itself is assigned"
					case isLHS && !constKeys:
						why = "an entry is written under a computed key"
					case isLHS && depth == 1:
						if _, ok := p.Rhs[0].(*ast.CompositeLit); !ok || len(p.Lhs) != 1 {
							why = "a package table is installed from something else than a map literal"
						}
					case isLHS:
						// Symbols["k"]["N"] = v: collected and validated by R14.1
					case depth < 2:
						why = "a map-typed alias of the table is taken"
					}
				case *ast.CallExpr:
					switch {
					case depth >= 2:
					case isPkgCall(info, p, "reflect", "ValueOf") && depth == 0:
						// self-description entry
					case isBuiltinCall(info, p, "len"):
					case isBuiltinCall(info, p, "delete"):
						why = "entries are deleted"
					default:
						why = "the table (or one of its package tables) is handed to " + types.ExprString(p.Fun)
					}
				case *ast.BinaryExpr:
					// comparison with nil
				case *ast.RangeStmt:
					if depth < 2 && p.X == cur && p.Value != nil && depth == 0 {
						why = "the table is ranged over with its package tables (map-typed aliases)"
					}
				case *ast.IncDecStmt:
					why = "an entry is modified"
				default:
					if depth < 2 {
						why = "a map-typed alias of the table is taken"
					}
				}
			}
			if why != "" {
				bad++
				x.fail("R14.6", fmt.Sprintf("%s/table-writers#%d", pkgShort, bad), x.prog.pos(id.Pos()), "the symbol table of package "+pkgShort+" is changed outside the validated binding statements: "+why+" ("+types.ExprString(cur.(ast.Expr))+"): the names rebound there no longer denote their namesakes whatever the generated tables say")
			}
			return true
		})
	}
	if bad == 0 && uses > 0 {
		x.pass("R14.6", pkgShort+"/table-writers", x.prog.pos(obj.Pos()), fmt.Sprintf("%d uses of the table, all validated binding statements or reads", uses))
	}
}

func isPkgCall(info *types.Info, c *ast.CallExpr, pkg, name string) bool {
	f, ok := calleeOf(info, c).(*types.Func)
	return ok && f.Pkg() != nil && f.Pkg().Path() == pkg && f.Name() == name
}

func isBuiltinCall(info *types.Info, c *ast.CallExpr, name string) bool {
	id, ok := unparen(c.Fun).(*ast.Ident)
	if !ok {
		return false
	}
	b, ok := info.Uses[id].(*types.Builtin)
	return ok && b.Name() == name
}

func init() {
	ruleText["R14.8"] = "every constant the per-interpreter re-binding (fixStdlib) takes from the host denotes the name it is stored under: the host constant of the same package and name, or one of equal value"
}

// c14R8: the repaired bindings of platform-dependent constants (D10, D19) are part of what a
// script sees under a name; a re-binding from another constant rebinds the name behind R14.1
// (round-5 seed: filepath.ListSeparator rebound from os.PathSeparator through a shared local).
func c14R8(ic *IC, r *Report, ovs []override) {
	info := ic.Info
	// namesake lookup through the import graph of package interp
	findPkg := func(path string) *types.Package {
		seen := map[*types.Package]bool{}
		var walk func(p *types.Package) *types.Package
		walk = func(p *types.Package) *types.Package {
			if p == nil || seen[p] {
				return nil
			}
			seen[p] = true
			if p.Path() == path {
				return p
			}
			for _, q := range p.Imports() {
				if f := walk(q); f != nil {
					return f
				}
			}
			return nil
		}
		return walk(ic.Pk.Types)
	}
	n := 0
	for _, o := range ovs {
		val := o.val
		if id := identOf(val); id != nil {
			// a local defined once in the re-binding function
			obj := info.ObjectOf(id)
			for _, name := range sortedKeys(ic.F) {
				fi := ic.F[name]
				if fi.Decl.Body == nil || fi.Decl.Pos() > id.Pos() || id.Pos() > fi.Decl.End() {
					continue
				}
				ast.Inspect(fi.Decl.Body, func(m ast.Node) bool {
					if as, ok := m.(*ast.AssignStmt); ok && len(as.Lhs) == len(as.Rhs) {
						for i, l := range as.Lhs {
							if lid := identOf(l); lid != nil && info.ObjectOf(lid) == obj {
								val = as.Rhs[i]
							}
						}
					}
					return true
				})
			}
		}
		cst := hostConstRebind(ic, val)
		if cst == nil || cst.Pkg() == nil {
			continue
		}
		n++
		ok := cst.Pkg().Path() == o.pkgPath && cst.Name() == o.name
		detail := ""
		if !ok {
			detail = "no constant " + o.pkgPath + "." + o.name + " reachable for comparison"
			if p := findPkg(o.pkgPath); p != nil {
				if ns, isC := p.Scope().Lookup(o.name).(*types.Const); isC {
					if constant.Compare(ns.Val(), token.EQL, cst.Val()) {
						ok = true
					} else {
						detail = o.pkgPath + "." + o.name + " is " + ns.Val().ExactString() + " on the host, " + cst.Pkg().Path() + "." + cst.Name() + " is " + cst.Val().ExactString()
					}
				}
			}
		}
		r.Check(ok, "R14.8", "fixStdlib/"+o.pkgPath+"."+o.name+"/rebound-from-its-namesake", ic.pos(o.stmt.Pos()), "re-bound from "+cst.Pkg().Path()+"."+cst.Name(),
			"the per-interpreter re-binding stores the host constant "+cst.Pkg().Path()+"."+cst.Name()+" under the name "+o.pkgPath+"."+o.name+" ("+detail+"): scripts see another value than the identically named constant of the package")
	}
	if n < 5 {
		r.Errorf("R14.8: only %d host constants re-bound by fixStdlib found", n)
	}
}
