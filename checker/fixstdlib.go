package main

import (
	"go/ast"
	"go/constant"
	"go/token"
	"go/types"
)

// override is one p["N"] = V statement of fixStdlib, with the package p stands for.
type override struct {
	pkgPath string
	name    string
	val     ast.Expr
	stmt    *ast.AssignStmt
	// restrictedOnly is set when the statement is nested in an `if !interp.unrestricted` branch.
	restrictedOnly bool
}

// fixStdlibOverrides walks the function that re-binds standard library symbols per
// interpreter (role: the in-package function called by Use that indexes Interpreter.binPkg
// and stores into the resulting maps).
func fixStdlibOverrides(ic *IC, r *Report) (fi *FuncInfo, out []override) {
	binPkg := ic.field("Interpreter", "binPkg")
	unres := ic.field("opt", "unrestricted")
	// role resolution: functions (other than Use itself) that assign p[...] where p comes from binPkg[...]
	for _, name := range sortedKeys(ic.F) {
		cand := ic.F[name]
		if cand.Decl.Body == nil || name == "Interpreter.Use" {
			continue
		}
		ovs := overridesIn(ic, cand, binPkg, unres)
		if len(ovs) > len(out) {
			fi, out = cand, ovs
		}
	}
	if fi == nil {
		r.Errorf("anchor not resolved: no function re-binding symbols of Interpreter.binPkg (fixStdlib)")
	}
	return
}

func overridesIn(ic *IC, fi *FuncInfo, binPkg, unres *types.Var) []override {
	var out []override
	cur := map[types.Object]string{} // map variable -> package path
	var walk func(stmts []ast.Stmt, restricted bool)
	pkgOf := func(e ast.Expr) (string, bool) {
		ix, ok := unparen(e).(*ast.IndexExpr)
		if !ok || selField(ic.Info, ix.X) != binPkg {
			return "", false
		}
		if tv, ok := ic.Info.Types[ix.Index]; ok && tv.Value != nil && tv.Value.Kind() == constant.String {
			return constant.StringVal(tv.Value), true
		}
		return "", false
	}
	note := func(as *ast.AssignStmt, restricted bool) {
		for i, l := range as.Lhs {
			if i >= len(as.Rhs) {
				break
			}
			if id, ok := l.(*ast.Ident); ok {
				if p, ok := pkgOf(as.Rhs[i]); ok {
					cur[ic.Info.ObjectOf(id)] = p
				}
				continue
			}
			ix, ok := unparen(l).(*ast.IndexExpr)
			if !ok {
				continue
			}
			var pkg string
			if id, ok := unparen(ix.X).(*ast.Ident); ok {
				pkg = cur[ic.Info.ObjectOf(id)]
			} else if p, ok := pkgOf(ix.X); ok {
				pkg = p
			}
			if pkg == "" {
				continue
			}
			if tv, ok := ic.Info.Types[ix.Index]; ok && tv.Value != nil && tv.Value.Kind() == constant.String {
				out = append(out, override{pkgPath: pkg, name: constant.StringVal(tv.Value), val: as.Rhs[i], stmt: as, restrictedOnly: restricted})
			}
		}
	}
	walk = func(stmts []ast.Stmt, restricted bool) {
		for _, s := range stmts {
			switch x := s.(type) {
			case *ast.AssignStmt:
				note(x, restricted)
			case *ast.IfStmt:
				if as, ok := x.Init.(*ast.AssignStmt); ok {
					note(as, restricted)
				}
				rb, re := restricted, restricted
				res := evalCond(x.Cond, func(e ast.Expr) int {
					if selField(ic.Info, e) == unres && unres != nil {
						return triFalse // assume restricted mode
					}
					return triUnknown
				})
				mentions := false
				ast.Inspect(x.Cond, func(n ast.Node) bool {
					if e, ok := n.(ast.Expr); ok && unres != nil && selField(ic.Info, e) == unres {
						mentions = true
					}
					return true
				})
				if mentions {
					if res == triTrue {
						rb = true
					} else if res == triFalse {
						re = true
					}
				}
				walk(x.Body.List, rb)
				switch e := x.Else.(type) {
				case *ast.BlockStmt:
					walk(e.List, re)
				case *ast.IfStmt:
					walk([]ast.Stmt{e}, re)
				}
			case *ast.BlockStmt:
				walk(x.List, restricted)
			case *ast.ForStmt:
				walk(x.Body.List, restricted)
			case *ast.RangeStmt:
				walk(x.Body.List, restricted)
			}
		}
	}
	walk(fi.Decl.Body.List, false)
	return out
}

// hostConstRebind recognises reflect.ValueOf(constant.MakeInt64/MakeUint64(pkg.N)) and
// returns the constant object it reads.
func hostConstRebind(ic *IC, e ast.Expr) *types.Const {
	arg := valueOfArg(ic.Info, e)
	call, ok := arg.(*ast.CallExpr)
	if !ok || len(call.Args) != 1 {
		return nil
	}
	if !isCallTo(ic.Info, call, "go/constant.MakeInt64", "go/constant.MakeUint64", "go/constant.MakeString", "go/constant.MakeFloat64", "go/constant.Make") {
		return nil
	}
	a := unparen(call.Args[0])
	// allow a conversion int64(pkg.N)
	if c, ok := a.(*ast.CallExpr); ok && len(c.Args) == 1 {
		if tv, ok := ic.Info.Types[c.Fun]; ok && tv.IsType() {
			a = unparen(c.Args[0])
		}
	}
	if obj, ok := qualifiedObj(ic.Info, a).(*types.Const); ok {
		return obj
	}
	return nil
}

var _ = token.ADD
