package main

import (
	"fmt"
	"go/ast"
	"go/types"
	"strings"

	"golang.org/x/tools/go/cfg"
)

// R01.8: a run-time closure that stores its node's result on some path stores it on every
// path that continues execution. The frame slot of an expression keeps the value of the
// previous execution of the same expression in the same activation (loops, repeated
// conditions), so a path that leaves the slot untouched makes the expression yield a stale
// value: (a && b) || c re-reads the old true, m[k] on a missing key yields the last hit.

// resultStoreExceptions: closures where a path deliberately leaves the result untouched,
// keyed generator/closure index, with the reason.
var resultStoreExceptions = map[string]string{}

func c01R8(ic *IC, r *Report, rule string, only map[string]bool) {
	info := ic.Info
	nClosures, nChecked := 0, 0
	for _, name := range sortedKeys(ic.F) {
		fi := ic.F[name]
		if fi.Decl.Body == nil || fi.Obj == nil || fi.Decl.Recv != nil {
			continue
		}
		if only != nil && !only[name] {
			continue
		}
		sig := fi.Obj.Type().(*types.Signature)
		if sig.Params().Len() != 1 || sig.Results().Len() != 0 || !isNamedPtr(sig.Params().At(0).Type(), "node") {
			continue
		}
		var nparam types.Object
		if len(fi.Decl.Type.Params.List[0].Names) > 0 {
			nparam = info.ObjectOf(fi.Decl.Type.Params.List[0].Names[0])
		}
		// result accessors: locals assigned from a value generator applied to the node itself
		dests := map[types.Object]bool{}
		ast.Inspect(fi.Decl.Body, func(n ast.Node) bool {
			as, ok := n.(*ast.AssignStmt)
			if !ok || len(as.Lhs) != len(as.Rhs) {
				return true
			}
			for i, rhs := range as.Rhs {
				c, ok := unparen(rhs).(*ast.CallExpr)
				if !ok || len(c.Args) == 0 {
					continue
				}
				f, ok := calleeOf(info, c).(*types.Func)
				if !ok || f.Pkg() != ic.Pk.Types || !strings.HasPrefix(f.Name(), "gen") {
					continue
				}
				if aid, ok := unparen(c.Args[0]).(*ast.Ident); ok && info.ObjectOf(aid) == nparam {
					if lid, ok := as.Lhs[i].(*ast.Ident); ok {
						dests[info.ObjectOf(lid)] = true
					}
				}
			}
			return true
		})
		if len(dests) == 0 {
			continue
		}
		idx := 0
		for _, fl := range (&c02ctx{ic: ic}).closuresOf(fi) {
			idx++
			nClosures++
			isStore := func(n ast.Node) bool {
				found := false
				ast.Inspect(n, func(m ast.Node) bool {
					if _, ok := m.(*ast.FuncLit); ok {
						return false
					}
					c, ok := m.(*ast.CallExpr)
					if !ok {
						return true
					}
					se, ok := unparen(c.Fun).(*ast.SelectorExpr)
					if !ok || !strings.HasPrefix(se.Sel.Name, "Set") {
						return true
					}
					if inner, ok := unparen(se.X).(*ast.CallExpr); ok {
						if id, ok := unparen(inner.Fun).(*ast.Ident); ok && dests[info.ObjectOf(id)] {
							found = true
						}
					}
					return true
				})
				return found
			}
			has := false
			ast.Inspect(fl.Body, func(m ast.Node) bool {
				if m != nil && isStore(m) {
					has = true
				}
				return !has
			})
			if !has {
				continue
			}
			nChecked++
			g := cfg.New(fl.Body, func(c *ast.CallExpr) bool { return !noReturn(info, c) })
			// forward reachability from the entry avoiding blocks... node-precise: walk nodes
			type pos struct {
				b *cfg.Block
			}
			seen := map[*cfg.Block]bool{}
			var missing []string
			var walk func(b *cfg.Block)
			walk = func(b *cfg.Block) {
				if seen[b] {
					return
				}
				seen[b] = true
				for _, nd := range b.Nodes {
					if isStore(nd) {
						return // stored on this path
					}
					if rs, ok := nd.(*ast.ReturnStmt); ok && len(rs.Results) == 1 {
						if id, ok := unparen(rs.Results[0]).(*ast.Ident); ok && id.Name == "nil" {
							continue
						}
						missing = append(missing, "return "+types.ExprString(rs.Results[0])+" at "+ic.pos(rs.Pos()))
					}
				}
				for _, s := range b.Succs {
					walk(s)
				}
			}
			if len(g.Blocks) > 0 {
				walk(g.Blocks[0])
			}
			key := fmt.Sprintf("%s/closure#%d/result-stored-on-every-path", name, idx)
			if why, ok := resultStoreExceptions[fmt.Sprintf("%s/closure#%d", name, idx)]; ok && len(missing) > 0 {
				r.Pass(rule, key, ic.pos(fl.Pos()), "frozen exception: "+why)
				continue
			}
			r.Check(len(missing) == 0, rule, key, ic.pos(fl.Pos()), "the node's result is stored on every path that continues execution",
				"the closure stores the node's result on some paths but reaches "+strings.Join(dedupStr(missing), ", ")+" without storing it: the slot keeps the value of the previous execution of the same expression in this activation, which the consumer then reads (a nested && / || condition evaluated twice, m[k] on a missing key after a hit)")
		}
	}
	r.Info["result_storing_closures_checked"] = nChecked
	floor := 50
	if only != nil {
		floor = len(only)
	}
	if nChecked < floor {
		r.Errorf("%s: only %d result-storing closures analysed (of %d)", rule, nChecked, nClosures)
	}
}
