package main

import (
	"fmt"
	"go/ast"
	"go/token"
	"go/types"
	"sort"
	"strings"
)

func init() {
	ruleText["R01.30"] = "a composite literal is built apart from its destination: in the closure of every composite-literal generator (the functions compositeGenerator selects, and the helpers they delegate to) the destination value (the node's own value generator) is written only after the last element expression has been evaluated - the elements may read the destination (p = point{p.y, p.x})"
}

// c01R30: round-6 seed. doComposite, assigned to an existing struct variable, zeroed the variable
// and set its fields in place while evaluating the element expressions, so p = point{p.y, p.x}
// read fields already overwritten.
// compositeBuilders returns the generators compositeGenerator selects and the helpers they
// delegate to with their node.
func compositeBuilders(ic *IC, r *Report, rule string) []*types.Func {
	info := ic.Info
	sel := ic.F["compositeGenerator"]
	if sel == nil || sel.Decl.Body == nil {
		r.Errorf(rule + ": compositeGenerator not found")
		return nil
	}
	seen := map[*types.Func]bool{}
	var work []*types.Func
	ast.Inspect(sel.Decl.Body, func(n ast.Node) bool {
		if id, ok := n.(*ast.Ident); ok {
			if f, ok := info.Uses[id].(*types.Func); ok && f.Pkg() == ic.Pk.Types && f != sel.Obj && !seen[f] {
				if fi := ic.G.Funcs[f]; fi != nil && fi.Decl.Recv == nil {
					sg := f.Type().(*types.Signature)
					if sg.Params().Len() == 1 && isNamedPtr(sg.Params().At(0).Type(), "node") && sg.Results().Len() == 0 {
						seen[f] = true
						work = append(work, f)
					}
				}
			}
		}
		return true
	})
	if len(work) < 6 {
		r.Errorf(rule+": only %d composite-literal generators selected by compositeGenerator", len(work))
		return nil
	}
	// helpers they delegate to (first parameter the node)
	for i := 0; i < len(work); i++ {
		fi := ic.G.Funcs[work[i]]
		if fi == nil || fi.Decl.Body == nil {
			continue
		}
		for _, c := range allCalls(fi.Decl.Body) {
			if g, ok := calleeOf(info, c).(*types.Func); ok && g.Pkg() == ic.Pk.Types && !seen[g] && len(c.Args) > 0 {
				gi := ic.G.Funcs[g]
				if gi == nil || gi.Decl.Body == nil || gi.Decl.Recv != nil {
					continue
				}
				sg := g.Type().(*types.Signature)
				if sg.Params().Len() >= 1 && isNamedPtr(sg.Params().At(0).Type(), "node") && sg.Results().Len() == 0 {
					if a, ok := unparen(c.Args[0]).(*ast.Ident); ok && len(fi.Decl.Type.Params.List) > 0 && len(fi.Decl.Type.Params.List[0].Names) > 0 && info.ObjectOf(a) == info.ObjectOf(fi.Decl.Type.Params.List[0].Names[0]) {
						seen[g] = true
						work = append(work, g)
					}
				}
			}
		}
	}
	sort.Slice(work, func(i, j int) bool { return work[i].Name() < work[j].Name() })
	return work
}

func c01R30(ic *IC, r *Report) {
	info := ic.Info
	work := compositeBuilders(ic, r, "R01.30")
	if work == nil {
		return
	}
	execFld := ic.field("node", "exec")
	isGenType := func(t types.Type) bool {
		sg, ok := t.Underlying().(*types.Signature)
		return ok && sg.Params().Len() == 1 && isNamedPtr(sg.Params().At(0).Type(), "frame") && sg.Results().Len() == 1 && types.TypeString(sg.Results().At(0).Type(), nil) == "reflect.Value"
	}
	nB := 0
	for _, f := range work {
		fi := ic.G.Funcs[f]
		nodeParam := info.ObjectOf(fi.Decl.Type.Params.List[0].Names[0])
		// destination generators: v := valueGenerator(n, n.findex) | genValue(n)
		dest := map[types.Object]bool{}
		ast.Inspect(fi.Decl.Body, func(m ast.Node) bool {
			as, ok := m.(*ast.AssignStmt)
			if !ok || len(as.Lhs) != 1 || len(as.Rhs) != 1 {
				return true
			}
			c, ok := unparen(as.Rhs[0]).(*ast.CallExpr)
			if !ok || len(c.Args) == 0 || !isCallTo(info, c, "interp.valueGenerator", "interp.genValue") {
				return true
			}
			if a, ok := unparen(c.Args[0]).(*ast.Ident); ok && info.ObjectOf(a) == nodeParam {
				if l := identOf(as.Lhs[0]); l != nil {
					dest[info.ObjectOf(l)] = true
				}
			}
			return true
		})
		k := 0
		ast.Inspect(fi.Decl.Body, func(m ast.Node) bool {
			as, ok := m.(*ast.AssignStmt)
			if !ok || len(as.Lhs) != 1 || len(as.Rhs) != 1 || selField(info, as.Lhs[0]) != execFld {
				return true
			}
			fl, ok := unparen(as.Rhs[0]).(*ast.FuncLit)
			if !ok {
				return true
			}
			k++
			nB++
			// locals holding the destination value
			destVal := map[types.Object]bool{}
			isDestCall := func(e ast.Expr) bool {
				c, ok := unparen(e).(*ast.CallExpr)
				if !ok {
					return false
				}
				id := identOf(c.Fun)
				return id != nil && dest[info.ObjectOf(id)]
			}
			ast.Inspect(fl.Body, func(q ast.Node) bool {
				if a, ok := q.(*ast.AssignStmt); ok && len(a.Lhs) == len(a.Rhs) {
					for i := range a.Lhs {
						if l := identOf(a.Lhs[i]); l != nil && isDestCall(a.Rhs[i]) {
							destVal[info.ObjectOf(l)] = true
						}
					}
				}
				return true
			})
			// root of a reflect.Value expression through Field/Index/Elem/Addr chains
			var rootsAtDest func(e ast.Expr) bool
			rootsAtDest = func(e ast.Expr) bool {
				e = unparen(e)
				if isDestCall(e) {
					return true
				}
				switch y := e.(type) {
				case *ast.Ident:
					return destVal[info.ObjectOf(y)]
				case *ast.CallExpr:
					if se, ok := unparen(y.Fun).(*ast.SelectorExpr); ok {
						if _, isM := info.Selections[se]; isM {
							return rootsAtDest(se.X)
						}
					}
				}
				return false
			}
			var lastEval ast.Node
			var writes []*ast.CallExpr
			ast.Inspect(fl.Body, func(q ast.Node) bool {
				c, ok := q.(*ast.CallExpr)
				if !ok {
					return true
				}
				if t := info.TypeOf(c.Fun); t != nil && isGenType(t) && !isDestCall(c) {
					if lastEval == nil || c.Pos() > lastEval.Pos() {
						lastEval = c
					}
				}
				if se, ok := unparen(c.Fun).(*ast.SelectorExpr); ok && strings.HasPrefix(se.Sel.Name, "Set") && rootsAtDest(se.X) {
					writes = append(writes, c)
				}
				// a store function of the generator (store(f, v)) writes the destination
				if fid := identOf(c.Fun); fid != nil && len(c.Args) == 2 {
					if sg, ok := info.TypeOf(fid).Underlying().(*types.Signature); ok && sg.Params().Len() == 2 && sg.Results().Len() == 0 &&
						isNamedPtr(sg.Params().At(0).Type(), "frame") && types.TypeString(sg.Params().At(1).Type(), nil) == "reflect.Value" {
						writes = append(writes, c)
					}
				}
				return true
			})
			var bad []string
			for _, w := range writes {
				if lastEval != nil && w.Pos() < lastEval.Pos() {
					bad = append(bad, types.ExprString(w.Fun)+" at "+ic.pos(w.Pos()))
				}
			}
			r.Check(len(bad) == 0, "R01.30", fmt.Sprintf("%s/closure#%d/built-apart-from-the-destination", f.Name(), k), ic.pos(fl.Pos()), "the destination is written after the last element expression is evaluated",
				"the closure generated by "+f.Name()+" writes the destination of the composite literal ("+strings.Join(bad, "; ")+") before the last element expression is evaluated"+func() string {
					if lastEval != nil {
						return " (" + types.ExprString(lastEval.(ast.Expr)) + " at " + ic.pos(lastEval.Pos()) + ")"
					}
					return ""
				}()+": an element that reads the variable being assigned sees it half written - p = point{p.y, p.x} gives {y y}, c = config{limit: c.limit} gives the zero value")
			return true
		})
	}
	if nB < 6 {
		r.Errorf("R01.30: only %d closures of composite-literal generators found", nB)
	}
}

func init() {
	ruleText["R01.31"] = "the return statement and cfg agree on which call operands are stored directly in a result slot: when _return decides not to copy a call operand by comparing its type with def.typ.ret[K], K is of the class (first result / the operand's own position) that the direct-store conditions of cfg (directReturn && n.typ.id() == ret[K'].id()) use"
}

// c01R31: round-6 seed. _return was refactored to skip, for every operand i, the copy of a call
// whose type is ret[i]; cfg stores a call directly only when its type is ret[0].
func c01R31(ic *IC, r *Report) {
	info := ic.Info
	cfgFn := ic.fn(r, "Interpreter.cfg")
	ret := ic.F["_return"]
	if cfgFn == nil || ret == nil || ret.Decl.Body == nil {
		r.Errorf("R01.31: _return not found")
		return
	}
	retFld := ic.field("itype", "ret")
	// class of the index of a .ret[K] expression inside e; local variables initialised from a
	// .ret[K] expression are followed once
	var classes func(root ast.Node, e ast.Node, out map[string]string)
	classes = func(root ast.Node, e ast.Node, out map[string]string) {
		ast.Inspect(e, func(q ast.Node) bool {
			switch y := q.(type) {
			case *ast.IndexExpr:
				if selField(info, y.X) == retFld {
					if bl, ok := unparen(y.Index).(*ast.BasicLit); ok && bl.Value == "0" {
						out["first"] = ic.pos(y.Pos())
					} else {
						out["positional"] = ic.pos(y.Pos())
					}
				}
			case *ast.Ident:
				if v, ok := info.Uses[y].(*types.Var); ok && !v.IsField() && root != nil {
					// its definition
					ast.Inspect(root, func(d ast.Node) bool {
						if as, ok := d.(*ast.AssignStmt); ok && len(as.Lhs) == len(as.Rhs) {
							for i, l := range as.Lhs {
								if id := identOf(l); id != nil && info.Defs[id] == v {
									classes(nil, as.Rhs[i], out)
								}
							}
						}
						return true
					})
				}
			}
			return true
		})
	}
	conds := func(body ast.Node, must string) []ast.Expr {
		var out []ast.Expr
		ast.Inspect(body, func(q ast.Node) bool {
			var cs []ast.Expr
			switch y := q.(type) {
			case *ast.IfStmt:
				cs = []ast.Expr{y.Cond}
			case *ast.CaseClause:
				cs = y.List
			}
			for _, c := range cs {
				if len(callsIn(info, c, true, must)) > 0 {
					out = append(out, c)
				}
			}
			return true
		})
		return out
	}
	cfgClasses := map[string]string{}
	nCfg := 0
	for _, c := range conds(cfgFn.Decl.Body, "interp.directReturn") {
		before := len(cfgClasses)
		_ = before
		m := map[string]string{}
		classes(nil, c, m)
		if len(m) > 0 {
			nCfg++
		}
		for k, v := range m {
			// positional only counts when the comparison is of the node's type (not the interface test of the result)
			if k == "positional" && !strings.Contains(types.ExprString(c), ".id()") {
				continue
			}
			cfgClasses[k] = v
		}
	}
	retClasses := map[string]string{}
	nRet := 0
	for _, c := range conds(ret.Decl.Body, "interp.isCall") {
		m := map[string]string{}
		classes(ret.Decl.Body, c, m)
		if len(m) > 0 {
			nRet++
		}
		for k, v := range m {
			retClasses[k] = v
		}
	}
	if nCfg < 2 || nRet < 1 {
		r.Errorf("R01.31: %d direct-store conditions comparing with a result type in cfg, %d in _return (2 and 1 expected)", nCfg, nRet)
		return
	}
	var bad []string
	for k, at := range retClasses {
		if _, ok := cfgClasses[k]; !ok {
			bad = append(bad, fmt.Sprintf("_return compares with the type of the %s result (%s), no direct-store condition of cfg does", map[string]string{"first": "first", "positional": "operand's own"}[k], at))
		}
	}
	sort.Strings(bad)
	r.Check(len(bad) == 0, "R01.31", "_return/call-operands-not-copied-are-those-cfg-stores-directly", ic.pos(ret.Decl.Pos()), fmt.Sprintf("the %d condition(s) of _return eliding the copy of a call compare with the same result type as the %d direct-store conditions of cfg", nRet, nCfg),
		strings.Join(bad, "; ")+": a call whose type is that of its own position but not of the first result gets a temporary slot in cfg and is not copied by _return - return label(i), total(s) in a func (string, int) returns (\"odd\", 0)")
}

func init() {
	ruleText["R01.32"] = "cfg and the compiled-call generator agree on where the results of a call in a return statement go: callBin stores them by position in the result slots whenever directReturn holds, so in the case of cfg that installs callBin every result slot allocated for the call (n.findex = sc.add(...)) lies under the negation of a directReturn test - a temporary allocated while callBin writes the result slots is then copied over them by the return statement"
}

// c01R32: found through the round-6 report on C01 (D12). For a call of a func-typed struct field
// cfg always allocated a temporary; callBin wrote the result slots, _return copied the (zero)
// temporaries over them: return s.fn(x), s.fn(x+1) returned 0 0.
func c01R32(ic *IC, r *Report) {
	info := ic.Info
	cfgFn := ic.fn(r, "Interpreter.cfg")
	cb := ic.F["callBin"]
	if cfgFn == nil || cb == nil || cb.Decl.Body == nil {
		r.Errorf("R01.32: callBin not found")
		return
	}
	// does callBin store by position under directReturn?
	byPos := false
	ast.Inspect(cb.Decl.Body, func(q ast.Node) bool {
		cc, ok := q.(*ast.CaseClause)
		if !ok {
			return true
		}
		for _, e := range cc.List {
			if len(callsIn(info, e, true, "interp.directReturn")) > 0 && len(callsIn(info, cc, true, "interp.childPos")) > 0 {
				byPos = true
			}
		}
		return true
	})
	if !byPos {
		r.Pass("R01.32", "callBin/no-store-by-position", ic.pos(cb.Decl.Pos()), "callBin has no branch storing by position under directReturn: nothing to agree on")
		return
	}
	genFld := ic.field("node", "gen")
	findexFld := ic.field("node", "findex")
	n := 0
	ast.Inspect(cfgFn.Decl.Body, func(q ast.Node) bool {
		cc, ok := q.(*ast.CaseClause)
		if !ok {
			return true
		}
		installs := false
		for _, st := range cc.Body {
			ast.Inspect(st, func(z ast.Node) bool {
				if _, isCC := z.(*ast.CaseClause); isCC {
					return false
				}
				if as, ok := z.(*ast.AssignStmt); ok && len(as.Lhs) == 1 && len(as.Rhs) == 1 && selField(info, as.Lhs[0]) == genFld {
					if id := identOf(as.Rhs[0]); id != nil && info.Uses[id] == types.Object(cb.Obj) {
						installs = true
					}
				}
				return true
			})
		}
		if !installs {
			return true
		}
		ast.Inspect(cc, func(z ast.Node) bool {
			as, ok := z.(*ast.AssignStmt)
			if !ok || len(as.Lhs) != 1 || len(as.Rhs) != 1 || selField(info, as.Lhs[0]) != findexFld {
				return true
			}
			c, ok := unparen(as.Rhs[0]).(*ast.CallExpr)
			if !ok {
				return true
			}
			if se, ok := unparen(c.Fun).(*ast.SelectorExpr); !ok || se.Sel.Name != "add" {
				return true
			}
			n++
			under := false
			for _, g := range pathGuards(cc, as) {
				if !g.want && len(callsIn(info, g.cond, true, "interp.directReturn")) > 0 {
					under = true
				}
			}
			r.Check(under, "R01.32", fmt.Sprintf("cfg/compiled-call/result-slot#%d/not-when-stored-by-position", n), ic.pos(as.Pos()), "the temporary is allocated only when directReturn does not hold",
				"cfg allocates a temporary for the results of a compiled call ("+types.ExprString(as.Rhs[0])+") without excluding the calls of a return statement for which directReturn holds: callBin stores those results by position in the result slots, and the return statement then copies the untouched temporaries over them - type S struct{ fn func(int) int }; return s.fn(x), s.fn(x+1) returns 0 0")
			return true
		})
		return true
	})
	if n == 0 {
		r.Errorf("R01.32: no result slot allocation found in the case of cfg that installs callBin")
	}
}

func init() {
	ruleText["R01.33"] = "a return statement with one operand can set several results: in _return the case of a single operand has a run-time closure storing into the result slots by a variable index (a loop over the values of the call), not only into f.data[0] - return f() forwards every value f returns"
}

// c01R33: found through the round-6 report on C01 (D3). With one operand _return only ever
// stored f.data[0]: func g() (IS, int) { return f() } with f() ([]int, int) returned the first
// value and the zero value of the second.
func c01R33(ic *IC, r *Report) {
	info := ic.Info
	fi := ic.fn(r, "_return")
	if fi == nil {
		return
	}
	dataFld := ic.field("frame", "data")
	var one *ast.CaseClause
	ast.Inspect(fi.Decl.Body, func(q ast.Node) bool {
		sw, ok := q.(*ast.SwitchStmt)
		if !ok || sw.Tag == nil {
			return true
		}
		if c, ok := unparen(sw.Tag).(*ast.CallExpr); !ok || identOf(c.Fun) == nil || identOf(c.Fun).Name != "len" {
			return true
		}
		for _, st := range sw.Body.List {
			cc := st.(*ast.CaseClause)
			for _, e := range cc.List {
				if bl, ok := unparen(e).(*ast.BasicLit); ok && bl.Value == "1" {
					one = cc
				}
			}
		}
		return true
	})
	var scope ast.Node = one
	where := "a closure of the single-operand case"
	if one == nil {
		// no arity switch any more (the cases may have been merged into one loop): any closure
		// of the generator storing by a variable index serves every arity
		scope = fi.Decl.Body
		where = "a closure of the generator"
	}
	ok := false
	ast.Inspect(scope, func(q ast.Node) bool {
		fl, isLit := q.(*ast.FuncLit)
		if !isLit {
			return true
		}
		ast.Inspect(fl.Body, func(z ast.Node) bool {
			ix, isIx := z.(*ast.IndexExpr)
			if !isIx || selField(info, ix.X) != dataFld {
				return true
			}
			if _, isConst := unparen(ix.Index).(*ast.BasicLit); !isConst {
				ok = true
			}
			return true
		})
		return false
	})
	r.Check(ok, "R01.33", "_return/single-operand/can-set-several-results", ic.pos(scope.Pos()), where+" stores the results by a variable index",
		"with one operand _return only stores f.data[0]: when the operand is a call returning several values whose first type is not identical to the first result type (so that the call does not store directly), only the first value is returned - type IS []int; func g() (IS, int) { return f() } yields [1 2] 0")
}

func init() {
	ruleText["R01.34"] = "a declared function used as a value is turned into a function value wherever it reaches a func-typed destination: (a) in _return the case of func-typed results installs a generator that wraps declared functions (genFuncValue / genFunctionWrapper), not the plain value generator; (b) the test 'the type was written in a function declaration' (isNamedFuncSrc), which a return statement invalidates by re-pointing the node of the shared function type, is consulted only through the node-based predicate that also looks at the symbol"
}

// c01R34: found through the round-6 report on C07 (item 1). return double (a declared
// function) panicked in reflect.Set (*interp.node is not assignable to func(int) int), and once
// such a return had been compiled f = double, S{double} and []func(int) int{double} panicked too:
// cfg re-points double's type node to the operand of the return statement.
func c01R34(ic *IC, r *Report) {
	info := ic.Info
	fi := ic.fn(r, "_return")
	if fi == nil {
		return
	}
	// (a)
	found := false
	ast.Inspect(fi.Decl.Body, func(q ast.Node) bool {
		cc, ok := q.(*ast.CaseClause)
		if !ok {
			return true
		}
		isFuncT := false
		for _, e := range cc.List {
			if id := identOf(e); id != nil {
				if c, ok := info.Uses[id].(*types.Const); ok && c.Name() == "funcT" {
					isFuncT = true
				}
			}
		}
		if !isFuncT {
			return true
		}
		found = true
		wraps := len(callsIn(info, cc, true, "interp.genFuncValue", "interp.genFunctionWrapper", "interp.genValueAsFunctionWrapper")) > 0
		plain := len(callsIn(info, cc, true, "interp.genValue")) > 0
		r.Check(wraps && !plain, "R01.34", "_return/func-typed-result/declared-function-wrapped", ic.pos(cc.Pos()), "func-typed results go through the wrapping generator",
			"for a func-typed result _return installs the plain value generator: a declared function is a *node there, so return double (func named() func(int) int { return double }) panics in reflect.Set - value of type *interp.node is not assignable to type func(int) int")
		return true
	})
	if !found {
		r.Errorf("R01.34: the case of func-typed results was not found in _return")
	}
	// (b)
	var target *types.Func
	for f := range ic.G.Funcs {
		if f.Name() == "isNamedFuncSrc" {
			target = f
		}
	}
	if target == nil {
		r.Pass("R01.34", "package/type-node-test-not-used-alone", "", "the type-node test no longer exists")
		return
	}
	var bad []string
	for f, hd := range ic.G.Funcs {
		if hd.Decl.Body == nil || f == target {
			continue
		}
		for _, c := range allCalls(hd.Decl.Body) {
			if calleeOf(info, c) != types.Object(target) {
				continue
			}
			// accepted: inside a predicate on a node that also reads node.sym
			readsSym := false
			ast.Inspect(hd.Decl.Body, func(z ast.Node) bool {
				if se, ok := z.(*ast.SelectorExpr); ok {
					if v := selField(info, se); v != nil && v.Name() == "sym" {
						readsSym = true
					}
				}
				return true
			})
			if !readsSym || len(hd.Decl.Body.List) > 3 {
				bad = append(bad, f.Name()+" at "+ic.pos(c.Pos()))
			}
		}
	}
	sort.Strings(bad)
	r.Check(len(bad) == 0, "R01.34", "package/type-node-test-not-used-alone", ic.pos(ic.G.Funcs[target].Decl.Pos()), "isNamedFuncSrc is consulted only through the predicate that also looks at the symbol",
		"the test that a function type was written in a function declaration is used alone in "+strings.Join(bad, ", ")+": cfg re-points the node of that (shared) type to the operand of a return statement, so after func named() func(int) int { return double } has been compiled, f = double, S{double} or []func(int) int{double} store the *node itself and panic in reflect")
}

func init() {
	ruleText["R01.35"] = "a composite literal is wrapped for an interface destination only when it is built in that destination: the function giving the generators of struct literals their destination type (destType) returns the type of the statement's left-hand side only under a test that the literal has the frame location of that left-hand side (the assign operation was skipped); otherwise the literal keeps its own type and the assign operation converts it"
}

// c01R35: a regression of an earlier repair (f3e7fb7, D33: the assign operation of a multiple
// assignment is no longer skipped) found by the round-7 agent of C04: var i1, i2 I = X{1}, X{2}
// panicked (reflect.Set: value of type interp.valueInterface is not assignable to type struct),
// because doComposite still took the type of the statement's first destination for its own
// destination; the same confusion made h.F = X{2}, arr[0] = X{3} and *p = X{4} panic on the
// original tree.
func c01R35(ic *IC, r *Report) {
	info := ic.Info
	dt := ic.F["destType"]
	if dt == nil || dt.Decl.Body == nil {
		r.Errorf("R01.35: destType not found")
		return
	}
	ancFld := ic.field("node", "anc")
	typFld := ic.field("node", "typ")
	findexFld := ic.field("node", "findex")
	n := 0
	var bad []string
	ast.Inspect(dt.Decl.Body, func(q ast.Node) bool {
		rs, ok := q.(*ast.ReturnStmt)
		if !ok || len(rs.Results) != 1 {
			return true
		}
		// does the returned type come from a child of the ancestor (directly or through a local)?
		fromAnc := false
		var visit func(e ast.Expr, depth int)
		visit = func(e ast.Expr, depth int) {
			ast.Inspect(e, func(z ast.Node) bool {
				switch y := z.(type) {
				case *ast.SelectorExpr:
					if selField(info, y) == ancFld {
						fromAnc = true
					}
				case *ast.Ident:
					if v, ok := info.Uses[y].(*types.Var); ok && !v.IsField() && depth < 2 {
						ast.Inspect(dt.Decl.Body, func(d ast.Node) bool {
							if as, ok := d.(*ast.AssignStmt); ok && len(as.Lhs) == len(as.Rhs) {
								for i, l := range as.Lhs {
									if id := identOf(l); id != nil && info.Defs[id] == v {
										visit(as.Rhs[i], depth+1)
									}
								}
							}
							return true
						})
					}
				}
				return true
			})
		}
		if selField(info, rs.Results[0]) == typFld {
			visit(rs.Results[0], 0)
		}
		if !fromAnc {
			return true
		}
		n++
		guarded := false
		for _, g := range pathGuards(dt.Decl.Body, rs) {
			if !g.want {
				continue
			}
			cmp := false
			ast.Inspect(g.cond, func(z ast.Node) bool {
				if be, ok := z.(*ast.BinaryExpr); ok && be.Op == token.EQL && selField(info, be.X) == findexFld && selField(info, be.Y) == findexFld {
					cmp = true
				}
				return true
			})
			if cmp {
				guarded = true
			}
		}
		if !guarded {
			bad = append(bad, "return "+types.ExprString(rs.Results[0])+" at "+ic.pos(rs.Pos()))
		}
		return true
	})
	if n == 0 {
		r.Pass("R01.35", "destType/left-hand-side-type-only-when-built-there", ic.pos(dt.Decl.Pos()), "destType never returns the type of the statement's left-hand side")
		return
	}
	r.Check(len(bad) == 0, "R01.35", "destType/left-hand-side-type-only-when-built-there", ic.pos(dt.Decl.Pos()), "the type of the left-hand side is returned under a comparison of frame locations",
		"destType gives the generator of a struct literal the type of the statement's first destination ("+strings.Join(bad, "; ")+") without testing that the literal is built there (same frame location): when the assign operation is not skipped - a multiple assignment, a field, element or pointee destination - the literal wraps itself for an interface destination and stores the wrapper in its own struct-typed slot: var i1, i2 I = X{1}, X{2} panics in reflect.Set")
}

func init() {
	ruleText["R01.36"] = "no successor link is set from a node variable that may be nil: in the wiring code of the compile pass (cfg and its plain helpers) a local *node declared without a value and assigned only in some cases of a switch without default (or some branches of an if without else) is not stored into tnext, fnext or start without a nil test on the way - a nil successor ends the enclosing function silently"
	ruleText["R02.20"] = "the result of an operation is computed in a location of its own unless its direct parent consumes it there: in the binary-expression case of cfg, and in the helpers it asks for a destination, the frame location given to the node comes from sc.add, from the position of a return operand, or from a child of the node's own parent - never from a node two levels up (the destination of an assignment whose source merely contains the operation), which the other operand may still have to read"
}

// c01R36: round-7 seed. The four if cases of cfg were merged into a helper wireIf in which the
// successor of the init statement stayed nil for a constant false condition without else:
// if x := f(); false { ... } ended the enclosing function after the init statement.
func c01R36(ic *IC, r *Report) {
	info := ic.Info
	linkFld := map[*types.Var]bool{}
	for _, fn := range []string{"tnext", "fnext", "start"} {
		if v := ic.field("node", fn); v != nil {
			linkFld[v] = true
		}
	}
	n := 0
	nVars := 0
	for _, name := range sortedKeys(ic.F) {
		fi := ic.F[name]
		if fi.Decl.Body == nil {
			continue
		}
		// only code that wires: functions assigning a link field
		wires := false
		ast.Inspect(fi.Decl.Body, func(q ast.Node) bool {
			if as, ok := q.(*ast.AssignStmt); ok {
				for _, l := range as.Lhs {
					if v := selField(info, l); v != nil && linkFld[v] {
						wires = true
					}
				}
			}
			return true
		})
		if !wires {
			continue
		}
		// candidates: var x *node (no value)
		ast.Inspect(fi.Decl.Body, func(q ast.Node) bool {
			ds, ok := q.(*ast.DeclStmt)
			if !ok {
				return true
			}
			gd, ok := ds.Decl.(*ast.GenDecl)
			if !ok || gd.Tok != token.VAR {
				return true
			}
			for _, sp := range gd.Specs {
				vs := sp.(*ast.ValueSpec)
				if len(vs.Values) != 0 {
					continue
				}
				for _, nm := range vs.Names {
					obj := info.ObjectOf(nm)
					if obj == nil || !isNamedPtr(obj.Type(), "node") {
						continue
					}
					nVars++
					// is it assigned on every path? Approximation on the shape that matters: all its
					// assignments sit in case clauses of switches without default / ifs without else
					mayBeNil := true
					ast.Inspect(fi.Decl.Body, func(z ast.Node) bool {
						as, ok := z.(*ast.AssignStmt)
						if !ok {
							return true
						}
						for _, l := range as.Lhs {
							if id := identOf(l); id != nil && info.ObjectOf(id) == obj {
								path := enclosingPath(fi.Decl.Body, as)
								conditional := false
								for k := len(path) - 1; k >= 0; k-- {
									switch y := path[k].(type) {
									case *ast.SwitchStmt:
										hasDefault := false
										for _, st := range y.Body.List {
											if len(st.(*ast.CaseClause).List) == 0 {
												hasDefault = true
											}
										}
										if !hasDefault {
											conditional = true
										}
									case *ast.IfStmt:
										if y.Else == nil {
											conditional = true
										}
									}
									if path[k] == ast.Node(ds) {
										break
									}
								}
								if !conditional {
									mayBeNil = false
								}
							}
						}
						return true
					})
					if !mayBeNil {
						continue
					}
					// stores of the variable into a link
					ast.Inspect(fi.Decl.Body, func(z ast.Node) bool {
						as, ok := z.(*ast.AssignStmt)
						if !ok || len(as.Lhs) != len(as.Rhs) {
							return true
						}
						for i, l := range as.Lhs {
							v := selField(info, l)
							if v == nil || !linkFld[v] {
								continue
							}
							if id := identOf(as.Rhs[i]); id == nil || info.ObjectOf(id) != obj {
								continue
							}
							n++
							tested := false
							for _, g := range pathGuards(fi.Decl.Body, as) {
								ast.Inspect(g.cond, func(w ast.Node) bool {
									if be, ok := w.(*ast.BinaryExpr); ok && (be.Op == token.NEQ || be.Op == token.EQL) {
										if a, b := identOf(be.X), identOf(be.Y); a != nil && b != nil && ((info.ObjectOf(a) == obj && b.Name == "nil") || (info.ObjectOf(b) == obj && a.Name == "nil")) {
											tested = true
										}
									}
									return true
								})
							}
							r.Check(tested, "R01.36", fmt.Sprintf("%s/%s-stored-into-%s/never-nil", name, nm.Name, v.Name()), ic.pos(as.Pos()), "the successor stored is tested against nil on the way",
								name+" stores "+nm.Name+" into "+types.ExprString(l)+" although "+nm.Name+" (declared without a value at "+ic.pos(ds.Pos())+") is only assigned in some cases of a switch without default: when none applies the link is nil and the enclosing function ends there - if x := f(); false { ... } (constant false condition, no else) returns from the function after the init statement")
						}
						return true
					})
				}
			}
			return true
		})
	}
	if n == 0 {
		r.Pass("R01.36", "package/no-possibly-nil-successor-stored", "", fmt.Sprintf("%d node variables declared without a value in the wiring code, none stored into a successor link while possibly nil", nVars))
	}
}

func init() {
	ruleText["R01.37"] = "a break leaves the innermost for, switch or select statement of its function: (a) in the compile pass every node kind of those statements records itself as the target of break - a case of cfg listing the kind assigns the scope's loop field (for select: the select kind itself, or both kinds of its clauses); (b) the target is not inherited by the scope of a function: in (*scope).push the copy of the loop fields from the enclosing scope is not executed for a scope which starts a new frame; (c) an unlabelled break or continue whose scope has no target is an error, not a jump to a nil successor (which ends the function silently)"
}

// c01R37: found while repairing C12 (break outside a loop accepted): select statements never
// recorded themselves, so a break in a select left the enclosing loop - or the function.
func c01R37(ic *IC, r *Report) {
	info := ic.Info
	cfgFn := ic.fn(r, "Interpreter.cfg")
	if cfgFn == nil {
		return
	}
	loopFld, restartFld := ic.field("scope", "loop"), ic.field("scope", "loopRestart")
	if loopFld == nil || restartFld == nil {
		r.Errorf("R01.37: fields scope.loop / scope.loopRestart not found")
		return
	}
	// (a) kinds whose case assigns sc.loop
	sets := map[string]string{}
	ast.Inspect(cfgFn.Decl.Body, func(q ast.Node) bool {
		cc, ok := q.(*ast.CaseClause)
		if !ok {
			return true
		}
		labels := kindLabels(ic, cc)
		if len(labels) == 0 {
			return true
		}
		for _, st := range cc.Body {
			ast.Inspect(st, func(z ast.Node) bool {
				if inner, ok := z.(*ast.CaseClause); ok && len(kindLabels(ic, inner)) > 0 {
					return false
				}
				as, ok := z.(*ast.AssignStmt)
				if !ok {
					return true
				}
				for _, l := range as.Lhs {
					if se, ok := unparen(l).(*ast.SelectorExpr); ok && selField(info, se) == loopFld {
						for _, lb := range labels {
							sets[lb] = ic.pos(as.Pos())
						}
					}
				}
				return true
			})
		}
		return true
	})
	var kinds []string
	sc := ic.Pk.Types.Scope()
	for _, name := range sc.Names() {
		c, ok := sc.Lookup(name).(*types.Const)
		if !ok {
			continue
		}
		if nt, ok := c.Type().(*types.Named); !ok || nt.Obj().Name() != "nkind" {
			continue
		}
		if strings.HasPrefix(name, "forStmt") || name == "forRangeStmt" || name == "switchStmt" || name == "switchIfStmt" || name == "typeSwitch" || name == "selectStmt" {
			kinds = append(kinds, name)
		}
	}
	sort.Strings(kinds)
	if len(kinds) < 12 {
		r.Errorf("R01.37: only %d statement kinds that a break can leave found among the node kinds (for x9, switch x3, select expected)", len(kinds))
	}
	for _, k := range kinds {
		at, ok := sets[k]
		if k == "selectStmt" && !ok {
			a, oka := sets["commClause"]
			_, okb := sets["commClauseDefault"]
			ok, at = oka && okb, a
		}
		r.Check(ok, "R01.37", "cfg/"+k+"/records-itself-as-the-target-of-break", ic.pos(cfgFn.Decl.Pos()), "a case listing the kind assigns the scope's loop field ("+at+")",
			"no case of cfg listing the node kind "+k+" (nor, for a select, the kinds of its clauses) assigns the scope's loop field: a break inside such a statement is wired to the enclosing statement that did record itself - `for { select { case <-c: break }; after() }` leaves the loop without running after() - or, when there is none, to a nil successor, which ends the function silently")
	}
	// (b) scope.push: the copy of loop is guarded by the parameter that separates frames
	if push := ic.fn(r, "scope.push"); push != nil {
		n := 0
		ast.Inspect(push.Decl.Body, func(q ast.Node) bool {
			as, ok := q.(*ast.AssignStmt)
			if !ok {
				return true
			}
			copies := false
			for _, l := range as.Lhs {
				if se, ok := unparen(l).(*ast.SelectorExpr); ok && (selField(info, se) == loopFld || selField(info, se) == restartFld) {
					copies = true
				}
			}
			if !copies {
				return true
			}
			n++
			guarded := false
			var params []types.Object
			for _, f := range push.Decl.Type.Params.List {
				for _, nm := range f.Names {
					params = append(params, info.ObjectOf(nm))
				}
			}
			for _, p := range enclosingPath(push.Decl.Body, as) {
				if ifs, ok := p.(*ast.IfStmt); ok {
					ast.Inspect(ifs.Cond, func(z ast.Node) bool {
						if id, ok := z.(*ast.Ident); ok {
							for _, pr := range params {
								if info.ObjectOf(id) == pr {
									guarded = true
								}
							}
						}
						return true
					})
				}
			}
			r.Check(guarded, "R01.37", fmt.Sprintf("scope.push/loop-copy#%d/not-across-functions", n), ic.pos(as.Pos()), "the copy is under a condition on the parameter that tells a new frame from a block",
				"(*scope).push copies the loop fields of the enclosing scope unconditionally, also into the scope of a function literal: `for ... { func() { break }() }` is accepted (compiled Go: break is not in a loop) and the break of the literal is wired to a node of the enclosing function, which is executed in the frame of the literal")
			return true
		})
		if n == 0 {
			r.Errorf("R01.37: no copy of the loop fields found in (*scope).push")
		}
	}
	// (c) the unlabelled break/continue cases test their target
	for _, k := range [][2]string{{"breakStmt", "loop"}, {"continueStmt", "loopRestart"}} {
		fld := loopFld
		if k[1] == "loopRestart" {
			fld = restartFld
		}
		var cc *ast.CaseClause
		ast.Inspect(cfgFn.Decl.Body, func(q ast.Node) bool {
			c, ok := q.(*ast.CaseClause)
			if !ok {
				return true
			}
			ls := kindLabels(ic, c)
			if len(ls) != 1 || ls[0] != k[0] {
				return true
			}
			reads := false
			ast.Inspect(c, func(z ast.Node) bool {
				if se, ok := z.(*ast.SelectorExpr); ok && selField(info, se) == fld {
					reads = true
				}
				return true
			})
			if reads {
				cc = c
			}
			return true
		})
		if cc == nil {
			r.Errorf("R01.37: the %s case of cfg reading the scope's %s field was not found", k[0], k[1])
			continue
		}
		tested := ""
		ast.Inspect(cc, func(q ast.Node) bool {
			ifs, ok := q.(*ast.IfStmt)
			if !ok || len(callsIn(info, ifs.Body, true, "interp.node.cfgErrorf")) == 0 {
				return true
			}
			b, ok := unparen(ifs.Cond).(*ast.BinaryExpr)
			if !ok || b.Op != token.EQL {
				return true
			}
			if se, ok := unparen(b.X).(*ast.SelectorExpr); ok && selField(info, se) == fld {
				if id := identOf(b.Y); id != nil && id.Name == "nil" {
					tested = ic.pos(ifs.Pos())
				}
			}
			return true
		})
		r.Check(tested != "", "R01.37", "cfg/case:"+k[0]+"/target-tested", ic.pos(cc.Pos()), "a missing target is an error ("+tested+")",
			"the "+k[0]+" case of cfg stores the scope's "+k[1]+" field into the successor of the statement without testing it: outside of a loop (switch, select) it is nil, the statement is accepted (compiled Go: break is not in a loop, switch, or select) and ends the function silently when executed")
	}
}

func init() {
	ruleText["R01.38"] = "a range statement is a range over a channel only in its form with at most one iteration variable: in (*scope).rangeChanType every return of a type is under a test that the statement has three children (in its condition, an enclosing one, or an earlier `if len(n.child) != 3 { return nil }`) - in the form with a key and a value the child examined is the value variable, and a slice or map of channels would be ranged as a channel"
}

// c01R38: D125 (round-8 report on C08, P1). One of the two paths of rangeChanType tested the
// number of children, the other did not.
func c01R38(ic *IC, r *Report) {
	info := ic.Info
	fi := ic.fn(r, "scope.rangeChanType")
	if fi == nil {
		return
	}
	arity := func(e ast.Expr, op token.Token) bool {
		found := false
		ast.Inspect(e, func(z ast.Node) bool {
			b, ok := z.(*ast.BinaryExpr)
			if !ok || b.Op != op {
				return true
			}
			if l, ok := unparen(b.Y).(*ast.BasicLit); !ok || l.Value != "3" {
				return true
			}
			if c, ok := unparen(b.X).(*ast.CallExpr); ok {
				if id := identOf(c.Fun); id != nil && id.Name == "len" && len(c.Args) == 1 {
					if se, ok := unparen(c.Args[0]).(*ast.SelectorExpr); ok && se.Sel.Name == "child" {
						found = true
					}
				}
			}
			return true
		})
		return found
	}
	// an early exit of the function body for the other forms
	guardEnd := token.NoPos
	for _, st := range fi.Decl.Body.List {
		if ifs, ok := st.(*ast.IfStmt); ok && arity(ifs.Cond, token.NEQ) && len(ifs.Body.List) > 0 {
			if rs, ok := ifs.Body.List[len(ifs.Body.List)-1].(*ast.ReturnStmt); ok && len(rs.Results) == 1 {
				if id := identOf(rs.Results[0]); id != nil && id.Name == "nil" {
					guardEnd = ifs.End()
				}
			}
		}
	}
	n := 0
	ast.Inspect(fi.Decl.Body, func(q ast.Node) bool {
		rs, ok := q.(*ast.ReturnStmt)
		if !ok || len(rs.Results) != 1 {
			return true
		}
		if id := identOf(rs.Results[0]); id != nil && id.Name == "nil" {
			return true
		}
		n++
		ok = guardEnd != token.NoPos && rs.Pos() > guardEnd
		for _, p := range enclosingPath(fi.Decl.Body, rs) {
			if ifs, isIf := p.(*ast.IfStmt); isIf && arity(ifs.Cond, token.EQL) {
				ok = true
			}
		}
		r.Check(ok, "R01.38", fmt.Sprintf("scope.rangeChanType/return#%d/only-for-the-form-without-key", n), ic.pos(rs.Pos()), "the return is under the test of the number of children",
			"(*scope).rangeChanType returns "+types.ExprString(rs.Results[0])+" at "+ic.pos(rs.Pos())+" whatever the form of the range statement: for `for k, v := range x` the child it examines is the value variable v, so a slice, array or map of channels is compiled as a range over a channel - `for _, in := range ins { ... }` over []chan int panics in reflect (Len on int Value), with a map it dereferences nil")
		return true
	})
	_ = info
	if n < 2 {
		r.Errorf("R01.38: only %d returns of a type found in (*scope).rangeChanType", n)
	}
}

func init() {
	ruleText["R01.39"] = "a select clause declares the variable that receives the value only for a short declaration: in the commClause case of cfg's pre-order pass every store into the symbol table of the scope (sc.sym[...] = ...) is under a condition that tests the kind of the clause's statement against defineStmt - `case x = <-c` assigns the variable x of the enclosing scope, it does not declare a second x that vanishes with the clause"
	ruleText["R01.40"] = "every form of comm clause is given a direction: in _select the switch over the forms of a clause (body or not, receive, send) that assigns the direction of the select case has a default branch that assigns it too - a form the author did not list (a receive with assignment and an empty body) is otherwise handed to reflect.Select with direction 0, which panics"
}

// c01R39and40: D127, D128 (round-8 report on C08, P3/P4 and what probing them showed).
func c01R39and40(ic *IC, r *Report) {
	info := ic.Info
	cfgFn := ic.fn(r, "Interpreter.cfg")
	symFld := ic.field("scope", "sym")
	if cfgFn != nil && symFld != nil {
		n := 0
		ast.Inspect(cfgFn.Decl.Body, func(q ast.Node) bool {
			cc, ok := q.(*ast.CaseClause)
			if !ok {
				return true
			}
			ls := kindLabels(ic, cc)
			if len(ls) != 1 || ls[0] != "commClause" {
				return true
			}
			for _, st := range cc.Body {
				ast.Inspect(st, func(z ast.Node) bool {
					as, ok := z.(*ast.AssignStmt)
					if !ok {
						return true
					}
					for _, l := range as.Lhs {
						ix, ok := unparen(l).(*ast.IndexExpr)
						if !ok || selField(info, ix.X) != symFld {
							continue
						}
						n++
						guarded := false
						for _, p := range enclosingPath(cc, as) {
							if ifs, ok := p.(*ast.IfStmt); ok {
								ast.Inspect(ifs.Cond, func(y ast.Node) bool {
									if id, ok := y.(*ast.Ident); ok {
										if c, ok := info.Uses[id].(*types.Const); ok && c.Name() == "defineStmt" {
											guarded = true
										}
									}
									return true
								})
							}
						}
						r.Check(guarded, "R01.39", fmt.Sprintf("cfg/case:commClause/declaration#%d/only-for-a-short-declaration", n), ic.pos(as.Pos()), "the symbol is declared under a test of the statement kind against defineStmt",
							"the commClause case of cfg declares a new variable for the destination of the clause's statement whatever its form: `var x int; select { case x = <-c: }; println(x)` prints 0 (compiled Go prints the value received) - inside the clause a second x shadows the one of the enclosing scope and vanishes with it")
					}
					return true
				})
			}
			return true
		})
		if n == 0 {
			r.Errorf("R01.39: no declaration of a symbol found in the commClause case of cfg (pre-order)")
		}
	}
	sel := ic.fn(r, "_select")
	if sel == nil {
		return
	}
	var sw *ast.SwitchStmt
	dirAssign := func(nd ast.Node) bool {
		found := false
		ast.Inspect(nd, func(z ast.Node) bool {
			if as, ok := z.(*ast.AssignStmt); ok {
				for _, l := range as.Lhs {
					if se, ok := unparen(l).(*ast.SelectorExpr); ok && se.Sel.Name == "Dir" {
						if v := selField(info, se); v != nil && v.Pkg() != nil && v.Pkg().Path() == "reflect" {
							found = true
						}
					}
				}
			}
			return true
		})
		return found
	}
	ast.Inspect(sel.Decl.Body, func(q ast.Node) bool {
		if _, ok := q.(*ast.FuncLit); ok {
			return false
		}
		s, ok := q.(*ast.SwitchStmt)
		if ok && sw == nil && dirAssign(s.Body) {
			sw = s
		}
		return true
	})
	if sw == nil {
		r.Errorf("R01.40: the switch of _select assigning the direction of the select cases was not found")
		return
	}
	def := false
	for _, st := range sw.Body.List {
		if c := st.(*ast.CaseClause); c.List == nil && dirAssign(c) {
			def = true
		}
	}
	r.Check(def, "R01.40", "_select/clause-forms/every-form-has-a-direction", ic.pos(sw.Pos()), "the switch over the clause forms has a default branch assigning the direction",
		"the switch of _select over the forms of a comm clause lists some forms only and has no default branch assigning the direction: a clause of another form - `select { case x = <-c: }`, a receive with assignment and an empty body - keeps direction 0 and reflect.Select panics (invalid Dir)")
}

func init() {
	ruleText["R01.41"] = "each assignment to the blank identifier inside a function has a location of its own: in the assignStmt/defineStmt case of cfg, the lookup that makes a definition reuse the symbol already declared under the destination's name is not executed for the blank identifier - it lies in the else part of a test of the destination's name against \"_\" (or under a condition excluding it). All blanks of a scope otherwise share one symbol, whose slot takes the type of the last one: `_ = f(); _ = g()` with results of different types panics in reflect.Set"
}

// c01R41: D131 (found while writing the demonstration of D132).
func c01R41(ic *IC, r *Report) {
	info := ic.Info
	cfgFn := ic.fn(r, "Interpreter.cfg")
	if cfgFn == nil {
		return
	}
	var cc *ast.CaseClause
	ast.Inspect(cfgFn.Decl.Body, func(q ast.Node) bool {
		c, ok := q.(*ast.CaseClause)
		if !ok {
			return true
		}
		for _, l := range kindLabels(ic, c) {
			if l == "assignStmt" && len(callsIn(info, c, true, "interp.scope.isRedeclared")) > 0 {
				cc = c
			}
		}
		return true
	})
	if cc == nil {
		r.Errorf("R01.41: the assignStmt/defineStmt case of cfg (post-order) was not found")
		return
	}
	blankTest := func(e ast.Expr) (found, negated bool) {
		ast.Inspect(e, func(z ast.Node) bool {
			b, ok := z.(*ast.BinaryExpr)
			if !ok || (b.Op != token.EQL && b.Op != token.NEQ) {
				return true
			}
			if l, ok := unparen(b.Y).(*ast.BasicLit); ok && l.Value == `"_"` {
				if se, ok := unparen(b.X).(*ast.SelectorExpr); ok && se.Sel.Name == "ident" {
					found, negated = true, b.Op == token.NEQ
				}
			}
			return true
		})
		return
	}
	n := 0
	// the reuse: sym = the symbol found by lookup(dest.ident), inside the branch taken for a redeclaration
	ast.Inspect(cc, func(q ast.Node) bool {
		as, ok := q.(*ast.AssignStmt)
		if !ok || len(as.Rhs) != 1 || len(callsIn(info, as.Rhs[0], false, "interp.scope.lookup")) == 0 {
			return true
		}
		path := enclosingPath(cc, as)
		inRedecl := false
		for _, p := range path {
			if ifs, ok := p.(*ast.IfStmt); ok && len(callsIn(info, ifs.Cond, false, "interp.scope.isRedeclared")) > 0 {
				inRedecl = true
			}
		}
		if !inRedecl {
			return true
		}
		n++
		excluded := false
		for i, p := range path {
			ifs, ok := p.(*ast.IfStmt)
			if !ok || i+1 >= len(path) {
				continue
			}
			found, neg := blankTest(ifs.Cond)
			if !found {
				continue
			}
			inElse := ifs.Else != nil && path[i+1] == ast.Node(ifs.Else)
			inBody := path[i+1] == ast.Node(ifs.Body)
			if (inElse && !neg) || (inBody && neg) {
				excluded = true
			}
		}
		r.Check(excluded, "R01.41", fmt.Sprintf("cfg/case:assignStmt/symbol-reuse#%d/not-for-the-blank-identifier", n), ic.pos(as.Pos()), "the reuse of an existing symbol is not reached for the blank identifier",
			"in the assignStmt/defineStmt case of cfg the lookup that makes a definition reuse the symbol declared under the same name is reached for the blank identifier too: all `_` of a scope share one symbol and one slot, whose type is that of the last assignment, so `_ = f(); _ = g()` with f returning a string and g a []string panics (reflect.Set: value of type string is not assignable to type []string)")
		return true
	})
	if n == 0 {
		r.Errorf("R01.41: no reuse of an existing symbol (lookup under the isRedeclared test) found in the assignStmt/defineStmt case of cfg")
	}
}

func init() {
	ruleText["R01.42"] = "a variable redeclared by a multiple short declaration keeps its type: in the assignStmt/defineStmt case of cfg, the block that marks a destination as redeclared (dest.redeclared = true) gives the destination the type of the existing symbol (dest.typ = sym.typ) and reports an error when the source is not assignable to it - otherwise the variable silently takes the type of the new value while its slot keeps the old one (= R12.37)"
}

// c01R42: D144. var fl float64 = 1; k, fl := 1, 2 panicked in reflect.Set; x := 1; a, x := 2, "s" too.
func c01R42(ic *IC, r *Report, rule string) {
	info := ic.Info
	cfgFn := ic.fn(r, "Interpreter.cfg")
	redFld := ic.field("node", "redeclared")
	typFld := ic.field("node", "typ")
	symTyp := ic.field("symbol", "typ")
	if cfgFn == nil || redFld == nil || typFld == nil || symTyp == nil {
		r.Errorf("%s: node.redeclared / node.typ / symbol.typ not found", rule)
		return
	}
	n := 0
	ast.Inspect(cfgFn.Decl.Body, func(q ast.Node) bool {
		blk, ok := q.(*ast.BlockStmt)
		if !ok {
			return true
		}
		marks := false
		for _, st := range blk.List {
			if as, ok := st.(*ast.AssignStmt); ok && len(as.Lhs) == 1 && len(as.Rhs) == 1 {
				if se, ok := unparen(as.Lhs[0]).(*ast.SelectorExpr); ok && selField(info, se) == redFld {
					if id := identOf(as.Rhs[0]); id != nil && id.Name == "true" {
						marks = true
					}
				}
			}
		}
		if !marks {
			return true
		}
		n++
		keeps, checks := false, false
		ast.Inspect(blk, func(z ast.Node) bool {
			switch y := z.(type) {
			case *ast.AssignStmt:
				if len(y.Lhs) == 1 && len(y.Rhs) == 1 {
					l, okl := unparen(y.Lhs[0]).(*ast.SelectorExpr)
					rr, okr := unparen(y.Rhs[0]).(*ast.SelectorExpr)
					if okl && okr && selField(info, l) == typFld && selField(info, rr) == symTyp {
						keeps = true
					}
				}
			case *ast.IfStmt:
				if len(callsIn(info, y.Cond, true, "interp.itype.assignableTo")) > 0 && len(callsIn(info, y.Body, true, "interp.node.cfgErrorf")) > 0 {
					checks = true
				}
			}
			return true
		})
		why := ""
		switch {
		case !keeps:
			why = "the destination does not take the type of the existing symbol"
		case !checks:
			why = "the source is not checked against the type of the existing symbol"
		}
		r.Check(why == "", rule, fmt.Sprintf("cfg/case:assignStmt/redeclared#%d/keeps-its-type", n), ic.pos(blk.Pos()), "a redeclared variable keeps the type of its symbol and the source is checked against it",
			"in the block of the assignStmt/defineStmt case of cfg that marks a destination as redeclared, "+why+": the variable takes the type of the new value while its slot keeps the old one - `var fl float64 = 1; k, fl := 1, 2` panics (reflect.Set: value of type float64 is not assignable to type int), `var i interface{} = 1; j, i := 2, \"s\"` too, and `x := 1; a, x := 2, \"s\"` is accepted (compiled Go: cannot use \"s\" as int value)")
		return true
	})
	if n == 0 {
		r.Errorf("%s: no block marking a destination as redeclared found in cfg", rule)
	}
}
