package main

import (
	"fmt"
	"go/ast"
	"go/token"
	"go/types"
	"sort"
	"strings"

	"golang.org/x/tools/go/cfg"
)

// R01.8: a run-time closure that stores its node's result on some path stores it on every
// path that continues execution. The frame slot of an expression keeps the value of the
// previous execution of the same expression in the same activation (loops, repeated
// conditions), so a path that leaves the slot untouched makes the expression yield a stale
// value: (a && b) || c re-reads the old true, m[k] on a missing key yields the last hit.

// resultStoreExceptions: closures where a path deliberately leaves the result untouched,
// keyed generator/closure index, with the reason.
var resultStoreExceptions = map[string]string{}

func c01R8(ic *IC, r *Report, rule string, only map[string]bool) {
	info := ic.Info
	nClosures, nChecked := 0, 0
	for _, name := range sortedKeys(ic.F) {
		fi := ic.F[name]
		if fi.Decl.Body == nil || fi.Obj == nil || fi.Decl.Recv != nil {
			continue
		}
		if only != nil && !only[name] {
			continue
		}
		sig := fi.Obj.Type().(*types.Signature)
		if sig.Params().Len() != 1 || sig.Results().Len() != 0 || !isNamedPtr(sig.Params().At(0).Type(), "node") {
			continue
		}
		var nparam types.Object
		if len(fi.Decl.Type.Params.List[0].Names) > 0 {
			nparam = info.ObjectOf(fi.Decl.Type.Params.List[0].Names[0])
		}
		// result accessors: locals assigned from a value generator applied to the node itself
		dests := map[types.Object]bool{}
		ast.Inspect(fi.Decl.Body, func(n ast.Node) bool {
			as, ok := n.(*ast.AssignStmt)
			if !ok || len(as.Lhs) != len(as.Rhs) {
				return true
			}
			for i, rhs := range as.Rhs {
				c, ok := unparen(rhs).(*ast.CallExpr)
				if !ok || len(c.Args) == 0 {
					continue
				}
				f, ok := calleeOf(info, c).(*types.Func)
				if !ok || f.Pkg() != ic.Pk.Types || !strings.HasPrefix(f.Name(), "gen") {
					continue
				}
				isDest := false
				if aid, ok := unparen(c.Args[0]).(*ast.Ident); ok && info.ObjectOf(aid) == nparam {
					isDest = true
				}
				// the destinations of a two-value form: n.anc.child[i]
				if ix, ok := unparen(c.Args[0]).(*ast.IndexExpr); ok {
					if se, ok := unparen(ix.X).(*ast.SelectorExpr); ok && se.Sel.Name == "child" {
						if se2, ok := unparen(se.X).(*ast.SelectorExpr); ok && se2.Sel.Name == "anc" {
							if aid, ok := unparen(se2.X).(*ast.Ident); ok && info.ObjectOf(aid) == nparam {
								isDest = true
							}
						}
					}
				}
				if isDest {
					if lid, ok := as.Lhs[i].(*ast.Ident); ok {
						dests[info.ObjectOf(lid)] = true
					}
				}
			}
			return true
		})
		if len(dests) == 0 {
			continue
		}
		idx := 0
		for _, fl := range (&c02ctx{ic: ic}).closuresOf(fi) {
			idx++
			nClosures++
			// locals of the closure holding the value of a result accessor: result := vres(f)
			local := map[types.Object]types.Object{}
			ast.Inspect(fl.Body, func(m ast.Node) bool {
				as, ok := m.(*ast.AssignStmt)
				if !ok || len(as.Lhs) != len(as.Rhs) {
					return true
				}
				for i, rhs := range as.Rhs {
					if inner, ok := unparen(rhs).(*ast.CallExpr); ok {
						if id, ok := unparen(inner.Fun).(*ast.Ident); ok && dests[info.ObjectOf(id)] {
							if lid, ok := as.Lhs[i].(*ast.Ident); ok && info.ObjectOf(lid) != nil {
								local[info.ObjectOf(lid)] = info.ObjectOf(id)
							}
						}
					}
				}
				return true
			})
			// a store under `if <flag>` where flag is a boolean fixed when the closure is generated
			// (a variable of the generator) is compiled in or out as a whole: not a path of the closure
			genTimeGuarded := func(c ast.Node) bool {
				for _, p := range enclosingPath(fl.Body, c) {
					ifs, ok := p.(*ast.IfStmt)
					if !ok || ifs.Init != nil {
						continue
					}
					cond := unparen(ifs.Cond)
					if u, ok := cond.(*ast.UnaryExpr); ok && u.Op == token.NOT {
						cond = unparen(u.X)
					}
					if id, ok := cond.(*ast.Ident); ok {
						if v, ok := info.ObjectOf(id).(*types.Var); ok && (v.Pos() < fl.Pos() || v.Pos() > fl.End()) && !assignedIn(info, fl.Body, v) {
							return true
						}
					}
				}
				return false
			}
			// storeOf: the result accessors the node stores through (X.Set*(...) with X = dest(f) or a local holding it)
			storesOf := func(n ast.Node) map[types.Object]bool {
				found := map[types.Object]bool{}
				ast.Inspect(n, func(m ast.Node) bool {
					if _, ok := m.(*ast.FuncLit); ok {
						return false
					}
					c, ok := m.(*ast.CallExpr)
					if !ok {
						return true
					}
					se, ok := unparen(c.Fun).(*ast.SelectorExpr)
					if !ok || !strings.HasPrefix(se.Sel.Name, "Set") {
						return true
					}
					if genTimeGuarded(c) {
						return true
					}
					if inner, ok := unparen(se.X).(*ast.CallExpr); ok {
						if id, ok := unparen(inner.Fun).(*ast.Ident); ok && dests[info.ObjectOf(id)] {
							found[info.ObjectOf(id)] = true
						}
					}
					if id, ok := unparen(se.X).(*ast.Ident); ok {
						if d, ok := local[info.ObjectOf(id)]; ok {
							found[d] = true
						}
					}
					return true
				})
				return found
			}
			stored := storesOf(fl.Body)
			if len(stored) == 0 {
				continue
			}
			nChecked++
			g := cfg.New(fl.Body, func(c *ast.CallExpr) bool { return !noReturn(info, c) })
			var missing []string
			var storedObjs []types.Object
			for d := range stored {
				storedObjs = append(storedObjs, d)
			}
			sort.Slice(storedObjs, func(i, j int) bool { return storedObjs[i].Pos() < storedObjs[j].Pos() })
			for _, d := range storedObjs {
				seen := map[*cfg.Block]bool{}
				var walk func(b *cfg.Block)
				walk = func(b *cfg.Block) {
					if seen[b] {
						return
					}
					seen[b] = true
					for _, nd := range b.Nodes {
						if storesOf(nd)[d] {
							return // stored on this path
						}
						if rs, ok := nd.(*ast.ReturnStmt); ok && len(rs.Results) == 1 {
							if id, ok := unparen(rs.Results[0]).(*ast.Ident); ok && id.Name == "nil" {
								continue
							}
							missing = append(missing, "return "+types.ExprString(rs.Results[0])+" at "+ic.pos(rs.Pos())+" (result "+d.Name()+")")
						}
					}
					for _, s := range b.Succs {
						walk(s)
					}
				}
				if len(g.Blocks) > 0 {
					walk(g.Blocks[0])
				}
			}
			key := fmt.Sprintf("%s/closure#%d/result-stored-on-every-path", name, idx)
			if why, ok := resultStoreExceptions[fmt.Sprintf("%s/closure#%d", name, idx)]; ok && len(missing) > 0 {
				r.Pass(rule, key, ic.pos(fl.Pos()), "frozen exception: "+why)
				continue
			}
			r.Check(len(missing) == 0, rule, key, ic.pos(fl.Pos()), "the node's result is stored on every path that continues execution",
				"the closure stores the node's result on some paths but reaches "+strings.Join(dedupStr(missing), ", ")+" without storing it: the slot keeps the value of the previous execution of the same expression in this activation, which the consumer then reads (a nested && / || condition evaluated twice, m[k] on a missing key after a hit)")
		}
	}
	r.Info["result_storing_closures_checked"] = nChecked
	floor := 50
	if only != nil {
		floor = 1
	}
	if nChecked < floor {
		r.Errorf("%s: only %d result-storing closures analysed (of %d)", rule, nChecked, nClosures)
	}
}

// R01.9: ranging over a string yields the byte offset of each rune, an invalid byte counting
// for one rune of width 1. Every variant installed for a string operand must decode the bytes
// of the string itself (utf8.DecodeRuneInString): going through a []rune loses the width of
// invalid bytes. The key-only form `for i := range s` is a sibling of the key-value form and
// must do the same.
func c01R9(ic *IC, r *Report) {
	fi := ic.fn(r, "_range")
	if fi == nil {
		return
	}
	n := 0
	ast.Inspect(fi.Decl.Body, func(nd ast.Node) bool {
		ifs, ok := nd.(*ast.IfStmt)
		if !ok || ifs.Else == nil {
			return true
		}
		c, ok := unparen(ifs.Cond).(*ast.CallExpr)
		if !ok || !isCallTo(ic.Info, c, "interp.isString") {
			return true
		}
		n++
		// the string arm installs its own closure decoding the bytes of the string
		decodes := false
		ast.Inspect(ifs.Body, func(m ast.Node) bool {
			if fl, ok := m.(*ast.FuncLit); ok && isFrameClosure(ic.Info, fl) {
				if len(callsIn(ic.Info, fl.Body, true, "unicode/utf8.DecodeRuneInString", "unicode/utf8.DecodeRune")) > 0 {
					decodes = true
				}
			}
			return true
		})
		r.Check(decodes, "R01.9", fmt.Sprintf("_range/string-variant#%d/byte-offsets", n), ic.pos(ifs.Pos()), "the string variant decodes the runes from the bytes of the string",
			"this variant of the range generator for string operands installs no closure decoding the string with utf8.DecodeRuneInString: a key that is the index of the rune (for i := range \"héy\" yields 0 1 2, compiled Go 0 1 3), or a byte position recomputed by converting a []rune prefix back to a string (an invalid byte becomes U+FFFD, three bytes wide: for i := range \"a\\xffb\" yields 0 1 4, compiled Go 0 1 2), is not the position of the rune in the string")
		return true
	})
	if n < 2 {
		r.Errorf("R01.9: %d string variants (if isString(...) {...} else {...}) found in the range generator; the key-value and the key-only form are expected", n)
	}
}

// R01.10: a blank range value has no frame slot. cfg gives no location to the value of
// `for i, _ := range x` (it treats it as absent), so the range generator must not store the
// element through that child's findex (which is 0: the function's first result or argument):
// every store into f.data[<findex of child 1>] is guarded by a test derived from that child's
// identifier being "_".
func c01R10(ic *IC, r *Report) {
	fi := ic.fn(r, "_range")
	if fi == nil {
		return
	}
	info := ic.Info
	// index1 := n.child[1].findex
	var idx types.Object
	blank := map[types.Object]bool{}
	ast.Inspect(fi.Decl.Body, func(nd ast.Node) bool {
		as, ok := nd.(*ast.AssignStmt)
		if !ok || len(as.Lhs) != len(as.Rhs) {
			return true
		}
		for i, rhs := range as.Rhs {
			lid, ok := as.Lhs[i].(*ast.Ident)
			if !ok {
				continue
			}
			txt := types.ExprString(rhs)
			if txt == "n.child[1].findex" {
				idx = info.ObjectOf(lid)
			}
			if be, ok := unparen(rhs).(*ast.BinaryExpr); ok && (be.Op == token.NEQ || be.Op == token.EQL) {
				if types.ExprString(be.X) == "n.child[1].ident" && types.ExprString(be.Y) == `"_"` {
					blank[info.ObjectOf(lid)] = true
				}
			}
		}
		return true
	})
	if idx == nil {
		r.Errorf("R01.10: the location of the range value (n.child[1].findex) was not found in the range generator")
		return
	}
	nStores := 0
	var bad []string
	ast.Inspect(fi.Decl.Body, func(nd ast.Node) bool {
		c, ok := nd.(*ast.CallExpr)
		if !ok {
			return true
		}
		se, ok := unparen(c.Fun).(*ast.SelectorExpr)
		if !ok || !strings.HasPrefix(se.Sel.Name, "Set") {
			return true
		}
		ix, ok := unparen(se.X).(*ast.IndexExpr)
		if !ok {
			return true
		}
		iid, ok := unparen(ix.Index).(*ast.Ident)
		if !ok || info.ObjectOf(iid) != idx {
			return true
		}
		nStores++
		guarded := false
		for _, p := range enclosingPath(fi.Decl.Body, c) {
			if ifs, ok := p.(*ast.IfStmt); ok {
				ast.Inspect(ifs.Cond, func(m ast.Node) bool {
					if id, ok := m.(*ast.Ident); ok && blank[info.ObjectOf(id)] {
						guarded = true
					}
					if types.ExprString(ifs.Cond) == `n.child[1].ident != "_"` {
						guarded = true
					}
					return true
				})
			}
		}
		if !guarded {
			bad = append(bad, ic.pos(c.Pos()))
		}
		return true
	})
	if nStores == 0 {
		r.Errorf("R01.10: no store of the range value found in the range generator")
		return
	}
	r.Check(len(bad) == 0, "R01.10", "_range/blank-value-not-stored", ic.pos(fi.Decl.Pos()), fmt.Sprintf("%d stores of the range value, all guarded by the blank test", nStores),
		"the range generator stores the element through the value child's frame index at "+strings.Join(bad, ", ")+" without testing that the value is not the blank identifier: for `for i, _ := range x` cfg allots no slot, the index is 0 and the element overwrites the function's first result or argument (or panics when the types differ)")
}

// R01.11: the go1.22 loop-variable idiom. cfg turns `i := i` inside the body of a for/range
// loop whose variable is i into a no-op (the variable is already per-iteration). The shortcut
// is only valid for that exact statement: `i := i * 2` declares a new variable with another
// value, so the condition of the shortcut must test the source operand (its identifier or
// kind), not only the name of the destination.
func c01R11(ic *IC, r *Report) {
	fi := ic.fn(r, "Interpreter.cfg")
	if fi == nil {
		return
	}
	info := ic.Info
	genFld := ic.field("node", "gen")
	isConstNamed := func(e ast.Expr, names ...string) bool {
		id, ok := unparen(e).(*ast.Ident)
		if !ok {
			return false
		}
		c, ok := info.Uses[id].(*types.Const)
		if !ok {
			return false
		}
		for _, n := range names {
			if c.Name() == n {
				return true
			}
		}
		return false
	}
	n := 0
	ast.Inspect(fi.Decl.Body, func(nd ast.Node) bool {
		as, ok := nd.(*ast.AssignStmt)
		if !ok || len(as.Lhs) != 1 || len(as.Rhs) != 1 || selField(info, as.Lhs[0]) != genFld {
			return true
		}
		if id, ok := unparen(as.Rhs[0]).(*ast.Ident); !ok || id.Name != "nop" {
			return true
		}
		// under a condition on the grand-parent being a for/range statement?
		loopGuard := false
		var inner *ast.IfStmt
		for _, p := range enclosingPath(fi.Decl.Body, as) {
			ifs, ok := p.(*ast.IfStmt)
			if !ok {
				continue
			}
			inner = ifs
			ast.Inspect(ifs.Cond, func(m ast.Node) bool {
				if e, ok := m.(ast.Expr); ok && isConstNamed(e, "forStmt7", "rangeStmt") {
					loopGuard = true
				}
				return true
			})
		}
		if !loopGuard || inner == nil {
			return true
		}
		n++
		// the source operand: the local defined from n.child[...] that is not the destination;
		// accept any mention of an identifier named like the source of the enclosing pair loop
		testsSource := false
		ast.Inspect(inner.Cond, func(m ast.Node) bool {
			se, ok := m.(*ast.SelectorExpr)
			if !ok {
				return true
			}
			if id, ok := unparen(se.X).(*ast.Ident); ok && id.Name == "src" && (se.Sel.Name == "ident" || se.Sel.Name == "kind" || se.Sel.Name == "sym") {
				testsSource = true
			}
			return true
		})
		r.Check(testsSource, "R01.11", fmt.Sprintf("cfg/loop-variable-idiom#%d/source-is-the-variable", n), ic.pos(inner.Pos()), "the shortcut for `i := i` tests the source operand",
			"the shortcut that turns a redeclaration of the loop variable into a no-op ("+types.ExprString(inner.Cond)+") does not test the source operand: `i := i * 2` in the body of `for i := ...` is dropped (and its operand's closure generation dereferences a nil type), where compiled Go declares a new i")
		// Since the body's copy of a loop variable is copied back before the post statement
		// (R01.3), even `i := i` is not a no-op: the new i is a distinct variable, and a later
		// write to it must not reach the loop variable. Found D67.
		r.Fail("R01.11", fmt.Sprintf("cfg/loop-variable-idiom#%d/redeclaration-creates-a-variable", n), ic.pos(as.Pos()),
			"cfg turns the redeclaration of a loop variable in the loop body (`i := i`) into a no-op ("+ic.pos(as.Pos())+"): the inner i is then the body's copy of the loop variable itself, which is copied back before the post statement, so for i := 0; i < 3; i++ { i := i; i += 10 } ends after one iteration (compiled Go: three)")
		return true
	})
	if n == 0 {
		r.Pass("R01.11", "cfg/loop-variable-redeclaration-is-never-a-no-op", ic.pos(fi.Decl.Pos()), "no define statement is dropped because it redeclares a loop variable")
	}
	// every variable of a range clause (key and value) is recognised as a loop variable by the
	// define case: the node standing for the redeclared loop variable is assigned only inside a
	// loop over the statement's variables (found D68: `for _, v := range xs { v := v }` read zero)
	nFi := 0
	ast.Inspect(fi.Decl.Body, func(nd ast.Node) bool {
		ifs, ok := nd.(*ast.IfStmt)
		if !ok {
			return true
		}
		mentionsRange, callsForInit := false, false
		ast.Inspect(ifs.Cond, func(m ast.Node) bool {
			if e, ok := m.(ast.Expr); ok && isConstNamed(e, "rangeStmt") {
				mentionsRange = true
			}
			if c, ok := m.(*ast.CallExpr); ok {
				if f, ok := calleeOf(info, c).(*types.Func); ok && f.Name() == "hasForInit" {
					callsForInit = true
				}
			}
			return true
		})
		if !mentionsRange || !callsForInit {
			return true
		}
		// assignments of a *node local from another node expression, in this if statement
		var decl types.Object
		ast.Inspect(ifs.Body, func(m ast.Node) bool {
			if ds, ok := m.(*ast.DeclStmt); ok {
				if gd, ok := ds.Decl.(*ast.GenDecl); ok {
					for _, sp := range gd.Specs {
						if vs, ok := sp.(*ast.ValueSpec); ok && len(vs.Names) == 1 && len(vs.Values) == 0 && isNamedPtr(info.TypeOf(vs.Names[0]), "node") && decl == nil {
							decl = info.ObjectOf(vs.Names[0])
						}
					}
				}
			}
			return true
		})
		if decl == nil {
			return true
		}
		ast.Inspect(ifs.Body, func(m ast.Node) bool {
			as, ok := m.(*ast.AssignStmt)
			if !ok || len(as.Lhs) != 1 {
				return true
			}
			if id := identOf(as.Lhs[0]); id == nil || info.ObjectOf(id) != decl {
				return true
			}
			nFi++
			inLoop := false
			for _, p := range enclosingPath(ifs.Body, as) {
				switch p.(type) {
				case *ast.RangeStmt, *ast.ForStmt:
					inLoop = true
				}
			}
			r.Check(inLoop, "R01.11", fmt.Sprintf("cfg/redeclared-loop-variable#%d/every-variable-of-the-clause", nFi), ic.pos(as.Pos()), "the redeclared loop variable is searched among all the variables of the clause",
				"cfg recognises the redeclaration of a loop variable by comparing the new name with "+types.ExprString(as.Rhs[0])+" only, outside a loop over the variables of the clause: for a range clause the value variable is missed, so for _, v := range xs { v := v } assigns the fresh v from itself and reads the zero value")
			return true
		})
		return true
	})
	if nFi == 0 {
		r.Errorf("R01.11: the search for the redeclared loop variable (a *node local assigned in the for/range branch of the define case) was not found")
	}
}

// R01.12: branch polarity outside the operator generators. A run-time closure that can
// return either successor continues with tnext when the value it branches on is true and
// with fnext when it is false: `if r.Bool() { return tnext }; return fnext`,
// `if !ok { return fnext }`. Swapping the two inverts every condition built from that
// construct (a map lookup used as condition, a call returning bool, a type switch clause).
// Conditions that are not a plain boolean read (comparisons of indexes, type identities) are
// not judged. A boolean literal stored right before a return must agree with the successor.
func c01R12(ic *IC, r *Report) {
	info := ic.Info
	nGen, nIfs := 0, 0
	for _, name := range sortedKeys(ic.F) {
		fi := ic.F[name]
		if fi.Decl.Body == nil || fi.Obj == nil || fi.Decl.Recv != nil {
			continue
		}
		sig := fi.Obj.Type().(*types.Signature)
		if sig.Params().Len() != 1 || sig.Results().Len() != 0 || !isNamedPtr(sig.Params().At(0).Type(), "node") {
			continue
		}
		// successor variables
		succ := map[types.Object]string{}
		ast.Inspect(fi.Decl.Body, func(n ast.Node) bool {
			as, ok := n.(*ast.AssignStmt)
			if !ok || len(as.Lhs) != 1 || len(as.Rhs) != 1 {
				return true
			}
			id, ok := as.Lhs[0].(*ast.Ident)
			if !ok {
				return true
			}
			if c, ok := unparen(as.Rhs[0]).(*ast.CallExpr); ok && len(c.Args) == 1 {
				if se, ok := unparen(c.Args[0]).(*ast.SelectorExpr); ok && (se.Sel.Name == "tnext" || se.Sel.Name == "fnext") {
					if xid, ok := unparen(se.X).(*ast.Ident); ok && xid.Name == "n" {
						succ[info.ObjectOf(id)] = se.Sel.Name
					}
				}
			}
			return true
		})
		if len(succ) < 2 {
			continue
		}
		retOf := func(stmts []ast.Stmt) string {
			if len(stmts) == 0 {
				return ""
			}
			if rs, ok := stmts[len(stmts)-1].(*ast.ReturnStmt); ok && len(rs.Results) == 1 {
				if id, ok := unparen(rs.Results[0]).(*ast.Ident); ok {
					return succ[info.ObjectOf(id)]
				}
			}
			return ""
		}
		// polarity of a condition: +1 plain boolean read, -1 its negation, 0 not judged
		var pol func(e ast.Expr) int
		isBoolRead := func(e ast.Expr) bool {
			switch x := unparen(e).(type) {
			case *ast.CallExpr:
				if se, ok := unparen(x.Fun).(*ast.SelectorExpr); ok && se.Sel.Name == "Bool" && len(x.Args) == 0 {
					return true
				}
			case *ast.Ident:
				if t := info.TypeOf(x); t != nil && types.Identical(t.Underlying(), types.Typ[types.Bool]) {
					if _, isVar := info.ObjectOf(x).(*types.Var); isVar {
						return true
					}
				}
			}
			return false
		}
		pol = func(e ast.Expr) int {
			e = unparen(e)
			if isBoolRead(e) {
				return 1
			}
			switch x := e.(type) {
			case *ast.UnaryExpr:
				if x.Op == token.NOT {
					return -pol(x.X)
				}
			case *ast.BinaryExpr:
				if x.Op == token.LAND {
					// `fnext != nil && !b`: successor-presence tests are neutral
					neutral := func(y ast.Expr) bool {
						if be, ok := unparen(y).(*ast.BinaryExpr); ok && (be.Op == token.NEQ || be.Op == token.EQL) {
							if id, ok := unparen(be.X).(*ast.Ident); ok && succ[info.ObjectOf(id)] != "" {
								return true
							}
						}
						return false
					}
					switch {
					case neutral(x.X):
						return pol(x.Y)
					case neutral(x.Y):
						return pol(x.X)
					}
					a, b := pol(x.X), pol(x.Y)
					if a == b {
						return a
					}
				}
			}
			return 0
		}
		var bad []string
		judged := 0
		for _, fl := range (&c02ctx{ic: ic}).closuresOf(fi) {
			ast.Inspect(fl.Body, func(n ast.Node) bool {
				switch x := n.(type) {
				case *ast.IfStmt:
					p := pol(x.Cond)
					s := retOf(x.Body.List)
					if p == 0 || s == "" {
						return true
					}
					// only the plain form: the body stores and returns, nothing else decides; a
					// body that stores a boolean literal is judged by that literal (below)
					simple := true
					for i, st := range x.Body.List {
						if i == len(x.Body.List)-1 {
							break
						}
						ast.Inspect(st, func(m ast.Node) bool {
							switch y := m.(type) {
							case *ast.IfStmt, *ast.ReturnStmt, *ast.SwitchStmt, *ast.ForStmt, *ast.RangeStmt:
								simple = false
							case *ast.CallExpr:
								if isCallTo(info, y, "reflect.Value.SetBool") && len(y.Args) == 1 {
									if l := types.ExprString(y.Args[0]); l == "true" || l == "false" {
										simple = false
									}
								}
							}
							return true
						})
					}
					if !simple {
						return true
					}
					judged++
					want := "tnext"
					if p < 0 {
						want = "fnext"
					}
					if s != want {
						bad = append(bad, fmt.Sprintf("if %s { ... return %s } at %s", types.ExprString(x.Cond), s, ic.pos(x.Pos())))
					}
				case *ast.BlockStmt:
					// SetBool(<literal>) directly followed by a return of a successor
					for i := 0; i+1 < len(x.List); i++ {
						es, ok := x.List[i].(*ast.ExprStmt)
						if !ok {
							continue
						}
						c, ok := es.X.(*ast.CallExpr)
						if !ok || !isCallTo(info, c, "reflect.Value.SetBool") || len(c.Args) != 1 {
							continue
						}
						lit := types.ExprString(c.Args[0])
						if lit != "true" && lit != "false" {
							continue
						}
						s := retOf(x.List[i+1 : i+2])
						if s == "" {
							continue
						}
						judged++
						if (lit == "true") != (s == "tnext") {
							bad = append(bad, fmt.Sprintf("SetBool(%s) followed by return %s at %s", lit, s, ic.pos(es.Pos())))
						}
					}
				}
				return true
			})
		}
		if judged == 0 {
			continue
		}
		nGen++
		nIfs += judged
		r.Check(len(bad) == 0, "R01.12", name+"/branch-polarity", ic.pos(fi.Decl.Pos()), fmt.Sprintf("%d branch decisions: a true value continues with tnext, a false one with fnext", judged),
			"the generator "+name+" continues with the wrong successor: "+strings.Join(bad, "; ")+": every condition built from this construct takes the other branch")
	}
	r.Info["branching_generators"] = nGen
	if nGen < 10 || nIfs < 40 {
		r.Errorf("R01.12: only %d generators with %d judged branch decisions (10 and 40 expected)", nGen, nIfs)
	}
}

// R01.14: cfg may turn an assignment into a no-op (n.gen = nop) when the right-hand side
// writes its result straight into the destination (call, receive, struct literal, arithmetic).
// The decision is taken per (destination, source) pair inside the loop over the pairs, but it
// disables the whole statement: for a multiple assignment every other pair is dropped
// (x, y = <-ch, 7 leaves y unchanged) and nothing evaluates the sources before the
// destinations. Every such statement must be unreachable when the assignment has several
// destinations (conditions evaluated three-valued under n.nleft > 1, n.nright > 1, len(n.child) >= 4).
func c01R14(ic *IC, r *Report, rule string) {
	fi := ic.fn(r, "Interpreter.cfg")
	if fi == nil {
		return
	}
	info := ic.Info
	genFld := ic.field("node", "gen")
	isConstNamed := func(e ast.Expr, names ...string) bool {
		id, ok := unparen(e).(*ast.Ident)
		if !ok {
			return false
		}
		c, ok := info.Uses[id].(*types.Const)
		if !ok {
			return false
		}
		for _, n := range names {
			if c.Name() == n {
				return true
			}
		}
		return false
	}
	atom := func(e ast.Expr) int {
		be, ok := e.(*ast.BinaryExpr)
		if !ok {
			return triUnknown
		}
		tv, okc := info.Types[be.Y]
		if !okc || tv.Value == nil {
			return triUnknown
		}
		k := tv.Value.ExactString()
		xs := types.ExprString(be.X)
		switch xs {
		case "n.nleft", "n.nright":
			switch {
			case be.Op == token.GTR && k == "1", be.Op == token.GEQ && k == "2", be.Op == token.NEQ && k == "1":
				return triTrue
			case be.Op == token.EQL && k == "1", be.Op == token.LSS && k == "2", be.Op == token.LEQ && k == "1":
				return triFalse
			}
		case "len(n.child)":
			switch {
			case be.Op == token.LSS && (k == "4" || k == "3"), be.Op == token.LEQ && (k == "3" || k == "2"), be.Op == token.EQL && (k == "2" || k == "3"):
				return triFalse
			case be.Op == token.GEQ && (k == "4" || k == "3"), be.Op == token.GTR && (k == "3" || k == "2"):
				return triTrue
			}
		}
		return triUnknown
	}
	// the assignment case of the post-order switch
	var assignCase *ast.CaseClause
	ast.Inspect(fi.Decl.Body, func(n ast.Node) bool {
		if cc, ok := n.(*ast.CaseClause); ok {
			has := map[string]bool{}
			for _, e := range cc.List {
				if id, ok := unparen(e).(*ast.Ident); ok {
					has[id.Name] = true
				}
			}
			if has["assignStmt"] && has["defineStmt"] && len(callsIn(info, cc, false, "interp.typecheck.assignExpr")) > 0 {
				assignCase = cc
			}
		}
		return true
	})
	if assignCase == nil {
		r.Errorf("%s: the post-order case of assignStmt/defineStmt was not found in cfg", rule)
		return
	}
	n := 0
	ast.Inspect(assignCase, func(nd ast.Node) bool {
		as, ok := nd.(*ast.AssignStmt)
		if !ok || len(as.Lhs) != 1 || len(as.Rhs) != 1 || selField(info, as.Lhs[0]) != genFld {
			return true
		}
		if id, ok := unparen(as.Lhs[0].(*ast.SelectorExpr).X).(*ast.Ident); !ok || id.Name != "n" {
			return true
		}
		if id, ok := unparen(as.Rhs[0]).(*ast.Ident); !ok || id.Name != "nop" {
			return true
		}
		guards := pathGuards(assignCase, as)
		// the loop-variable idiom (i := i) is decided by R01.11
		idiom := false
		for _, g := range guards {
			ast.Inspect(g.cond, func(m ast.Node) bool {
				if e, ok := m.(ast.Expr); ok && isConstNamed(e, "forStmt7", "rangeStmt") {
					idiom = true
				}
				return true
			})
		}
		if idiom {
			return true
		}
		// not run-time assignments: the guard variable of a type switch (bound by the switch
		// itself) and constant declarations (nothing to execute, whatever the number of names)
		other := false
		for _, g := range guards {
			ast.Inspect(g.cond, func(m ast.Node) bool {
				if e, ok := m.(ast.Expr); ok && g.want && isConstNamed(e, "typeSwitch", "constDecl") {
					other = true
				}
				return true
			})
		}
		if other {
			return true
		}
		n++
		infeasible := ""
		for _, g := range guards {
			v := evalCond(g.cond, atom)
			if (g.want && v == triFalse) || (!g.want && v == triTrue) {
				infeasible = types.ExprString(g.cond)
				break
			}
		}
		own := ""
		for i := len(guards) - 1; i >= 0; i-- {
			if guards[i].want {
				own = types.ExprString(guards[i].cond)
				break
			}
		}
		if len(own) > 60 {
			own = own[:60] + "..."
		}
		r.Check(infeasible != "", rule, fmt.Sprintf("cfg/assign-skipped#%d/single-assignment-only", n), ic.pos(as.Pos()), "excluded for multiple assignments by "+infeasible,
			"cfg disables the assign operation (n.gen = nop, under "+own+") also for an assignment with several destinations: the decision is taken for one (destination, source) pair but drops the whole statement, so the other destinations are never assigned (x, y = <-ch, 7 leaves y unchanged; a, b = T{1}, c leaves b unchanged) and sources are not evaluated before destinations")
		return true
	})
	if n < 3 {
		r.Errorf("%s: only %d statements disabling the assign operation found in cfg (call, receive, struct literal, arithmetic expected)", rule, n)
	}
}

// assignedIn reports whether v is assigned (or has its address taken) inside n.
func assignedIn(info *types.Info, n ast.Node, v types.Object) bool {
	found := false
	ast.Inspect(n, func(m ast.Node) bool {
		switch x := m.(type) {
		case *ast.AssignStmt:
			for _, l := range x.Lhs {
				if id, ok := unparen(l).(*ast.Ident); ok && info.ObjectOf(id) == v {
					found = true
				}
			}
		case *ast.IncDecStmt:
			if id, ok := unparen(x.X).(*ast.Ident); ok && info.ObjectOf(id) == v {
				found = true
			}
		case *ast.UnaryExpr:
			if x.Op == token.AND {
				if id, ok := unparen(x.X).(*ast.Ident); ok && info.ObjectOf(id) == v {
					found = true
				}
			}
		}
		return !found
	})
	return found
}

// R01.16: a fallthrough transfers control to the clause that follows in the *source*, and the
// case expressions are evaluated in source order; only the default clause is tested last. cfg
// moves the default clause to the end of the clause list, so (a) it must not do so by
// exchanging two elements of a child list (the clause that was last takes the place of the
// default: its expression is evaluated first and it becomes the target of the preceding
// clause's fallthrough), and (b) where a clause ending in a fallthrough is wired, the target
// is not taken by position in that list (clauses[i+1]).
func c01R16(ic *IC, r *Report) {
	fi := ic.fn(r, "Interpreter.cfg")
	if fi == nil {
		return
	}
	info := ic.Info
	isNodeSlice := func(e ast.Expr) bool {
		t := info.TypeOf(e)
		if t == nil {
			return false
		}
		sl, ok := t.Underlying().(*types.Slice)
		return ok && isNamedPtr(sl.Elem(), "node")
	}
	nSwap := 0
	ast.Inspect(fi.Decl.Body, func(m ast.Node) bool {
		as, ok := m.(*ast.AssignStmt)
		if !ok || len(as.Lhs) != 2 || len(as.Rhs) != 2 || as.Tok != token.ASSIGN {
			return true
		}
		l0, ok0 := unparen(as.Lhs[0]).(*ast.IndexExpr)
		l1, ok1 := unparen(as.Lhs[1]).(*ast.IndexExpr)
		if !ok0 || !ok1 || !isNodeSlice(l0.X) || !isNodeSlice(l1.X) {
			return true
		}
		if types.ExprString(as.Lhs[0]) == types.ExprString(as.Rhs[1]) && types.ExprString(as.Lhs[1]) == types.ExprString(as.Rhs[0]) {
			nSwap++
			r.Fail("R01.16", fmt.Sprintf("cfg/children-exchanged#%d", nSwap), ic.pos(as.Pos()),
				"cfg exchanges two children of a node ("+types.ExprString(as.Lhs[0])+" <-> "+types.ExprString(as.Lhs[1])+"): moving the default clause of a switch to the end this way puts the last clause in its place, so the case expressions are no longer evaluated in source order and the fallthrough of the clause before the default lands in that other clause (case 1: fallthrough; default: ...; case 2: ... runs case 2)")
		}
		return true
	})
	if nSwap == 0 {
		r.Pass("R01.16", "cfg/no-children-exchanged", ic.pos(fi.Decl.Pos()), "no parallel assignment exchanges two elements of a []*node")
	}
	// (b) fallthrough targets
	n := 0
	ast.Inspect(fi.Decl.Body, func(m ast.Node) bool {
		ifs, ok := m.(*ast.IfStmt)
		if !ok {
			return true
		}
		mentions := false
		ast.Inspect(ifs.Cond, func(k ast.Node) bool {
			if id, ok := k.(*ast.Ident); ok {
				if c, ok := info.Uses[id].(*types.Const); ok && c.Name() == "fallthroughtStmt" {
					mentions = true
				}
			}
			return true
		})
		if !mentions {
			return true
		}
		ast.Inspect(ifs.Body, func(k ast.Node) bool {
			as, ok := k.(*ast.AssignStmt)
			if !ok || len(as.Lhs) != 1 || len(as.Rhs) != 1 {
				return true
			}
			se, ok := unparen(as.Lhs[0]).(*ast.SelectorExpr)
			if !ok || se.Sel.Name != "tnext" {
				return true
			}
			n++
			positional := ""
			ast.Inspect(as.Rhs[0], func(q ast.Node) bool {
				if ix, ok := q.(*ast.IndexExpr); ok && isNodeSlice(ix.X) {
					if be, ok := unparen(ix.Index).(*ast.BinaryExpr); ok && be.Op == token.ADD {
						positional = types.ExprString(ix)
					}
				}
				return true
			})
			r.Check(positional == "", "R01.16", fmt.Sprintf("cfg/fallthrough-target#%d/next-in-source", n), ic.pos(as.Pos()), "the target of the fallthrough is not taken by position in the clause list",
				"cfg wires the fallthrough at the end of a clause to "+positional+", the next element of the clause list, in which the default clause has been moved to the end: the clause that follows in the source is another one when a default clause stands before the last position")
			return true
		})
		return true
	})
	if n < 2 {
		r.Errorf("R01.16: %d fallthrough wirings found in cfg (the tagged and the tagless switch are expected)", n)
	}
}

// forKindsWithInit reads, from the AST builder, which for-statement kinds have an init clause
// (the cases `a.Init != nil` of the switch choosing the kind).
func forKindsWithInit(ic *IC) map[string]bool {
	out := map[string]bool{}
	fi := ic.F["Interpreter.ast"]
	if fi == nil || fi.Decl.Body == nil {
		return out
	}
	ast.Inspect(fi.Decl.Body, func(n ast.Node) bool {
		cc, ok := n.(*ast.CaseClause)
		if !ok || len(cc.List) != 1 || len(cc.Body) != 1 {
			return true
		}
		as, ok := cc.Body[0].(*ast.AssignStmt)
		if !ok || len(as.Rhs) != 1 {
			return true
		}
		id, ok := as.Rhs[0].(*ast.Ident)
		if !ok || !strings.HasPrefix(id.Name, "forStmt") {
			return true
		}
		if strings.Contains(types.ExprString(cc.List[0]), "a.Init != nil") {
			out[id.Name] = true
		}
		return true
	})
	return out
}

// R01.17: the init clause of a for statement is executed once. In the post-order case of every
// for kind that has an init clause (read from the AST builder), the only use of the entry of the
// statement (n.start, or the start of the init child) is its definition `n.start = init.start`:
// no successor edge leads back to it.
func c01R17(ic *IC, r *Report) {
	fi := ic.fn(r, "Interpreter.cfg")
	if fi == nil {
		return
	}
	withInit := forKindsWithInit(ic)
	if len(withInit) < 4 {
		r.Errorf("R01.17: %d for kinds with an init clause read from the AST builder (4 expected)", len(withInit))
		return
	}
	info := ic.Info
	n := 0
	ast.Inspect(fi.Decl.Body, func(m ast.Node) bool {
		cc, ok := m.(*ast.CaseClause)
		if !ok || len(cc.List) != 1 {
			return true
		}
		id, ok := cc.List[0].(*ast.Ident)
		if !ok || !withInit[id.Name] {
			return true
		}
		// the post-order case wires successors: it assigns n.start
		var initVar types.Object
		definesStart := false
		for _, st := range cc.Body {
			as, ok := st.(*ast.AssignStmt)
			if !ok {
				continue
			}
			// init, ... := n.child[0], ...
			if as.Tok == token.DEFINE && len(as.Lhs) == len(as.Rhs) {
				for i, rhs := range as.Rhs {
					if types.ExprString(rhs) == "n.child[0]" {
						if lid, ok := as.Lhs[i].(*ast.Ident); ok {
							initVar = info.ObjectOf(lid)
						}
					}
				}
			}
			if len(as.Lhs) == 1 && types.ExprString(as.Lhs[0]) == "n.start" {
				definesStart = true
			}
		}
		if initVar == nil || !definesStart {
			return true
		}
		n++
		var bad []string
		ast.Inspect(&ast.BlockStmt{List: cc.Body}, func(k ast.Node) bool {
			as, ok := k.(*ast.AssignStmt)
			if !ok {
				return true
			}
			for i, rhs := range as.Rhs {
				if i >= len(as.Lhs) {
					break
				}
				lhs := types.ExprString(as.Lhs[i])
				rs := types.ExprString(rhs)
				back := rs == "n.start"
				if se, ok := unparen(rhs).(*ast.SelectorExpr); ok && se.Sel.Name == "start" {
					if x, ok := unparen(se.X).(*ast.Ident); ok && info.ObjectOf(x) == initVar {
						back = true
					}
				}
				if back && lhs != "n.start" {
					bad = append(bad, lhs+" = "+rs+" at "+ic.pos(as.Pos()))
				}
			}
			return true
		})
		r.Check(len(bad) == 0, "R01.17", "cfg/case:"+id.Name+"/init-executed-once", ic.pos(cc.Pos()), "no successor edge leads back to the init clause",
			"the "+id.Name+" case of cfg wires an edge back to the entry of the statement ("+strings.Join(bad, ", ")+"), which is its init clause: the init statement is executed again at every iteration (for i := 0; ; { if i >= 3 { break }; i++ } never terminates)")
		return true
	})
	if n < 4 {
		r.Errorf("R01.17: %d post-order cases of for kinds with an init clause found in cfg (4 expected)", n)
	}
}

// R01.19: a generator that produces a value into its node's frame slot also does so in the
// variants installed when the value is used as a branch condition (fnext != nil): the
// consumer of a condition nested in && / || reads the slot afterwards (a[i] && c evaluates to
// the stale content of the slot of a[i]). In every generator whose non-branching closures all
// store into the node's own slot (data[i] with i from n.findex, or dest(f) from genValue(n)),
// each branching closure (one returning both successors) stores into it too.
func c01R19(ic *IC, r *Report) {
	info := ic.Info
	findexFld := ic.field("node", "findex")
	n := 0
	for _, name := range sortedKeys(ic.F) {
		fi := ic.F[name]
		if fi.Decl.Body == nil || fi.Obj == nil || fi.Decl.Recv != nil {
			continue
		}
		sig := fi.Obj.Type().(*types.Signature)
		if sig.Params().Len() != 1 || sig.Results().Len() != 0 || !isNamedPtr(sig.Params().At(0).Type(), "node") {
			continue
		}
		var nparam types.Object
		if len(fi.Decl.Type.Params.List[0].Names) > 0 {
			nparam = info.ObjectOf(fi.Decl.Type.Params.List[0].Names[0])
		}
		ownIdx := map[types.Object]bool{}  // i := n.findex
		ownDest := map[types.Object]bool{} // dest := genValue(n)
		succ := map[types.Object]string{}  // tnext := getExec(n.tnext), fnext := getExec(n.fnext)
		ast.Inspect(fi.Decl.Body, func(m ast.Node) bool {
			as, ok := m.(*ast.AssignStmt)
			if !ok || len(as.Lhs) != len(as.Rhs) {
				return true
			}
			for i, rhs := range as.Rhs {
				id, ok := as.Lhs[i].(*ast.Ident)
				if !ok {
					continue
				}
				if se, ok := unparen(rhs).(*ast.SelectorExpr); ok && selField(info, se) == findexFld {
					if x := identOf(se.X); x != nil && info.ObjectOf(x) == nparam {
						ownIdx[info.ObjectOf(id)] = true
					}
				}
				if c, ok := unparen(rhs).(*ast.CallExpr); ok && len(c.Args) >= 1 {
					if f, ok := calleeOf(info, c).(*types.Func); ok && f.Pkg() == ic.Pk.Types {
						if a := identOf(c.Args[0]); a != nil && info.ObjectOf(a) == nparam && strings.HasPrefix(f.Name(), "genValue") {
							ownDest[info.ObjectOf(id)] = true
						}
						if f.Name() == "getExec" {
							if se, ok := unparen(c.Args[0]).(*ast.SelectorExpr); ok && (se.Sel.Name == "tnext" || se.Sel.Name == "fnext") {
								if x := identOf(se.X); x != nil && info.ObjectOf(x) == nparam {
									succ[info.ObjectOf(id)] = se.Sel.Name
								}
							}
						}
					}
				}
			}
			return true
		})
		if len(ownIdx) == 0 && len(ownDest) == 0 {
			continue
		}
		storesOwn := func(fl *ast.FuncLit) bool {
			found := false
			ast.Inspect(fl.Body, func(m ast.Node) bool {
				switch x := m.(type) {
				case *ast.AssignStmt:
					for _, l := range x.Lhs {
						if ix, ok := unparen(l).(*ast.IndexExpr); ok {
							if iid := identOf(ix.Index); iid != nil && ownIdx[info.ObjectOf(iid)] {
								found = true
							}
						}
					}
				case *ast.CallExpr:
					if se, ok := unparen(x.Fun).(*ast.SelectorExpr); ok && strings.HasPrefix(se.Sel.Name, "Set") {
						if inner, ok := unparen(se.X).(*ast.CallExpr); ok {
							if id := identOf(inner.Fun); id != nil && ownDest[info.ObjectOf(id)] {
								found = true
							}
						}
						if ix, ok := unparen(se.X).(*ast.IndexExpr); ok {
							if iid := identOf(ix.Index); iid != nil && ownIdx[info.ObjectOf(iid)] {
								found = true
							}
						}
					}
				}
				return !found
			})
			return found
		}
		branching := func(fl *ast.FuncLit) bool {
			seen := map[string]bool{}
			ast.Inspect(fl.Body, func(m ast.Node) bool {
				if rs, ok := m.(*ast.ReturnStmt); ok && len(rs.Results) == 1 {
					if id := identOf(rs.Results[0]); id != nil && succ[info.ObjectOf(id)] != "" {
						seen[succ[info.ObjectOf(id)]] = true
					}
				}
				return true
			})
			return seen["tnext"] && seen["fnext"]
		}
		var plain, br []*ast.FuncLit
		for _, fl := range (&c02ctx{ic: ic}).closuresOf(fi) {
			if branching(fl) {
				br = append(br, fl)
			} else {
				plain = append(plain, fl)
			}
		}
		if len(br) == 0 || len(plain) == 0 {
			continue
		}
		allPlainStore := true
		for _, fl := range plain {
			if !storesOwn(fl) {
				allPlainStore = false
			}
		}
		if !allPlainStore {
			continue // not a pure value producer (some variants legitimately store nothing)
		}
		for k, fl := range br {
			n++
			// ... on every path: a store made on the true branch only leaves the previous value in
			// the slot when the condition is false (found D71: *p || c after a false dereference)
			if storesOwn(fl) {
				fg := buildFlow(fl.Body, info)
				missing := fg.entryExitsWithout(func(nd ast.Node) bool {
					hit := false
					ast.Inspect(nd, func(m ast.Node) bool {
						if _, isLit := m.(*ast.FuncLit); isLit {
							return false
						}
						switch x := m.(type) {
						case *ast.AssignStmt:
							for _, l := range x.Lhs {
								if ix, ok := unparen(l).(*ast.IndexExpr); ok {
									if iid := identOf(ix.Index); iid != nil && ownIdx[info.ObjectOf(iid)] {
										hit = true
									}
								}
							}
						case *ast.CallExpr:
							if se, ok := unparen(x.Fun).(*ast.SelectorExpr); ok && strings.HasPrefix(se.Sel.Name, "Set") {
								if inner, ok := unparen(se.X).(*ast.CallExpr); ok {
									if id := identOf(inner.Fun); id != nil && ownDest[info.ObjectOf(id)] {
										hit = true
									}
								}
								if ix, ok := unparen(se.X).(*ast.IndexExpr); ok {
									if iid := identOf(ix.Index); iid != nil && ownIdx[info.ObjectOf(iid)] {
										hit = true
									}
								}
							}
						}
						return !hit
					})
					return hit
				})
				r.Check(!missing, "R01.19", fmt.Sprintf("%s/branching-closure#%d/stores-its-value-on-every-path", name, k+1), ic.pos(fl.Pos()), "the value is stored whichever successor is chosen",
					"the branching variant of generator "+name+" stores its value on some paths only (a return is reachable from the entry of the closure without a store into the node's slot): when the condition takes the other branch, && and || read the value of a previous evaluation back from the slot (*p || c after p was re-pointed to a false value yields true)")
			}
			r.Check(storesOwn(fl), "R01.19", fmt.Sprintf("%s/branching-closure#%d/stores-its-value", name, k+1), ic.pos(fl.Pos()), "the branching variant stores the value before choosing the successor",
				"generator "+name+" stores its value into the node's frame slot in every non-branching variant, but this variant, installed when the value is a branch condition, only tests it: a condition nested in && or || is read back from the slot by its consumer, so a[i] && c (or m[k] || c, p.ok && c ...) evaluates to the slot's previous content")
		}
	}
	if n < 5 {
		r.Errorf("R01.19: only %d branching variants of value-producing generators found", n)
	}
}

// R01.20: a composite value is created each time its expression is evaluated. No run-time
// closure stores into a frame slot (X.Set(v), data[i] = v) a reflect.Value that the generator
// built once, outside the closure, with reflect.MakeSlice / MakeMap / MakeChan (directly, or by
// calling at generation time a local function literal that does): every evaluation of
// []int{1, 2, 3} would hand out the same backing array.
func c01R20(ic *IC, r *Report) {
	info := ic.Info
	makers := []string{"reflect.MakeSlice", "reflect.MakeMap", "reflect.MakeMapWithSize", "reflect.MakeChan"}
	n, nGen := 0, 0
	for _, name := range sortedKeys(ic.F) {
		fi := ic.F[name]
		if fi.Decl.Body == nil || fi.Obj == nil || fi.Decl.Recv != nil {
			continue
		}
		sig := fi.Obj.Type().(*types.Signature)
		if sig.Params().Len() != 1 || sig.Results().Len() != 0 || !isNamedPtr(sig.Params().At(0).Type(), "node") {
			continue
		}
		nGen++
		closures := (&c02ctx{ic: ic}).closuresOf(fi)
		inClosure := func(p token.Pos) bool {
			for _, fl := range closures {
				if fl.Pos() <= p && p <= fl.End() {
					return true
				}
			}
			return false
		}
		// local function literals of the generator that build an aggregate
		builders := map[types.Object]bool{}
		ast.Inspect(fi.Decl.Body, func(m ast.Node) bool {
			as, ok := m.(*ast.AssignStmt)
			if !ok || len(as.Lhs) != len(as.Rhs) {
				return true
			}
			for i, rhs := range as.Rhs {
				if fl, ok := unparen(rhs).(*ast.FuncLit); ok && len(callsIn(info, fl.Body, true, makers...)) > 0 {
					if id, ok := as.Lhs[i].(*ast.Ident); ok {
						builders[info.ObjectOf(id)] = true
					}
				}
			}
			return true
		})
		// generation-time variables holding an aggregate built once
		once := map[types.Object]token.Pos{}
		ast.Inspect(fi.Decl.Body, func(m ast.Node) bool {
			as, ok := m.(*ast.AssignStmt)
			if !ok || len(as.Lhs) != len(as.Rhs) || inClosure(as.Pos()) {
				return true
			}
			for i, rhs := range as.Rhs {
				c, ok := unparen(rhs).(*ast.CallExpr)
				if !ok {
					continue
				}
				built := isCallTo(info, c, makers...)
				if id := identOf(c.Fun); id != nil && builders[info.ObjectOf(id)] {
					built = true
				}
				if built {
					if id, ok := as.Lhs[i].(*ast.Ident); ok {
						once[info.ObjectOf(id)] = as.Pos()
					}
				}
			}
			return true
		})
		if len(once) == 0 {
			continue
		}
		for _, fl := range closures {
			ast.Inspect(fl.Body, func(m ast.Node) bool {
				var stored *ast.Ident
				switch x := m.(type) {
				case *ast.CallExpr:
					if se, ok := unparen(x.Fun).(*ast.SelectorExpr); ok && se.Sel.Name == "Set" && len(x.Args) == 1 {
						stored = identOf(x.Args[0])
					}
					// a store function of the generator: store(f, v)
					if fid := identOf(x.Fun); fid != nil && len(x.Args) == 2 {
						if sg, ok := info.TypeOf(fid).Underlying().(*types.Signature); ok && sg.Params().Len() == 2 && sg.Results().Len() == 0 &&
							isNamedPtr(sg.Params().At(0).Type(), "frame") && types.TypeString(sg.Params().At(1).Type(), nil) == "reflect.Value" {
							stored = identOf(x.Args[1])
						}
					}
				case *ast.AssignStmt:
					for i, l := range x.Lhs {
						if _, ok := unparen(l).(*ast.IndexExpr); ok && i < len(x.Rhs) {
							if id := identOf(x.Rhs[i]); id != nil {
								stored = id
							}
						}
					}
				}
				if stored != nil {
					if at, ok := once[info.ObjectOf(stored)]; ok {
						n++
						r.Fail("R01.20", fmt.Sprintf("%s/aggregate-built-once:%s", name, stored.Name), ic.pos(stored.Pos()),
							"generator "+name+" builds "+stored.Name+" once, when the closure is generated ("+ic.pos(at)+"), and its run-time closure stores that same value at every execution: every evaluation of the expression shares one backing array, map or channel (s := []int{1, 2, 3}; s[0] = 9 inside a loop or a function called twice changes what the literal yields the next time)")
					}
				}
				return true
			})
		}
	}
	if n == 0 {
		r.Pass("R01.20", "generators/aggregates-created-at-each-evaluation", "", fmt.Sprintf("%d generators: no run-time closure stores a slice, map or channel built at generation time", nGen))
	}
}

// R01.2 (declaration clause): `var x T` without a value creates a new variable each time it is
// executed (closures and pointers taken in different iterations of a loop designate different
// variables). In every run-time closure of the generator cfg installs for a value
// specification without value (n.gen = <g> in the valueSpec case), each frame slot is
// assigned reflect.New(T).Elem(); a helper handed the frame must do so on every path, and no
// slot is cleared in place (SetZero, Set(reflect.Zero(..))).
func c01R2decl(ic *IC, r *Report) {
	info := ic.Info
	cfgFn := ic.fn(r, "Interpreter.cfg")
	if cfgFn == nil {
		return
	}
	genFld := ic.field("node", "gen")
	dataFld := ic.field("frame", "data")
	var gens []*types.Func
	ast.Inspect(cfgFn.Decl.Body, func(m ast.Node) bool {
		cc, ok := m.(*ast.CaseClause)
		if !ok || len(cc.List) != 1 {
			return true
		}
		if id := identOf(cc.List[0]); id == nil || id.Name != "valueSpec" {
			return true
		}
		for _, st := range cc.Body {
			if as, ok := st.(*ast.AssignStmt); ok && len(as.Lhs) == 1 && len(as.Rhs) == 1 && selField(info, as.Lhs[0]) == genFld {
				if id := identOf(as.Rhs[0]); id != nil {
					if f, ok := info.Uses[id].(*types.Func); ok {
						gens = append(gens, f)
					}
				}
			}
		}
		return true
	})
	if len(gens) == 0 {
		r.Errorf("R01.2: the generator installed for a value specification (n.gen = ... in the valueSpec case of cfg) was not found")
		return
	}
	isFreshNew := func(e ast.Expr) bool {
		c, ok := unparen(e).(*ast.CallExpr)
		if !ok || !isCallTo(info, c, "reflect.Value.Elem") {
			return false
		}
		se, ok := unparen(c.Fun).(*ast.SelectorExpr)
		if !ok {
			return false
		}
		inner, ok := unparen(se.X).(*ast.CallExpr)
		return ok && isCallTo(info, inner, "reflect.New")
	}
	// problems of a body that receives the frame: in-place clears, non-fresh stores
	var problems func(body ast.Node, depth int) []string
	problems = func(body ast.Node, depth int) []string {
		var out []string
		ast.Inspect(body, func(m ast.Node) bool {
			switch x := m.(type) {
			case *ast.AssignStmt:
				for i, l := range x.Lhs {
					ix, ok := unparen(l).(*ast.IndexExpr)
					if !ok || selField(info, ix.X) != dataFld || i >= len(x.Rhs) {
						continue
					}
					if !isFreshNew(x.Rhs[i]) {
						out = append(out, types.ExprString(l)+" = "+types.ExprString(x.Rhs[i])+" at "+ic.pos(x.Pos()))
					}
				}
			case *ast.CallExpr:
				if isCallTo(info, x, "reflect.Value.SetZero") {
					out = append(out, "in-place "+types.ExprString(x)+" at "+ic.pos(x.Pos()))
				}
				if isCallTo(info, x, "reflect.Value.Set") && len(x.Args) == 1 {
					if a, ok := unparen(x.Args[0]).(*ast.CallExpr); ok && isCallTo(info, a, "reflect.Zero") {
						out = append(out, "in-place "+types.ExprString(x)+" at "+ic.pos(x.Pos()))
					}
				}
				if f, ok := calleeOf(info, x).(*types.Func); ok && f.Pkg() == ic.Pk.Types && depth < 2 {
					passesFrame := false
					for _, a := range x.Args {
						if t := info.TypeOf(a); t != nil && isNamedPtr(t, "frame") {
							passesFrame = true
						}
					}
					if h := ic.G.Funcs[f]; passesFrame && h != nil && h.Decl.Body != nil {
						out = append(out, problems(h.Decl.Body, depth+1)...)
						// the helper assigns a fresh value on every path
						fg := buildFlow(h.Decl.Body, info)
						if exitWithoutFromEntry(fg, func(n ast.Node) bool {
							ok := false
							ast.Inspect(n, func(k ast.Node) bool {
								if as, isAs := k.(*ast.AssignStmt); isAs {
									for i, l := range as.Lhs {
										if ix, isIx := unparen(l).(*ast.IndexExpr); isIx && selField(info, ix.X) == dataFld && i < len(as.Rhs) && isFreshNew(as.Rhs[i]) {
											ok = true
										}
									}
								}
								return true
							})
							return ok
						}) {
							out = append(out, "helper "+f.Name()+" can return without assigning a new reflect.New(T).Elem() to the slot")
						}
					}
				}
			}
			return true
		})
		return out
	}
	n := 0
	for _, g := range gens {
		fi := ic.G.Funcs[g]
		if fi == nil || fi.Decl.Body == nil {
			continue
		}
		for k, fl := range (&c02ctx{ic: ic}).closuresOf(fi) {
			n++
			bad := dedupStr(problems(fl.Body, 0))
			r.Check(len(bad) == 0, "R01.2", fmt.Sprintf("%s/declaration-closure#%d/new-variable-each-time", funcName(fi.Decl), k+1), ic.pos(fl.Pos()), "every declared variable gets a new reflect.New(T).Elem()",
				"the closure executing `var x T` does not always create a new variable ("+strings.Join(bad, "; ")+"): a variable cleared in place is the same variable at every execution, so closures and pointers taken in different iterations of a loop share it (for ... { var x int; fs = append(fs, func() int { x++; return x }) })")
		}
	}
	if n == 0 {
		r.Errorf("R01.2: no run-time closure found in the generator of value specifications")
	}
}

func init() {
	ruleText["R01.21"] = "the decision to create the variable(s) of a short variable declaration consults nothing but the statement itself: no condition guarding the allocation slot = reflect.New(T).Elem() in the generators of := (generation-time cases and flags included) calls an in-package analysis of the surrounding code (is the statement in a loop, does the variable escape): a := executed again through a backward goto, or in a body whose variable is captured implicitly, creates a new variable each time"
}

// c01R21: the conditions (run-time and generation-time, boolean locals resolved to their
// definition) under which the generators of := allocate the new variable call no in-package
// function (isBlank excepted). Round-5 seed: `fresh := n.kind == defineXStmt && inLoop(n)`.
func c01R21(ic *IC, r *Report) {
	info := ic.Info
	defConsts := map[types.Object]bool{}
	for _, n := range []string{"defineStmt", "defineXStmt"} {
		if o := ic.Pk.Types.Scope().Lookup(n); o != nil {
			defConsts[o] = true
		}
	}
	isFresh := func(as *ast.AssignStmt) bool {
		if len(as.Lhs) != 1 || len(as.Rhs) != 1 {
			return false
		}
		if _, ok := unparen(as.Lhs[0]).(*ast.IndexExpr); !ok {
			return false
		}
		call, ok := unparen(as.Rhs[0]).(*ast.CallExpr)
		if !ok || !isCallTo(info, call, "reflect.Value.Elem") {
			return false
		}
		se, ok := unparen(call.Fun).(*ast.SelectorExpr)
		if !ok {
			return false
		}
		inner, ok := unparen(se.X).(*ast.CallExpr)
		return ok && isCallTo(info, inner, "reflect.New")
	}
	n := 0
	for _, name := range sortedKeys(ic.F) {
		fi := ic.F[name]
		if fi.Decl.Body == nil || fi.Decl.Recv != nil {
			continue
		}
		// generators of := : functions func(*node) mentioning defineStmt/defineXStmt in a condition
		mentionsDefine := false
		ast.Inspect(fi.Decl.Body, func(m ast.Node) bool {
			if be, ok := m.(*ast.BinaryExpr); ok && (be.Op == token.EQL || be.Op == token.NEQ) {
				if id := identOf(be.Y); id != nil && defConsts[info.Uses[id]] {
					mentionsDefine = true
				}
			}
			return true
		})
		sig := fi.Obj.Type().(*types.Signature)
		if !mentionsDefine || sig.Params().Len() != 1 || !isNamedPtr(sig.Params().At(0).Type(), "node") || sig.Results().Len() != 0 {
			continue
		}
		k := 0
		ast.Inspect(fi.Decl.Body, func(m ast.Node) bool {
			as, ok := m.(*ast.AssignStmt)
			if !ok || !isFresh(as) {
				return true
			}
			path := enclosingPath(fi.Decl.Body, as)
			inClosure := false
			for _, p := range path {
				if fl, ok := p.(*ast.FuncLit); ok && isFrameClosure(info, fl) {
					inClosure = true
				}
			}
			if !inClosure {
				return true
			}
			k++
			n++
			var conds []ast.Expr
			for _, p := range path {
				switch x := p.(type) {
				case *ast.IfStmt:
					conds = append(conds, x.Cond)
				case *ast.CaseClause:
					conds = append(conds, x.List...)
				}
			}
			// resolve boolean locals (single definition) one level, twice
			for round := 0; round < 2; round++ {
				var more []ast.Expr
				for _, c := range conds {
					ast.Inspect(c, func(q ast.Node) bool {
						id, ok := q.(*ast.Ident)
						if !ok {
							return true
						}
						v, ok := info.Uses[id].(*types.Var)
						if !ok || v.IsField() || !types.Identical(v.Type(), types.Typ[types.Bool]) {
							return true
						}
						ast.Inspect(fi.Decl.Body, func(d ast.Node) bool {
							if das, ok := d.(*ast.AssignStmt); ok && len(das.Lhs) == len(das.Rhs) {
								for i, l := range das.Lhs {
									if lid := identOf(l); lid != nil && info.ObjectOf(lid) == v {
										more = append(more, das.Rhs[i])
									}
								}
							}
							return true
						})
						return true
					})
				}
				conds = append(conds, more...)
			}
			var bad []string
			seen := map[string]bool{}
			for _, c := range conds {
				for _, call := range allCalls(c) {
					f, ok := calleeOf(info, call).(*types.Func)
					if !ok || f.Pkg() != ic.Pk.Types || f.Name() == "isBlank" {
						continue
					}
					if sg := f.Type().(*types.Signature); sg.Recv() != nil {
						continue // accessors of values (v.IsValid(), typ.TypeOf()) are not analyses of the code
					}
					d := f.Name() + " in " + types.ExprString(c)
					if !seen[d] {
						seen[d] = true
						bad = append(bad, d+" ("+ic.pos(call.Pos())+")")
					}
				}
			}
			r.Check(len(bad) == 0, "R01.21", fmt.Sprintf("%s/new-variable#%d/decided-by-the-statement-alone", name, k), ic.pos(as.Pos()), "the allocation is guarded by the statement's own kind and flags only",
				name+" allocates the variable of a := ("+ic.pos(as.Pos())+") only when "+strings.Join(bad, "; ")+" holds: the Go specification creates the variables at every execution of the declaration, also when it is re-executed by a backward goto or when the variable is captured implicitly (slicing an array, pointer-receiver method); closures and pointers of earlier executions then share one variable")
			return true
		})
	}
	if n < 3 {
		r.Errorf("R01.21: only %d allocations of := variables found in the generators", n)
	}
}

func init() {
	ruleText["R01.22"] = "an unlabelled continue branches to the node carrying the copy-back of the per-iteration loop variables: scope.loopRestart is only ever the last child (the body) of the loop node, and the continue case of cfg assigns that node itself to tnext (not its start, not the post statement)"
}

// c01R22: the body node of a for statement with an init clause carries the generator copying
// the per-iteration variables back (R01.3); the end of the body and `continue` must both go
// through it. Round-5 seed: continue wired straight to the post statement.
func c01R22(ic *IC, r *Report) {
	info := ic.Info
	fi := ic.fn(r, "Interpreter.cfg")
	restart := ic.field("scope", "loopRestart")
	tnext := ic.field("node", "tnext")
	if fi == nil || restart == nil || tnext == nil {
		r.Errorf("R01.22: anchors cfg / scope.loopRestart / node.tnext not resolved")
		return
	}
	nAssign := 0
	ast.Inspect(fi.Decl.Body, func(m ast.Node) bool {
		as, ok := m.(*ast.AssignStmt)
		if !ok || len(as.Lhs) != len(as.Rhs) {
			return true
		}
		for i, l := range as.Lhs {
			if selField(info, l) != restart {
				continue
			}
			nAssign++
			ok := false
			if c, isCall := unparen(as.Rhs[i]).(*ast.CallExpr); isCall {
				if f, isF := calleeOf(info, c).(*types.Func); isF && f.Name() == "lastChild" && f.Pkg() == ic.Pk.Types {
					ok = true
				}
			}
			r.Check(ok, "R01.22", fmt.Sprintf("cfg/loop-restart#%d/is-the-body", nAssign), ic.pos(as.Pos()), "continue restarts at the body node, which carries the copy-back",
				"cfg records "+types.ExprString(as.Rhs[i])+" as the node a continue statement branches to; the per-iteration copies of the loop variables are copied back by the generator of the body node (the loop's last child), which a continue then bypasses: an assignment to the loop variable followed by continue is lost (for i := 0; i < 6; i++ { if i == 1 { i = 3; continue } } runs i = 2)")
		}
		return true
	})
	if nAssign == 0 {
		r.Errorf("R01.22: no assignment of scope.loopRestart found in cfg")
	}
	// the continue case
	contC, _ := ic.Pk.Types.Scope().Lookup("continueStmt").(*types.Const)
	nCont := 0
	ast.Inspect(fi.Decl.Body, func(m ast.Node) bool {
		cc, ok := m.(*ast.CaseClause)
		if !ok {
			return true
		}
		is := false
		for _, l := range cc.List {
			if id := identOf(l); id != nil && contC != nil && info.ObjectOf(id) == contC {
				is = true
			}
		}
		if !is {
			return true
		}
		for _, s := range cc.Body {
			ast.Inspect(s, func(k ast.Node) bool {
				as, ok := k.(*ast.AssignStmt)
				if !ok || len(as.Lhs) != 1 || len(as.Rhs) != 1 || selField(info, as.Lhs[0]) != tnext {
					return true
				}
				// only the assignment reading loopRestart
				reads := false
				ast.Inspect(as.Rhs[0], func(q ast.Node) bool {
					if e, ok := q.(ast.Expr); ok && selField(info, e) == restart {
						reads = true
					}
					return true
				})
				if !reads {
					return true
				}
				nCont++
				exact := selField(info, as.Rhs[0]) == restart
				r.Check(exact, "R01.22", fmt.Sprintf("cfg/continue#%d/branches-to-the-restart-node-itself", nCont), ic.pos(as.Pos()), "continue executes the restart node (copy-back), then the post statement",
					"the continue case of cfg branches to "+types.ExprString(as.Rhs[0])+" instead of the restart node itself: the generator of that node (the copy-back of the per-iteration loop variables) is not executed on continue")
				return true
			})
		}
		return true
	})
	if nCont == 0 {
		r.Errorf("R01.22: the continue case of cfg does not read scope.loopRestart")
	}
}

func init() {
	ruleText["R01.23"] = "in the switch cases of cfg, the per-clause wiring loops over the clause's case expressions (all but the last child): every expression of a case list is evaluated (tagged switch) or tested in sequence (switch without tag)"
	ruleText["R01.24"] = "a switch without clause still evaluates its init statement and tag: the early exit taken when the block has no clause sets the node's start"
	ruleText["R01.25"] = "in the range section of the block pre-order, every case of the operand-type switch that keeps the array range generator allocates the hidden slot the generator reads below the key (sibling agreement)"
	ruleText["R01.26"] = "in the assignment case of cfg, a shortcut that makes the source write into the destination's slot (src.findex = dest.findex with n.gen = nop) excludes definitions (n.kind != defineStmt), the receive operator excepted: a definition creates a new variable at each execution, which an in-place literal or call result does not"
}

// c01R23..R01.26: wiring clauses found through the round-5 reports (D69, D70, D72, D73).
func c01R23to26(ic *IC, r *Report) {
	info := ic.Info
	fi := ic.fn(r, "Interpreter.cfg")
	if fi == nil {
		return
	}
	clauseNamed := func(names ...string) []*ast.CaseClause {
		var out []*ast.CaseClause
		ast.Inspect(fi.Decl.Body, func(m ast.Node) bool {
			cc, ok := m.(*ast.CaseClause)
			if !ok {
				return true
			}
			for _, l := range cc.List {
				if id := identOf(l); id != nil {
					if c, ok := info.Uses[id].(*types.Const); ok {
						for _, n := range names {
							if c.Name() == n {
								out = append(out, cc)
								return true
							}
						}
					}
				}
			}
			return true
		})
		return out
	}
	childFld := ic.field("node", "child")
	startFld := ic.field("node", "start")
	tnextFld := ic.field("node", "tnext")
	// R01.23 / R01.24: the post-order switch cases (those popping the scope and reading lastChild)
	nSw := 0
	for _, kind := range []string{"switchStmt", "switchIfStmt"} {
		for _, cc := range clauseNamed(kind) {
			if len(callsIn(info, cc, true, "interp.setFNext")) == 0 {
				continue // the pre-order case
			}
			nSw++
			// the loop over the clauses, and inside it a loop over the children of a clause
			inner := false
			ast.Inspect(cc, func(m ast.Node) bool {
				outer, ok := m.(*ast.ForStmt)
				if !ok {
					return true
				}
				ast.Inspect(outer.Body, func(k ast.Node) bool {
					rs, ok := k.(*ast.RangeStmt)
					if !ok {
						return true
					}
					overChildren := false
					ast.Inspect(rs.X, func(q ast.Node) bool {
						if e, ok := q.(ast.Expr); ok && selField(info, e) == childFld {
							overChildren = true
						}
						return true
					})
					if id := identOf(rs.X); id != nil && !overChildren {
						// a local slice of the children: conds := c.child[:len(c.child)-1]
						obj := info.ObjectOf(id)
						ast.Inspect(outer.Body, func(q ast.Node) bool {
							if as, ok := q.(*ast.AssignStmt); ok && len(as.Lhs) == len(as.Rhs) {
								for i, l := range as.Lhs {
									if lid := identOf(l); lid != nil && info.ObjectOf(lid) == obj {
										ast.Inspect(as.Rhs[i], func(z ast.Node) bool {
											if e, ok := z.(ast.Expr); ok && selField(info, e) == childFld {
												overChildren = true
											}
											return true
										})
									}
								}
							}
							return true
						})
					}
					wires := false
					ast.Inspect(rs.Body, func(q ast.Node) bool {
						if as, ok := q.(*ast.AssignStmt); ok {
							for _, l := range as.Lhs {
								if selField(info, l) == tnextFld {
									wires = true
								}
							}
						}
						return true
					})
					if overChildren && wires {
						inner = true
					}
					return true
				})
				return true
			})
			r.Check(inner, "R01.23", "cfg/case:"+kind+"/every-case-expression-wired", ic.pos(cc.Pos()), "the clause wiring loops over the clause's expressions",
				"the "+kind+" case of cfg wires a fixed number of the expressions of a case clause (no loop over the clause's children assigning tnext): in case e1, e2: only e1 is evaluated, the others are compared through the stale content of their slots (switch x { case a + 1, b + 1: } misses b + 1; switch { case x > 1, y > 1: } ignores y > 1)")
			// R01.24
			okEmpty := true
			found := false
			ast.Inspect(cc, func(m ast.Node) bool {
				ifs, ok := m.(*ast.IfStmt)
				if !ok {
					return true
				}
				be, ok := unparen(ifs.Cond).(*ast.BinaryExpr)
				if !ok || be.Op != token.EQL {
					return true
				}
				if tv, ok := info.Types[be.Y]; !ok || tv.Value == nil || tv.Value.ExactString() != "0" {
					return true
				}
				leaves := false
				if len(ifs.Body.List) > 0 {
					if br, ok := ifs.Body.List[len(ifs.Body.List)-1].(*ast.BranchStmt); ok && br.Tok == token.BREAK {
						leaves = true
					}
				}
				if !leaves {
					return true
				}
				found = true
				setsStart := false
				for _, s := range ifs.Body.List {
					if as, ok := s.(*ast.AssignStmt); ok {
						for _, l := range as.Lhs {
							if selField(info, l) == startFld {
								setsStart = true
							}
						}
					}
				}
				if !setsStart {
					okEmpty = false
				}
				return true
			})
			if found {
				r.Check(okEmpty, "R01.24", "cfg/case:"+kind+"/empty-switch-evaluates-its-header", ic.pos(cc.Pos()), "a switch without clause still runs its init statement and tag",
					"the "+kind+" case of cfg leaves at once when the switch has no clause, without setting the node's start: the init statement and the tag expression are never executed (switch f() {} does not call f)")
			}
		}
	}
	if nSw < 2 {
		r.Errorf("R01.23: %d post-order switch cases found in cfg (switchStmt and switchIfStmt expected)", nSw)
	}
	// R01.25: hidden slot of the array range
	nR := 0
	ast.Inspect(fi.Decl.Body, func(m ast.Node) bool {
		sw, ok := m.(*ast.SwitchStmt)
		if !ok || sw.Tag == nil {
			return true
		}
		// a switch over a type category whose cases assign a local named like the key type and
		// some of which call scope.add with a dummy int ("array shallow copy")
		type ci struct {
			cc       *ast.CaseClause
			adds     bool
			setsGen  bool
			assignsK bool
		}
		var cis []ci
		var ktyp types.Object
		for _, st := range sw.Body.List {
			cc := st.(*ast.CaseClause)
			c := ci{cc: cc}
			for _, s := range cc.Body {
				// only the statements of the clause itself, not of nested switches
				switch x := s.(type) {
				case *ast.ExprStmt:
					if call, ok := x.X.(*ast.CallExpr); ok {
						if f, ok := calleeOf(info, call).(*types.Func); ok && f.Name() == "add" && f.Pkg() == ic.Pk.Types {
							c.adds = true
						}
					}
				case *ast.AssignStmt:
					for i, l := range x.Lhs {
						if v := selField(info, l); v != nil && v.Name() == "gen" {
							c.setsGen = true
						}
						if id := identOf(l); id != nil && i < len(x.Rhs) {
							if t := info.TypeOf(id); t != nil && isNamedPtr(t, "itype") && strings.HasPrefix(id.Name, "k") {
								c.assignsK = true
								ktyp = info.ObjectOf(id)
							}
						}
					}
				}
			}
			cis = append(cis, c)
		}
		nAdd, nK := 0, 0
		for _, c := range cis {
			if c.adds {
				nAdd++
			}
			if c.assignsK {
				nK++
			}
		}
		if ktyp == nil || nAdd < 2 || nK < 3 {
			return true
		}
		// this is the operand-type switch of the range section
		for _, c := range cis {
			if !c.assignsK || c.setsGen {
				continue // another generator (map range) manages its own slots
			}
			nR++
			label := "default"
			if len(c.cc.List) > 0 {
				label = types.ExprString(c.cc.List[0])
			}
			r.Check(c.adds, "R01.25", "cfg/range/case:"+label+"/hidden-slot-allocated", ic.pos(c.cc.Pos()), "the hidden slot of the array range is allocated",
				"the case "+label+" of the range section of cfg keeps the array range generator but allocates no hidden slot before the key variable: the generator stores the ranged value in the slot below the key, which belongs to the variable declared just before the loop (arr := [2]int{1, 2}; p := &arr; x := 42; for i, v := range p {} leaves [1 2] in x)")
		}
		return true
	})
	if nR < 2 {
		r.Errorf("R01.25: the operand-type switch of the range section was not recognised (%d array-range cases)", nR)
	}
	// R01.26: shortcuts of the assignment case
	nS := 0
	findexFld := ic.field("node", "findex")
	genFld := ic.field("node", "gen")
	defC, _ := ic.Pk.Types.Scope().Lookup("defineStmt").(*types.Const)
	ast.Inspect(fi.Decl.Body, func(m ast.Node) bool {
		cc, ok := m.(*ast.CaseClause)
		if !ok || len(cc.List) != 1 {
			return true
		}
		slotTaken, genNop := false, false
		for _, s := range cc.Body {
			ast.Inspect(s, func(k ast.Node) bool {
				as, ok := k.(*ast.AssignStmt)
				if !ok || len(as.Lhs) != 1 || len(as.Rhs) != 1 {
					return true
				}
				if selField(info, as.Lhs[0]) == findexFld && selField(info, as.Rhs[0]) == findexFld {
					if l := identOf(as.Lhs[0].(*ast.SelectorExpr).X); l != nil && l.Name == "src" {
						slotTaken = true
					}
				}
				if selField(info, as.Lhs[0]) == genFld {
					if id := identOf(as.Rhs[0]); id != nil && id.Name == "nop" {
						if l := identOf(as.Lhs[0].(*ast.SelectorExpr).X); l != nil && l.Name == "n" {
							genNop = true
						}
					}
				}
				return true
			})
		}
		if !slotTaken || !genNop {
			return true
		}
		nS++
		cond := cc.List[0]
		excludesDefine, isRecv := false, false
		ast.Inspect(cond, func(k ast.Node) bool {
			if be, ok := k.(*ast.BinaryExpr); ok && be.Op == token.NEQ {
				if id := identOf(be.Y); id != nil && defC != nil && info.ObjectOf(id) == defC {
					excludesDefine = true
				}
			}
			if id, ok := k.(*ast.Ident); ok {
				if c, ok := info.Uses[id].(*types.Const); ok && c.Name() == "aRecv" {
					isRecv = true
				}
			}
			return true
		})
		r.Check(excludesDefine || isRecv, "R01.26", "cfg/assign-shortcut:"+types.ExprString(cond)+"/not-for-definitions", ic.pos(cc.Pos()), "the source writes into the destination only for plain assignments",
			"the shortcut "+types.ExprString(cond)+" of the assignment case of cfg lets the source build its value in the destination's slot also for a definition: x := []int{i} (or an array or map literal) in a loop body then fills one variable for all iterations, and closures or pointers taken in different iterations share it (2 2 2 instead of 0 1 2)")
		return true
	})
	if nS < 2 {
		r.Errorf("R01.26: only %d direct-store shortcuts found in the assignment case of cfg", nS)
	}
}

func init() {
	ruleText["R01.27"] = "the placeholders of the per-iteration loop variables, first children of a loop body, are executed but have a kind the generic child wiring skips (identExpr): the block case of cfg gives the last of them a successor when the body is otherwise empty, under a test of that kind"
}

// c01R27: found D77 - `for i := 0; i < 3; i++ {}` and `for range xs {}` ended the enclosing
// function silently (the last placeholder had no successor), on the original commit too.
func c01R27(ic *IC, r *Report) {
	info := ic.Info
	fi := ic.fn(r, "Interpreter.cfg")
	wc := ic.fn(r, "wireChild")
	if fi == nil || wc == nil {
		return
	}
	tnextFld := ic.field("node", "tnext")
	identK, _ := ic.Pk.Types.Scope().Lookup("identExpr").(*types.Const)
	blockK, _ := ic.Pk.Types.Scope().Lookup("blockStmt").(*types.Const)
	// does the generic wiring skip identExpr when it looks for the node that leads to the parent?
	skips := false
	ast.Inspect(wc.Decl.Body, func(m ast.Node) bool {
		if cc, ok := m.(*ast.CaseClause); ok {
			for _, l := range cc.List {
				if id := identOf(l); id != nil && identK != nil && info.ObjectOf(id) == identK {
					for _, s := range cc.Body {
						if br, ok := s.(*ast.BranchStmt); ok && br.Tok == token.CONTINUE {
							skips = true
						}
					}
				}
			}
		}
		return true
	})
	if !skips {
		r.Pass("R01.27", "cfg/empty-loop-body/placeholders-wired-by-the-generic-rule", ic.pos(wc.Decl.Pos()), "wireChild does not skip identExpr children")
		return
	}
	ok := false
	var at token.Pos = fi.Decl.Pos()
	ast.Inspect(fi.Decl.Body, func(m ast.Node) bool {
		cc, isCC := m.(*ast.CaseClause)
		if !isCC {
			return true
		}
		isBlock := false
		for _, l := range cc.List {
			if id := identOf(l); id != nil && blockK != nil && info.ObjectOf(id) == blockK {
				isBlock = true
			}
		}
		if !isBlock || len(callsIn(info, cc, true, "interp.wireChild")) == 0 {
			return true
		}
		at = cc.Pos()
		ast.Inspect(cc, func(k ast.Node) bool {
			as, isAs := k.(*ast.AssignStmt)
			if !isAs || len(as.Lhs) != 1 || selField(info, as.Lhs[0]) != tnextFld {
				return true
			}
			for _, p := range enclosingPath(cc, as) {
				if ifs, isIf := p.(*ast.IfStmt); isIf {
					ast.Inspect(ifs.Cond, func(q ast.Node) bool {
						if id, isId := q.(*ast.Ident); isId && identK != nil && info.ObjectOf(id) == identK {
							ok = true
							at = as.Pos()
						}
						return true
					})
				}
			}
			return true
		})
		return true
	})
	r.Check(ok, "R01.27", "cfg/empty-loop-body/last-placeholder-has-a-successor", ic.pos(at), "an otherwise empty loop body leads to the block node",
		"wireChild skips identExpr children when it chains the last executable child of a block to the block, and the block case of cfg does not give the last loop-variable placeholder a successor: with an empty body (for i := 0; i < 3; i++ {}, for range xs {}) the placeholder's closure returns nil, the execution loop stops and the rest of the enclosing function is silently skipped")
}

func init() {
	ruleText["R01.28"] = "in the switch cases of cfg (type switches apart) the header of the statement - init statement and tag, every child before the block of clauses - is chained as a whole: no statement wires n.child[0] alone to the clauses"
	ruleText["R01.29"] = "every node kind holding a statement list (blockStmt, caseBody, commClause, commClauseDefault) pre-declares, in the pre-order pass, the labels its statements define: its pre-order case reaches the creation of label symbols"
}

// c01R28: found D84 (switch q := p; q.X { case 3: } took default: the tag was never executed).
// c01R29: found D86 (a label in a case body was undefined).
func c01R28and29(ic *IC, r *Report) {
	info := ic.Info
	fi := ic.fn(r, "Interpreter.cfg")
	if fi == nil {
		return
	}
	tnextFld := ic.field("node", "tnext")
	childFld := ic.field("node", "child")
	typeSwitchK, _ := ic.Pk.Types.Scope().Lookup("typeSwitch").(*types.Const)
	nSw := 0
	ast.Inspect(fi.Decl.Body, func(m ast.Node) bool {
		cc, ok := m.(*ast.CaseClause)
		if !ok {
			return true
		}
		kind := ""
		for _, l := range cc.List {
			if id := identOf(l); id != nil {
				if c, ok := info.Uses[id].(*types.Const); ok && (c.Name() == "switchStmt" || c.Name() == "switchIfStmt") {
					kind = c.Name()
				}
			}
		}
		if kind == "" || len(callsIn(info, cc, true, "interp.setFNext")) == 0 {
			return true
		}
		nSw++
		var bad []string
		ast.Inspect(cc, func(k ast.Node) bool {
			as, ok := k.(*ast.AssignStmt)
			if !ok || len(as.Lhs) != 1 || selField(info, as.Lhs[0]) != tnextFld {
				return true
			}
			// n.child[0].tnext = ...
			ix, ok := unparen(as.Lhs[0].(*ast.SelectorExpr).X).(*ast.IndexExpr)
			if !ok || selField(info, ix.X) != childFld {
				return true
			}
			if id := identOf(ix.X.(*ast.SelectorExpr).X); id == nil || id.Name != "n" {
				return true
			}
			if tv, ok := info.Types[ix.Index]; !ok || tv.Value == nil || tv.Value.ExactString() != "0" {
				return true
			}
			// accepted under a test that the statement is a type switch
			underTS := false
			for _, p := range pathGuards(cc, as) {
				if !p.want {
					continue
				}
				ast.Inspect(p.cond, func(q ast.Node) bool {
					if id, ok := q.(*ast.Ident); ok && typeSwitchK != nil && info.ObjectOf(id) == typeSwitchK {
						underTS = true
					}
					return true
				})
			}
			if !underTS {
				bad = append(bad, ic.pos(as.Pos()))
			}
			return true
		})
		r.Check(len(bad) == 0, "R01.28", "cfg/case:"+kind+"/header-chained-as-a-whole", ic.pos(cc.Pos()), "init statement and tag are chained before the clauses",
			"the "+kind+" case of cfg wires n.child[0] alone to what follows ("+strings.Join(bad, ", ")+"): with an init statement the tag expression (child 1) is never executed, so switch q := p; q.X { case 3: } compares the zero value and takes default")
		return true
	})
	if nSw < 2 {
		r.Errorf("R01.28: %d post-order switch cases found", nSw)
	}
	// R01.29
	labelSym, _ := ic.Pk.Types.Scope().Lookup("labelSym").(*types.Const)
	createsLabels := func(body ast.Node, depth int) bool { return false }
	createsLabels = func(body ast.Node, depth int) bool {
		found := false
		ast.Inspect(body, func(k ast.Node) bool {
			switch x := k.(type) {
			case *ast.CompositeLit:
				for _, e := range x.Elts {
					if kv, ok := e.(*ast.KeyValueExpr); ok {
						if id := identOf(kv.Value); id != nil && labelSym != nil && info.ObjectOf(id) == labelSym {
							// only a creation keyed by the statement's own children (a loop over children)
							found = true
						}
					}
				}
			case *ast.CallExpr:
				if depth > 0 {
					if f, ok := calleeOf(info, x).(*types.Func); ok && f.Pkg() == ic.Pk.Types {
						if hd := ic.G.Funcs[f]; hd != nil && hd.Decl.Body != nil && hd.Decl.Recv == nil && createsLabels(hd.Decl.Body, depth-1) {
							found = true
						}
					}
				}
			}
			return !found
		})
		return found
	}
	for _, kind := range []string{"blockStmt", "caseBody", "commClause", "commClauseDefault"} {
		kobj, _ := ic.Pk.Types.Scope().Lookup(kind).(*types.Const)
		if kobj == nil {
			r.Errorf("R01.29: node kind %s not found", kind)
			continue
		}
		ok := false
		var at token.Pos = fi.Decl.Pos()
		ast.Inspect(fi.Decl.Body, func(m ast.Node) bool {
			cc, isCC := m.(*ast.CaseClause)
			if !isCC {
				return true
			}
			for _, l := range cc.List {
				if id := identOf(l); id != nil && info.ObjectOf(id) == kobj {
					// the pre-order case: it does not wire successors
					if len(callsIn(info, cc, true, "interp.wireChild", "interp.setFNext")) > 0 {
						continue
					}
					labelled := false
					for _, s := range cc.Body {
						// only loops over children creating label symbols, or helper calls, count
						if createsLabels(s, 1) {
							labelled = true
						}
					}
					if labelled {
						ok = true
						at = cc.Pos()
					}
				}
			}
			return true
		})
		r.Check(ok, "R01.29", "cfg/pre-order:"+kind+"/labels-declared", ic.pos(at), "the labels of the statement list are declared before its statements are compiled",
			"no pre-order case of cfg for node kind "+kind+" declares the labels its statements define: a goto, break or continue naming a label of that list fails with 'undefined' although the program is valid")
	}
}
