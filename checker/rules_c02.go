package main

import (
	"fmt"
	"go/ast"
	"go/constant"
	"go/token"
	"go/types"
	"sort"
	"strings"
)

func init() {
	register("C02", &propMeta{
		Level: "other",
		Explanation: "Table/shape agreement over every operator closure of package interp (the arithmetic itself is done by Go's own operator on the 64-bit widening of the operands and reflect's SetInt/SetUint/SetFloat truncate to the destination kind, so wrap-around, truncation, sign extension and rounding follow from Go's semantics once operator, kind class and operand order are right): " +
			"R02.1 every Go operator token of each syntactic class has a case in the AST builder and maps to the action spelled like it; R02.2 each action's generator (and constant folder) uses exactly the Go operator of its action in its run-time closures; " +
			"R02.3 in every switch over reflect kinds, each case of one numeric class reads through that class's accessor/extractor and writes through that class's setter (shift counts excepted); R02.4 the left operand derives from child 0 and the right from child 1; " +
			"R02.5 in branching closures the operator's truth goes with SetBool(true)/tnext and its falsity with SetBool(false)/fnext; R02.7/R02.8 the 'store directly into the destination / result area' optimisations of cfg are unreachable for compound assignments and for multi-value returns with named results. Nothing is evaluated.",
		Assumptions: []string{"reflect.Value accessors/setters and Go's own operators have their documented semantics", "the type rules of typecheck.go and convert (delegating to reflect.Value.Convert) are not decided here", "whether cfg allocates the result slot with the right kind is not decided here"},
		Run:         runC02,
	})
	ruleText["R02.1"] = "in (*Interpreter).ast, the switch over a.Op / a.Tok of *ast.BinaryExpr, *ast.UnaryExpr, *ast.AssignStmt, *ast.IncDecStmt has a case for every operator token of that class (from go/token) and sets the action whose entry in the actions spelling table equals token.String() (':=' -> '=' is the one accepted difference)"
	ruleText["R02.2"] = "for every operator action a, the run-time closures of builtin[a] use exactly the Go operator of a (X= forms use X, ++/-- use +/-, unary + uses none) among arithmetic/bitwise/shift/comparison/unary operators; constOp[a] passes exactly that token to go/constant"
	ruleText["R02.3"] = "inside a case of a switch over reflect kinds (or over the isInt/isUint/isFloat/isComplex/isString predicates) whose labels belong to one class, accessors (Int/Uint/Float/Complex/String), extractors (genValueInt.., vInt..) and setters (SetInt..) are those of that class; the count of a shift is the one accepted unsigned extraction"
	ruleText["R02.4"] = "in every operator expression of a generator closure the left operand derives only from child 0 and the right operand only from child 1 (or is the literal 1 of ++/--)"
	ruleText["R02.6"] = "constant operands are materialised through the go/constant accessor of the destination kind (same analysis as C03/R03.2): Float32Val for float32/complex64, Float64Val for float64/complex128, Int64Val/Uint64Val for integers"
	ruleText["R02.7"] = "in cfg, every statement A.findex = D.findex where D is a child of the assignment node X that A belongs to is unreachable when X is a compound assignment: some enclosing condition (if, or case of an expression-less switch, earlier cases negated) is false under X.kind == assignStmt, X.action != aAssign"
	ruleText["R02.8"] = "in cfg, every assignment of node.findex guarded by 'the parent is a return statement' is unreachable when the return has several operands and the function's results are named (conditions evaluated three-valued under len(anc.child) > 1 and mustReturnValue(...) == false, one-line boolean helpers inlined)"
	ruleText["R02.9"] = "outside (*Interpreter).ast no assignment gives node.action the action of a Go operator token, and none assigns an operator generator to node.gen directly"
	ruleText["R02.11"] = "in every generator, SetUint(uint64(i)) with i extracted by genValueInt (or SetInt(int64(u)) with u from genValueUint) is reached only under path conditions whose predicates on the source's type accept no floating-point kind: a float is never narrowed through the other integer class"
	ruleText["R02.14"] = "nothing in package interp fills a sync.Map or a package-level map after package initialisation (shared as R03.16): converted constants, operator choices or types are not cached process-wide under a key that says less than the value"
	ruleText["R02.16"] = "a case of a switch over the kind-class predicates that takes the unsigned kinds (none of its kinds is taken by an earlier case) does not read the value through a signed extractor (vInt, genValueInt, reflect.Value.Int, constant.MakeInt64/Int64Val) in its own statements: unsigned values with the top bit set would be read back negative"
	ruleText["R03.20"] = "R02.16 as it bears on constants (constantOf and the constant helpers are predicate switches): a case that takes the unsigned kinds does not read the value through a signed extractor"
	ruleText["R02.15"] = "in typecheck.binaryExpr every acceptance (return nil) placed before the conversion of an untyped operand to the other operand's type is guarded by a validity test of the constant value of both operands"
	ruleText["R02.13"] = "in every switch without tag over the kind-class predicates (isInt, isUint, isFloat, isComplex, isString), anywhere in the package, each case can be taken: the kinds its predicates accept are not all taken by earlier cases"
	ruleText["R02.12"] = "in cfg only the expression that is itself assigned takes the frame slot of the destination; an operand of that expression (a node whose grandparent is the assignment) never does"
	ruleText["R02.10"] = "in the post-order unaryExpr case of cfg, every case of the slot-allocation switch that assigns both n.typ and n.findex (direct store into the destination or the result slot) has !isInterface(...) in its condition"
	ruleText["R02.5"] = "in a closure that returns either the true or the false successor, the block guarded by the operator expression stores true and returns tnext, the other stores false and returns fnext"
}

type c02ctx struct {
	ic         *IC
	r          *Report
	actName    map[int64]string // action value -> constant name
	spelling   map[int64]string // action value -> actions[] string
	builtin    map[int64]*types.Func
	constOp    map[int64]*types.Func
	srcToken   map[int64]token.Token // action -> source token (from ast())
	tokenKind  map[int64]string      // binary | assign | incdec | unary
	childIdx   map[*FuncInfo]func(ast.Expr) int
	silent     bool // r1 only fills the maps
	folderRule string
	rule16     string            // id under which the signed-read-of-unsigned-kinds rule reports (R02.16; C03 runs it as R03.20)
	constOpVar types.Object      // the constOp table variable
	constOpLit *ast.CompositeLit // its literal
}

var arithOps = map[token.Token]bool{token.ADD: true, token.SUB: true, token.MUL: true, token.QUO: true, token.REM: true,
	token.AND: true, token.OR: true, token.XOR: true, token.SHL: true, token.SHR: true, token.AND_NOT: true,
	token.EQL: true, token.NEQ: true, token.LSS: true, token.LEQ: true, token.GTR: true, token.GEQ: true}

func runC02(c *Config, r *Report) {
	ic, err := loadInterp(c, false)
	if err != nil {
		r.Errorf("%v", err)
		return
	}
	x := &c02ctx{ic: ic, r: r, actName: map[int64]string{}, spelling: map[int64]string{}, builtin: map[int64]*types.Func{}, constOp: map[int64]*types.Func{}, srcToken: map[int64]token.Token{}, tokenKind: map[int64]string{}}
	if !x.readTables() {
		return
	}
	x.r1()
	x.r2()
	x.r7()
	x.r8()
	x.r9()
	x.r10()
	x.r11()
	x.r11chain()
	x.r2x13()
	x.r2x17()
	x.r2x18()
	x.r2x19()
	x.r2x20()
	x.r2x21()
	x.r2x22()
	x.r2x15()
	if icS, err := loadInterp(c, true); err == nil {
		noProcessWideMemo(icS, r, "R02.14")
	} else {
		r.Errorf("R02.14: %v", err)
	}
	x.r3()
	// constant operands: materialised through the accessor of their kind (shared with C03/R03.2)
	sub := newReport("C03")
	c03R2(ic, sub)
	for _, o := range sub.Obls {
		o.Rule = "R02.6"
		r.add(o)
	}
	r.Errors = append(r.Errors, sub.Errors...)
}

// constAction returns the value of an expression of the package's action type.
func (x *c02ctx) constAction(e ast.Expr) (int64, bool) {
	tv, ok := x.ic.Info.Types[e]
	if !ok || tv.Value == nil || tv.Value.Kind() != constant.Int || !isNamed(tv.Type, "action") {
		return 0, false
	}
	v, _ := constant.Int64Val(tv.Value)
	return v, true
}

func (x *c02ctx) readTables() bool {
	ic := x.ic
	// names of action constants
	sc := ic.Pk.Types.Scope()
	for _, n := range sc.Names() {
		if c, ok := sc.Lookup(n).(*types.Const); ok && isNamed(c.Type(), "action") {
			v, _ := constant.Int64Val(c.Val())
			x.actName[v] = n
		}
	}
	readTable := func(name string, fn func(k int64, v ast.Expr)) bool {
		for _, f := range ic.Pk.Syntax {
			for _, d := range f.Decls {
				gd, ok := d.(*ast.GenDecl)
				if !ok {
					continue
				}
				for _, s := range gd.Specs {
					vs, ok := s.(*ast.ValueSpec)
					if !ok || len(vs.Names) != 1 || vs.Names[0].Name != name || len(vs.Values) != 1 {
						continue
					}
					cl, ok := vs.Values[0].(*ast.CompositeLit)
					if !ok {
						continue
					}
					if name == "constOp" {
						x.constOpVar, x.constOpLit = ic.Info.Defs[vs.Names[0]], cl
					}
					for _, e := range cl.Elts {
						if kv, ok := e.(*ast.KeyValueExpr); ok {
							if k, ok := x.constAction(kv.Key); ok {
								fn(k, kv.Value)
							}
						}
					}
					return true
				}
			}
		}
		return false
	}
	ok1 := readTable("actions", func(k int64, v ast.Expr) {
		if tv, ok := ic.Info.Types[v]; ok && tv.Value != nil {
			x.spelling[k] = constant.StringVal(tv.Value)
		}
	})
	fnObj := func(v ast.Expr) *types.Func {
		if id, ok := unparen(v).(*ast.Ident); ok {
			f, _ := ic.Info.Uses[id].(*types.Func)
			return f
		}
		return nil
	}
	ok2 := readTable("builtin", func(k int64, v ast.Expr) { x.builtin[k] = fnObj(v) })
	ok3 := readTable("constOp", func(k int64, v ast.Expr) { x.constOp[k] = fnObj(v) })
	if !ok1 || !ok2 || !ok3 || len(x.spelling) < 40 || len(x.builtin) < 40 || len(x.constOp) < 10 {
		x.r.Errorf("anchor not resolved: tables actions (%d), builtin (%d), constOp (%d)", len(x.spelling), len(x.builtin), len(x.constOp))
		return false
	}
	return true
}

// r1: token -> action in ast().
func (x *c02ctx) r1() {
	ic, r := x.ic, x.r
	if x.silent {
		r = newReport("scratch")
	}
	fi := ic.fn(r, "Interpreter.ast")
	if fi == nil {
		return
	}
	classOf := func(t types.Type) string {
		s := types.TypeString(t, nil)
		switch s {
		case "*go/ast.BinaryExpr":
			return "binary"
		case "*go/ast.UnaryExpr":
			return "unary"
		case "*go/ast.AssignStmt":
			return "assign"
		case "*go/ast.IncDecStmt":
			return "incdec"
		}
		return ""
	}
	want := map[string][]token.Token{}
	for t := token.ADD; t <= token.AND_NOT; t++ {
		want["binary"] = append(want["binary"], t)
	}
	for _, t := range []token.Token{token.LAND, token.LOR, token.EQL, token.LSS, token.GTR, token.NEQ, token.LEQ, token.GEQ} {
		want["binary"] = append(want["binary"], t)
	}
	for t := token.ADD_ASSIGN; t <= token.AND_NOT_ASSIGN; t++ {
		want["assign"] = append(want["assign"], t)
	}
	want["assign"] = append(want["assign"], token.ASSIGN, token.DEFINE)
	want["incdec"] = []token.Token{token.INC, token.DEC}
	want["unary"] = []token.Token{token.ADD, token.SUB, token.NOT, token.XOR, token.AND, token.ARROW}
	seen := map[string]bool{}
	ast.Inspect(fi.Decl.Body, func(n ast.Node) bool {
		sw, ok := n.(*ast.SwitchStmt)
		if !ok || sw.Tag == nil {
			return true
		}
		se, ok := unparen(sw.Tag).(*ast.SelectorExpr)
		if !ok || (se.Sel.Name != "Op" && se.Sel.Name != "Tok") {
			return true
		}
		class := classOf(ic.Info.TypeOf(se.X))
		if class == "" {
			return true
		}
		seen[class] = true
		have := map[token.Token]bool{}
		for _, st := range sw.Body.List {
			cc := st.(*ast.CaseClause)
			// action assigned in the case body
			var act int64 = -1
			for _, s := range cc.Body {
				ast.Inspect(s, func(m ast.Node) bool {
					if as, ok := m.(*ast.AssignStmt); ok && len(as.Rhs) == 1 {
						if v, ok := x.constAction(as.Rhs[0]); ok {
							act = v
						}
					}
					return true
				})
			}
			for _, l := range cc.List {
				tv, ok := ic.Info.Types[l]
				if !ok || tv.Value == nil {
					continue
				}
				iv, _ := constant.Int64Val(tv.Value)
				tok := token.Token(iv)
				have[tok] = true
				key := class + "/" + tok.String()
				if act < 0 {
					r.Fail("R02.1", key, ic.pos(l.Pos()), "case "+tok.String()+" sets no action")
					continue
				}
				sp := x.spelling[act]
				okSp := sp == tok.String() || (tok == token.DEFINE && sp == "=")
				r.Check(okSp, "R02.1", key, ic.pos(l.Pos()), "token "+tok.String()+" -> "+x.actName[act]+" spelled "+sp,
					"operator token "+tok.String()+" of "+class+" expressions is mapped to action "+x.actName[act]+", whose spelling in the actions table is "+sp+": the wrong operation is executed for this operator")
				if okSp {
					x.srcToken[act] = tok
					x.tokenKind[act] = class
				}
			}
		}
		for _, t := range want[class] {
			if !have[t] {
				r.Fail("R02.1", class+"/"+t.String(), ic.pos(sw.Pos()), "operator token "+t.String()+" has no case in the "+class+" switch of the AST builder: the node keeps the default action and the operator is not executed")
			}
		}
		return true
	})
	for _, cl := range []string{"binary", "unary", "assign", "incdec"} {
		if !seen[cl] {
			r.Errorf("R02.1: no switch over the operator token of %s nodes found in (*Interpreter).ast", cl)
		}
	}
}

// expectedOp returns the Go operator token the closures of action act must use.
func (x *c02ctx) expectedOp(act int64) (token.Token, bool, bool) { // tok, unary, ok
	t, ok := x.srcToken[act]
	if !ok {
		return 0, false, false
	}
	switch x.tokenKind[act] {
	case "binary":
		if t == token.LAND || t == token.LOR {
			return 0, false, false
		}
		return t, false, true
	case "assign":
		if t >= token.ADD_ASSIGN && t <= token.AND_NOT_ASSIGN {
			return t - (token.ADD_ASSIGN - token.ADD), false, true
		}
		return 0, false, false
	case "incdec":
		if t == token.INC {
			return token.ADD, false, true
		}
		return token.SUB, false, true
	case "unary":
		switch t {
		case token.SUB, token.XOR, token.NOT, token.ADD:
			return t, true, true
		}
	}
	return 0, false, false
}

// closuresOf returns the run-time closures of a generator.
func (x *c02ctx) closuresOf(fi *FuncInfo) []*ast.FuncLit {
	var out []*ast.FuncLit
	ast.Inspect(fi.Decl.Body, func(n ast.Node) bool {
		if fl, ok := n.(*ast.FuncLit); ok && isFrameClosure(x.ic.Info, fl) {
			out = append(out, fl)
			return false
		}
		return true
	})
	return out
}

func (x *c02ctx) r2() {
	ic, r := x.ic, x.r
	var acts []int64
	for a := range x.builtin {
		acts = append(acts, a)
	}
	sort.Slice(acts, func(i, j int) bool { return acts[i] < acts[j] })
	nGen, nClos, nOps := 0, 0, 0
	for _, a := range acts {
		exp, unary, ok := x.expectedOp(a)
		if !ok {
			continue
		}
		gen := x.builtin[a]
		if gen == nil || ic.G.Funcs[gen] == nil {
			r.Fail("R02.2", x.actName[a]+"/generator", "", "no generator registered in builtin for operator action "+x.actName[a])
			continue
		}
		fi := ic.G.Funcs[gen]
		nGen++
		cls := x.closuresOf(fi)
		nClos += len(cls)
		counts := map[string]int{}
		var wrongPos token.Pos
		for _, fl := range cls {
			ast.Inspect(fl.Body, func(n ast.Node) bool {
				switch e := n.(type) {
				case *ast.BinaryExpr:
					if !unary && arithOps[e.Op] {
						counts[e.Op.String()]++
						nOps++
						if e.Op != exp && !wrongPos.IsValid() {
							wrongPos = e.Pos()
						}
						x.operandOrder(fi, fl, e, a)
					}
				case *ast.UnaryExpr:
					if unary && (e.Op == token.SUB || e.Op == token.XOR || e.Op == token.NOT || e.Op == token.ADD) {
						counts[e.Op.String()]++
						nOps++
						if e.Op != exp && !wrongPos.IsValid() {
							wrongPos = e.Pos()
						}
					}
				case *ast.AssignStmt:
					if e.Tok >= token.ADD_ASSIGN && e.Tok <= token.AND_NOT_ASSIGN {
						op := e.Tok - (token.ADD_ASSIGN - token.ADD)
						counts[op.String()]++
						if op != exp && !wrongPos.IsValid() {
							wrongPos = e.Pos()
						}
					}
				case *ast.IncDecStmt:
					op := token.ADD
					if e.Tok == token.DEC {
						op = token.SUB
					}
					counts[op.String()]++
					if op != exp && !wrongPos.IsValid() {
						wrongPos = e.Pos()
					}
				}
				return true
			})
		}
		key := x.actName[a] + "/" + gen.Name()
		desc := []string{}
		for _, k := range sortedKeys(counts) {
			desc = append(desc, fmt.Sprintf("%d x %s", counts[k], k))
		}
		onlyExp := len(counts) == 1 && counts[exp.String()] > 0
		if unary && exp == token.ADD && len(counts) == 0 {
			onlyExp = true // unary plus is the identity
		}
		if len(cls) == 0 {
			r.Fail("R02.2", key, ic.pos(fi.Decl.Pos()), "generator "+gen.Name()+" installs no run-time closure")
			continue
		}
		pos := ic.pos(fi.Decl.Pos())
		if wrongPos.IsValid() {
			pos = ic.pos(wrongPos)
		}
		r.Check(onlyExp, "R02.2", key, pos, fmt.Sprintf("%d closures use only %s (%s)", len(cls), exp, strings.Join(desc, ", ")),
			fmt.Sprintf("generator %s of action %s (source operator %s) uses %s in its closures; exactly the Go operator %s is expected: some operand kind or operand form computes another operation", gen.Name(), x.actName[a], x.srcToken[a], strings.Join(desc, ", "), exp))
		x.polarity(fi, cls, a, exp, unary)
	}
	x.folders("R02.2")
	r.Info["operator_generators"] = nGen
	r.Info["operator_closures"] = nClos
	r.Info["operator_expressions"] = nOps
	if nGen < 30 || nClos < 300 {
		r.Errorf("R02.2: only %d operator generators / %d closures analysed", nGen, nClos)
	}
}

// folders checks the constant folders registered in constOp.
func (x *c02ctx) folders(rule string) {
	ic, r := x.ic, x.r
	nf := 0
	for a, f := range x.constOp {
		exp, _, ok := x.expectedOp(a)
		if !ok || f == nil || ic.G.Funcs[f] == nil {
			continue
		}
		fi := ic.G.Funcs[f]
		var toks []string
		bad := false
		var badPos token.Pos
		ast.Inspect(fi.Decl.Body, func(n ast.Node) bool {
			call, ok := n.(*ast.CallExpr)
			if !ok || !(isCallTo(ic.Info, call, "go/constant.BinaryOp", "go/constant.UnaryOp", "go/constant.Shift", "go/constant.Compare") || x.tokenForwarder(call)) {
				return true
			}
			for _, arg := range call.Args {
				if types.TypeString(ic.Info.TypeOf(arg), nil) != "go/token.Token" {
					continue
				}
				// the token itself, or a local variable assigned from tokens
				var cands []ast.Expr
				if tv, ok := ic.Info.Types[arg]; ok && tv.Value != nil {
					cands = append(cands, arg)
				} else if id, ok := unparen(arg).(*ast.Ident); ok {
					obj := ic.Info.ObjectOf(id)
					ast.Inspect(fi.Decl.Body, func(m ast.Node) bool {
						if as, ok := m.(*ast.AssignStmt); ok && len(as.Lhs) == len(as.Rhs) {
							for i, l := range as.Lhs {
								if lid, ok := l.(*ast.Ident); ok && ic.Info.ObjectOf(lid) == obj {
									cands = append(cands, as.Rhs[i])
								}
							}
						}
						return true
					})
				}
				for _, ce := range cands {
					tv, ok := ic.Info.Types[ce]
					if !ok || tv.Value == nil {
						bad = true
						badPos = ce.Pos()
						toks = append(toks, "<non-constant>")
						continue
					}
					iv, _ := constant.Int64Val(tv.Value)
					t := token.Token(iv)
					toks = append(toks, t.String())
					okTok := t == exp || (exp == token.QUO && t == token.QUO_ASSIGN)
					if !okTok {
						bad = true
						badPos = ce.Pos()
					}
				}
			}
			return true
		})
		// Go operators used directly on extracted values in the folder
		ast.Inspect(fi.Decl.Body, func(n ast.Node) bool {
			var op token.Token
			var p token.Pos
			switch e := n.(type) {
			case *ast.BinaryExpr:
				if !arithOps[e.Op] || e.Op == token.EQL || e.Op == token.NEQ || e.Op == token.LSS || e.Op == token.LEQ || e.Op == token.GTR || e.Op == token.GEQ {
					return true
				}
				op, p = e.Op, e.Pos()
			case *ast.UnaryExpr:
				if !(e.Op == token.SUB || e.Op == token.XOR || e.Op == token.NOT) || x.tokenKind[a] != "unary" {
					return true
				}
				op, p = e.Op, e.Pos()
			default:
				return true
			}
			toks = append(toks, op.String())
			if op != exp {
				bad = true
				badPos = p
			}
			return true
		})
		key := x.actName[a] + "/" + f.Name()
		if len(toks) == 0 {
			r.Fail(rule, key, ic.pos(fi.Decl.Pos()), "constant folder "+f.Name()+" passes no operator token to go/constant")
			continue
		}
		pos := ic.pos(fi.Decl.Pos())
		if bad {
			pos = ic.pos(badPos)
		}
		nf++
		r.Check(!bad, rule, key, pos, "folds with token "+strings.Join(dedupStr(toks), ","), "constant folder "+f.Name()+" of action "+x.actName[a]+" folds with token(s) "+strings.Join(dedupStr(toks), ",")+"; "+exp.String()+" is expected: constant expressions evaluate to another operation than the same expression on variables")
	}
	if nf < 10 {
		r.Errorf("%s: only %d constant folders analysed", rule, nf)
	}
}

func dedupStr(s []string) []string {
	sort.Strings(s)
	return dedup(s)
}

// childOf maps local variables of a generator to the operand child (0 or 1) they derive
// from, following := definitions transitively. -1: none, 2: both.
func (x *c02ctx) childIndex(fi *FuncInfo) func(e ast.Expr) int {
	ic := x.ic
	defs := map[types.Object][]ast.Expr{}
	ast.Inspect(fi.Decl.Body, func(n ast.Node) bool {
		as, ok := n.(*ast.AssignStmt)
		if !ok {
			return true
		}
		if len(as.Lhs) == len(as.Rhs) {
			for i, l := range as.Lhs {
				if id, ok := l.(*ast.Ident); ok && id.Name != "_" {
					defs[ic.Info.ObjectOf(id)] = append(defs[ic.Info.ObjectOf(id)], as.Rhs[i])
				}
			}
		} else if len(as.Rhs) == 1 {
			for _, l := range as.Lhs {
				if id, ok := l.(*ast.Ident); ok && id.Name != "_" {
					defs[ic.Info.ObjectOf(id)] = append(defs[ic.Info.ObjectOf(id)], as.Rhs[0])
				}
			}
		}
		return true
	})
	var nodeParam types.Object
	if fi.Decl.Type.Params != nil && len(fi.Decl.Type.Params.List) > 0 && len(fi.Decl.Type.Params.List[0].Names) > 0 {
		nodeParam = ic.Info.ObjectOf(fi.Decl.Type.Params.List[0].Names[0])
	}
	memo := map[types.Object]int{}
	var ofExpr func(e ast.Expr, depth int) int
	merge := func(a, b int) int {
		switch {
		case a == -1:
			return b
		case b == -1:
			return a
		case a == b:
			return a
		}
		return 2
	}
	var ofObj func(o types.Object, depth int) int
	ofObj = func(o types.Object, depth int) int {
		if v, ok := memo[o]; ok {
			return v
		}
		memo[o] = -1
		res := -1
		if depth < 8 {
			for _, d := range defs[o] {
				res = merge(res, ofExpr(d, depth+1))
			}
		}
		memo[o] = res
		return res
	}
	ofExpr = func(e ast.Expr, depth int) int {
		res := -1
		ast.Inspect(e, func(n ast.Node) bool {
			switch y := n.(type) {
			case *ast.FuncLit:
				return false
			case *ast.IndexExpr:
				// n.child[k]
				if se, ok := unparen(y.X).(*ast.SelectorExpr); ok && se.Sel.Name == "child" {
					if id, ok := unparen(se.X).(*ast.Ident); ok && ic.Info.ObjectOf(id) == nodeParam {
						if tv, ok := ic.Info.Types[y.Index]; ok && tv.Value != nil {
							k, _ := constant.Int64Val(tv.Value)
							if k == 0 || k == 1 {
								res = merge(res, int(k))
							}
						}
						return false
					}
				}
			case *ast.Ident:
				if o := ic.Info.Uses[y]; o != nil {
					if _, isVar := o.(*types.Var); isVar && o != nodeParam {
						res = merge(res, ofObj(o, depth))
					}
				}
			}
			return true
		})
		return res
	}
	return func(e ast.Expr) int { return ofExpr(e, 0) }
}

func (x *c02ctx) operandOrder(fi *FuncInfo, fl *ast.FuncLit, e *ast.BinaryExpr, act int64) {
	if x.childIdx == nil {
		x.childIdx = map[*FuncInfo]func(ast.Expr) int{}
	}
	ci, ok := x.childIdx[fi]
	if !ok {
		ci = x.childIndex(fi)
		x.childIdx[fi] = ci
	}
	l, rr := ci(e.X), ci(e.Y)
	key := x.actName[act] + "/" + funcName(fi.Decl) + "/operand-order"
	isOne := func(e ast.Expr) bool {
		bl, ok := unparen(e).(*ast.BasicLit)
		return ok && bl.Value == "1"
	}
	okOrder := l == 0 && (rr == 1 || (rr == -1 && isOne(e.Y)))
	if !okOrder {
		desc := func(v int) string {
			return map[int]string{-1: "no operand child", 0: "child 0", 1: "child 1", 2: "both children"}[v]
		}
		x.r.Fail("R02.4", key, x.ic.pos(e.Pos()), fmt.Sprintf("in %s the left operand of %s derives from %s and the right from %s: operands are swapped or mixed (wrong result for non-commutative operators and operand kinds)", types.ExprString(e), e.Op, desc(l), desc(rr)))
	} else {
		x.r.Pass("R02.4", key, x.ic.pos(e.Pos()), "left operand from child 0, right operand from child 1 in every operator expression")
	}
}

// polarity decides R02.5 for the closures of a comparison/not generator.
func (x *c02ctx) polarity(fi *FuncInfo, cls []*ast.FuncLit, act int64, exp token.Token, unary bool) {
	ic := x.ic
	// successor variables: tnext := getExec(n.tnext) / fnext := getExec(n.fnext)
	succ := map[types.Object]string{}
	ast.Inspect(fi.Decl.Body, func(n ast.Node) bool {
		as, ok := n.(*ast.AssignStmt)
		if !ok || len(as.Lhs) != 1 || len(as.Rhs) != 1 {
			return true
		}
		id, ok := as.Lhs[0].(*ast.Ident)
		if !ok {
			return true
		}
		ast.Inspect(as.Rhs[0], func(m ast.Node) bool {
			if se, ok := m.(*ast.SelectorExpr); ok && (se.Sel.Name == "tnext" || se.Sel.Name == "fnext") {
				succ[ic.Info.ObjectOf(id)] = se.Sel.Name
			}
			return true
		})
		return true
	})
	checked := 0
	bad := ""
	var badPos token.Pos
	for _, fl := range cls {
		// does this closure return both successors?
		rets := map[string]bool{}
		ast.Inspect(fl.Body, func(n ast.Node) bool {
			if rs, ok := n.(*ast.ReturnStmt); ok && len(rs.Results) == 1 {
				if id, ok := unparen(rs.Results[0]).(*ast.Ident); ok {
					if s := succ[ic.Info.ObjectOf(id)]; s != "" {
						rets[s] = true
					}
				}
			}
			return true
		})
		if !(rets["tnext"] && rets["fnext"]) {
			continue
		}
		checked++
		// shape: if <opexpr> { SetBool(true); return tnext }; SetBool(false); return fnext
		blockFacts := func(stmts []ast.Stmt) (lit string, ret string) {
			for _, s := range stmts {
				switch y := s.(type) {
				case *ast.ExprStmt:
					if call, ok := y.X.(*ast.CallExpr); ok && isCallTo(ic.Info, call, "reflect.Value.SetBool") && len(call.Args) == 1 {
						lit = types.ExprString(call.Args[0])
					}
				case *ast.ReturnStmt:
					if len(y.Results) == 1 {
						if id, ok := unparen(y.Results[0]).(*ast.Ident); ok {
							ret = succ[ic.Info.ObjectOf(id)]
						}
					}
				}
			}
			return
		}
		for i, s := range fl.Body.List {
			ifs, ok := s.(*ast.IfStmt)
			if !ok {
				continue
			}
			// is the condition the operator expression?
			cond := unparen(ifs.Cond)
			isOp := false
			switch ce := cond.(type) {
			case *ast.BinaryExpr:
				isOp = !unary && ce.Op == exp
			case *ast.UnaryExpr:
				isOp = unary && ce.Op == exp
			}
			if !isOp {
				continue
			}
			lt, rt := blockFacts(ifs.Body.List)
			var rest []ast.Stmt
			if ifs.Else != nil {
				if b, ok := ifs.Else.(*ast.BlockStmt); ok {
					rest = b.List
				}
			} else {
				rest = fl.Body.List[i+1:]
			}
			lf, rf := blockFacts(rest)
			if rt == "" && rf == "" {
				continue
			}
			if !(rt == "tnext" && rf == "fnext" && (lt == "" || lt == "true") && (lf == "" || lf == "false")) {
				bad = fmt.Sprintf("when %s holds the closure stores %s and returns %s, otherwise stores %s and returns %s", types.ExprString(cond), lt, rt, lf, rf)
				badPos = ifs.Pos()
			}
		}
	}
	if checked == 0 {
		return
	}
	key := x.actName[act] + "/" + funcName(fi.Decl) + "/branch-polarity"
	pos := ic.pos(fi.Decl.Pos())
	if bad != "" {
		pos = ic.pos(badPos)
	}
	x.r.Check(bad == "", "R02.5", key, pos, fmt.Sprintf("%d branching closures: operator true -> store true, tnext; false -> store false, fnext", checked),
		"branching closure of "+funcName(fi.Decl)+": "+bad+": the condition is inverted when the operator is used as a branch condition")
}

// ---- R02.3 -----------------------------------------------------------------------------

var kindClass = map[string]string{
	"Int": "int", "Int8": "int", "Int16": "int", "Int32": "int", "Int64": "int",
	"Uint": "uint", "Uint8": "uint", "Uint16": "uint", "Uint32": "uint", "Uint64": "uint", "Uintptr": "uint",
	"Float32": "float", "Float64": "float", "Complex64": "complex", "Complex128": "complex", "String": "string", "Bool": "bool",
}

var accessorClass = map[string]string{"reflect.Value.Int": "int", "reflect.Value.Uint": "uint", "reflect.Value.Float": "float", "reflect.Value.Complex": "complex"}
var setterClass = map[string]string{"reflect.Value.SetInt": "int", "reflect.Value.SetUint": "uint", "reflect.Value.SetFloat": "float", "reflect.Value.SetComplex": "complex", "reflect.Value.SetString": "string", "reflect.Value.SetBool": "bool"}
var extractorClass = map[string]string{
	"interp.genValueInt": "int", "interp.vInt": "int", "interp.genValueUint": "uint", "interp.vUint": "uint",
	"interp.genValueFloat": "float", "interp.vFloat": "float", "interp.genComplex": "complex", "interp.vComplex": "complex",
	"interp.genValueString": "string", "interp.vString": "string",
}
var predicateClass = map[string]string{"interp.isInt": "int", "interp.isUint": "uint", "interp.isFloat": "float", "interp.isComplex": "complex", "interp.isString": "string"}

// predicateKinds returns, for the kind predicates (isInt, isUint, ...), the reflect kinds
// they accept, read from the case labels of their bodies.
func (x *c02ctx) predicateKinds() map[*types.Func]map[string]bool {
	out := map[*types.Func]map[string]bool{}
	for k := range predicateClass {
		name := strings.TrimPrefix(k, "interp.")
		fi := x.ic.F[name]
		if fi == nil || fi.Decl.Body == nil {
			continue
		}
		kinds := map[string]bool{}
		ast.Inspect(fi.Decl.Body, func(n ast.Node) bool {
			if se, ok := n.(*ast.SelectorExpr); ok {
				if c, ok := x.ic.Info.Uses[se.Sel].(*types.Const); ok && c.Pkg() != nil && c.Pkg().Path() == "reflect" && kindClass[c.Name()] != "" {
					kinds[c.Name()] = true
				}
			}
			return true
		})
		out[fi.Obj] = kinds
	}
	return out
}

func (x *c02ctx) r3() {
	ic, r := x.ic, x.r
	predKinds := x.predicateKinds()
	// Operator generators: kind class <-> extractor/setter. Everywhere: kind class <-> accessor on the switched value.
	opGen := map[*types.Func]int64{}
	for a, f := range x.builtin {
		if _, _, ok := x.expectedOp(a); ok && f != nil {
			opGen[f] = a
		}
	}
	nCases, nAcc := 0, 0
	for _, name := range sortedKeys(ic.F) {
		fi := ic.F[name]
		if fi.Decl.Body == nil {
			continue
		}
		act, isOp := opGen[fi.Obj]
		isShift := false
		resultBool := false
		if isOp {
			t := x.srcToken[act]
			isShift = t == token.SHL || t == token.SHR || t == token.SHL_ASSIGN || t == token.SHR_ASSIGN
			switch t {
			case token.EQL, token.NEQ, token.LSS, token.LEQ, token.GTR, token.GEQ, token.NOT:
				resultBool = true
			}
		}
		var problems []string
		var incomplete []string
		var firstPos token.Pos
		cases := 0
		ast.Inspect(fi.Decl.Body, func(n ast.Node) bool {
			sw, ok := n.(*ast.SwitchStmt)
			if !ok {
				return true
			}
			// switched value for accessor checks: X in switch X.Kind()
			var switched string
			if sw.Tag != nil {
				if call, ok := unparen(sw.Tag).(*ast.CallExpr); ok {
					if se, ok := unparen(call.Fun).(*ast.SelectorExpr); ok && se.Sel.Name == "Kind" {
						if f, ok := ic.Info.Uses[se.Sel].(*types.Func); ok && (objKey(f) == "reflect.Value.Kind" || objKey(f) == "reflect.Type.Kind") {
							if objKey(f) == "reflect.Value.Kind" {
								switched = types.ExprString(se.X)
							} else {
								switched = "<type>"
							}
						}
					}
				}
			}
			covered := map[string]bool{} // kinds handled by earlier cases of a predicate-form switch
			for _, st := range sw.Body.List {
				cc := st.(*ast.CaseClause)
				classes := map[string]bool{}
				for _, l := range cc.List {
					if sw.Tag != nil {
						if se, ok := unparen(l).(*ast.SelectorExpr); ok {
							if c, ok := ic.Info.Uses[se.Sel].(*types.Const); ok && c.Pkg() != nil && c.Pkg().Path() == "reflect" {
								if cl := kindClass[c.Name()]; cl != "" {
									classes[cl] = true
								} else {
									classes["other"] = true
								}
							}
						}
					} else if isOp {
						// predicate form: isString(t0) || isString(t1)
						// the kinds this case is reached with: accepted by its predicates, not by earlier cases
						eff := map[string]bool{}
						ast.Inspect(l, func(m ast.Node) bool {
							if call, ok := m.(*ast.CallExpr); ok {
								if f, ok := calleeOf(ic.Info, call).(*types.Func); ok && predKinds[f] != nil {
									for k := range predKinds[f] {
										if !covered[k] {
											eff[k] = true
										}
									}
								}
							}
							return true
						})
						for k := range eff {
							classes[kindClass[k]] = true
							covered[k] = true
						}
						if len(classes) > 1 {
							cl := sortedKeys(classes)
							problems = append(problems, fmt.Sprintf("the case %s is reached with kinds of classes %s (no earlier case handles them separately)", types.ExprString(l), strings.Join(cl, "+")))
							if !firstPos.IsValid() {
								firstPos = l.Pos()
							}
						}
					}
				}
				// class completeness: a case that lists most kinds of a numeric class lists them all
				// (uintptr belongs with the unsigned kinds); a missing kind has no closure at all.
				if sw.Tag != nil {
					listed := map[string]map[string]bool{}
					for _, l := range cc.List {
						if se, ok := unparen(l).(*ast.SelectorExpr); ok {
							if c, ok := ic.Info.Uses[se.Sel].(*types.Const); ok && c.Pkg() != nil && c.Pkg().Path() == "reflect" {
								if cl := kindClass[c.Name()]; cl != "" {
									if listed[cl] == nil {
										listed[cl] = map[string]bool{}
									}
									listed[cl][c.Name()] = true
								}
							}
						}
					}
					for cl, have := range listed {
						total := 0
						var missing []string
						for k, c := range kindClass {
							if c == cl {
								total++
								if !have[k] {
									missing = append(missing, "reflect."+k)
								}
							}
						}
						if len(have) >= 3 && len(missing) > 0 {
							sort.Strings(missing)
							incomplete = append(incomplete, fmt.Sprintf("the case of %s kinds at %s lacks %s", cl, ic.pos(cc.Pos()), strings.Join(missing, ", ")))
						}
					}
				}
				if len(classes) != 1 {
					continue
				}
				var class string
				for k := range classes {
					class = k
				}
				if class == "other" || (switched == "" && sw.Tag != nil) {
					continue
				}
				cases++
				nCases++
				// scan the case body (not nested kind switches of another value)
				for _, s := range cc.Body {
					ast.Inspect(s, func(m ast.Node) bool {
						if inner, ok := m.(*ast.SwitchStmt); ok && inner != sw && inner.Tag != nil {
							if call, ok := unparen(inner.Tag).(*ast.CallExpr); ok {
								if se, ok := unparen(call.Fun).(*ast.SelectorExpr); ok && se.Sel.Name == "Kind" {
									return false
								}
							}
						}
						call, ok := m.(*ast.CallExpr)
						if !ok {
							return true
						}
						f, _ := calleeOf(ic.Info, call).(*types.Func)
						if f == nil {
							return true
						}
						k := shortKey(objKey(f))
						// accessor on the switched value: sound everywhere (a mismatch panics in reflect)
						if ac := accessorClass[k]; ac != "" && switched != "" && switched != "<type>" {
							if se, ok := unparen(call.Fun).(*ast.SelectorExpr); ok && types.ExprString(se.X) == switched {
								nAcc++
								if ac != class {
									problems = append(problems, fmt.Sprintf("%s.%s() in a case of kind class %s (reflect panics)", switched, f.Name(), class))
									if !firstPos.IsValid() {
										firstPos = call.Pos()
									}
								}
							}
						}
						if !isOp {
							return true
						}
						if ac := accessorClass[k]; ac != "" && ac != class {
							problems = append(problems, fmt.Sprintf("accessor %s() in a case of kind class %s", f.Name(), class))
							if !firstPos.IsValid() {
								firstPos = call.Pos()
							}
						}
						if sc := setterClass[k]; sc != "" {
							wantSet := class
							if resultBool {
								wantSet = "bool"
							}
							if sc != wantSet {
								problems = append(problems, fmt.Sprintf("%s in a case of kind class %s", f.Name(), class))
								if !firstPos.IsValid() {
									firstPos = call.Pos()
								}
							}
						}
						if ec := extractorClass[k]; ec != "" {
							okEx := ec == class
							if !okEx && isShift && ec == "uint" {
								// the count of a shift: second operand
								if ci := x.childIndexOf(fi, call); ci == 1 {
									okEx = true
								}
							}
							if !okEx {
								problems = append(problems, fmt.Sprintf("%s in a case of kind class %s", f.Name(), class))
								if !firstPos.IsValid() {
									firstPos = call.Pos()
								}
							}
						}
						return true
					})
				}
			}
			return true
		})
		if isOp && len(incomplete) > 0 {
			r.Fail("R02.3", name+"/kind-class-complete", ic.pos(fi.Decl.Pos()), "operator generator "+name+": "+strings.Join(dedup(incomplete), "; ")+": for an operand of that kind no closure is installed at all, so the statement (and the rest of the function) is silently not executed, e.g. p++ with p of type uintptr")
		} else if isOp && cases > 0 {
			r.Pass("R02.3", name+"/kind-class-complete", ic.pos(fi.Decl.Pos()), "every case naming three or more kinds of a numeric class names all of them")
		}
		if cases == 0 {
			continue
		}
		key := name + "/kind-classes"
		pos := ic.pos(fi.Decl.Pos())
		if firstPos.IsValid() {
			pos = ic.pos(firstPos)
		}
		sort.Strings(problems)
		problems = dedup(problems)
		if len(problems) > 4 {
			problems = append(problems[:4], fmt.Sprintf("... %d more", len(problems)-4))
		}
		r.Check(len(problems) == 0, "R02.3", key, pos, fmt.Sprintf("%d single-class kind cases, accessors/extractors/setters agree with the class", cases),
			name+": "+strings.Join(problems, "; ")+": the value is read or written through the wrong class (wrong result, sign/zero extension error or reflect panic)")
	}
	r.Info["kind_cases_analysed"] = nCases
	r.Info["accessor_calls_checked"] = nAcc
	if nCases < 150 {
		r.Errorf("R02.3: only %d single-class kind cases analysed", nCases)
	}
}

// tokenForwarder reports whether call invokes an in-package function that hands one of its
// token.Token parameters, unchanged, to go/constant (equalConst -> compareConst(n, token.EQL)).
func (x *c02ctx) tokenForwarder(call *ast.CallExpr) bool {
	ic := x.ic
	f, ok := calleeOf(ic.Info, call).(*types.Func)
	if !ok || f.Pkg() != ic.Pk.Types {
		return false
	}
	fi := ic.G.Funcs[f]
	if fi == nil || fi.Decl.Body == nil {
		return false
	}
	sg := f.Type().(*types.Signature)
	var tokParams []types.Object
	for i := 0; i < sg.Params().Len(); i++ {
		if types.TypeString(sg.Params().At(i).Type(), nil) == "go/token.Token" {
			tokParams = append(tokParams, sg.Params().At(i))
		}
	}
	if len(tokParams) == 0 {
		return false
	}
	// no parameter is reassigned, and each is used as the token of a go/constant call
	forwarded := false
	reassigned := false
	ast.Inspect(fi.Decl.Body, func(m ast.Node) bool {
		switch s := m.(type) {
		case *ast.AssignStmt:
			for _, l := range s.Lhs {
				if id := identOf(l); id != nil {
					for _, p := range tokParams {
						if ic.Info.ObjectOf(id) == p {
							reassigned = true
						}
					}
				}
			}
		case *ast.CallExpr:
			if isCallTo(ic.Info, s, "go/constant.BinaryOp", "go/constant.UnaryOp", "go/constant.Shift", "go/constant.Compare") {
				for _, a := range s.Args {
					if id := identOf(a); id != nil {
						for _, p := range tokParams {
							if ic.Info.ObjectOf(id) == p {
								forwarded = true
							}
						}
					}
				}
			}
		}
		return true
	})
	return forwarded && !reassigned
}

// childIndexOf returns the operand child an extractor call takes its argument from.
func (x *c02ctx) childIndexOf(fi *FuncInfo, call *ast.CallExpr) int {
	if x.childIdx == nil {
		x.childIdx = map[*FuncInfo]func(ast.Expr) int{}
	}
	ci, ok := x.childIdx[fi]
	if !ok {
		ci = x.childIndex(fi)
		x.childIdx[fi] = ci
	}
	if len(call.Args) == 0 {
		return -1
	}
	return ci(call.Args[0])
}
