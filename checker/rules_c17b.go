package main

import (
	"fmt"
	"go/ast"
	"go/constant"
	"go/token"
	"go/types"
	"sort"
	"strings"
)

func init() {
	ruleText["R17.10"] = "in the functions deciding file selection, every index or slice expression with constant bounds on a string is dominated by a test establishing the needed length (len comparison, != \"\", strings.HasPrefix, as the left operand of && / ||, an enclosing if, an earlier early exit, or a boolean local holding such a test): a malformed constraint or name is a verdict, never a run-time fault of the host"
	ruleText["R17.11"] = "the node returned by (*Interpreter).parse - nil for a source excluded by its constraints - is tested against nil by every caller before it is handed on (sibling agreement of importSrc and compileSrc)"
	ruleText["R17.12"] = "in importSrc no entry of the package directory reaches the file read without a test of DirEntry.IsDir on the path: go/build ignores directories, whatever their name"
	ruleText["R17.13"] = "New does not store the caller's Options.BuildTags slice in the interpreter's build context: yaegi:tags comments append to it in place"
}

// strLenNeed returns the base expression and the minimal length an index/slice expression on
// a string requires, when its bounds are constants.
func strLenNeed(info *types.Info, n ast.Node) (base ast.Expr, need int64, ok bool) {
	isStr := func(e ast.Expr) bool {
		t := info.TypeOf(e)
		if t == nil {
			return false
		}
		b, ok := t.Underlying().(*types.Basic)
		return ok && b.Info()&types.IsString != 0
	}
	cval := func(e ast.Expr) (int64, bool) {
		if e == nil {
			return 0, false
		}
		tv, ok := info.Types[e]
		if !ok || tv.Value == nil || tv.Value.Kind() != constant.Int {
			return 0, false
		}
		v, exact := constant.Int64Val(tv.Value)
		return v, exact
	}
	switch x := n.(type) {
	case *ast.IndexExpr:
		if !isStr(x.X) {
			return nil, 0, false
		}
		if tv, ok := info.Types[x.X]; ok && tv.Value != nil {
			return nil, 0, false // constant string: checked by the compiler
		}
		if k, ok := cval(x.Index); ok {
			return x.X, k + 1, true
		}
	case *ast.SliceExpr:
		if !isStr(x.X) {
			return nil, 0, false
		}
		var need int64 = -1
		if k, ok := cval(x.Low); ok && k > need {
			need = k
		}
		if k, ok := cval(x.High); ok && k > need {
			need = k
		}
		if need > 0 {
			return x.X, need, true
		}
	}
	return nil, 0, false
}

// lenGuard classifies e as a test on the length of the expression printed as base:
// +L: when e is true the length is at least L; -L: when e is false the length is at least L.
func lenGuard(info *types.Info, e ast.Expr, base string) (whenTrue, whenFalse int64) {
	e = unparen(e)
	cval := func(x ast.Expr) (int64, bool) {
		tv, ok := info.Types[x]
		if !ok || tv.Value == nil || tv.Value.Kind() != constant.Int {
			return 0, false
		}
		v, exact := constant.Int64Val(tv.Value)
		return v, exact
	}
	isLen := func(x ast.Expr) bool {
		c, ok := unparen(x).(*ast.CallExpr)
		if !ok || len(c.Args) != 1 {
			return false
		}
		id, ok := c.Fun.(*ast.Ident)
		if !ok || id.Name != "len" {
			return false
		}
		if _, isB := info.Uses[id].(*types.Builtin); !isB {
			return false
		}
		return types.ExprString(unparen(c.Args[0])) == base
	}
	isEmptyLit := func(x ast.Expr) bool {
		tv, ok := info.Types[x]
		return ok && tv.Value != nil && tv.Value.Kind() == constant.String && constant.StringVal(tv.Value) == ""
	}
	switch x := e.(type) {
	case *ast.UnaryExpr:
		if x.Op == token.NOT {
			t, f := lenGuard(info, x.X, base)
			return f, t
		}
	case *ast.CallExpr:
		if isCallTo(info, x, "strings.HasPrefix", "strings.HasSuffix") && len(x.Args) == 2 && types.ExprString(unparen(x.Args[0])) == base {
			if tv, ok := info.Types[x.Args[1]]; ok && tv.Value != nil && tv.Value.Kind() == constant.String {
				return int64(len(constant.StringVal(tv.Value))), 0
			}
		}
	case *ast.BinaryExpr:
		switch x.Op {
		case token.LAND:
			t1, _ := lenGuard(info, x.X, base)
			t2, _ := lenGuard(info, x.Y, base)
			if t2 > t1 {
				t1 = t2
			}
			return t1, 0
		case token.LOR:
			_, f1 := lenGuard(info, x.X, base)
			_, f2 := lenGuard(info, x.Y, base)
			if f2 > f1 {
				f1 = f2
			}
			return 0, f1
		case token.NEQ, token.EQL:
			var t int64
			if types.ExprString(unparen(x.X)) == base && isEmptyLit(x.Y) || types.ExprString(unparen(x.Y)) == base && isEmptyLit(x.X) {
				t = 1
			}
			if c, ok := cval(x.Y); ok && isLen(x.X) && c == 0 {
				t = 1
			}
			if x.Op == token.NEQ {
				return t, 0
			}
			return 0, t
		case token.GTR, token.GEQ, token.LSS, token.LEQ:
			l, rr, op := x.X, x.Y, x.Op
			if !isLen(l) && isLen(rr) { // c < len(x)  ==  len(x) > c
				l, rr = rr, l
				op = map[token.Token]token.Token{token.GTR: token.LSS, token.LSS: token.GTR, token.GEQ: token.LEQ, token.LEQ: token.GEQ}[op]
			}
			c, ok := cval(rr)
			if !isLen(l) || !ok {
				return 0, 0
			}
			switch op {
			case token.GTR:
				return c + 1, 0
			case token.GEQ:
				return c, 0
			case token.LSS:
				return 0, c
			case token.LEQ:
				return 0, c + 1
			}
		}
	}
	return 0, 0
}

// c17R10: no unguarded constant index on a string in the selection functions.
func c17R10(ic *IC, r *Report, decls []*FuncInfo) {
	info := ic.Info
	n := 0
	seenFn := map[*FuncInfo]bool{}
	for _, fi := range decls {
		if fi == nil || fi.Decl.Body == nil || seenFn[fi] {
			continue
		}
		seenFn[fi] = true
		name := funcName(fi.Decl)
		perFn := map[string]int{}
		var sites []ast.Node
		ast.Inspect(fi.Decl.Body, func(m ast.Node) bool {
			switch m.(type) {
			case *ast.IndexExpr, *ast.SliceExpr:
				if _, _, ok := strLenNeed(info, m); ok {
					sites = append(sites, m)
				}
			}
			return true
		})
		for _, site := range sites {
			baseE, need, _ := strLenNeed(info, site)
			base := types.ExprString(unparen(baseE))
			n++
			var baseObj types.Object
			if id := identOf(baseE); id != nil {
				baseObj = info.ObjectOf(id)
			}
			// assignments to the base between two positions invalidate a guard
			reassigned := func(from, to token.Pos) bool {
				bad := false
				ast.Inspect(fi.Decl.Body, func(k ast.Node) bool {
					as, ok := k.(*ast.AssignStmt)
					if !ok || as.Pos() <= from || as.Pos() >= to {
						return true
					}
					for _, l := range as.Lhs {
						if types.ExprString(unparen(l)) == base {
							// s = s[k:] directly under the guard that proved len > k is the site itself
							if as.Pos() <= site.Pos() && site.End() <= as.End() {
								continue
							}
							bad = true
						}
					}
					return true
				})
				return bad
			}
			// boolean locals holding a guard: b := <guard>
			boolGuard := func(e ast.Expr) (int64, int64, token.Pos) {
				id := identOf(e)
				if id == nil {
					return 0, 0, token.NoPos
				}
				obj := info.ObjectOf(id)
				var def *ast.AssignStmt
				cnt := 0
				ast.Inspect(fi.Decl.Body, func(k ast.Node) bool {
					if as, ok := k.(*ast.AssignStmt); ok && len(as.Lhs) == 1 && len(as.Rhs) == 1 {
						if lid := identOf(as.Lhs[0]); lid != nil && info.ObjectOf(lid) == obj {
							cnt++
							def = as
						}
					}
					return true
				})
				if cnt != 1 || def == nil {
					return 0, 0, token.NoPos
				}
				t, f := lenGuard(info, def.Rhs[0], base)
				return t, f, def.Pos()
			}
			guardOf := func(e ast.Expr) (int64, int64, token.Pos) {
				t, f := lenGuard(info, e, base)
				if t > 0 || f > 0 {
					return t, f, e.Pos()
				}
				// conjunction containing a boolean local
				var bt, bf int64
				var bp token.Pos
				var visit func(x ast.Expr, neg bool)
				visit = func(x ast.Expr, neg bool) {
					x = unparen(x)
					if be, ok := x.(*ast.BinaryExpr); ok && be.Op == token.LAND && !neg {
						visit(be.X, neg)
						visit(be.Y, neg)
						return
					}
					if ue, ok := x.(*ast.UnaryExpr); ok && ue.Op == token.NOT {
						visit(ue.X, !neg)
						return
					}
					t, f, p := boolGuard(x)
					if neg {
						t, f = f, 0
					} else {
						f = 0
					}
					if t > bt {
						bt, bp = t, p
					}
					_ = f
				}
				visit(e, false)
				return bt, bf, bp
			}
			ok := false
			path := enclosingPath(fi.Decl.Body, site)
			for i := len(path) - 1; i >= 0 && !ok; i-- {
				switch p := path[i].(type) {
				case *ast.BinaryExpr:
					// the site is in the right operand
					if p.Y.Pos() <= site.Pos() && site.End() <= p.Y.End() {
						t, f, _ := guardOf(p.X)
						if p.Op == token.LAND && t >= need || p.Op == token.LOR && f >= need {
							ok = true
						}
					}
				case *ast.IfStmt:
					inBody := p.Body.Pos() <= site.Pos() && site.End() <= p.Body.End()
					inElse := p.Else != nil && p.Else.Pos() <= site.Pos() && site.End() <= p.Else.End()
					t, f, gp := guardOf(p.Cond)
					if inBody && t >= need && !reassigned(gp, site.Pos()) || inElse && f >= need && !reassigned(gp, site.Pos()) {
						ok = true
					}
				case *ast.CaseClause:
					// switch { case G: ... } without tag: the case expression guards its body
					inBody := false
					for _, s := range p.Body {
						if s.Pos() <= site.Pos() && site.End() <= s.End() {
							inBody = true
						}
					}
					if inBody && len(p.List) == 1 {
						if t, _, gp := guardOf(p.List[0]); t >= need && !reassigned(gp, site.Pos()) {
							ok = true
						}
					}
				}
				// an earlier early exit in an enclosing statement list
				var list []ast.Stmt
				switch b := path[i].(type) {
				case *ast.BlockStmt:
					list = b.List
				case *ast.CaseClause:
					list = b.Body
				}
				for _, s := range list {
					if s.End() > site.Pos() {
						break
					}
					ifs, isIf := s.(*ast.IfStmt)
					if !isIf || len(ifs.Body.List) == 0 || ifs.Else != nil {
						continue
					}
					leaves := false
					switch last := ifs.Body.List[len(ifs.Body.List)-1].(type) {
					case *ast.ReturnStmt:
						leaves = true
					case *ast.BranchStmt:
						leaves = last.Tok == token.CONTINUE || last.Tok == token.BREAK || last.Tok == token.GOTO
					}
					if _, f, _ := guardOf(ifs.Cond); leaves && f >= need && !reassigned(ifs.End(), site.Pos()) {
						ok = true
					}
				}
			}
			_ = baseObj
			what := types.ExprString(site.(ast.Expr))
			perFn[what]++
			key := fmt.Sprintf("%s/%s", name, what)
			if perFn[what] > 1 {
				key += fmt.Sprintf("#%d", perFn[what])
			}
			r.Check(ok, "R17.10", key, ic.pos(site.Pos()), fmt.Sprintf("length >= %d established before the access", need),
				fmt.Sprintf("%s accesses %s, which needs len(%s) >= %d, without a dominating test of that length: an empty or short element (a +build line ending in a comma, two blanks between terms, a bare '!') makes the host panic with an index out of range instead of yielding a verdict", name, what, base, need))
		}
	}
	if n < 3 {
		r.Errorf("R17.10: only %d constant index/slice expressions on strings found in the selection functions", n)
	}
}

// c17R11: every caller of parse tests the returned node against nil before using it.
func c17R11(ic *IC, r *Report) {
	info := ic.Info
	parse := ic.fn(r, "Interpreter.parse")
	if parse == nil {
		return
	}
	n := 0
	for _, name := range sortedKeys(ic.F) {
		fi := ic.F[name]
		if fi.Decl.Body == nil {
			continue
		}
		ast.Inspect(fi.Decl.Body, func(m ast.Node) bool {
			as, ok := m.(*ast.AssignStmt)
			if !ok || len(as.Rhs) != 1 || len(as.Lhs) < 1 {
				return true
			}
			call, ok := unparen(as.Rhs[0]).(*ast.CallExpr)
			if !ok || calleeOf(info, call) != parse.Obj {
				return true
			}
			id := identOf(as.Lhs[0])
			if id == nil || id.Name == "_" {
				return true
			}
			obj := info.ObjectOf(id)
			n++
			// first use of the node after the call that is not a nil test
			var firstUse token.Pos = token.NoPos
			var nilTest token.Pos = token.NoPos
			ast.Inspect(fi.Decl.Body, func(k ast.Node) bool {
				switch x := k.(type) {
				case *ast.IfStmt:
					if be, ok := unparen(x.Cond).(*ast.BinaryExpr); ok && be.Op == token.EQL && x.Pos() > as.End() {
						l, rr := identOf(be.X), identOf(be.Y)
						if l != nil && rr != nil && info.ObjectOf(l) == obj && rr.Name == "nil" && len(x.Body.List) > 0 {
							leaves := false
							switch last := x.Body.List[len(x.Body.List)-1].(type) {
							case *ast.ReturnStmt:
								leaves = true
							case *ast.BranchStmt:
								leaves = last.Tok == token.CONTINUE || last.Tok == token.BREAK
							}
							if leaves && (nilTest == token.NoPos || x.Pos() < nilTest) {
								nilTest = x.Pos()
							}
						}
					}
				case *ast.CallExpr:
					for _, a := range x.Args {
						if aid := identOf(a); aid != nil && info.ObjectOf(aid) == obj && x.Pos() > as.End() {
							if firstUse == token.NoPos || x.Pos() < firstUse {
								firstUse = x.Pos()
							}
						}
					}
				case *ast.ReturnStmt:
					for _, a := range x.Results {
						if aid := identOf(a); aid != nil && info.ObjectOf(aid) == obj && x.Pos() > as.End() {
							if firstUse == token.NoPos || x.Pos() < firstUse {
								firstUse = x.Pos()
							}
						}
					}
				}
				return true
			})
			ok2 := firstUse == token.NoPos || (nilTest != token.NoPos && nilTest < firstUse)
			r.Check(ok2, "R17.11", funcName(fi.Decl)+"/excluded-source-not-handed-on", ic.pos(as.Pos()), "the node is tested against nil before use",
				funcName(fi.Decl)+" hands the node returned by parse on (at "+ic.pos(firstUse)+") without testing it against nil: parse returns a nil node for a source excluded by its build constraints, and the AST builder then fails with an index out of range in the host (Eval of a source starting with // +build ignore)")
			return true
		})
	}
	if n < 2 {
		r.Errorf("R17.11: %d callers of (*Interpreter).parse found (importSrc and compileSrc expected)", n)
	}
}

// c17R12: directory entries are never read as files.
func c17R12(ic *IC, r *Report) {
	info := ic.Info
	fi := ic.fn(r, "Interpreter.importSrc")
	if fi == nil {
		return
	}
	n := 0
	ast.Inspect(fi.Decl.Body, func(m ast.Node) bool {
		rs, ok := m.(*ast.RangeStmt)
		if !ok || rs.Value == nil {
			return true
		}
		t := info.TypeOf(rs.X)
		if t == nil || !strings.Contains(types.TypeString(t, nil), "io/fs.DirEntry") {
			return true
		}
		entry := info.ObjectOf(identOf(rs.Value))
		reads := callsIn(info, rs.Body, true, "io/fs.ReadFile", "os.ReadFile", "io/ioutil.ReadFile")
		if len(reads) == 0 {
			return true
		}
		n++
		// a guard `if <entry>.IsDir() [|| ...] { continue }` before the first read, at the top level of the loop body
		guarded := false
		for _, s := range rs.Body.List {
			if s.Pos() >= reads[0].Pos() {
				break
			}
			ifs, isIf := s.(*ast.IfStmt)
			if !isIf || len(ifs.Body.List) == 0 {
				continue
			}
			br, isBr := ifs.Body.List[len(ifs.Body.List)-1].(*ast.BranchStmt)
			if !isBr || br.Tok != token.CONTINUE {
				continue
			}
			// IsDir must make the condition true on its own: it is an operand of a top-level ||, or the condition
			var disj func(e ast.Expr) bool
			disj = func(e ast.Expr) bool {
				e = unparen(e)
				if be, ok := e.(*ast.BinaryExpr); ok && be.Op == token.LOR {
					return disj(be.X) || disj(be.Y)
				}
				if c, ok := e.(*ast.CallExpr); ok {
					if se, ok := c.Fun.(*ast.SelectorExpr); ok && se.Sel.Name == "IsDir" {
						if id := identOf(se.X); id != nil && info.ObjectOf(id) == entry {
							return true
						}
					}
				}
				return false
			}
			if disj(ifs.Cond) {
				guarded = true
			}
		}
		r.Check(guarded, "R17.12", "importSrc/directories-are-not-source-files", ic.pos(rs.Pos()), "directory entries are skipped before the file read",
			"importSrc reads every entry of the package directory that passes the file-name rule, directories included (no DirEntry.IsDir test before "+ic.pos(reads[0].Pos())+"): a sub-directory whose name ends in .go makes the import of the package fail, where go/build ignores it")
		return true
	})
	if n == 0 {
		r.Errorf("R17.12: no loop of importSrc over directory entries reading files found")
	}
}

// c17R13: the build tags of the options are copied.
func c17R13(ic *IC, r *Report) {
	info := ic.Info
	fi := ic.fn(r, "New")
	if fi == nil {
		return
	}
	n := 0
	ast.Inspect(fi.Decl.Body, func(m ast.Node) bool {
		as, ok := m.(*ast.AssignStmt)
		if !ok || len(as.Lhs) != 1 || len(as.Rhs) != 1 {
			return true
		}
		lv := selField(info, as.Lhs[0])
		if lv == nil || lv.Name() != "BuildTags" || lv.Pkg() == nil || lv.Pkg().Path() != "go/build" {
			return true
		}
		n++
		rv := selField(info, as.Rhs[0])
		aliased := rv != nil && rv.Name() == "BuildTags"
		if !aliased {
			// a slice expression of the field is an alias too
			if se, ok := unparen(as.Rhs[0]).(*ast.SliceExpr); ok {
				if v := selField(info, se.X); v != nil && v.Name() == "BuildTags" {
					aliased = true
				}
			}
			// append(<field>, ...) may extend the caller's array in place
			if c, ok := unparen(as.Rhs[0]).(*ast.CallExpr); ok && len(c.Args) > 0 {
				if id := identOf(c.Fun); id != nil && id.Name == "append" {
					if v := selField(info, c.Args[0]); v != nil && v.Name() == "BuildTags" {
						aliased = true
					}
				}
			}
		}
		r.Check(!aliased, "R17.13", "New/build-tags-copied", ic.pos(as.Pos()), "the interpreter's tag list is a copy of Options.BuildTags",
			"New stores the caller's Options.BuildTags slice itself in the build context; the tags of yaegi:tags comments are appended to it in place, so two interpreters created from the same options (spare capacity) overwrite each other's tags and select each other's files")
		return true
	})
	if n == 0 {
		r.Errorf("R17.13: no assignment of the build context's BuildTags found in New")
	}
}

var _ = sort.Strings

func init() {
	ruleText["R17.14"] = "the constraint evaluator remembers nothing from one file to the next: the functions taking the *build.Context (the one adding yaegi:tags excepted, which only appends to Context.BuildTags) assign nothing but their own locals - the verdict of a constraint line depends on the tags, which a yaegi:tags comment of an earlier file changes"
}

// c17R14: round-6 seed. The verdicts of the +build lines were kept in a per-interpreter map
// keyed by the line: a tag added by a yaegi:tags comment did not change the remembered verdict.
func c17R14(ic *IC, r *Report) {
	info := ic.Info
	isCtx := func(t types.Type) bool {
		if p, ok := t.(*types.Pointer); ok {
			t = p.Elem()
		}
		n, ok := t.(*types.Named)
		return ok && n.Obj().Pkg() != nil && n.Obj().Pkg().Path() == "go/build" && n.Obj().Name() == "Context"
	}
	n := 0
	for _, name := range sortedKeys(ic.F) {
		fi := ic.F[name]
		if fi.Decl.Body == nil || fi.Obj == nil {
			continue
		}
		sg := fi.Obj.Type().(*types.Signature)
		takes := false
		for i := 0; i < sg.Params().Len(); i++ {
			if isCtx(sg.Params().At(i).Type()) {
				takes = true
			}
		}
		if !takes {
			continue
		}
		n++
		var bad []string
		onlyTags := true
		check := func(l ast.Expr, at ast.Node) {
			root := rootIdent(l)
			if root == nil {
				// e.g. f().x = ...
				bad = append(bad, types.ExprString(l)+" at "+ic.pos(at.Pos()))
				return
			}
			if _, isId := unparen(l).(*ast.Ident); isId {
				obj := info.ObjectOf(root)
				if v, ok := obj.(*types.Var); ok && v.Parent() != ic.Pk.Types.Scope() {
					return // a local, a parameter or a named result itself
				}
				bad = append(bad, types.ExprString(l)+" at "+ic.pos(at.Pos()))
				return
			}
			// a field, element or pointee: local storage only when the root is a local that is not
			// a parameter/receiver of pointer, map or slice type
			obj, _ := info.ObjectOf(root).(*types.Var)
			if obj != nil && obj.Parent() != ic.Pk.Types.Scope() && obj.Pos() > fi.Decl.Body.Pos() {
				// declared inside the body: where does it come from? accept values built here
				// (make, composite literal, strings.Split...) - anything but a copy of a parameter's
				// field or of a package variable
				fromOutside := false
				ast.Inspect(fi.Decl.Body, func(q ast.Node) bool {
					as, ok := q.(*ast.AssignStmt)
					if !ok {
						return true
					}
					for i, l2 := range as.Lhs {
						if id := identOf(l2); id != nil && info.ObjectOf(id) == types.Object(obj) && i < len(as.Rhs) {
							if se, ok := unparen(as.Rhs[i]).(*ast.SelectorExpr); ok && selField(info, se) != nil {
								fromOutside = true
							}
							if ix, ok := unparen(as.Rhs[i]).(*ast.IndexExpr); ok && selField(info, ix.X) != nil {
								fromOutside = true
							}
						}
					}
					return true
				})
				if !fromOutside {
					return
				}
			}
			if v := selField(info, l); v != nil && v.Name() == "BuildTags" {
				return // counted below
			}
			bad = append(bad, types.ExprString(l)+" at "+ic.pos(at.Pos()))
		}
		writesTags := false
		ast.Inspect(fi.Decl.Body, func(q ast.Node) bool {
			switch y := q.(type) {
			case *ast.AssignStmt:
				for _, l := range y.Lhs {
					if v := selField(info, l); v != nil && v.Name() == "BuildTags" {
						writesTags = true
					}
					check(l, y)
				}
			case *ast.IncDecStmt:
				check(y.X, y)
			case *ast.CallExpr:
				// sync.Map and friends
				if o := calleeOf(info, y); o != nil && o.Pkg() != nil && o.Pkg().Path() == "sync" {
					switch o.Name() {
					case "Store", "LoadOrStore", "Swap", "CompareAndSwap":
						bad = append(bad, types.ExprString(y.Fun)+" at "+ic.pos(y.Pos()))
					}
				}
			}
			return true
		})
		_ = onlyTags
		what := "assigns only its own locals"
		if writesTags {
			what = "assigns only its own locals and Context.BuildTags"
		}
		r.Check(len(bad) == 0, "R17.14", name+"/remembers-nothing", ic.pos(fi.Decl.Pos()), what,
			name+" stores into "+strings.Join(dedupStr(bad), ", ")+", which outlives the call: a verdict (or a part of it) remembered there was computed with the tags of that moment; after a yaegi:tags comment adds a tag, the files guarded by that tag are still excluded (or still included under its negation)")
	}
	if n < 5 {
		r.Errorf("R17.14: only %d functions taking a *build.Context found in package interp", n)
	}
}

func init() {
	ruleText["R17.15"] = "the callers of the constraint evaluator remember no verdict either: a function of package interp that calls a function taking the *build.Context (without taking it itself: parse, importSrc) does not guard that call by a test of a map field keyed by the file name, and stores no element into a map field under a condition on the verdict - a file excluded once is evaluated again when it is met again, because a yaegi:tags comment may have set its tag in between"
}

// c17R15: round-8 seed. parse kept the names of the excluded files in an interpreter map and
// returned before evaluating the constraints of a file already known to be excluded.
func c17R15(ic *IC, r *Report) {
	info := ic.Info
	isCtx := func(t types.Type) bool {
		if p, ok := t.(*types.Pointer); ok {
			t = p.Elem()
		}
		n, ok := t.(*types.Named)
		return ok && n.Obj().Pkg() != nil && n.Obj().Pkg().Path() == "go/build" && n.Obj().Name() == "Context"
	}
	takesCtx := func(sg *types.Signature) bool {
		for i := 0; i < sg.Params().Len(); i++ {
			if isCtx(sg.Params().At(i).Type()) {
				return true
			}
		}
		return false
	}
	mapField := func(e ast.Expr) *types.Var {
		ix, ok := unparen(e).(*ast.IndexExpr)
		if !ok {
			return nil
		}
		v := selField(info, ix.X)
		if v == nil {
			return nil
		}
		if _, isMap := v.Type().Underlying().(*types.Map); !isMap {
			return nil
		}
		// keyed by a string (the file name)
		if b, ok := info.TypeOf(ix.Index).Underlying().(*types.Basic); !ok || b.Kind() != types.String {
			return nil
		}
		return v
	}
	n := 0
	for _, name := range sortedKeys(ic.F) {
		fi := ic.F[name]
		if fi.Decl.Body == nil || fi.Obj == nil || takesCtx(fi.Obj.Type().(*types.Signature)) {
			continue
		}
		// calls of an evaluator
		var evals []*ast.CallExpr
		ast.Inspect(fi.Decl.Body, func(q ast.Node) bool {
			c, ok := q.(*ast.CallExpr)
			if !ok {
				return true
			}
			if f, ok := calleeOf(info, c).(*types.Func); ok && f.Pkg() == ic.Pk.Types {
				if sg, ok := f.Type().(*types.Signature); ok && takesCtx(sg) {
					evals = append(evals, c)
				}
			}
			return true
		})
		for k, ev := range evals {
			n++
			bad := ""
			path := enclosingPath(fi.Decl.Body, ev)
			// the statement of the function body (or of the enclosing block) holding the call
			var holder ast.Stmt
			var blk *ast.BlockStmt
			for i := len(path) - 1; i >= 0; i-- {
				if b, ok := path[i].(*ast.BlockStmt); ok && i+1 < len(path) {
					if s, ok := path[i+1].(ast.Stmt); ok {
						blk, holder = b, s
						break
					}
				}
			}
			// (a) an earlier statement of that block that leaves under a test of a map field keyed by a string
			if blk != nil {
				for _, s := range blk.List {
					if s == holder {
						break
					}
					ifs, ok := s.(*ast.IfStmt)
					if !ok {
						continue
					}
					reads := false
					ast.Inspect(ifs.Cond, func(z ast.Node) bool {
						if e, ok := z.(ast.Expr); ok && mapField(e) != nil {
							reads = true
						}
						return true
					})
					leaves := false
					for _, b := range ifs.Body.List {
						switch b.(type) {
						case *ast.ReturnStmt, *ast.BranchStmt:
							leaves = true
						}
					}
					if reads && leaves {
						bad = "the call is skipped when " + types.ExprString(ifs.Cond) + " (" + ic.pos(ifs.Pos()) + ")"
					}
				}
			}
			// (b) a store into such a map under a condition on the verdict: inside the if statement holding the call
			if ifs, ok := holder.(*ast.IfStmt); ok {
				ast.Inspect(ifs.Body, func(z ast.Node) bool {
					if as, ok := z.(*ast.AssignStmt); ok {
						for _, l := range as.Lhs {
							if v := mapField(l); v != nil {
								bad = "the verdict is recorded in " + types.ExprString(l) + " (" + ic.pos(as.Pos()) + ")"
							}
						}
					}
					return true
				})
			}
			r.Check(bad == "", "R17.15", fmt.Sprintf("%s/%s#%d/verdict-not-remembered", name, calleeOf(info, ev).Name(), k+1), ic.pos(ev.Pos()), "the constraints are evaluated each time the file is met",
				name+" remembers the verdict of the build constraints per file name: "+bad+". A yaegi:tags comment evaluated in between (or Options.BuildTags of a later import) changes the verdict of the constraint line, but the file stays excluded")
		}
	}
	if n < 2 {
		r.Errorf("R17.15: only %d calls of the constraint evaluator from outside it found (parse and importSrc expected)", n)
	}
}
