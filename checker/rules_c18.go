package main

import (
	"fmt"
	"go/ast"
	"go/constant"
	"go/importer"
	"go/parser"
	"go/token"
	"go/types"
	"regexp"
	"sort"
	"strconv"
	"strings"
	"text/template/parse"

	"golang.org/x/tools/go/packages"
)

func init() {
	register("C18", &propMeta{
		Level: "other",
		Explanation: "Structure of the extract generator only (whether the emitted text compiles and binds faithfully is a property of strings produced at run time; what the committed outputs say is decided by C14): " +
			"R18.1 the classification of scope objects in genContent covers *types.Const, *types.Func, *types.Var and *types.TypeName, each storing under the scope name; R18.2 the guards exist and are placed per object kind (Exported on objects and methods, TypeParams on signatures and named types inside their own cases, Addr only for variables; no skip based on the object's type before the classification); " +
			"R18.3 the embedded template forwards: IValue first, one W-field and one forwarding method per interface method using the same Param/Result/Arg data, values bound by address exactly under .Addr; R18.4 the restricted names exist in package stdlib; " +
			"R18.5 constants are printed from their exact representation and the import qualifier marks every foreign package. This is the weakest claim of the set.",
		Assumptions: []string{"text/template/parse of the installed toolchain; the textual output of the generator is not examined"},
		Run:         runC18,
	})
	ruleText["R18.1"] = "the type switch over scope objects in genContent has cases for *types.Const, *types.Func, *types.Var, *types.TypeName, and each case stores into the value or type map under the scope-name loop variable"
	ruleText["R18.2"] = "Exported() is tested on scope objects and on interface methods; TypeParams() guards a skip inside the *types.Func and *types.TypeName cases only; Val{..., true} (bind by address) is built only in the *types.Var case; before the type switch no skip depends on the object's type"
	ruleText["R18.3"] = "the model template declares IValue first, a field W{{$m.Name}} func{{$m.Param}} {{$m.Result}} and a method {{$m.Name}}{{$m.Param}} {{$m.Result}} whose body is {{$m.Ret}} W.W{{$m.Name}}{{$m.Arg}} for each method; value entries are keyed by the map key and use &...Elem() exactly under .Addr"
	ruleText["R18.4"] = "every key of extract.restricted names a declaration of package stdlib"
	ruleText["R18.6"] = "in the loop of genContent that builds a wrapper method's argument list, the assignment appending \"...\" to the last argument is guarded by Variadic() and no other write of that element is reachable after it within the iteration"
	ruleText["R18.5"] = "fixConst prints String and Int constants with ExactString(); the qualifier passed to types.TypeString marks as imported every package whose path differs from the extracted one, with no other condition"
}

func runC18(c *Config, r *Report) {
	prog, err := c.load(loadOpts{patterns: []string{"./extract"}})
	if err != nil {
		r.Errorf("%v", err)
		return
	}
	pk := prog.Pkgs[0]
	info := pk.TypesInfo
	fs := funcs(pk)
	gc := fs["Extractor.genContent"]
	if gc == nil || gc.Decl.Body == nil {
		r.Errorf("anchor not resolved: (*Extractor).genContent")
		return
	}
	pos := func(p token.Pos) string { return prog.pos(p) }
	c18R7(prog, pk, r)
	c18R8(prog, pk, r)
	c18R9(prog, pk, r)
	c18R10and11(prog, pk, r)
	c18R12(prog, pk, r)
	// the loop over scope names and the type switch over the object
	var ts *ast.TypeSwitchStmt
	var loop *ast.RangeStmt
	ast.Inspect(gc.Decl.Body, func(n ast.Node) bool {
		if rs, ok := n.(*ast.RangeStmt); ok && loop == nil {
			if call, ok := unparen(rs.X).(*ast.CallExpr); ok {
				if f, ok := calleeOf(info, call).(*types.Func); ok && objKey(f) == "go/types.Scope.Names" {
					loop = rs
				}
			}
		}
		if t, ok := n.(*ast.TypeSwitchStmt); ok && ts == nil && loop != nil && t.Pos() > loop.Pos() && t.End() <= loop.End() {
			ts = t
		}
		return true
	})
	if loop == nil || ts == nil {
		r.Errorf("anchor not resolved: loop over Scope.Names() with a type switch over the object in genContent")
		return
	}
	nameVar := info.ObjectOf(loop.Value.(*ast.Ident))
	cases := map[string]*ast.CaseClause{}
	for _, st := range ts.Body.List {
		cc := st.(*ast.CaseClause)
		for _, l := range cc.List {
			cases[types.TypeString(info.TypeOf(l), nil)] = cc
		}
	}
	for _, want := range []string{"*go/types.Const", "*go/types.Func", "*go/types.Var", "*go/types.TypeName"} {
		cc := cases[want]
		key := "genContent/case:" + strings.TrimPrefix(want, "*go/types.")
		if cc == nil {
			r.Fail("R18.1", key, pos(ts.Pos()), "genContent has no case for "+want+": exported objects of that kind are never bound")
			continue
		}
		stores := false
		for _, s := range cc.Body {
			ast.Inspect(s, func(n ast.Node) bool {
				if as, ok := n.(*ast.AssignStmt); ok {
					for _, l := range as.Lhs {
						if ix, ok := unparen(l).(*ast.IndexExpr); ok {
							if id, ok := unparen(ix.Index).(*ast.Ident); ok && info.ObjectOf(id) == nameVar {
								stores = true
							}
						}
					}
				}
				return true
			})
		}
		r.Check(stores, "R18.1", key, pos(cc.Pos()), "stored under its own scope name", "the case "+want+" of genContent never stores into a map under the scope name: objects of that kind are dropped or bound under another name")
	}
	// R18.2
	exportedCalls := 0
	ast.Inspect(gc.Decl.Body, func(n ast.Node) bool {
		if call, ok := n.(*ast.CallExpr); ok {
			if f, ok := calleeOf(info, call).(*types.Func); ok && f.Name() == "Exported" && f.Pkg() != nil && f.Pkg().Path() == "go/types" {
				exportedCalls++
			}
		}
		return true
	})
	r.Check(exportedCalls >= 2, "R18.2", "genContent/exported-guards", pos(gc.Decl.Pos()), fmt.Sprintf("%d Exported() tests (scope objects and interface methods)", exportedCalls),
		fmt.Sprintf("genContent tests Exported() %d time(s); both scope objects and interface methods must be filtered: unexported names would be emitted and the wrapper would not compile", exportedCalls))
	tpIn := func(cc *ast.CaseClause) bool {
		found := false
		if cc == nil {
			return false
		}
		for _, s := range cc.Body {
			ast.Inspect(s, func(n ast.Node) bool {
				if ifs, ok := n.(*ast.IfStmt); ok {
					hasTP := false
					for _, part := range []ast.Node{ifs.Init, ifs.Cond} {
						if part == nil {
							continue
						}
						ast.Inspect(part, func(m ast.Node) bool {
							if call, ok := m.(*ast.CallExpr); ok {
								if f, ok := calleeOf(info, call).(*types.Func); ok && (f.Name() == "TypeParams" || f.Name() == "RecvTypeParams") {
									hasTP = true
								}
							}
							return true
						})
					}
					skips := false
					ast.Inspect(ifs.Body, func(m ast.Node) bool {
						if b, ok := m.(*ast.BranchStmt); ok && b.Tok == token.CONTINUE {
							skips = true
						}
						return true
					})
					if hasTP && skips {
						found = true
					}
				}
				return true
			})
		}
		return found
	}
	r.Check(tpIn(cases["*go/types.Func"]), "R18.2", "genContent/generic-func-skipped", pos(ts.Pos()), "generic functions are skipped in the Func case", "the *types.Func case does not skip functions with type parameters: a generic function would be bound by value, which does not compile")
	r.Check(tpIn(cases["*go/types.TypeName"]), "R18.2", "genContent/generic-type-skipped", pos(ts.Pos()), "generic types are skipped in the TypeName case", "the *types.TypeName case does not skip generic types")
	// Addr only for vars
	badAddr := ""
	for tname, cc := range cases {
		for _, s := range cc.Body {
			ast.Inspect(s, func(n ast.Node) bool {
				cl, ok := n.(*ast.CompositeLit)
				if !ok || !isNamed(info.TypeOf(cl), "Val") || len(cl.Elts) != 2 {
					return true
				}
				v := cl.Elts[1]
				if kv, ok := v.(*ast.KeyValueExpr); ok {
					v = kv.Value
				}
				tv, ok := info.Types[v]
				if !ok || tv.Value == nil {
					badAddr = "non-constant Addr in case " + tname
					return true
				}
				isTrue := constant.BoolVal(tv.Value)
				if isTrue != (tname == "*go/types.Var") {
					badAddr = fmt.Sprintf("case %s builds Val{..., %v}", tname, isTrue)
				}
				return true
			})
		}
	}
	r.Check(badAddr == "", "R18.2", "genContent/addr-only-for-vars", pos(ts.Pos()), "variables are bound by address, everything else by value", "genContent: "+badAddr+": a variable bound by value is a copy taken at init time; a function or constant bound by address does not compile")
	// no skip depending on the object's type before the classification
	early := ""
	for _, st := range loop.Body.List {
		if st.Pos() >= ts.Pos() {
			break
		}
		ifs, ok := st.(*ast.IfStmt)
		if !ok {
			continue
		}
		skips := false
		ast.Inspect(ifs.Body, func(m ast.Node) bool {
			if b, ok := m.(*ast.BranchStmt); ok && b.Tok == token.CONTINUE {
				skips = true
			}
			return true
		})
		if !skips {
			continue
		}
		for _, part := range []ast.Node{ifs.Init, ifs.Cond} {
			if part == nil {
				continue
			}
			ast.Inspect(part, func(m ast.Node) bool {
				if call, ok := m.(*ast.CallExpr); ok {
					if f, ok := calleeOf(info, call).(*types.Func); ok && f.Pkg() != nil && f.Pkg().Path() == "go/types" && (f.Name() == "Type" || f.Name() == "TypeParams" || f.Name() == "Underlying") {
						early = "the skip at " + pos(ifs.Pos()) + " depends on " + f.Name() + "() of the object"
					}
				}
				return true
			})
		}
	}
	r.Check(early == "", "R18.2", "genContent/no-type-based-skip-before-classification", pos(loop.Pos()), "objects are skipped before the classification only by name (exported, include/exclude lists)",
		"genContent: "+early+", before the object kinds are distinguished: variables (or constants) whose type merely mentions type parameters or another property of the type are silently left out of the bindings")

	// every exported interface that stays bound gets its wrapper: inside the block handling a
	// type whose underlying type is an interface, a `continue` outside the method loop is
	// accompanied by the removal of the type's binding (the constraint-interface skip does
	// delete(typ, name)); a skip that keeps the binding emits a type without its _X wrapper
	{
		nIface, nSkip := 0, 0
		ast.Inspect(gc.Decl.Body, func(m ast.Node) bool {
			ifs, ok := m.(*ast.IfStmt)
			if !ok || ifs.Init == nil {
				return true
			}
			isIface := false
			ast.Inspect(ifs.Init, func(k ast.Node) bool {
				if ta, ok := k.(*ast.TypeAssertExpr); ok && ta.Type != nil && types.ExprString(ta.Type) == "*types.Interface" {
					isIface = true
				}
				return true
			})
			if !isIface {
				return true
			}
			nIface++
			var visit func(stmts []ast.Stmt)
			visit = func(stmts []ast.Stmt) {
				for _, st := range stmts {
					switch x := st.(type) {
					case *ast.ForStmt, *ast.RangeStmt:
						// the loops over methods and parameters have their own continues
					case *ast.IfStmt:
						deletes, continues := false, false
						for _, b := range x.Body.List {
							if es, ok := b.(*ast.ExprStmt); ok {
								if c, ok := es.X.(*ast.CallExpr); ok && isBuiltinCall(info, c, "delete") {
									deletes = true
								}
							}
							if br, ok := b.(*ast.BranchStmt); ok && br.Tok == token.CONTINUE {
								continues = true
							}
						}
						if continues {
							nSkip++
							r.Check(deletes, "R18.2", fmt.Sprintf("genContent/interface-skip#%d/binding-removed-too", nSkip), pos(x.Pos()), "an interface type that gets no wrapper is not bound either",
								"genContent skips the wrapper of an interface type under "+types.ExprString(x.Cond)+" but keeps the type bound: the generated file compiles, yet an exported interface has no _X wrapper type, so interpreted values can no longer be passed where compiled code expects that interface")
						}
					case *ast.BlockStmt:
						visit(x.List)
					}
				}
			}
			visit(ifs.Body.List)
			return false
		})
		if nIface == 0 {
			r.Errorf("R18.2: the block of genContent handling types whose underlying type is an interface was not found")
		}
	}

	c18Template(prog, pk, r)
	// R18.4
	restricted, err := restrictedNames(progCfg(prog))
	if err == nil {
		sp, err := prog.Cfg.load(loadOpts{patterns: []string{"./stdlib"}})
		if err != nil {
			r.Errorf("%v", err)
		} else {
			for _, rn := range sortedKeys(restricted) {
				o := sp.Pkgs[0].Types.Scope().Lookup(rn)
				r.Check(o != nil, "R18.4", "restricted/"+rn, "", "declared in package stdlib", "extract.restricted lists "+rn+" but package stdlib does not declare it: the generated table would not compile")
			}
		}
	} else {
		r.Errorf("%v", err)
	}
	c18R5(prog, pk, fs, r)
	c18R6(prog, fs, r)
}

func progCfg(p *Prog) *Config { return p.Cfg }

// renderTemplate flattens a template parse tree into text where actions are kept as {{...}}.
func renderNodes(n parse.Node, sb *strings.Builder) {
	switch x := n.(type) {
	case *parse.ListNode:
		if x == nil {
			return
		}
		for _, c := range x.Nodes {
			renderNodes(c, sb)
		}
	case *parse.TextNode:
		sb.Write(x.Text)
	case *parse.ActionNode:
		sb.WriteString("{{" + x.Pipe.String() + "}}")
	case *parse.IfNode:
		sb.WriteString("{{if " + x.Pipe.String() + "}}")
		renderNodes(x.List, sb)
		if x.ElseList != nil {
			sb.WriteString("{{else}}")
			renderNodes(x.ElseList, sb)
		}
		sb.WriteString("{{end}}")
	case *parse.RangeNode:
		sb.WriteString("{{range " + x.Pipe.String() + "}}")
		renderNodes(x.List, sb)
		sb.WriteString("{{end}}")
	case *parse.WithNode:
		renderNodes(x.List, sb)
	}
}

func c18Template(prog *Prog, pk interface{}, r *Report) {
	p := prog.Pkgs[0]
	var model string
	var mpos token.Pos
	if c, ok := p.Types.Scope().Lookup("model").(*types.Const); ok && c.Val().Kind() == constant.String {
		model = constant.StringVal(c.Val())
		mpos = c.Pos()
	}
	if model == "" {
		r.Errorf("anchor not resolved: template constant 'model' in package extract")
		return
	}
	pt := parse.New("model")
	pt.Mode = parse.SkipFuncCheck
	trees := map[string]*parse.Tree{}
	_, err := pt.Parse(model, "{{", "}}", trees)
	if err != nil {
		r.Fail("R18.3", "model/parses", prog.pos(mpos), "the model template does not parse: "+err.Error())
		return
	}
	var sb strings.Builder
	renderNodes(trees["model"].Root, &sb)
	flat := regexp.MustCompile(`\s+`).ReplaceAllString(sb.String(), " ")
	checks := []struct{ key, re, why string }{
		{"value-by-address", `\{\{if \$value\.Addr\}\} ?"\{\{\$key\}\}": reflect\.ValueOf\(&\{\{\$value\.Name\}\}\)\.Elem\(\), ?\{\{else\}\} ?"\{\{\$key\}\}": reflect\.ValueOf\(\{\{\$value\.Name\}\}\),`, "values are keyed by their own name and bound by address exactly under .Addr"},
		{"type-entry", `"\{\{\$key\}\}": reflect\.ValueOf\(\(\*\{\{\$value\}\}\)\(nil\)\),`, "types are keyed by their own name and bound as (*T)(nil)"},
		{"wrapper-entry", `"_\{\{\$key\}\}": reflect\.ValueOf\(\(\*\{\{\$value\.Name\}\}\)\(nil\)\),`, "wrappers are keyed by _Name"},
		{"wrapper-struct", `type \{\{\$value\.Name\}\} struct \{ IValue interface\{\} \{\{range \$m := \$value\.Method\}\}W\{\{\$m\.Name\}\} func\{\{\$m\.Param\}\} \{\{\$m\.Result\}\} \{\{end\}\} ?\}`, "the wrapper struct has IValue first and one W<Method> field per method with the method's parameter and result lists"},
		{"wrapper-method", `func \(W \{\{\$value\.Name\}\}\) \{\{\$m\.Name\}\}\{\{\$m\.Param\}\} \{\{\$m\.Result\}\} \{.*\{\{\$m\.Ret\}\} W\.W\{\{\$m\.Name\}\}\{\{\$m\.Arg\}\} ?\}`, "each method forwards to the field of the same name with the same parameter/result lists"},
		{"table-key", `Symbols\["\{\{\.PkgName\}\}"\] = map\[string\]reflect\.Value\{`, "the table is stored under the package key"},
	}
	for _, ck := range checks {
		ok := regexp.MustCompile(ck.re).MatchString(flat)
		r.Check(ok, "R18.3", "model/"+ck.key, prog.pos(mpos), ck.why, "the model template no longer has the shape: "+ck.why+" (pattern "+ck.re+" not found in the parsed template)")
	}
}

// c18R6: the forwarded argument of a variadic interface method keeps its "..." suffix: in
// the loop building the wrapper's argument list, the statement appending "..." is guarded by
// Variadic() and no later write of the same element is reachable within the iteration.
func c18R6(prog *Prog, fs map[string]*FuncInfo, r *Report) {
	info := prog.Pkgs[0].TypesInfo
	gc := fs["Extractor.genContent"]
	n := 0
	var walk func(body *ast.BlockStmt)
	elemOf := func(e ast.Expr) types.Object {
		if ix, ok := unparen(e).(*ast.IndexExpr); ok {
			if id, ok := unparen(ix.X).(*ast.Ident); ok {
				return info.ObjectOf(id)
			}
		}
		return nil
	}
	walk = func(body *ast.BlockStmt) {
		ast.Inspect(body, func(m ast.Node) bool {
			var lb *ast.BlockStmt
			switch x := m.(type) {
			case *ast.ForStmt:
				lb = x.Body
			case *ast.RangeStmt:
				lb = x.Body
			}
			if lb == nil {
				return true
			}
			// "..." appends directly in this loop body (not in nested loops)
			var marks []*ast.AssignStmt
			ast.Inspect(lb, func(k ast.Node) bool {
				switch y := k.(type) {
				case *ast.ForStmt, *ast.RangeStmt, *ast.FuncLit:
					return k == ast.Node(lb)
				case *ast.AssignStmt:
					if y.Tok == token.ADD_ASSIGN && len(y.Rhs) == 1 && elemOf(y.Lhs[0]) != nil {
						if tv, ok := info.Types[y.Rhs[0]]; ok && tv.Value != nil && tv.Value.ExactString() == `"..."` {
							marks = append(marks, y)
						}
					}
					// args[j] = name + "..."
					if y.Tok == token.ASSIGN && len(y.Lhs) == 1 && len(y.Rhs) == 1 && elemOf(y.Lhs[0]) != nil {
						if be, ok := unparen(y.Rhs[0]).(*ast.BinaryExpr); ok && be.Op == token.ADD {
							if tv, ok := info.Types[be.Y]; ok && tv.Value != nil && tv.Value.ExactString() == `"..."` {
								marks = append(marks, y)
							}
						}
					}
				}
				return true
			})
			for _, mk := range marks {
				n++
				slice := elemOf(mk.Lhs[0])
				guarded := false
				for _, p := range enclosingPath(lb, mk) {
					if ifs, ok := p.(*ast.IfStmt); ok {
						ast.Inspect(ifs.Cond, func(k ast.Node) bool {
							if c, ok := k.(*ast.CallExpr); ok && isCallTo(info, c, "go/types.Signature.Variadic") {
								guarded = true
							}
							return true
						})
					}
				}
				r.Check(guarded, "R18.6", fmt.Sprintf("genContent/variadic-mark#%d/guard", n), prog.pos(mk.Pos()), "the ... suffix is appended under Variadic()",
					"the \"...\" suffix is appended to a forwarded argument without a Variadic() test")
				fg := buildFlow(lb, info)
				var later []string
				for _, nd := range fg.regionFrom(mk, func(ast.Node) bool { return false }) {
					ownNodes(nd, func(k ast.Node) bool {
						if as, ok := k.(*ast.AssignStmt); ok && as != mk {
							for _, l := range as.Lhs {
								if elemOf(l) == slice {
									later = append(later, prog.pos(as.Pos()))
								}
							}
						}
						return true
					})
				}
				r.Check(len(later) == 0, "R18.6", fmt.Sprintf("genContent/variadic-mark#%d/last-write", n), prog.pos(mk.Pos()), "the ... suffix is the last write of the forwarded argument in the iteration",
					"after \"...\" is appended to the forwarded variadic argument the same element of "+slice.Name()+" is written again at "+strings.Join(later, ", ")+": the wrapper forwards the variadic slice as one argument (or does not compile)")
			}
			return true
		})
	}
	walk(gc.Decl.Body)
	if n == 0 {
		r.Errorf("R18.6: no statement appending \"...\" to a forwarded argument found in genContent")
	}
}

func c18R5(prog *Prog, pk interface{}, fs map[string]*FuncInfo, r *Report) {
	p := prog.Pkgs[0]
	info := p.TypesInfo
	fc := fs["fixConst"]
	if fc == nil || fc.Decl.Body == nil {
		r.Errorf("anchor not resolved: fixConst")
		return
	}
	// switch val.Kind(): String and Int cases assign from ExactString()
	found := 0
	ast.Inspect(fc.Decl.Body, func(n ast.Node) bool {
		cc, ok := n.(*ast.CaseClause)
		if !ok {
			return true
		}
		for _, l := range cc.List {
			c, ok := qualifiedObj(info, l).(*types.Const)
			if ok && c.Pkg() != nil && c.Pkg().Path() == "go/constant" && c.Name() == "Float" {
				// the printed literal is compared with the exact value (and replaced when it differs)
				verified := false
				for _, s := range cc.Body {
					ast.Inspect(s, func(m ast.Node) bool {
						if call, ok := m.(*ast.CallExpr); ok && isCallTo(info, call, "go/constant.Compare") {
							verified = true
						}
						return true
					})
				}
				// the binary form is printed with at least as many digits as the mantissa has bits
				// (int(f.Prec())), or with the shortest round-tripping form (-1): a smaller, computed
				// number of digits can be one short for 512-bit constants, and the comparison above
				// only repairs values held as exact rationals
				for _, s := range cc.Body {
					ast.Inspect(s, func(m ast.Node) bool {
						call, ok := m.(*ast.CallExpr)
						if !ok || !isCallTo(info, call, "math/big.Float.Text") || len(call.Args) != 2 {
							return true
						}
						okPrec := false
						arg := unparen(call.Args[1])
						// a local defined once from the accepted forms
						if id, isID := arg.(*ast.Ident); isID {
							var defs []ast.Expr
							ast.Inspect(fc.Decl.Body, func(k ast.Node) bool {
								if as, ok := k.(*ast.AssignStmt); ok && len(as.Lhs) == len(as.Rhs) {
									for i, l := range as.Lhs {
										if lid, ok := l.(*ast.Ident); ok && info.ObjectOf(lid) == info.ObjectOf(id) {
											defs = append(defs, as.Rhs[i])
										}
									}
								}
								return true
							})
							if len(defs) == 1 {
								arg = unparen(defs[0])
							}
						}
						if tv, ok := info.Types[arg]; ok && tv.Value != nil && tv.Value.ExactString() == "-1" {
							okPrec = true
						}
						if conv, ok := arg.(*ast.CallExpr); ok && len(conv.Args) == 1 {
							if inner, ok := unparen(conv.Args[0]).(*ast.CallExpr); ok && isCallTo(info, inner, "math/big.Float.Prec") {
								if tv, ok := info.Types[conv.Fun]; ok && tv.IsType() {
									okPrec = true
								}
							}
						}
						r.Check(okPrec, "R18.5", "fixConst/Float/digits", prog.pos(call.Pos()), "printed with int(f.Prec()) digits (or the shortest exact form)",
							"fixConst prints the binary form of a Float constant with "+types.ExprString(call.Args[1])+" digits, neither the mantissa size int(f.Prec()) nor -1: a computed number of decimal digits can be one short for wide mantissas (constants beyond 2^±4096 are held as 512-bit floats), and the literal then reads back one ulp off while the rational fallback does not apply")
						return true
					})
				}
				r.Check(verified, "R18.5", "fixConst/Float", prog.pos(cc.Pos()), "the printed float literal is checked against the exact value",
					"fixConst prints Float constants from a binary rounding without comparing the result with the exact value: constants such as math.Pi are emitted with digits the source does not have (the bound constant differs from the library's)")
			}
			if !ok || c.Pkg() == nil || c.Pkg().Path() != "go/constant" || (c.Name() != "String" && c.Name() != "Int") {
				continue
			}
			found++
			exact := false
			other := ""
			quoted := map[*ast.CallExpr]bool{}
			for _, s := range cc.Body {
				ast.Inspect(s, func(m ast.Node) bool {
					if call, ok := m.(*ast.CallExpr); ok && isCallTo(info, call, "strconv.Quote") && len(call.Args) == 1 {
						if in, ok := unparen(call.Args[0]).(*ast.CallExpr); ok {
							quoted[in] = true
						}
					}
					return true
				})
			}
			for _, s := range cc.Body {
				ast.Inspect(s, func(m ast.Node) bool {
					if call, ok := m.(*ast.CallExpr); ok {
						if f, ok := calleeOf(info, call).(*types.Func); ok && f.Pkg() != nil && f.Pkg().Path() == "go/constant" {
							// (constant.Value).String is exact for Int values (full decimal) and
							// truncating for String values; StringVal is exact when re-quoted.
							switch f.Name() {
							case "ExactString":
								exact = true
							case "String":
								if c.Name() == "Int" {
									exact = true
								} else {
									other = f.Name()
								}
							case "StringVal":
								if c.Name() == "String" && quoted[call] {
									exact = true
								} else {
									other = f.Name()
								}
							case "Int64Val", "Uint64Val", "Float64Val":
								other = f.Name()
							}
						}
					}
					return true
				})
			}
			r.Check(exact && other == "", "R18.5", "fixConst/"+c.Name(), prog.pos(cc.Pos()), "printed exactly",
				"fixConst prints "+c.Name()+" constants through "+map[bool]string{true: other, false: "something other than ExactString"}[other != ""]+": long strings are truncated / large integers wrap or lose precision, so the emitted literal is not the constant's value")
		}
		return true
	})
	if found < 2 {
		r.Errorf("R18.5: String/Int cases of fixConst not found")
	}
	// qualifier: the func literal passed as third argument of types.TypeString (through a local)
	gc := fs["Extractor.genContent"]
	var qual *ast.FuncLit
	ast.Inspect(gc.Decl.Body, func(n ast.Node) bool {
		as, ok := n.(*ast.AssignStmt)
		if !ok || len(as.Lhs) != 1 || len(as.Rhs) != 1 {
			return true
		}
		if fl, ok := as.Rhs[0].(*ast.FuncLit); ok {
			if sig, ok := info.TypeOf(fl).(*types.Signature); ok && sig.Params().Len() == 1 && types.TypeString(sig.Params().At(0).Type(), nil) == "*go/types.Package" {
				qual = fl
			}
		}
		return true
	})
	if qual == nil {
		r.Errorf("anchor not resolved: qualifier closure (func(*types.Package) string) in genContent")
		return
	}
	var importsVar types.Object
	marks := false
	extraCond := ""
	ast.Inspect(qual.Body, func(n ast.Node) bool {
		as, ok := n.(*ast.AssignStmt)
		if !ok || len(as.Lhs) != 1 {
			return true
		}
		ix, ok := unparen(as.Lhs[0]).(*ast.IndexExpr)
		if !ok {
			return true
		}
		if id, ok := unparen(as.Rhs[0]).(*ast.Ident); !ok || id.Name != "true" {
			return true
		}
		marks = true
		if id, ok := unparen(ix.X).(*ast.Ident); ok {
			importsVar = info.ObjectOf(id)
		}
		// guards
		path := enclosingPath(qual.Body, as)
		for i, pn := range path {
			ifs, ok := pn.(*ast.IfStmt)
			if !ok || i+1 >= len(path) {
				continue
			}
			for _, part := range []ast.Node{ifs.Init, ifs.Cond} {
				if part == nil {
					continue
				}
				ast.Inspect(part, func(m ast.Node) bool {
					if id, ok := m.(*ast.Ident); ok && importsVar != nil && info.ObjectOf(id) == importsVar {
						extraCond = "the mark is conditional on the content of the imports map (" + types.ExprString(ifs.Cond) + ")"
					}
					return true
				})
			}
		}
		return true
	})
	r.Check(marks && extraCond == "", "R18.5", "genContent/qualifier-marks-imports", prog.pos(qual.Pos()), "every foreign package named in a signature is marked as imported",
		"the qualifier used to print method signatures "+map[bool]string{true: extraCond, false: "never marks a package as imported"}[marks]+": a package that only appears in the signature of a promoted interface method is not imported by the generated file, which does not compile")
}

func init() {
	ruleText["R18.7"] = "no method of Extractor stores into a field of its receiver or updates a map held in one: an extraction is a function of the package and the configuration, not of the packages extracted before (the import-marking qualifier must run for every type printed in every wrapper)"
	ruleText["R18.8"] = "the separator joined between build tags agrees with the constraint line of the template ('// +build' joins with ',', '//go:build' with ' && '), and the removal of a leading separator tests that same separator"
	ruleText["R18.9"] = "no mutating method of *big.Int is applied to a value obtained from (*big.Rat).Denom/Num or from a constant: those alias the constant held by the type-checked package"
}

func c18R7(prog *Prog, pk *packages.Package, r *Report) {
	info := pk.TypesInfo
	n := 0
	for name, fi := range funcs(pk) {
		if fi.Decl.Body == nil || fi.Decl.Recv == nil || len(fi.Decl.Recv.List) != 1 || len(fi.Decl.Recv.List[0].Names) != 1 || !strings.HasPrefix(name, "Extractor.") {
			continue
		}
		n++
		recv := info.ObjectOf(fi.Decl.Recv.List[0].Names[0])
		var bad []string
		rootIsRecv := func(e ast.Expr) bool {
			for {
				switch x := unparen(e).(type) {
				case *ast.SelectorExpr:
					e = x.X
				case *ast.IndexExpr:
					e = x.X
				case *ast.StarExpr:
					e = x.X
				case *ast.Ident:
					return info.ObjectOf(x) == recv
				default:
					return false
				}
			}
		}
		ast.Inspect(fi.Decl.Body, func(m ast.Node) bool {
			switch x := m.(type) {
			case *ast.AssignStmt:
				for _, l := range x.Lhs {
					if _, isIdent := unparen(l).(*ast.Ident); !isIdent && rootIsRecv(l) {
						bad = append(bad, types.ExprString(l)+" at "+prog.pos(x.Pos()))
					}
				}
			case *ast.IncDecStmt:
				if _, isIdent := unparen(x.X).(*ast.Ident); !isIdent && rootIsRecv(x.X) {
					bad = append(bad, types.ExprString(x.X)+" at "+prog.pos(x.Pos()))
				}
			case *ast.CallExpr:
				if id := identOf(x.Fun); id != nil && id.Name == "delete" && len(x.Args) > 0 && rootIsRecv(x.Args[0]) {
					bad = append(bad, "delete("+types.ExprString(x.Args[0])+") at "+prog.pos(x.Pos()))
				}
			}
			return true
		})
		sort.Strings(bad)
		r.Check(len(bad) == 0, "R18.7", name+"/keeps-no-state-in-the-extractor", prog.pos(fi.Decl.Pos()), "the receiver is read-only configuration",
			name+" stores into its receiver ("+strings.Join(bad, "; ")+"): what the wrapper of a package contains then depends on the packages extracted before with the same Extractor (a memoised type string skips the import-marking qualifier, so the second wrapper misses imports and does not compile)")
	}
	if n == 0 {
		r.Errorf("R18.7: no method of Extractor found")
	}
}

func c18R8(prog *Prog, pk *packages.Package, r *Report) {
	info := pk.TypesInfo
	// the constraint line of the template
	form := ""
	var modelPos token.Pos
	for _, f := range pk.Syntax {
		ast.Inspect(f, func(m ast.Node) bool {
			bl, ok := m.(*ast.BasicLit)
			if !ok || bl.Kind != token.STRING || !strings.Contains(bl.Value, ".BuildTags") {
				return true
			}
			modelPos = bl.Pos()
			switch {
			case strings.Contains(bl.Value, "// +build {{.BuildTags}}") || strings.Contains(bl.Value, "// +build {{ .BuildTags }}"):
				form = "+build"
			case strings.Contains(bl.Value, "//go:build {{.BuildTags}}") || strings.Contains(bl.Value, "//go:build {{ .BuildTags }}"):
				form = "go:build"
			}
			return true
		})
	}
	if form == "" {
		r.Errorf("R18.8: the constraint line of the template ({{.BuildTags}}) was not recognised")
		return
	}
	wantSep := map[string]string{"+build": ",", "go:build": " && "}[form]
	// separators: leading string literal of every expression added to a string variable that flows into "BuildTags"
	var tagVar types.Object
	for _, f := range pk.Syntax {
		ast.Inspect(f, func(m ast.Node) bool {
			kv, ok := m.(*ast.KeyValueExpr)
			if !ok {
				return true
			}
			if tv, ok := info.Types[kv.Key]; ok && tv.Value != nil && tv.Value.ExactString() == `"BuildTags"` {
				if id := identOf(kv.Value); id != nil {
					tagVar = info.ObjectOf(id)
				}
			}
			return true
		})
	}
	if tagVar == nil {
		r.Errorf("R18.8: the variable handed to the template as BuildTags was not found")
		return
	}
	var bad []string
	nsep := 0
	leading := func(e ast.Expr) (string, bool) {
		for {
			be, ok := unparen(e).(*ast.BinaryExpr)
			if !ok || be.Op != token.ADD {
				break
			}
			e = be.X
		}
		if tv, ok := info.Types[e]; ok && tv.Value != nil && tv.Value.Kind() == constant.String {
			return constant.StringVal(tv.Value), true
		}
		return "", false
	}
	trimOK, trimSeen := true, false
	for _, f := range pk.Syntax {
		ast.Inspect(f, func(m ast.Node) bool {
			switch x := m.(type) {
			case *ast.AssignStmt:
				if x.Tok == token.ADD_ASSIGN && len(x.Lhs) == 1 {
					if id := identOf(x.Lhs[0]); id != nil && info.ObjectOf(id) == tagVar {
						if s, ok := leading(x.Rhs[0]); ok {
							nsep++
							if !strings.HasPrefix(s, wantSep) || (wantSep == "," && strings.HasPrefix(s, ", ")) {
								bad = append(bad, fmt.Sprintf("%q at %s", s, prog.pos(x.Pos())))
							}
						}
					}
				}
			case *ast.BinaryExpr:
				// buildTags[0] == 'c'
				if x.Op == token.EQL || x.Op == token.NEQ {
					if ix, ok := unparen(x.X).(*ast.IndexExpr); ok {
						if id := identOf(ix.X); id != nil && info.ObjectOf(id) == tagVar {
							trimSeen = true
							if tv, ok := info.Types[x.Y]; ok && tv.Value != nil {
								if v, exact := constant.Int64Val(tv.Value); !exact || byte(v) != wantSep[0] {
									trimOK = false
								}
							}
						}
					}
				}
			case *ast.CallExpr:
				if isCallTo(info, x, "strings.TrimPrefix", "strings.HasPrefix", "strings.CutPrefix") && len(x.Args) == 2 {
					if id := identOf(x.Args[0]); id != nil && info.ObjectOf(id) == tagVar {
						trimSeen = true
						if tv, ok := info.Types[x.Args[1]]; ok && tv.Value != nil && tv.Value.Kind() == constant.String {
							if constant.StringVal(tv.Value) != wantSep {
								trimOK = false
							}
						}
					}
				}
			}
			return true
		})
	}
	// the release tags built by the helper returning the initial value
	for _, f := range pk.Syntax {
		ast.Inspect(f, func(m ast.Node) bool {
			fd, ok := m.(*ast.FuncDecl)
			if !ok || fd.Body == nil || fd.Name.Name != "genBuildTags" {
				return true
			}
			ast.Inspect(fd.Body, func(k ast.Node) bool {
				if bl, ok := k.(*ast.BasicLit); ok && bl.Kind == token.STRING {
					if s, _ := strconv.Unquote(bl.Value); strings.Contains(s, "!") {
						nsep++
						if !strings.HasPrefix(s, wantSep+"!") {
							bad = append(bad, fmt.Sprintf("%q at %s", s, prog.pos(bl.Pos())))
						}
					}
				}
				return true
			})
			return false
		})
	}
	if nsep < 3 {
		r.Errorf("R18.8: only %d tag separators found", nsep)
		return
	}
	sort.Strings(bad)
	r.Check(len(bad) == 0 && trimSeen && trimOK, "R18.8", "genContent/build-tag-separators-agree-with-the-constraint-line", prog.pos(modelPos), "tags are joined with "+strconv.Quote(wantSep)+" for a "+form+" line, and the leading separator removed",
		fmt.Sprintf("the template writes the tags on a %s line, which joins terms with %q; separators not of that form: [%s]; leading separator removed consistently: %v: the generated constraint line is malformed (a leading or foreign separator), so the wrapper of a package extracted with tags does not build or is selected on the wrong platforms", form, wantSep, strings.Join(bad, ", "), trimSeen && trimOK))
}

func c18R9(prog *Prog, pk *packages.Package, r *Report) {
	info := pk.TypesInfo
	mutating := map[string]bool{"Quo": true, "Rem": true, "Mod": true, "Div": true, "QuoRem": true, "DivMod": true, "Mul": true, "Add": true, "Sub": true, "Set": true, "SetInt64": true, "SetUint64": true, "SetString": true, "SetBit": true, "Neg": true, "Abs": true, "Exp": true, "Lsh": true, "Rsh": true, "And": true, "Or": true, "Xor": true, "Not": true, "GCD": true, "Sqrt": true}
	n := 0
	for name, fi := range funcs(pk) {
		if fi.Decl.Body == nil {
			continue
		}
		// locals aliasing a Rat's numerator/denominator
		alias := map[types.Object]string{}
		ast.Inspect(fi.Decl.Body, func(m ast.Node) bool {
			as, ok := m.(*ast.AssignStmt)
			if !ok || len(as.Lhs) != len(as.Rhs) {
				return true
			}
			for i, rhs := range as.Rhs {
				c, ok := unparen(rhs).(*ast.CallExpr)
				if !ok {
					continue
				}
				if f, ok := calleeOf(info, c).(*types.Func); ok && f.Pkg() != nil && f.Pkg().Path() == "math/big" && (f.Name() == "Denom" || f.Name() == "Num") {
					if id := identOf(as.Lhs[i]); id != nil {
						alias[info.ObjectOf(id)] = types.ExprString(rhs)
					}
				}
			}
			return true
		})
		k := 0
		ast.Inspect(fi.Decl.Body, func(m ast.Node) bool {
			c, ok := m.(*ast.CallExpr)
			if !ok {
				return true
			}
			f, ok := calleeOf(info, c).(*types.Func)
			if !ok || f.Pkg() == nil || f.Pkg().Path() != "math/big" || !mutating[f.Name()] {
				return true
			}
			sg := f.Type().(*types.Signature)
			if sg.Recv() == nil || !strings.HasSuffix(types.TypeString(sg.Recv().Type(), nil), "big.Int") {
				return true
			}
			se, ok := unparen(c.Fun).(*ast.SelectorExpr)
			if !ok {
				return true
			}
			n++
			src := ""
			if id := identOf(se.X); id != nil {
				src = alias[info.ObjectOf(id)]
			} else if rc, ok := unparen(se.X).(*ast.CallExpr); ok {
				if g, ok := calleeOf(info, rc).(*types.Func); ok && g.Pkg() != nil && g.Pkg().Path() == "math/big" && (g.Name() == "Denom" || g.Name() == "Num") {
					src = types.ExprString(se.X)
				}
			}
			if src == "" {
				return true
			}
			k++
			r.Fail("R18.9", fmt.Sprintf("%s/big.Int-of-a-constant-mutated#%d", name, k), prog.pos(c.Pos()),
				name+" applies the mutating method big.Int."+f.Name()+" to "+types.ExprString(se.X)+", which is "+src+": the result aliases the rational held by the constant of the type-checked package, so the constant itself is changed (its later uses, and the value emitted for it, are wrong)")
			return true
		})
	}
	failed := false
	for _, o := range r.Obls {
		if o.Rule == "R18.9" && !o.OK {
			failed = true
		}
	}
	if !failed {
		r.Pass("R18.9", "extract/no-big.Int-of-a-constant-mutated", "", fmt.Sprintf("%d mutating big.Int calls, none on a value returned by Rat.Denom/Num", n))
	}
}

func init() {
	ruleText["R18.10"] = "in package extract a type is spelled for the generated source only by go/types' writer with the package qualifier (types.TypeString / types.WriteType): no call of String() on a value implementing types.Type and no Name() on a *types.Basic - unsafe.Pointer is a basic type named \"Pointer\""
	ruleText["R18.11"] = "package extract keeps nothing between extractions: outside package initialisation no function assigns a package-level variable, fills a map or slice held in one, or stores into a sync.Map - the literal of a constant also records the imports the generated file needs, so a remembered literal leaves the second file without them"
}

const c18Control = `package ctl
import "go/types"
func spell(t types.Type, b *types.Basic, q types.Qualifier) []string {
	return []string{t.String(), b.Name(), types.TypeString(t, q), b.String()}
}
`

// c18TypeSpellings lists the calls that spell a type without the qualifier.
func c18TypeSpellings(info *types.Info, root ast.Node) []*ast.CallExpr {
	var out []*ast.CallExpr
	var typeIface *types.Interface
	ast.Inspect(root, func(n ast.Node) bool {
		c, ok := n.(*ast.CallExpr)
		if !ok {
			return true
		}
		se, ok := unparen(c.Fun).(*ast.SelectorExpr)
		if !ok || (se.Sel.Name != "String" && se.Sel.Name != "Name") {
			return true
		}
		f, ok := info.Uses[se.Sel].(*types.Func)
		if !ok {
			return true
		}
		rt := info.TypeOf(se.X)
		if rt == nil {
			return true
		}
		// go/types.Type, found through the method's package
		if typeIface == nil && f.Pkg() != nil && f.Pkg().Path() == "go/types" {
			if tn, ok := f.Pkg().Scope().Lookup("Type").(*types.TypeName); ok {
				typeIface, _ = tn.Type().Underlying().(*types.Interface)
			}
		}
		if typeIface == nil || f.Pkg() == nil || f.Pkg().Path() != "go/types" {
			return true
		}
		if !types.Implements(rt, typeIface) {
			return true
		}
		if se.Sel.Name == "Name" {
			// Name() of a type: only *types.Basic has one among the implementations of Type
			if p, ok := rt.(*types.Pointer); !ok || !isNamed(p.Elem(), "Basic") {
				return true
			}
		}
		out = append(out, c)
		return true
	})
	return out
}

func c18R10and11(prog *Prog, pk *packages.Package, r *Report) {
	info := pk.TypesInfo
	// positive control
	{
		fset := token.NewFileSet()
		f, err := parser.ParseFile(fset, "control.go", c18Control, 0)
		if err != nil {
			r.Errorf("R18.10 positive control does not parse: %v", err)
			return
		}
		ci := &types.Info{Types: map[ast.Expr]types.TypeAndValue{}, Defs: map[*ast.Ident]types.Object{}, Uses: map[*ast.Ident]types.Object{}, Selections: map[*ast.SelectorExpr]*types.Selection{}}
		if _, err := (&types.Config{Importer: importer.Default()}).Check("ctl", fset, []*ast.File{f}, ci); err != nil {
			r.Errorf("R18.10 positive control does not type-check: %v", err)
			return
		}
		if n := len(c18TypeSpellings(ci, f)); n != 3 {
			r.Errorf("R18.10 positive control: matcher found %d unqualified spellings in the control snippet, want 3", n)
			return
		}
		r.Note("R18.10 positive control: the matcher fires on the 3 unqualified spellings of the control snippet and not on types.TypeString")
	}
	nQual := 0
	var bad []string
	for _, file := range pk.Syntax {
		for _, c := range c18TypeSpellings(info, file) {
			bad = append(bad, types.ExprString(c)+" at "+prog.pos(c.Pos()))
		}
		ast.Inspect(file, func(n ast.Node) bool {
			if c, ok := n.(*ast.CallExpr); ok && isCallTo(info, c, "go/types.TypeString", "go/types.WriteType") {
				last := c.Args[len(c.Args)-1]
				if id := identOf(last); id == nil || id.Name != "nil" {
					nQual++
				} else {
					bad = append(bad, types.ExprString(c)+" at "+prog.pos(c.Pos())+" (nil qualifier)")
				}
			}
			return true
		})
	}
	if nQual < 2 {
		r.Errorf("R18.10: only %d qualified type spellings (types.TypeString with a qualifier) found in package extract", nQual)
		return
	}
	r.Check(len(bad) == 0, "R18.10", "extract/types-spelled-by-the-qualified-writer", "", fmt.Sprintf("%d spellings through types.TypeString with the package qualifier, none otherwise", nQual),
		"package extract spells a type without go/types' qualified writer: "+strings.Join(bad, "; ")+". The name of a basic type is not always its spelling (unsafe.Pointer is the basic type \"Pointer\") and String() qualifies by full import path: the generated wrapper does not compile")
	// R18.11
	var writes []string
	scope := pk.Types.Scope()
	nFn := 0
	for _, file := range pk.Syntax {
		for _, d := range file.Decls {
			fd, ok := d.(*ast.FuncDecl)
			if !ok || fd.Body == nil || (fd.Recv == nil && fd.Name.Name == "init") {
				continue
			}
			nFn++
			isPkgVar := func(e ast.Expr) bool {
				root := rootIdent(e)
				if root == nil {
					return false
				}
				v, ok := info.ObjectOf(root).(*types.Var)
				return ok && v.Parent() == scope
			}
			ast.Inspect(fd.Body, func(n ast.Node) bool {
				switch y := n.(type) {
				case *ast.AssignStmt:
					for _, l := range y.Lhs {
						if isPkgVar(l) {
							writes = append(writes, types.ExprString(l)+" assigned in "+funcName(fd)+" at "+prog.pos(y.Pos()))
						}
					}
				case *ast.IncDecStmt:
					if isPkgVar(y.X) {
						writes = append(writes, types.ExprString(y.X)+" modified in "+funcName(fd)+" at "+prog.pos(y.Pos()))
					}
				case *ast.CallExpr:
					if o := calleeOf(info, y); o != nil && o.Pkg() != nil && o.Pkg().Path() == "sync" {
						switch o.Name() {
						case "Store", "LoadOrStore", "Swap", "CompareAndSwap":
							writes = append(writes, types.ExprString(y.Fun)+" in "+funcName(fd)+" at "+prog.pos(y.Pos()))
						}
					}
				}
				return true
			})
		}
	}
	if nFn < 5 {
		r.Errorf("R18.11: only %d functions found in package extract", nFn)
		return
	}
	r.Check(len(writes) == 0, "R18.11", "extract/no-state-between-extractions", "", fmt.Sprintf("%d functions, none writes package-level state", nFn),
		"package extract keeps state between extractions: "+strings.Join(writes, "; ")+". What is remembered for one package is replayed for the next without its side effects (the imports a literal needs, the qualifier of the package being generated): the second generated file does not compile or binds another package's value")
}

func init() {
	ruleText["R18.12"] = "an import of the generated file is registered exactly where the text that needs it is produced: in package extract every statement registering a literal import path (m[\"go/constant\"] = true) is followed, in its own block and before any other return, by a return whose expression contains a string literal mentioning that package (constant.) - an import registered on a path that does not produce such text is an unused import, and the generated wrapper does not compile. The converse (text using a package whose import is not registered) is not decided: the registration may legitimately be made by a caller"
}

// c18R12: round-8 seed. The registration of go/constant and go/token moved from fixConst to its
// caller, for every untyped constant: a package whose untyped constants are all printed by name
// (booleans, complex) got two unused imports.
func c18R12(prog *Prog, pk *packages.Package, r *Report) {
	info := pk.TypesInfo
	type reg struct {
		path, base string
		stmt       *ast.AssignStmt
		fn         *ast.FuncDecl
	}
	var regs []reg
	bases := map[string]string{}
	for _, file := range pk.Syntax {
		for _, d := range file.Decls {
			fd, ok := d.(*ast.FuncDecl)
			if !ok || fd.Body == nil {
				continue
			}
			ast.Inspect(fd.Body, func(q ast.Node) bool {
				as, ok := q.(*ast.AssignStmt)
				if !ok || len(as.Lhs) != 1 || len(as.Rhs) != 1 {
					return true
				}
				ix, ok := unparen(as.Lhs[0]).(*ast.IndexExpr)
				if !ok {
					return true
				}
				if m, ok := info.TypeOf(ix.X).Underlying().(*types.Map); !ok || types.TypeString(m.Elem(), nil) != "bool" {
					return true
				}
				lit, ok := unparen(ix.Index).(*ast.BasicLit)
				if !ok || lit.Kind != token.STRING {
					return true
				}
				if id := identOf(as.Rhs[0]); id == nil || id.Name != "true" {
					return true
				}
				p := strings.Trim(lit.Value, "\"`")
				b := p[strings.LastIndex(p, "/")+1:]
				regs = append(regs, reg{p, b, as, fd})
				bases[b] = p
				return true
			})
		}
	}
	mentions := func(e ast.Node, base string) bool {
		found := false
		ast.Inspect(e, func(z ast.Node) bool {
			if l, ok := z.(*ast.BasicLit); ok && l.Kind == token.STRING && strings.Contains(l.Value, base+".") {
				found = true
			}
			return true
		})
		return found
	}
	// (i)
	for i, g := range regs {
		path := enclosingPath(g.fn.Body, g.stmt)
		var blk *ast.BlockStmt
		for j := len(path) - 1; j >= 0; j-- {
			if b, ok := path[j].(*ast.BlockStmt); ok {
				blk = b
				break
			}
		}
		ok := false
		if blk != nil {
			after := false
			for _, s := range blk.List {
				if s == ast.Stmt(g.stmt) {
					after = true
					continue
				}
				if !after {
					continue
				}
				if rs, isRet := s.(*ast.ReturnStmt); isRet {
					ok = mentions(rs, g.base)
					break
				}
			}
		}
		r.Check(ok, "R18.12", fmt.Sprintf("%s/import:%s#%d/registered-where-it-is-used", g.fn.Name.Name, g.path, i+1), prog.pos(g.stmt.Pos()), "the registration is followed by the return of a text using the package",
			g.fn.Name.Name+" registers the import "+g.path+" at "+prog.pos(g.stmt.Pos())+" but the next return of its block does not produce text mentioning "+g.base+".: the import is added to generated files that do not use it (a package whose untyped constants are all printed by name), and the wrapper does not compile (imported and not used)")
	}
	if len(regs) < 2 {
		r.Errorf("R18.12: only %d registrations of literal import paths found in package extract (go/constant and go/token expected)", len(regs))
	}
}
