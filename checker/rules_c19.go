package main

import (
	"fmt"
	"go/ast"
	"go/token"
	"go/types"
	"sort"
	"strings"

	"golang.org/x/tools/go/ssa"
)

func init() {
	register("C19", &propMeta{
		Level: "other",
		Explanation: "Structural clauses of debugger transparency: R19.1 the functions the execution loop calls when a debugger is attached, and the session API, store only into debugger-owned state (SSA store/map-update targets), with the one frozen exception of the stores into node.exec made by the lazy generation of exec closures (which the breakpoint entry points reach only through the generation pass genRun since D94: R19.13); " +
			"R19.2 the plain and the debugger execution loops are siblings: both gated by the run id, one bltn call per iteration fed back into the loop variable, both stop on nil; R19.3 in (*Debugger).exec every mode-dependent 'keep running' return is dominated by the breakpoint test; " +
			"R19.4 the session goroutine registers the terminate event by defer before it starts executing; R19.5 the walk placing breakpoints never prunes a subtree; " +
			"R19.6 the cancellable channel-operation variants (the ones a debugged program runs, since the debugger executes through ExecuteWithContext) store the same ok status as reflect reports. Equality of outputs under arbitrary stepping sequences and event ordering are not decided.",
		Assumptions: []string{"user callbacks (events) are outside the analysed set", "stores through reflect are not tracked"},
		Run:         runC19,
	})
	ruleText["R19.1"] = "every SSA Store/MapUpdate in the debugger hooks called by runCfg, in the methods of Debugger/debugRoutine/DebugEvent and in (*Interpreter).Debug targets a field of a debugger-owned type, frame.debug, node.debug, Interpreter.debugger or local memory; the only other accepted store is node.exec in setExec (idempotent lazy generation)"
	ruleText["R19.2"] = "each loop of the execution function calls the current bltn exactly once per iteration, assigns the result to the loop variable and leaves the loop when it is nil (condition or break)"
	ruleText["R19.3"] = "in (*Debugger).exec the call of (*node).shouldBreak dominates every 'return false' whose guarding condition reads the routine's mode or step depth"
	ruleText["R19.4"] = "in the goroutine started by (*Interpreter).Debug a deferred call of the events callback with reason DebugTerminate is registered before ExecuteWithContext is called"
	ruleText["R19.5"] = "the function literal passed to (*node).Walk by SetBreakpoints returns only the constant true"
	ruleText["R19.7"] = "in SetBreakpoints every call that can store into a breakpoint flag of nodeDebugData lies in the section guarded by one request table of breakpointSetup, and distinct flags belong to distinct tables: placing or resetting one kind of breakpoint never touches the other kind"
	ruleText["R19.8"] = "same analysis as C01/R01.8 restricted to the channel-operation generators (recv, recv2, send, rangeChan, _select): a closure that stores a result stores it on every path that continues"
	ruleText["R19.6"] = "in every closure using reflect.Value.TryRecv (cancellable receive), a status stored with SetBool is the ok result reported by reflect (TryRecv/Recv/Select) or the literal true under an if on exactly that ok"
}

func runC19(c *Config, r *Report) {
	ic, err := loadInterp(c, true)
	if err != nil {
		r.Errorf("%v", err)
		return
	}
	c19R1(ic, r)
	c19R2(ic, r)
	c19R3(ic, r)
	c19R4(ic, r)
	c19R5(ic, r)
	c19R6(ic, r)
	c19R7(ic, r)
	c19R9(ic, r)
	c19R10(ic, r)
	c19R11and12(ic, r)
	c19R13(ic, r)
	c19R14(ic, r)
	c19R15(ic, r)
	// R19.8: the channel operations a debugged program runs (the cancellable variants) store their
	// results on every path, like the blocking ones (same analysis as C01/R01.8)
	c01R8(ic, r, "R19.8", map[string]bool{"recv": true, "recv2": true, "send": true, "rangeChan": true, "_select": true})
	c09R1(ic, r, "R19.2")
}

var debuggerOwned = map[string]bool{"Debugger": true, "debugRoutine": true, "frameDebugData": true, "nodeDebugData": true, "DebugEvent": true,
	"breakpointSetup": true, "Breakpoint": true, "DebugOptions": true, "DebugGoRoutine": true, "DebugFrame": true, "DebugFrameScope": true, "DebugVariable": true}

func c19R1(ic *IC, r *Report) {
	g := buildSGraph(ic.SP)
	runCfg := ic.ssaFunc("runCfg")
	if runCfg == nil {
		r.Errorf("anchor not resolved: runCfg")
		return
	}
	roots := map[*ssa.Function]bool{}
	// hooks: methods of *Debugger and helpers called from runCfg, other than bltn calls
	for _, e := range g.Out[runCfg] {
		if e.To.Pkg != ic.SP {
			continue
		}
		if e.To.Signature.Recv() != nil && isNamed(e.To.Signature.Recv().Type(), "Debugger") {
			roots[e.To] = true
		}
		if n := e.To.Name(); n == "isExecNode" || n == "originalExecNode" {
			roots[e.To] = true
		}
	}
	for _, f := range g.Funcs {
		if f.Parent() != nil || f.Signature.Recv() == nil {
			continue
		}
		rt := f.Signature.Recv().Type()
		for n := range debuggerOwned {
			if isNamed(rt, n) {
				roots[f] = true
			}
		}
		if isNamed(rt, "node") && (f.Name() == "shouldBreak" || strings.HasPrefix(f.Name(), "setBreak") || f.Name() == "setProgram") {
			roots[f] = true
		}
	}
	if f := ic.ssaMeth("Interpreter", "Debug"); f != nil {
		roots[f] = true
	} else {
		r.Errorf("anchor not resolved: (*Interpreter).Debug")
	}
	if len(roots) < 15 {
		r.Errorf("R19.1: only %d debugger functions found", len(roots))
	}
	// reach: static in-package callees, not entering the execution pipeline
	stop := func(f *ssa.Function) bool {
		if f.Signature.Recv() != nil && isNamed(f.Signature.Recv().Type(), "Interpreter") && token.IsExported(f.Name()) {
			return true
		}
		return false
	}
	set := map[*ssa.Function]*ssa.Function{}
	var q []*ssa.Function
	for f := range roots {
		set[f] = nil
		q = append(q, f)
	}
	sort.Slice(q, func(i, j int) bool { return q[i].String() < q[j].String() })
	for len(q) > 0 {
		f := q[0]
		q = q[1:]
		for _, e := range g.Out[f] {
			if !g.inPkg(e.To) || stop(e.To) {
				continue
			}
			if _, ok := set[e.To]; !ok {
				set[e.To] = f
				q = append(q, e.To)
			}
		}
		for _, a := range f.AnonFuncs {
			if _, ok := set[a]; !ok {
				set[a] = f
				q = append(q, a)
			}
		}
	}
	r.Info["debugger_functions_analysed"] = len(set)
	classify := func(fn *ssa.Function, addr ssa.Value) (ok bool, what string) {
		for _, o := range origins(addr, map[ssa.Value]bool{}) {
			switch x := o.(type) {
			case *ssa.Alloc:
				continue
			case *ssa.FieldAddr:
				pt := x.X.Type().Underlying().(*types.Pointer).Elem()
				st := pt.Underlying().(*types.Struct)
				fname := st.Field(x.Field).Name()
				tn := ""
				if n, ok := pt.(*types.Named); ok {
					tn = n.Obj().Name()
				}
				switch {
				case debuggerOwned[tn]:
				case tn == "frame" && fname == "debug", tn == "node" && fname == "debug", tn == "Interpreter" && fname == "debugger":
				default:
					return false, tn + "." + fname
				}
			case *ssa.IndexAddr:
				// element of a slice: local (make/alloc) or debugger-owned field
				okBase := true
				for _, b := range origins(x.X, map[ssa.Value]bool{}) {
					switch bb := b.(type) {
					case *ssa.MakeSlice, *ssa.Alloc, *ssa.Slice:
					case *ssa.UnOp:
						if fa, ok := bb.X.(*ssa.FieldAddr); ok {
							pt := fa.X.Type().Underlying().(*types.Pointer).Elem()
							if n, ok := pt.(*types.Named); ok && debuggerOwned[n.Obj().Name()] {
								continue
							}
						}
						okBase = false
					case *ssa.Parameter, *ssa.FreeVar, *ssa.Call:
						// results []Breakpoint passed around inside the debugger
						if s, ok := bb.Type().Underlying().(*types.Slice); ok {
							if n, ok := s.Elem().(*types.Named); ok && debuggerOwned[n.Obj().Name()] {
								continue
							}
							if p, ok := s.Elem().(*types.Pointer); ok {
								if n, ok := p.Elem().(*types.Named); ok && (debuggerOwned[n.Obj().Name()] || n.Obj().Name() == "frame" || n.Obj().Name() == "node") {
									continue
								}
							}
						}
						okBase = false
					default:
						okBase = false
					}
				}
				if !okBase {
					return false, "element of " + describeValue(x.X)
				}
			case *ssa.FreeVar, *ssa.Parameter:
				// a captured local cell or a pointer parameter to debugger-owned data
				pt := x.Type()
				if p, ok := pt.(*types.Pointer); ok {
					if n, ok := p.Elem().(*types.Named); ok && !debuggerOwned[n.Obj().Name()] && n.Obj().Pkg() == ic.Pk.Types {
						return false, "*" + n.Obj().Name()
					}
				}
			default:
				return false, describeValue(o)
			}
		}
		return true, ""
	}
	var fs []*ssa.Function
	for f := range set {
		fs = append(fs, f)
	}
	sort.Slice(fs, func(i, j int) bool { return ssaFuncName(fs[i]) < ssaFuncName(fs[j]) })
	stores := 0
	for _, fn := range fs {
		var bad []string
		var badPos token.Pos
		for _, b := range fn.Blocks {
			for _, ins := range b.Instrs {
				switch x := ins.(type) {
				case *ssa.Store:
					stores++
					if ok, what := classify(fn, x.Addr); !ok {
						if ssaFuncName(fn) == "setExec" || strings.HasPrefix(ssaFuncName(fn), "setExec$") {
							continue
						}
						bad = append(bad, what)
						if !badPos.IsValid() {
							badPos = x.Pos()
						}
					}
				case *ssa.MapUpdate:
					stores++
					okMap := ownedMap(g, x.Map, 0)
					if !okMap {
						bad = append(bad, "map "+describeValue(x.Map))
						if !badPos.IsValid() {
							badPos = x.Pos()
						}
					}
				}
			}
		}
		key := ssaFuncName(fn) + "/stores"
		if i := strings.Index(ssaFuncName(fn), "$"); i > 0 {
			key = ssaFuncName(fn)[:i] + "/stores(closures)"
		}
		pos := ic.pos(fn.Pos())
		if badPos.IsValid() {
			pos = ic.pos(badPos)
		}
		sort.Strings(bad)
		r.Check(len(bad) == 0, "R19.1", key, pos, "stores only into debugger-owned state",
			"debugger code "+ssaFuncName(fn)+" (reached from "+ssaFuncName(nz(set[fn], fn))+") stores into "+strings.Join(dedup(bad), ", ")+": running under the debugger changes interpreter or program state that plain execution does not change")
	}
	r.Info["debugger_stores_classified"] = stores
}

func nz(a, b *ssa.Function) *ssa.Function {
	if a != nil {
		return a
	}
	return b
}

func c19R2(ic *IC, r *Report) {
	loops := findExecLoops(ic)
	cnt := map[string]int{}
	for _, l := range loops {
		name := funcName(l.fn.Decl)
		cnt[name]++
		key := fmt.Sprintf("%s/loop#%d/step", name, cnt[name])
		// one bltn call, result assigned to the callee variable, nil leaves the loop
		calls := 0
		var execVar types.Object
		assignedBack := false
		ownNodes(l.loop.Body, func(n ast.Node) bool {
			switch x := n.(type) {
			case *ast.CallExpr:
				if id, ok := unparen(x.Fun).(*ast.Ident); ok {
					if v, ok := ic.Info.Uses[id].(*types.Var); ok && isNamed(v.Type(), "bltn") {
						calls++
						execVar = v
					}
				}
			}
			return true
		})
		ownNodes(l.loop.Body, func(n ast.Node) bool {
			if as, ok := n.(*ast.AssignStmt); ok && len(as.Lhs) == 1 && len(as.Rhs) == 1 {
				if id, ok := as.Lhs[0].(*ast.Ident); ok && ic.Info.ObjectOf(id) == execVar {
					if c, ok := unparen(as.Rhs[0]).(*ast.CallExpr); ok {
						if cid, ok := unparen(c.Fun).(*ast.Ident); ok && ic.Info.ObjectOf(cid) == execVar {
							assignedBack = true
						}
					}
				}
			}
			return true
		})
		nilStop := false
		isNilTest := func(e ast.Expr, op token.Token) bool {
			be, ok := unparen(e).(*ast.BinaryExpr)
			if !ok || be.Op != op {
				return false
			}
			id, ok1 := unparen(be.X).(*ast.Ident)
			nl, ok2 := unparen(be.Y).(*ast.Ident)
			return ok1 && ok2 && ic.Info.ObjectOf(id) == execVar && nl.Name == "nil"
		}
		if l.loop.Cond != nil {
			ast.Inspect(l.loop.Cond, func(n ast.Node) bool {
				if e, ok := n.(ast.Expr); ok && isNilTest(e, token.NEQ) {
					nilStop = true
				}
				return true
			})
		}
		ownNodes(l.loop.Body, func(n ast.Node) bool {
			if ifs, ok := n.(*ast.IfStmt); ok && isNilTest(ifs.Cond, token.EQL) {
				for _, s := range ifs.Body.List {
					if b, ok := s.(*ast.BranchStmt); ok && b.Tok == token.BREAK {
						nilStop = true
					}
					if _, ok := s.(*ast.ReturnStmt); ok {
						nilStop = true
					}
				}
			}
			return true
		})
		// a loop that runs with a debugger attached (not inside the `debugger == nil` branch)
		// consults the debugger before each operation: breakpoints are reported in every frame,
		// also in calls being stepped over or out of
		{
			plain := false
			for _, p := range enclosingPath(l.fn.Decl.Body, l.loop) {
				if ifs, ok := p.(*ast.IfStmt); ok {
					if be, ok := unparen(ifs.Cond).(*ast.BinaryExpr); ok && be.Op == token.EQL && types.ExprString(be.Y) == "nil" {
						if t := ic.Info.TypeOf(be.X); t != nil && isNamedPtr(t, "Debugger") {
							plain = true
						}
					}
				}
			}
			if !plain {
				consults := len(callsIn(ic.Info, l.loop.Body, false, "interp.Debugger.exec")) > 0
				r.Check(consults, "R19.2", key+"/consults-the-debugger", ic.pos(l.loop.Pos()), "the loop run with a debugger attached calls (*Debugger).exec in each iteration",
					"an execution loop of "+name+" that runs with a debugger attached never calls (*Debugger).exec: breakpoints on the lines it executes (for instance inside a call that is being stepped over or out of) are not reported")
			}
		}
		r.Check(calls == 1 && assignedBack && nilStop, "R19.2", key, ic.pos(l.loop.Pos()), "one bltn call per iteration, fed back, loop left on nil",
			fmt.Sprintf("execution loop of %s: %d bltn call(s) per iteration, result fed back into the loop variable: %v, leaves the loop on nil: %v: the plain and the debugger loops do not execute the same sequence of operations", name, calls, assignedBack, nilStop))
	}
	if len(loops) < 2 {
		r.Errorf("R19.2: %d execution loops found; the plain and the debugger loops are expected", len(loops))
	}
}

func c19R3(ic *IC, r *Report) {
	fi := ic.fn(r, "Debugger.exec")
	if fi == nil {
		return
	}
	var sb *ast.CallExpr
	ast.Inspect(fi.Decl.Body, func(n ast.Node) bool {
		if c, ok := n.(*ast.CallExpr); ok && isCallTo(ic.Info, c, "interp.node.shouldBreak") && sb == nil {
			sb = c
		}
		return true
	})
	if sb == nil {
		r.Fail("R19.3", "Debugger.exec/breakpoint-test", ic.pos(fi.Decl.Pos()), "(*Debugger).exec never consults (*node).shouldBreak: breakpoints are never reported")
		return
	}
	modeFields := map[*types.Var]bool{}
	for _, f := range []string{"mode", "fDepth", "fStep"} {
		if v := ic.field("debugRoutine", f); v != nil {
			modeFields[v] = true
		}
	}
	fg := buildFlow(fi.Decl.Body, ic.Info)
	n := 0
	var bad []string
	ast.Inspect(fi.Decl.Body, func(nd ast.Node) bool {
		rs, ok := nd.(*ast.ReturnStmt)
		if !ok || len(rs.Results) != 1 {
			return true
		}
		if id, ok := unparen(rs.Results[0]).(*ast.Ident); !ok || id.Name != "false" {
			return true
		}
		// does an enclosing if / case condition (or switch tag) read the mode?
		modeDep := false
		p := enclosingPath(fi.Decl.Body, rs)
		for _, x := range p {
			var conds []ast.Expr
			switch y := x.(type) {
			case *ast.IfStmt:
				conds = append(conds, y.Cond)
			case *ast.CaseClause:
				conds = append(conds, y.List...)
			case *ast.SwitchStmt:
				if y.Tag != nil {
					conds = append(conds, y.Tag)
				}
			}
			for _, c := range conds {
				ast.Inspect(c, func(m ast.Node) bool {
					if e, ok := m.(ast.Expr); ok {
						if v := selField(ic.Info, e); v != nil && modeFields[v] {
							modeDep = true
						}
					}
					return true
				})
			}
		}
		if !modeDep {
			return true
		}
		n++
		if d, ok := fg.dominates(sb, rs); !ok || !d {
			bad = append(bad, ic.pos(rs.Pos()))
		}
		return true
	})
	if n == 0 {
		r.Errorf("R19.3: no mode-dependent 'return false' found in (*Debugger).exec")
		return
	}
	r.Check(len(bad) == 0, "R19.3", "Debugger.exec/breakpoint-before-shortcuts", ic.pos(sb.Pos()), fmt.Sprintf("%d mode-dependent 'keep running' returns, all after the breakpoint test", n),
		"(*Debugger).exec can return false (keep running) at "+strings.Join(bad, ", ")+" depending on the routine's mode without having consulted shouldBreak: a breakpoint on a line executed while continuing, stepping over or stepping out is not reported")
}

func c19R4(ic *IC, r *Report) {
	fi := ic.fn(r, "Interpreter.Debug")
	if fi == nil {
		return
	}
	term, _ := ic.Pk.Types.Scope().Lookup("DebugTerminate").(*types.Const)
	okAll := false
	why := "no goroutine executing the program found"
	ast.Inspect(fi.Decl.Body, func(n ast.Node) bool {
		gs, ok := n.(*ast.GoStmt)
		if !ok {
			return true
		}
		fl, ok := gs.Call.Fun.(*ast.FuncLit)
		if !ok {
			return true
		}
		execs := callsIn(ic.Info, fl.Body, false, "interp.Interpreter.ExecuteWithContext", "interp.Interpreter.Execute")
		if len(execs) == 0 {
			return true
		}
		why = "the goroutine does not register a deferred terminate event before executing"
		fg := buildFlow(fl.Body, ic.Info)
		for _, st := range fl.Body.List {
			ds, ok := st.(*ast.DeferStmt)
			if !ok {
				continue
			}
			isTerm := false
			ast.Inspect(ds.Call, func(m ast.Node) bool {
				if id, ok := m.(*ast.Ident); ok && term != nil && ic.Info.Uses[id] == term {
					isTerm = true
				}
				return true
			})
			if !isTerm {
				continue
			}
			all := true
			for _, e := range execs {
				if d, _ := fg.dominates(ds, e); !d {
					all = false
				}
			}
			if all {
				okAll = true
			}
		}
		return true
	})
	r.Check(okAll, "R19.4", "Debug/terminate-event", ic.pos(fi.Decl.Pos()), "the terminate event is deferred before the program starts", "(*Interpreter).Debug: "+why+": a session that ends by panic or cancellation never delivers DebugTerminate")
}

func c19R5(ic *IC, r *Report) {
	fi := ic.fn(r, "Debugger.SetBreakpoints")
	if fi == nil {
		return
	}
	n := 0
	ast.Inspect(fi.Decl.Body, func(nd ast.Node) bool {
		call, ok := nd.(*ast.CallExpr)
		if !ok || !isCallTo(ic.Info, call, "interp.node.Walk") || len(call.Args) < 1 {
			return true
		}
		fl, ok := call.Args[0].(*ast.FuncLit)
		if !ok {
			return true
		}
		n++
		var bad []string
		ownNodes(fl.Body, func(m ast.Node) bool {
			if rs, ok := m.(*ast.ReturnStmt); ok && len(rs.Results) == 1 {
				if id, ok := unparen(rs.Results[0]).(*ast.Ident); !ok || id.Name != "true" {
					bad = append(bad, types.ExprString(rs.Results[0])+" at "+ic.pos(rs.Pos()))
				}
			}
			return true
		})
		r.Check(len(bad) == 0, "R19.5", fmt.Sprintf("SetBreakpoints/walk#%d", n), ic.pos(fl.Pos()), "the placement walk visits every node",
			"the walk placing breakpoints returns "+strings.Join(bad, ", ")+": the subtree of that node is skipped, so a requested line inside a multi-line statement whose first line also carries a breakpoint is never resolved and never reported")
		return true
	})
	if n == 0 {
		r.Errorf("R19.5: no Walk call with a function literal found in SetBreakpoints")
	}
}

// c19R7: the breakpoint kinds are independent. A reset of stale line breakpoints that also
// clears the function-breakpoint flag erases a breakpoint placed earlier in the same walk.
func c19R7(ic *IC, r *Report) {
	fi := ic.fn(r, "Debugger.SetBreakpoints")
	if fi == nil {
		return
	}
	ndd, _ := ic.Pk.Types.Scope().Lookup("nodeDebugData").(*types.TypeName)
	bps, _ := ic.Pk.Types.Scope().Lookup("breakpointSetup").(*types.TypeName)
	if ndd == nil || bps == nil {
		r.Errorf("anchor not resolved: types nodeDebugData / breakpointSetup")
		return
	}
	flags := map[*types.Var]bool{}
	if st, ok := ndd.Type().Underlying().(*types.Struct); ok {
		for i := 0; i < st.NumFields(); i++ {
			if b, ok := st.Field(i).Type().Underlying().(*types.Basic); ok && b.Kind() == types.Bool {
				flags[st.Field(i)] = true
			}
		}
	}
	tables := map[*types.Var]bool{}
	if st, ok := bps.Type().Underlying().(*types.Struct); ok {
		for i := 0; i < st.NumFields(); i++ {
			if _, ok := st.Field(i).Type().Underlying().(*types.Map); ok {
				tables[st.Field(i)] = true
			}
		}
	}
	if len(tables) >= 2 && len(flags) == 1 {
		// the kinds of breakpoint share one flag: the stale-reset of one request table erases the
		// breakpoints placed from the other (round-5 seed merged breakOnLine and breakOnCall)
		r.Fail("R19.7", "SetBreakpoints/one-flag-per-request-table", ic.pos(fi.Decl.Pos()), fmt.Sprintf("nodeDebugData has a single breakpoint flag for the %d request tables of breakpointSetup: resetting the line breakpoints of a target (the stale-reset sweep of the line pass) erases the function breakpoints placed on the same nodes, in the same request or in an earlier one", len(tables)))
		return
	}
	if len(flags) < 2 || len(tables) < 2 {
		r.Errorf("R19.7: %d breakpoint flags and %d request tables found (2 and 2 expected)", len(flags), len(tables))
		return
	}
	// direct writers of each flag, then callers within the package (bounded closure)
	writes := map[*types.Func]map[*types.Var]bool{}
	for _, name := range sortedKeys(ic.F) {
		f := ic.F[name]
		if f.Decl.Body == nil || f.Obj == nil {
			continue
		}
		ast.Inspect(f.Decl.Body, func(n ast.Node) bool {
			if as, ok := n.(*ast.AssignStmt); ok {
				for _, l := range as.Lhs {
					if v := selField(ic.Info, l); v != nil && flags[v] {
						if writes[f.Obj] == nil {
							writes[f.Obj] = map[*types.Var]bool{}
						}
						writes[f.Obj][v] = true
					}
				}
			}
			return true
		})
	}
	for round := 0; round < 4; round++ {
		for _, name := range sortedKeys(ic.F) {
			f := ic.F[name]
			if f.Decl.Body == nil || f.Obj == nil || f == fi {
				continue
			}
			ast.Inspect(f.Decl.Body, func(n ast.Node) bool {
				if c, ok := n.(*ast.CallExpr); ok {
					if callee, ok := calleeOf(ic.Info, c).(*types.Func); ok && writes[callee] != nil && callee != f.Obj {
						for v := range writes[callee] {
							if writes[f.Obj] == nil {
								writes[f.Obj] = map[*types.Var]bool{}
							}
							writes[f.Obj][v] = true
						}
					}
				}
				return true
			})
		}
	}
	// sections of SetBreakpoints
	section := map[*types.Var]map[string]token.Pos{}
	note := func(flag *types.Var, at ast.Node) {
		path := enclosingPath(fi.Decl.Body, at)
		tabs := map[string]bool{}
		for _, p := range path {
			ifs, ok := p.(*ast.IfStmt)
			if !ok {
				continue
			}
			ast.Inspect(ifs.Cond, func(m ast.Node) bool {
				if v := selFieldNode(ic.Info, m); v != nil && tables[v] {
					tabs[v.Name()] = true
				}
				return true
			})
		}
		// the other idiom: an earlier statement of an enclosing block leaves when the table is
		// empty (if len(setup.lines) == 0 { continue })
		for i := 0; i+1 < len(path); i++ {
			blk, ok := path[i].(*ast.BlockStmt)
			if !ok {
				continue
			}
			for _, st := range blk.List {
				if ast.Node(st) == path[i+1] {
					break
				}
				ifs, ok := st.(*ast.IfStmt)
				if !ok || len(ifs.Body.List) == 0 {
					continue
				}
				switch ifs.Body.List[len(ifs.Body.List)-1].(type) {
				case *ast.BranchStmt, *ast.ReturnStmt:
					ast.Inspect(ifs.Cond, func(m ast.Node) bool {
						if v := selFieldNode(ic.Info, m); v != nil && tables[v] {
							tabs[v.Name()] = true
						}
						return true
					})
				}
			}
		}
		key := joinSorted(tabs)
		if key == "" {
			key = "(no request table)"
		}
		if section[flag] == nil {
			section[flag] = map[string]token.Pos{}
		}
		if _, ok := section[flag][key]; !ok {
			section[flag][key] = at.Pos()
		}
	}
	ast.Inspect(fi.Decl.Body, func(n ast.Node) bool {
		switch x := n.(type) {
		case *ast.CallExpr:
			if callee, ok := calleeOf(ic.Info, x).(*types.Func); ok {
				for v := range writes[callee] {
					note(v, x)
				}
			}
		case *ast.AssignStmt:
			for _, l := range x.Lhs {
				if v := selField(ic.Info, l); v != nil && flags[v] {
					note(v, x)
				}
			}
		}
		return true
	})
	owner := map[string]string{}
	var names []string
	byName := map[string]*types.Var{}
	for v := range flags {
		names = append(names, v.Name())
		byName[v.Name()] = v
	}
	sort.Strings(names)
	written := 0
	for _, fn := range names {
		secs := section[byName[fn]]
		if len(secs) == 0 {
			continue
		}
		written++
		ks := sortedKeys(secs)
		ok := len(ks) == 1 && ks[0] != "(no request table)" && !strings.Contains(ks[0], " ")
		var where []string
		for _, k := range ks {
			where = append(where, k+" at "+ic.pos(secs[k]))
		}
		r.Check(ok, "R19.7", "SetBreakpoints/flag:"+fn, ic.pos(fi.Decl.Pos()), "written only in the section of request table "+ks[0],
			"the breakpoint flag "+fn+" is written in the sections guarded by "+strings.Join(where, "; ")+": setting or resetting breakpoints of one kind changes the flag of the other kind, so a breakpoint placed earlier in the same request is erased and never reported")
		if ok {
			if o, dup := owner[ks[0]]; dup {
				r.Fail("R19.7", "SetBreakpoints/table:"+ks[0], ic.pos(fi.Decl.Pos()), "flags "+o+" and "+fn+" are both written in the section of request table "+ks[0])
			}
			owner[ks[0]] = fn
		}
	}
	if written < 2 {
		r.Errorf("R19.7: only %d breakpoint flags are written from SetBreakpoints", written)
	}
}

func c19R6(ic *IC, r *Report) {
	n := 0
	for _, name := range sortedKeys(ic.F) {
		fi := ic.F[name]
		if fi.Decl.Body == nil {
			continue
		}
		k := 0
		ast.Inspect(fi.Decl.Body, func(nd ast.Node) bool {
			fl, ok := nd.(*ast.FuncLit)
			if !ok || !isFrameClosure(ic.Info, fl) {
				return true
			}
			if len(callsIn(ic.Info, fl.Body, true, "reflect.Value.TryRecv")) == 0 {
				return false
			}
			// ok results of reflect receives in this closure
			oks := map[types.Object]bool{}
			ast.Inspect(fl.Body, func(m ast.Node) bool {
				as, ok := m.(*ast.AssignStmt)
				if !ok || len(as.Rhs) != 1 {
					return true
				}
				c, ok := unparen(as.Rhs[0]).(*ast.CallExpr)
				if !ok {
					return true
				}
				idx := -1
				switch {
				case isCallTo(ic.Info, c, "reflect.Value.TryRecv", "reflect.Value.Recv"):
					idx = 1
				case isCallTo(ic.Info, c, "reflect.Select"):
					idx = 2
				}
				if idx >= 0 && idx < len(as.Lhs) {
					if id, ok := as.Lhs[idx].(*ast.Ident); ok && id.Name != "_" {
						oks[ic.Info.ObjectOf(id)] = true
					}
				}
				return true
			})
			var bad []string
			sets := 0
			ast.Inspect(fl.Body, func(m ast.Node) bool {
				c, ok := m.(*ast.CallExpr)
				if !ok || !isCallTo(ic.Info, c, "reflect.Value.SetBool") || len(c.Args) != 1 {
					return true
				}
				// only status stores: receiver is not the branch destination of a one-value receive (dest)
				arg := unparen(c.Args[0])
				if id, ok := arg.(*ast.Ident); ok {
					if oks[ic.Info.ObjectOf(id)] {
						sets++
						return true
					}
					if id.Name == "true" {
						// must sit under an if whose condition is exactly an ok
						p := enclosingPath(fl.Body, c)
						guarded := false
						for i, x := range p {
							if ifs, ok := x.(*ast.IfStmt); ok && i+1 < len(p) && p[i+1] == ast.Node(ifs.Body) {
								if cid, ok := unparen(ifs.Cond).(*ast.Ident); ok && oks[ic.Info.ObjectOf(cid)] {
									guarded = true
								}
							}
						}
						sets++
						if !guarded {
							bad = append(bad, "SetBool(true) at "+ic.pos(c.Pos())+" is not guarded by the ok result of the receive")
						}
						return true
					}
				}
				return true
			})
			if sets == 0 {
				return false
			}
			n++
			k++
			r.Check(len(bad) == 0, "R19.6", fmt.Sprintf("%s/tryrecv-closure#%d", name, k), ic.pos(fl.Pos()), "the stored status is reflect's ok",
				name+": "+strings.Join(bad, "; ")+": the cancellable variant (used under ExecuteWithContext, hence under the debugger) reports a receive from a closed channel as successful while the blocking variant does not")
			return false
		})
	}
	if n == 0 {
		r.Errorf("R19.6: no cancellable two-value receive closure found")
	}
}

// ownedMap reports whether every map v may denote is local to the debugger: created by
// make, held in a debugger-owned field, captured from such a local, or received as a
// parameter from callers that pass such maps.
func ownedMap(g *SGraph, v ssa.Value, depth int) bool {
	return ownedMapRec(g, v, depth, map[ssa.Value]bool{})
}

func ownedMapRec(g *SGraph, v ssa.Value, depth int, ownedMapVisiting map[ssa.Value]bool) bool {
	if depth > 6 {
		return false
	}
	os := origins(v, map[ssa.Value]bool{})
	if len(os) == 0 {
		return false
	}
	for _, o := range os {
		switch m := o.(type) {
		case *ssa.MakeMap:
		case *ssa.UnOp:
			switch inner := m.X.(type) {
			case *ssa.FieldAddr:
				pt := inner.X.Type().Underlying().(*types.Pointer).Elem()
				if n, ok := pt.(*types.Named); !ok || !debuggerOwned[n.Obj().Name()] {
					return false
				}
			case *ssa.FreeVar:
				vals := freeVarOrigins(inner)
				if len(vals) == 0 {
					return false
				}
				for _, fv := range vals {
					if !ownedMapRec(g, fv, depth+1, ownedMapVisiting) {
						return false
					}
				}
			default:
				return false
			}
		case *ssa.FreeVar:
			vals := freeVarOrigins(m)
			if len(vals) == 0 {
				return false
			}
			for _, fv := range vals {
				if !ownedMapRec(g, fv, depth+1, ownedMapVisiting) {
					return false
				}
			}
		case *ssa.Parameter:
			if ownedMapVisiting[m] {
				continue // recursive call passing the parameter on: decided by the other call sites
			}
			ownedMapVisiting[m] = true
			defer delete(ownedMapVisiting, m)
			fn := m.Parent()
			idx := -1
			for i, p := range fn.Params {
				if p == m {
					idx = i
				}
			}
			sites := 0
			for _, caller := range g.Funcs {
				for _, b := range caller.Blocks {
					for _, ins := range b.Instrs {
						ci, ok := ins.(ssa.CallInstruction)
						if !ok || ci.Common().StaticCallee() != fn || idx < 0 || idx >= len(ci.Common().Args) {
							continue
						}
						sites++
						if !ownedMapRec(g, ci.Common().Args[idx], depth+1, ownedMapVisiting) {
							return false
						}
					}
				}
			}
			if sites == 0 {
				return false
			}
		default:
			return false
		}
	}
	return true
}

func init() {
	ruleText["R19.9"] = "the session goroutine of Debug detaches the debugger from the interpreter when it ends: a deferred function stores nil into Interpreter.debugger, unconditionally or under a condition that holds when the field still designates this session's debugger"
	ruleText["R19.10"] = "in the functions of the debugger, every constant index X.child[k] lies under a test of X.kind or len(X.child) (same analysis as R06.10): the hooks run inside the program being debugged, a fault there is a panic the plain execution does not have"
}

// c19R9: round-5 seed inverted the test guarding the reset, so a finished session stayed attached
// and later plain executions stopped at its stale breakpoints.
func c19R9(ic *IC, r *Report) {
	info := ic.Info
	fi := ic.fn(r, "Interpreter.Debug")
	dbgFld := ic.field("Interpreter", "debugger")
	if fi == nil || dbgFld == nil {
		r.Errorf("R19.9: Interpreter.Debug / Interpreter.debugger not resolved")
		return
	}
	// the session's debugger: the local stored into the field
	var session types.Object
	ast.Inspect(fi.Decl.Body, func(m ast.Node) bool {
		if as, ok := m.(*ast.AssignStmt); ok && len(as.Lhs) == 1 && len(as.Rhs) == 1 && selField(info, as.Lhs[0]) == dbgFld {
			if id := identOf(as.Rhs[0]); id != nil && id.Name != "nil" {
				session = info.ObjectOf(id)
			}
		}
		return true
	})
	n := 0
	okReset := false
	where := fi.Decl.Pos()
	ast.Inspect(fi.Decl.Body, func(m ast.Node) bool {
		g, ok := m.(*ast.GoStmt)
		if !ok {
			return true
		}
		gl, ok := g.Call.Fun.(*ast.FuncLit)
		if !ok {
			return true
		}
		for _, st := range gl.Body.List {
			ds, ok := st.(*ast.DeferStmt)
			if !ok {
				continue
			}
			dl, ok := ds.Call.Fun.(*ast.FuncLit)
			if !ok {
				continue
			}
			ast.Inspect(dl.Body, func(k ast.Node) bool {
				as, ok := k.(*ast.AssignStmt)
				if !ok || len(as.Lhs) != 1 || len(as.Rhs) != 1 || selField(info, as.Lhs[0]) != dbgFld {
					return true
				}
				if id := identOf(as.Rhs[0]); id == nil || id.Name != "nil" {
					return true
				}
				n++
				where = as.Pos()
				// conditions on the way, evaluated under "the field designates this session's debugger"
				reached := true
				for _, gd := range pathGuards(dl.Body, as) {
					v := evalCond(gd.cond, func(e ast.Expr) int {
						be, ok := e.(*ast.BinaryExpr)
						if !ok || (be.Op != token.EQL && be.Op != token.NEQ) {
							return triUnknown
						}
						isFld := func(x ast.Expr) bool { return selField(info, x) == dbgFld }
						isSess := func(x ast.Expr) bool {
							id := identOf(x)
							return id != nil && session != nil && info.ObjectOf(id) == session
						}
						if (isFld(be.X) && isSess(be.Y)) || (isFld(be.Y) && isSess(be.X)) {
							if be.Op == token.EQL {
								return triTrue
							}
							return triFalse
						}
						return triUnknown
					})
					if (gd.want && v != triTrue) || (!gd.want && v != triFalse) {
						reached = false
					}
				}
				if reached {
					okReset = true
				}
				return true
			})
		}
		return true
	})
	r.Check(okReset, "R19.9", "Interpreter.Debug/debugger-detached-at-the-end-of-the-session", ic.pos(where), "the session goroutine resets Interpreter.debugger when it ends",
		fmt.Sprintf("no deferred function of the session goroutine of Debug stores nil into Interpreter.debugger on the path taken when the field still designates this session's debugger (%d reset statement(s) found): the finished session stays attached, and a later plain Execute/Eval of the interpreter runs under its stale breakpoints, emits events after the terminate event and can be cut short", n))
}

// c19R10: constant child indexes in the debugger's functions (round-5 seed: enterCall read
// recv[0].child[1] to qualify a method name; an unnamed receiver has one child).
func c19R10(ic *IC, r *Report) {
	var units []childIndexUnit
	for _, name := range sortedKeys(ic.F) {
		fi := ic.F[name]
		if fi.Decl.Body == nil {
			continue
		}
		file := ic.P.Fset.Position(fi.Decl.Pos()).Filename
		if !strings.HasSuffix(file, "debugger.go") {
			continue
		}
		units = append(units, childIndexUnit{funcName(fi.Decl), fi.Decl.Body})
	}
	if len(units) < 10 {
		r.Errorf("R19.10: only %d functions of the debugger found", len(units))
		return
	}
	n := checkChildIndexes(ic, r, "R19.10", units, func(u childIndexUnit, ix *ast.IndexExpr, owner string) string {
		return u.name + " indexes " + types.ExprString(ix) + " with no test of " + owner + ".kind or len(" + owner + ".child) on the path: for a node with fewer children (a receiver declared without a name has one) the debugger hook panics inside the program being debugged, which plain execution does not"
	})
	if n == 0 {
		r.Pass("R19.10", "debugger/no-constant-child-index", "", fmt.Sprintf("%d debugger functions, no constant index into node.child", len(units)))
	}
}

func init() {
	ruleText["R19.11"] = "no table is keyed by the code address of an exec closure: the result of reflect.Value.Pointer() is compared, never used as a map key or stored in a map - all the closures generated from one function literal share one code address, so such a table answers with the node of another statement (or another function)"
	ruleText["R19.12"] = "the debug data of a frame outlives its call: frame.debug is only assigned an allocation (new, &frameDebugData{...}) or another frame's debug data, never nil - deferred calls run after exitCall and read the debug data of the frame that deferred them"
}

// c19R11: round-6 seed (nodes found by originalExecNode remembered by exec address).
// c19R12: round-6 seed (exitCall dropped the frame's debug data; deferred interpreted calls crashed under the debugger).
func c19R11and12(ic *IC, r *Report) {
	info := ic.Info
	nPtr := 0
	var bad []string
	for _, name := range sortedKeys(ic.F) {
		fi := ic.F[name]
		if fi.Decl.Body == nil {
			continue
		}
		// locals holding a code address
		addr := map[types.Object]bool{}
		isPtrCall := func(e ast.Expr) bool {
			c, ok := unparen(e).(*ast.CallExpr)
			return ok && isCallTo(info, c, "reflect.Value.Pointer", "reflect.Value.UnsafePointer")
		}
		ast.Inspect(fi.Decl.Body, func(q ast.Node) bool {
			if c, ok := q.(*ast.CallExpr); ok && isPtrCall(c) {
				nPtr++
			}
			if as, ok := q.(*ast.AssignStmt); ok && len(as.Lhs) == len(as.Rhs) {
				for i, rh := range as.Rhs {
					if isPtrCall(rh) {
						if id := identOf(as.Lhs[i]); id != nil {
							addr[info.ObjectOf(id)] = true
						}
					}
				}
			}
			return true
		})
		isAddr := func(e ast.Expr) bool {
			if isPtrCall(e) {
				return true
			}
			id := identOf(e)
			return id != nil && addr[info.ObjectOf(id)]
		}
		ast.Inspect(fi.Decl.Body, func(q ast.Node) bool {
			switch y := q.(type) {
			case *ast.IndexExpr:
				if t := info.TypeOf(y.X); t != nil {
					if _, isMap := t.Underlying().(*types.Map); isMap && isAddr(y.Index) {
						bad = append(bad, types.ExprString(y)+" in "+name+" at "+ic.pos(y.Pos()))
					}
				}
			case *ast.CallExpr:
				if o := calleeOf(info, y); o != nil && o.Pkg() != nil && o.Pkg().Path() == "sync" && len(y.Args) > 0 && isAddr(y.Args[0]) {
					bad = append(bad, types.ExprString(y.Fun)+" in "+name+" at "+ic.pos(y.Pos()))
				}
			}
			return true
		})
	}
	if nPtr < 2 {
		r.Errorf("R19.11: only %d uses of the code address of a function value found (isExecNode and originalExecNode expected)", nPtr)
	} else {
		r.Check(len(bad) == 0, "R19.11", "package/no-table-keyed-by-a-code-address", "", fmt.Sprintf("%d uses of a code address, all comparisons", nPtr),
			"a table is keyed by the code address of a function value: "+strings.Join(dedupStr(bad), "; ")+". Every closure generated from the same function literal has the same code address (one per generator, not one per node), so the table returns the node of the statement that filled it first: after a second jump of the same shape the debugger follows the wrong function - wrong positions, breakpoints missed or reported on lines that did not execute")
	}
	// R19.12
	dbgFld := ic.field("frame", "debug")
	if dbgFld == nil {
		r.Errorf("R19.12: field frame.debug not found")
		return
	}
	nAs := 0
	var nils []string
	for _, name := range sortedKeys(ic.F) {
		fi := ic.F[name]
		if fi.Decl.Body == nil {
			continue
		}
		ast.Inspect(fi.Decl.Body, func(q ast.Node) bool {
			as, ok := q.(*ast.AssignStmt)
			if !ok || len(as.Lhs) != len(as.Rhs) {
				return true
			}
			for i, l := range as.Lhs {
				if selField(info, l) != dbgFld {
					continue
				}
				nAs++
				rh := unparen(as.Rhs[i])
				okv := false
				switch y := rh.(type) {
				case *ast.CallExpr:
					if id := identOf(y.Fun); id != nil && id.Name == "new" {
						okv = true
					}
				case *ast.UnaryExpr:
					if _, isLit := unparen(y.X).(*ast.CompositeLit); isLit {
						okv = true
					}
				case *ast.SelectorExpr:
					if selField(info, y) == dbgFld {
						okv = true
					}
				}
				if !okv {
					nils = append(nils, types.ExprString(l)+" = "+types.ExprString(rh)+" in "+name+" at "+ic.pos(as.Pos()))
				}
			}
			return true
		})
	}
	if nAs < 2 {
		r.Errorf("R19.12: only %d assignments of frame.debug found (Debug and enterCall expected)", nAs)
		return
	}
	r.Check(len(nils) == 0, "R19.12", "package/frame-debug-data-never-dropped", "", fmt.Sprintf("%d assignments of frame.debug, all of an allocation or of another frame's data", nAs),
		"the debug data of a frame is dropped or replaced by something that is not an allocation: "+strings.Join(nils, "; ")+". The deferred calls of a function run after exitCall, in frames whose ancestor is that frame: enterCall reads f.anc.debug.g and the debugged program crashes with a nil dereference as soon as a deferred interpreted function runs")
}

func init() {
	ruleText["R19.13"] = "setting breakpoints generates no code from arbitrary nodes: among the functions reachable from the exported breakpoint entry points of the debugger (static call graph of package interp, the generation pass genRun that Execute itself starts with not expanded) none is the code generator (setExec/getExec) and none calls through node.gen - exec closures are generated from the entry points of the control flow graphs only"
}

// c19R13: found through the round-6 report on C19 (E1, E2). SetBreakpoints called getExec on
// every node of the target as soon as one line was requested: generators ran from arbitrary
// nodes, in tree order, before the global declarations were wired (var b = a + 1 printed 0) and
// on nodes which never get a generator (nil dereference in the host's goroutine).
func c19R13(ic *IC, r *Report) {
	info := ic.Info
	genFld := ic.field("node", "gen")
	var roots []*types.Func
	for f, fi := range ic.G.Funcs {
		if fi.Decl.Recv == nil || fi.Decl.Body == nil || !f.Exported() {
			continue
		}
		if sg := f.Type().(*types.Signature); sg.Recv() != nil && isNamedPtr(sg.Recv().Type(), "Debugger") && strings.Contains(f.Name(), "Breakpoint") {
			roots = append(roots, f)
		}
	}
	if len(roots) == 0 {
		r.Errorf("R19.13: no exported breakpoint entry point of Debugger found")
		return
	}
	sort.Slice(roots, func(i, j int) bool { return roots[i].Name() < roots[j].Name() })
	for _, root := range roots {
		// the generation pass Execute itself starts with (genRun: from the entry points of the control
		// flow graphs) is the one way code may be generated here: it is not expanded
		var genPass *types.Func
		for f := range ic.G.Funcs {
			if f.Name() == "genRun" {
				genPass = f
			}
		}
		saved := ic.G.Out[genPass]
		if genPass != nil {
			ic.G.Out[genPass] = nil
		}
		set, parent := ic.G.Reach(root)
		if genPass != nil {
			ic.G.Out[genPass] = saved
		}
		var bad []string
		var fs []*types.Func
		for f := range set {
			fs = append(fs, f)
		}
		sort.Slice(fs, func(i, j int) bool { return objKey(fs[i]) < objKey(fs[j]) })
		for _, f := range fs {
			path := func() string {
				var p []string
				for g := f; g != nil; g = parent[g] {
					p = append([]string{g.Name()}, p...)
					if g == root {
						break
					}
				}
				return strings.Join(p, " -> ")
			}
			if f.Pkg() == ic.Pk.Types && (f.Name() == "setExec" || f.Name() == "getExec") {
				bad = append(bad, path())
				continue
			}
			fi := ic.G.Funcs[f]
			if fi == nil || fi.Decl.Body == nil {
				continue
			}
			ast.Inspect(fi.Decl.Body, func(q ast.Node) bool {
				if c, ok := q.(*ast.CallExpr); ok && genFld != nil && selField(info, c.Fun) == genFld {
					bad = append(bad, path()+" calls "+types.ExprString(c.Fun)+" at "+ic.pos(c.Pos()))
				}
				return true
			})
		}
		r.Check(len(bad) == 0, "R19.13", "Debugger."+root.Name()+"/generates-no-code", ic.pos(ic.G.Funcs[root].Decl.Pos()), fmt.Sprintf("%d functions reachable, none generates exec closures", len(set)),
			"(*Debugger)."+root.Name()+" reaches the code generator: "+strings.Join(dedupStr(bad), "; ")+". Generators then run from arbitrary nodes before Execute has wired the program (var a = 2; var b = a + 1 prints 0 as soon as one line breakpoint is requested) and on nodes which never get a generator (nil dereference in the caller of SetBreakpoints)")
	}
}

func init() {
	ruleText["R19.14"] = "the debugger is consulted before every node it executes: in the debugger loop of the execution function the call of (*Debugger).exec is evaluated unconditionally at each iteration (it is not the right operand of && or ||, and not under a condition) and dominates the call of the node's exec closure - a shortcut placed before it (skipping while stepping over or out) also skips the breakpoint test that exec makes first (R19.3)"
}

// c19R14: round-7 seed. The step-over / step-out skipping was moved from (*Debugger).exec into
// the loop of runCfg (if !g.stepping() && dbg.exec(m, f)): breakpoints inside a call that is
// stepped over were no longer reported.
func c19R14(ic *IC, r *Report) {
	info := ic.Info
	fi := ic.fn(r, "runCfg")
	if fi == nil {
		return
	}
	calls := callsIn(info, fi.Decl.Body, false, "interp.Debugger.exec")
	if len(calls) == 0 {
		r.Errorf("R19.14: runCfg never calls (*Debugger).exec")
		return
	}
	fg := buildFlow(fi.Decl.Body, info)
	for i, c := range calls {
		why := ""
		path := enclosingPath(fi.Decl.Body, c)
		var loop *ast.ForStmt
		for k, p := range path {
			switch y := p.(type) {
			case *ast.ForStmt:
				loop = y
			case *ast.BinaryExpr:
				if (y.Op == token.LAND || y.Op == token.LOR) && k+1 < len(path) && ast.Node(y.Y) == path[k+1] {
					why = "it is the right operand of " + types.ExprString(y) + ": it is not evaluated when the left operand decides"
				}
			}
		}
		if loop == nil {
			continue
		}
		// no enclosing if inside the loop (the call may be the condition of an if, not in its body)
		inLoop := false
		for k, p := range path {
			if p == ast.Node(loop) {
				inLoop = true
				continue
			}
			if !inLoop {
				continue
			}
			if ifs, ok := p.(*ast.IfStmt); ok && k+1 < len(path) && path[k+1] != ast.Node(ifs.Cond) && why == "" {
				// inside the body or else of an if
				if !(ast.Node(ifs.Cond).Pos() <= c.Pos() && c.End() <= ifs.Cond.End()) {
					why = "it is made under the condition " + types.ExprString(ifs.Cond)
				}
			}
		}
		// it dominates the execution of the node
		var bltn *ast.CallExpr
		ast.Inspect(loop.Body, func(q ast.Node) bool {
			if cc, ok := q.(*ast.CallExpr); ok && len(cc.Args) == 1 && bltn == nil {
				if t := info.TypeOf(cc.Fun); t != nil && isNamed(t, "bltn") {
					bltn = cc
				}
			}
			return true
		})
		if bltn != nil && why == "" {
			if d, ok := fg.dominates(c, bltn); !ok || !d {
				why = "it does not dominate the execution of the node (" + ic.pos(bltn.Pos()) + ")"
			}
		}
		r.Check(why == "", "R19.14", fmt.Sprintf("runCfg/debugger-loop#%d/debugger-consulted-before-every-node", i+1), ic.pos(c.Pos()), "the call of (*Debugger).exec is unconditional and dominates the node's execution",
			"in the debugger loop of runCfg the call of (*Debugger).exec is not made for every node: "+why+". The breakpoint test is the first thing exec does, so a breakpoint on a line executed while stepping over a call, or before the return while stepping out, is not reported")
	}
}

func init() {
	ruleText["R19.15"] = "entering a call under the debugger does not assume that the ancestor frame belongs to the session: in (*Debugger).enterCall the routine of the new frame is not read through the ancestor's debug data (f.anc.debug.g) without a nil test - the ancestor of a closure's activation is the frame captured when the closure was created, possibly outside any session or in an earlier one"
}

// c19R15: found through the round-7 report on C19 (E4, E5). A closure created by a plain Eval
// crashed when called under the debugger (nil dereference in enterCall), and one created in an
// earlier session made the next session hang on the dead session's routine.
func c19R15(ic *IC, r *Report) {
	info := ic.Info
	fi := ic.fn(r, "Debugger.enterCall")
	if fi == nil {
		return
	}
	ancFld := ic.field("frame", "anc")
	dbgFld := ic.field("frame", "debug")
	bad := ""
	n := 0
	ast.Inspect(fi.Decl.Body, func(q ast.Node) bool {
		se, ok := q.(*ast.SelectorExpr)
		if !ok {
			return true
		}
		// X.debug.<field> with X = <frame>.anc
		inner, ok := unparen(se.X).(*ast.SelectorExpr)
		if !ok || selField(info, inner) != dbgFld || selField(info, inner.X) != ancFld {
			return true
		}
		n++
		tested := false
		for _, g := range pathGuards(fi.Decl.Body, se) {
			ast.Inspect(g.cond, func(z ast.Node) bool {
				if be, ok := z.(*ast.BinaryExpr); ok && be.Op == token.NEQ && selField(info, be.X) == dbgFld {
					if id := identOf(be.Y); id != nil && id.Name == "nil" {
						tested = true
					}
				}
				return true
			})
		}
		if !tested {
			bad = types.ExprString(se) + " at " + ic.pos(se.Pos())
		}
		return true
	})
	r.Check(bad == "", "R19.15", "Debugger.enterCall/ancestor-debug-data-not-assumed", ic.pos(fi.Decl.Pos()), fmt.Sprintf("%d reads of the ancestor's debug data in enterCall, none without a nil test", n),
		"(*Debugger).enterCall reads "+bad+" without testing the ancestor's debug data: the ancestor of a closure's activation is the frame captured when the closure was created - by a plain Eval (no debug data: the debugged program crashes with a nil dereference as soon as it calls the closure) or in an earlier session (the routine of a dead session: the new session waits on it for ever)")
}
