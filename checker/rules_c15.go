package main

import (
	"fmt"
	"go/ast"
	"go/token"
	"go/types"
	"strings"

	"golang.org/x/tools/go/cfg"
)

func init() {
	register("C15", &propMeta{
		Level: "other",
		Explanation: "Structural clauses of package initialisation order: R15.1 in every function that starts execution (Execute, importSrc) the root code runs before the global-variable node, which runs before the forward loop over the start list, on every go/cfg path; main is appended to the start list after every init contribution and before the loop; " +
			"R15.2 the per-file compile pass contributes only init functions to the start list, by appending (never prepending, sorting or reversing); R15.3 in importSrc the already-imported test dominates every file access and every run; " +
			"R15.4 the dependency collector of package variables follows function symbols and methods; R15.5 it ignores identifiers only where they cannot refer to a variable; R15.6 after each selection the scan restarts from the earliest pending variable; R15.7 every variable symbol of the global pass records its declaration; R15.8 unresolved right-hand sides are retried. Completeness of the collected dependency sets for every expression form is not decided.",
		Assumptions: []string{"go/cfg dominance over resolved call sites", "ReadDir order is the file order the Go toolchain uses (sorted names)"},
		Run:         runC15,
	})
	ruleText["R15.1"] = "in each function calling (*Interpreter).run: a run of root code dominates the genGlobalVars call, which dominates the run of its result, which dominates the range loop running the start list; the append of main to the start list is dominated by every other append to it and dominates that loop (or the return of the program)"
	ruleText["R15.2"] = "every append to the start list built by (*Interpreter).cfg is of the form list = append(list, n) under a test of the function name against \"init\""
	ruleText["R15.3"] = "in importSrc, the test of Interpreter.srcPkg[importPath] with its early return dominates every io/fs call and every run"
	ruleText["R15.5"] = "in getVarDependencies the kind of an identifier's parent node is tested only against selectorExpr, keyValueExpr (only together with a struct-literal test) and fieldExpr (only together with 'not the last child', i.e. the declared names of a type expression, not its type); no other parent kind makes an identifier be ignored"
	ruleText["R15.6"] = "in genGlobalVarDecl, from the statement appending a variable to the ordered list the head of the innermost enclosing loop is not reachable without leaving that loop: the earliest ready variable is taken first, then the scan restarts"
	ruleText["R15.7"] = "for every case of gta's switch over node kinds that creates variable symbols (directly or in a directly called in-package function), each &symbol{kind: varSym} literal records the declaration node (and the global flag if getVarDependencies tests it), in the literal or by an assignment in the same case"
	ruleText["R15.9"] = "getVarDependencies stores nothing outside its own locals (same analysis as C05/R05.6): no dependency set is remembered across variables in a map or field supplied by the caller"
	ruleText["R15.10"] = "in the function looping over its []*node roots to collect their declarations, every call of a function reaching getVarDependencies is outside all loops and receives the slice accumulated over the roots"
	ruleText["R15.11"] = "in gta, the block executed after a successful importSrc assigns scope.types = universe.types before any statement that can leave the block (whatever the form of the import)"
	ruleText["R15.12"] = "in every block guarded by a successful (*itype).lookupMethod whose result is stored in node.val, each assignment of node.action assigns a constant that getVarDependencies compares node.action with (producer/consumer agreement on how a method reference is recognised)"
	ruleText["R15.8"] = "in the defineStmt and defineXStmt cases of gta no in-package resolving call assigns the pass's named error result (cfgErrorf excepted) and the node is appended to the revisit list"
	ruleText["R15.4"] = "the function collecting the dependencies of a package variable handles function symbols (refers to funcSym): dependencies that pass through function bodies are followed"
}

func runC15(c *Config, r *Report) {
	ic, err := loadInterp(c, true)
	if err != nil {
		r.Errorf("%v", err)
		return
	}
	c15R1(ic, r)
	c15R2(ic, r)
	c15R3(ic, r, "R15.3")
	c15R4(ic, r)
	c15R5(ic, r)
	c15R13(ic, r)
	c15R14(ic, r)
	c15R15(ic, r)
	c15R16(ic, r)
	c15R6(ic, r)
	c15R7(ic, r)
	c15R8(ic, r)
	c15R10(ic, r)
	c15R11(ic, r)
	c15R12(ic, r)
	// R15.9: the dependency collector recomputes its answer for each variable
	pureFuncs(ic, r, "R15.9", []string{"getVarDependencies"}, 1, "recomputed-for-each-variable",
		"the variables reached through a function body depend on where the walk entered a cycle of mutually recursive functions (the function being visited is skipped), so a result remembered for one variable is incomplete for the next one: its initializer is ordered before a variable it reads through the other function and sees the zero value", false)
}

// startListVar returns the local variable holding the start list in fi: the one appended
// with the node of the main symbol, or ranged over with run.
func c15R1(ic *IC, r *Report) {
	starters := 0
	for _, name := range sortedKeys(ic.F) {
		fi := ic.F[name]
		if fi.Decl.Body == nil || name == "Interpreter.run" {
			continue
		}
		runs := callsIn(ic.Info, fi.Decl.Body, false, "interp.Interpreter.run")
		if len(runs) == 0 {
			continue
		}
		starters++
		fg := buildFlow(fi.Decl.Body, ic.Info)
		globals := callsIn(ic.Info, fi.Decl.Body, false, "interp.genGlobalVars")
		key := name + "/phases"
		if len(globals) != 1 {
			r.Fail("R15.1", key, ic.pos(fi.Decl.Pos()), fmt.Sprintf("%s runs code but calls genGlobalVars %d times: package variables are not initialised exactly once between the root code and the init functions", name, len(globals)))
			continue
		}
		g := globals[0]
		// variable receiving the globals node
		var gvar types.Object
		if p := enclosingPath(fi.Decl.Body, g); len(p) >= 2 {
			if as, ok := p[len(p)-2].(*ast.AssignStmt); ok && len(as.Lhs) >= 1 {
				if id, ok := as.Lhs[0].(*ast.Ident); ok {
					gvar = ic.Info.ObjectOf(id)
				}
			}
		}
		var rootRuns, globalsRun []*ast.CallExpr
		var loop *ast.RangeStmt
		var loopRun *ast.CallExpr
		for _, rc := range runs {
			if id, ok := unparen(rc.Args[0]).(*ast.Ident); ok && gvar != nil && ic.Info.ObjectOf(id) == gvar {
				globalsRun = append(globalsRun, rc)
				continue
			}
			// inside a range over a list with the range variable as argument and a frame argument?
			p := enclosingPath(fi.Decl.Body, rc)
			inRange := false
			for i := len(p) - 1; i >= 0; i-- {
				if rs, ok := p[i].(*ast.RangeStmt); ok {
					if id, ok := unparen(rc.Args[0]).(*ast.Ident); ok && rs.Value != nil {
						if vid, ok := rs.Value.(*ast.Ident); ok && ic.Info.ObjectOf(vid) == ic.Info.ObjectOf(id) {
							// the init loop is the ranged run that comes after genGlobalVars
							if d, _ := fg.dominates(g, rc); d {
								loop, loopRun = rs, rc
								inRange = true
							}
						}
					}
					break
				}
			}
			if !inRange {
				rootRuns = append(rootRuns, rc)
			}
		}
		var problems []string
		okRoot := false
		for _, rr := range rootRuns {
			if d, _ := fg.dominates(rr, g); d {
				okRoot = true
			} else if re, _ := fg.reaches(rr, g); re {
				okRoot = true // the root code runs in a loop over files placed before
			}
			if d, _ := fg.dominates(g, rr); d {
				problems = append(problems, "root code at "+ic.pos(rr.Pos())+" runs after the global variables")
			}
		}
		if !okRoot {
			problems = append(problems, "no run of the root code precedes genGlobalVars")
		}
		if len(globalsRun) != 1 {
			problems = append(problems, fmt.Sprintf("the node returned by genGlobalVars is run %d times", len(globalsRun)))
		} else if d, _ := fg.dominates(g, globalsRun[0]); !d {
			problems = append(problems, "the run of the global-variable node is not dominated by genGlobalVars")
		}
		if loop == nil {
			problems = append(problems, "no loop running the start list after the global variables")
		} else if len(globalsRun) == 1 {
			if d, _ := fg.dominates(globalsRun[0], loopRun); !d {
				problems = append(problems, "the loop running init functions/main is not dominated by the run of the global variables")
			}
		}
		r.Check(len(problems) == 0, "R15.1", key, ic.pos(fi.Decl.Pos()), "root code, then global variables, then the start list in order",
			name+": "+strings.Join(problems, "; ")+": package-level variables, init functions and main do not run in the order the Go specification requires")
	}
	if starters < 2 {
		r.Errorf("R15.1: %d functions starting execution found (Execute and importSrc expected)", starters)
	}
	// main appended after the inits: in functions that append the node of the main symbol
	mains := 0
	for _, name := range sortedKeys(ic.F) {
		fi := ic.F[name]
		if fi.Decl.Body == nil {
			continue
		}
		var mainAppend *ast.AssignStmt
		var list types.Object
		ast.Inspect(fi.Decl.Body, func(n ast.Node) bool {
			as, ok := n.(*ast.AssignStmt)
			if !ok || len(as.Lhs) != 1 || len(as.Rhs) != 1 {
				return true
			}
			call, ok := unparen(as.Rhs[0]).(*ast.CallExpr)
			if !ok {
				return true
			}
			if id, ok := call.Fun.(*ast.Ident); !ok || id.Name != "append" || len(call.Args) != 2 {
				return true
			}
			// appended value m.node where m comes from ...sym[mainID]
			p := enclosingPath(fi.Decl.Body, as)
			for i := len(p) - 1; i >= 0; i-- {
				if ifs, ok := p[i].(*ast.IfStmt); ok && ifs.Init != nil {
					isMain := false
					ast.Inspect(ifs.Init, func(m ast.Node) bool {
						if id, ok := m.(*ast.Ident); ok {
							if c, ok := ic.Info.Uses[id].(*types.Const); ok && c.Name() == "mainID" {
								isMain = true
							}
						}
						return true
					})
					if isMain {
						mainAppend = as
						if lid, ok := as.Lhs[0].(*ast.Ident); ok {
							list = ic.Info.ObjectOf(lid)
						}
					}
				}
			}
			return true
		})
		if mainAppend == nil {
			continue
		}
		mains++
		fg := buildFlow(fi.Decl.Body, ic.Info)
		var problems []string
		// every other definition/append of the list dominates (or at least precedes) the main append
		ast.Inspect(fi.Decl.Body, func(n ast.Node) bool {
			as, ok := n.(*ast.AssignStmt)
			if !ok || as == mainAppend {
				return true
			}
			for _, l := range as.Lhs {
				if id, ok := l.(*ast.Ident); ok && ic.Info.ObjectOf(id) == list {
					if re, _ := fg.reaches(mainAppend, as); re {
						problems = append(problems, "the start list is extended at "+ic.pos(as.Pos())+" after main was appended")
					}
				}
			}
			return true
		})
		// the main append dominates... the loop running the list, if any
		ast.Inspect(fi.Decl.Body, func(n ast.Node) bool {
			rs, ok := n.(*ast.RangeStmt)
			if !ok {
				return true
			}
			if id, ok := unparen(rs.X).(*ast.Ident); ok && ic.Info.ObjectOf(id) == list {
				if re, _ := fg.reaches(rs.X, mainAppend); re {
					problems = append(problems, "main is appended after the loop running the start list has begun")
				}
			}
			return true
		})
		r.Check(len(problems) == 0, "R15.1", name+"/main-last", ic.pos(mainAppend.Pos()), "main is appended after every init contribution and before the start list runs",
			name+": "+strings.Join(problems, "; ")+": main does not run after all init functions")
	}
	if mains < 2 {
		r.Errorf("R15.1: %d functions appending main to the start list found (CompileAST and importSrc expected)", mains)
	}
}

func c15R2(ic *IC, r *Report) {
	fi := ic.fn(r, "Interpreter.cfg")
	if fi == nil {
		return
	}
	// the start list: the []*node variable returned by cfg
	var list types.Object
	ast.Inspect(fi.Decl.Body, func(n ast.Node) bool {
		if rs, ok := n.(*ast.ReturnStmt); ok && len(rs.Results) == 2 {
			if id, ok := unparen(rs.Results[0]).(*ast.Ident); ok {
				if p := enclosingPath(fi.Decl.Body, rs); len(p) == 2 { // top-level return of cfg itself
					list = ic.Info.ObjectOf(id)
				}
			}
		}
		return true
	})
	if list == nil {
		r.Errorf("anchor not resolved: the start list returned by (*Interpreter).cfg")
		return
	}
	n := 0
	ast.Inspect(fi.Decl.Body, func(nd ast.Node) bool {
		as, ok := nd.(*ast.AssignStmt)
		if !ok {
			return true
		}
		for i, l := range as.Lhs {
			id, ok := l.(*ast.Ident)
			if !ok || ic.Info.ObjectOf(id) != list || i >= len(as.Rhs) {
				continue
			}
			n++
			key := fmt.Sprintf("cfg/start-list-store#%d", n)
			okAppend := false
			if call, ok := unparen(as.Rhs[i]).(*ast.CallExpr); ok {
				if fid, ok := call.Fun.(*ast.Ident); ok && fid.Name == "append" && len(call.Args) == 2 && !call.Ellipsis.IsValid() {
					if a0, ok := unparen(call.Args[0]).(*ast.Ident); ok && ic.Info.ObjectOf(a0) == list {
						okAppend = true
					}
				}
			}
			// guarded by a test against "init"
			guarded := false
			p := enclosingPath(fi.Decl.Body, as)
			for j := len(p) - 1; j >= 0; j-- {
				switch g := p[j].(type) {
				case *ast.IfStmt:
					if _, ok := stringLits(g.Cond)["init"]; ok {
						guarded = true
					}
				case *ast.CaseClause:
					for _, e := range g.List {
						if _, ok := stringLits(e)["init"]; ok {
							guarded = true
						}
					}
				case *ast.FuncLit:
					j = -1
				}
			}
			// ... and by a test that the declaration has no receiver: a method named init is not an
			// init function (round-5 seed)
			noRecv := false
			for j := len(p) - 1; j >= 0; j-- {
				if _, isLit := p[j].(*ast.FuncLit); isLit {
					break
				}
				g, ok := p[j].(*ast.IfStmt)
				if !ok || condHasOr(g.Cond) {
					continue
				}
				ast.Inspect(g.Cond, func(k ast.Node) bool {
					switch e := k.(type) {
					case *ast.BinaryExpr:
						if e.Op == token.EQL {
							if c, ok := unparen(e.X).(*ast.CallExpr); ok {
								if id := identOf(c.Fun); id != nil && id.Name == "len" && len(c.Args) == 1 {
									if tv, ok := ic.Info.Types[e.Y]; ok && tv.Value != nil && tv.Value.ExactString() == "0" {
										if v := selField(ic.Info, c.Args[0]); v != nil && v.Name() == "child" {
											noRecv = true
										}
									}
								}
							}
						}
					case *ast.UnaryExpr:
						if e.Op == token.NOT {
							if c, ok := unparen(e.X).(*ast.CallExpr); ok {
								if f, ok := calleeOf(ic.Info, c).(*types.Func); ok && f.Pkg() == ic.Pk.Types && f.Name() == "isMethod" {
									noRecv = true
								}
							}
						}
					}
					return true
				})
			}
			r.Check(!(okAppend && guarded) || noRecv, "R15.2", key+"/no-receiver", ic.pos(as.Pos()), "only a declaration without receiver is an init function",
				"the per-file compile pass takes every function declaration named init for an init function, methods included (no test that the receiver list is empty guards "+types.ExprString(as.Rhs[i])+"): func (T) init() is started, with a zero receiver, among the init functions of the package")
			r.Check(okAppend && guarded, "R15.2", key, ic.pos(as.Pos()), "append of an init function",
				"the per-file compile pass stores "+types.ExprString(as.Rhs[i])+" into the start list "+map[bool]string{true: "outside a test of the function name against \"init\"", false: "not by appending one node"}[okAppend]+": with several files the start list is the concatenation of the per-file lists, so anything but init functions in source order (main, a reordered list) runs before the init functions of later files")
		}
		return true
	})
	if n == 0 {
		r.Errorf("R15.2: no store into the start list found in (*Interpreter).cfg")
	}
	// importSrc concatenates per file in order
	is := ic.fn(r, "Interpreter.importSrc")
	if is == nil {
		return
	}
	cfgCalls := callsIn(ic.Info, is.Decl.Body, false, "interp.Interpreter.cfg")
	okConcat := false
	for _, cc := range cfgCalls {
		p := enclosingPath(is.Decl.Body, cc)
		for i := len(p) - 1; i >= 0; i-- {
			if rs, ok := p[i].(*ast.RangeStmt); ok {
				// inside: list = append(list, nodes...)
				ast.Inspect(rs.Body, func(m ast.Node) bool {
					if as, ok := m.(*ast.AssignStmt); ok && len(as.Rhs) == 1 {
						if call, ok := unparen(as.Rhs[0]).(*ast.CallExpr); ok {
							if fid, ok := call.Fun.(*ast.Ident); ok && fid.Name == "append" && call.Ellipsis.IsValid() && len(call.Args) == 2 {
								if types.ExprString(call.Args[0]) == types.ExprString(as.Lhs[0]) {
									okConcat = true
								}
							}
						}
					}
					return true
				})
				break
			}
		}
	}
	r.Check(okConcat, "R15.2", "importSrc/concatenates-in-file-order", ic.pos(is.Decl.Pos()), "per-file init lists are appended in file order", "importSrc does not append the init functions of each file, in file order, to the start list")
}

// c15R3 is shared with C16 (R16.1a).
func c15R3(ic *IC, r *Report, rule string) {
	is := ic.fn(r, "Interpreter.importSrc")
	if is == nil {
		return
	}
	srcPkg := ic.field("Interpreter", "srcPkg")
	var guard *ast.IfStmt
	for _, st := range is.Decl.Body.List {
		ifs, ok := st.(*ast.IfStmt)
		if !ok {
			continue
		}
		mentions := false
		ast.Inspect(ifs.Cond, func(n ast.Node) bool {
			if e, ok := n.(ast.Expr); ok && selField(ic.Info, e) == srcPkg && srcPkg != nil {
				mentions = true
			}
			return true
		})
		if mentions {
			guard = ifs
			break
		}
	}
	key := "importSrc/import-once"
	if guard == nil {
		r.Fail(rule, key, ic.pos(is.Decl.Pos()), "importSrc has no top-level test of Interpreter.srcPkg[importPath]: a package imported twice is loaded and initialised twice")
		return
	}
	// the guard body returns on every path
	fgb := buildFlow(guard.Body, ic.Info)
	allReturn := true
	for _, b := range fgb.G.Blocks {
		if b.Live && len(b.Succs) == 0 {
			if len(b.Nodes) == 0 {
				allReturn = false
				continue
			}
			if _, ok := b.Nodes[len(b.Nodes)-1].(*ast.ReturnStmt); !ok {
				allReturn = false
			}
		}
	}
	// polarity: the condition must hold when the package is already there (srcPkg[...] != nil)
	pol := false
	if be, ok := unparen(guard.Cond).(*ast.BinaryExpr); ok && be.Op == token.NEQ {
		if id, ok := unparen(be.Y).(*ast.Ident); ok && id.Name == "nil" {
			pol = true
		}
	}
	fg := buildFlow(is.Decl.Body, ic.Info)
	var late []string
	sinks := callsIn(ic.Info, is.Decl.Body, false, "io/fs.ReadDir", "io/fs.ReadFile", "io/fs.Stat", "interp.Interpreter.run", "interp.Interpreter.pkgDir", "interp.Interpreter.gta", "interp.Interpreter.cfg")
	for _, s := range sinks {
		if d, _ := fg.dominates(guard.Cond, s); !d {
			late = append(late, ic.pos(s.Pos()))
		}
	}
	r.Check(allReturn && pol && len(late) == 0 && len(sinks) > 3, rule, key, ic.pos(guard.Pos()), fmt.Sprintf("the already-imported test returns early and dominates %d file accesses, compile and run calls", len(sinks)),
		fmt.Sprintf("importSrc: the already-imported test does not protect the rest of the function (returns on every path: %v, tests srcPkg[...] != nil: %v, calls not dominated: %v): a package with several importers is evaluated more than once", allReturn, pol, late))
}

func c15R4(ic *IC, r *Report) {
	// role: the in-package function called by genGlobalVarDecl that returns []*node
	gd := ic.fn(r, "genGlobalVarDecl")
	if gd == nil {
		return
	}
	var collector *types.Func
	ast.Inspect(gd.Decl.Body, func(n ast.Node) bool {
		if call, ok := n.(*ast.CallExpr); ok {
			if f, ok := calleeOf(ic.Info, call).(*types.Func); ok && f.Pkg() == ic.Pk.Types {
				sig := f.Type().(*types.Signature)
				if sig.Results().Len() == 1 && types.TypeString(sig.Results().At(0).Type(), nil) == "[]*github.com/traefik/yaegi/interp.node" {
					collector = f
				}
			}
		}
		return true
	})
	if collector == nil {
		r.Errorf("anchor not resolved: dependency collector called by genGlobalVarDecl")
		return
	}
	funcSym, _ := ic.Pk.Types.Scope().Lookup("funcSym").(*types.Const)
	if funcSym == nil {
		r.Errorf("anchor not resolved: constant funcSym")
		return
	}
	// direct-call closure of the collector
	seen := map[*types.Func]bool{collector: true}
	q := []*types.Func{collector}
	mentions := false
	for len(q) > 0 {
		f := q[0]
		q = q[1:]
		fi := ic.G.Funcs[f]
		if fi == nil || fi.Decl.Body == nil {
			continue
		}
		ast.Inspect(fi.Decl.Body, func(n ast.Node) bool {
			switch x := n.(type) {
			case *ast.Ident:
				if ic.Info.Uses[x] == funcSym {
					mentions = true
				}
			case *ast.CallExpr:
				if g, ok := calleeOf(ic.Info, x).(*types.Func); ok && g.Pkg() == ic.Pk.Types && !seen[g] && ic.G.Funcs[g] != nil {
					// only small helpers: do not wander into the whole compiler
					if len(seen) < 12 {
						seen[g] = true
						q = append(q, g)
					}
				}
			}
			return true
		})
	}
	// methods: the collector must resolve a selected name to an interpreted method somewhere
	// (a method of itype returning a *node, or the itype.method field); an unconditional skip of
	// selected names means method bodies are never followed.
	methodFld := ic.field("itype", "method")
	resolvesMethods := false
	for f := range seen {
		d := ic.G.Funcs[f]
		if d == nil || d.Decl.Body == nil {
			continue
		}
		ast.Inspect(d.Decl.Body, func(n ast.Node) bool {
			switch x := n.(type) {
			case *ast.Ident:
				// the action cfg gives to a selector resolved to an interpreted method
				if c, ok := ic.Info.Uses[x].(*types.Const); ok && c.Name() == "aGetMethod" {
					resolvesMethods = true
				}
			case *ast.SelectorExpr:
				if v := selField(ic.Info, x); v != nil && v == methodFld {
					resolvesMethods = true
				}
			case *ast.CallExpr:
				if g, ok := calleeOf(ic.Info, x).(*types.Func); ok && g.Pkg() == ic.Pk.Types {
					sig := g.Type().(*types.Signature)
					if sig.Recv() != nil && isNamedPtr(sig.Recv().Type(), "itype") && sig.Results().Len() >= 1 && isNamedPtr(sig.Results().At(0).Type(), "node") {
						resolvesMethods = true
					}
				}
			}
			return true
		})
	}
	r.Check(resolvesMethods, "R15.4", collector.Name()+"/follows-methods", ic.pos(ic.G.Funcs[collector].Decl.Pos()), "selected names are resolved to interpreted methods by the dependency collector",
		"the dependency collector "+collector.Name()+" never resolves a selected name to a method (no use of the aGetMethod action, of itype.method or of a method lookup returning the method's node): a variable initialised by a method call v.m() whose body reads another package variable is not ordered after that variable")
	r.Check(mentions, "R15.4", collector.Name()+"/follows-functions", ic.pos(ic.G.Funcs[collector].Decl.Pos()), "function symbols are handled by the dependency collector",
		"the dependency collector "+collector.Name()+" never considers function symbols (no reference to funcSym): a variable initialised by a call f() whose body reads another package variable is not ordered after that variable")
}

// c15R5: which identifiers the dependency collector ignores. An identifier that is the
// selected name of a selector never refers to a package variable; every other position
// (operand, argument, map-literal key, index, ...) does. The collector may therefore skip an
// identifier because of the kind of its parent only for selectors, or for key:value pairs
// when it also establishes that the literal is a struct literal.

// fieldNameTest reports whether cond tests "the parent is a field expression and the identifier
// is not its type": the node-kind constant fieldExpr together with a position test (lastChild,
// childPos or an index into the parent's children).
func fieldNameTest(ic *IC, cond ast.Expr) bool {
	kind, pos := false, false
	ast.Inspect(cond, func(n ast.Node) bool {
		switch y := n.(type) {
		case *ast.Ident:
			if c, ok := ic.Info.Uses[y].(*types.Const); ok && c.Name() == "fieldExpr" {
				kind = true
			}
		case *ast.CallExpr:
			if o := calleeOf(ic.Info, y); o != nil && (o.Name() == "lastChild" || o.Name() == "childPos") {
				pos = true
			}
		case *ast.IndexExpr:
			if v := selField(ic.Info, y.X); v != nil && v.Name() == "child" {
				pos = true
			}
		}
		return true
	})
	return kind && pos
}

func c15R5(ic *IC, r *Report) {
	fi := ic.fn(r, "getVarDependencies")
	if fi == nil {
		return
	}
	kindFld := ic.field("node", "kind")
	ancFld := ic.field("node", "anc")
	if kindFld == nil || ancFld == nil {
		r.Errorf("anchor not resolved: node.kind / node.anc")
		return
	}
	// kinds the parent (n.anc.kind) is compared with, anywhere in the collector
	isAncKind := func(e ast.Expr) bool {
		se, ok := unparen(e).(*ast.SelectorExpr)
		if !ok || selField(ic.Info, se) != kindFld {
			return false
		}
		return selField(ic.Info, se.X) == ancFld
	}
	constName := func(e ast.Expr) string {
		if id, ok := unparen(e).(*ast.Ident); ok {
			if c, ok := ic.Info.Uses[id].(*types.Const); ok {
				return c.Name()
			}
		}
		return ""
	}
	kinds := map[string]token.Pos{}
	// the collector and the plain functions it calls directly (a walk moved into a helper is
	// the same collector)
	bodies := []*ast.BlockStmt{fi.Decl.Body}
	ast.Inspect(fi.Decl.Body, func(n ast.Node) bool {
		if c, ok := n.(*ast.CallExpr); ok {
			if f, ok := calleeOf(ic.Info, c).(*types.Func); ok && f.Pkg() == ic.Pk.Types && f != fi.Obj {
				if d := ic.G.Funcs[f]; d != nil && d.Decl.Body != nil && d.Decl.Recv == nil && len(bodies) < 6 {
					if sig := f.Type().(*types.Signature); sig.Params().Len() > 0 && isNamedPtr(sig.Params().At(0).Type(), "node") {
						dup := false
						for _, b := range bodies {
							if b == d.Decl.Body {
								dup = true
							}
						}
						if !dup {
							bodies = append(bodies, d.Decl.Body)
						}
					}
				}
			}
		}
		return true
	})
	for _, body := range bodies {
		ast.Inspect(body, func(n ast.Node) bool {
			switch x := n.(type) {
			case *ast.BinaryExpr:
				if x.Op == token.EQL || x.Op == token.NEQ {
					if isAncKind(x.X) {
						if k := constName(x.Y); k != "" {
							kinds[k] = x.Pos()
						}
					} else if isAncKind(x.Y) {
						if k := constName(x.X); k != "" {
							kinds[k] = x.Pos()
						}
					}
				}
			case *ast.SwitchStmt:
				if x.Tag != nil && isAncKind(x.Tag) {
					for _, s := range x.Body.List {
						for _, e := range s.(*ast.CaseClause).List {
							if k := constName(e); k != "" {
								kinds[k] = e.Pos()
							}
						}
					}
				}
			}
			return true
		})
	}
	mentionsStruct := false
	for _, body := range bodies {
		ast.Inspect(body, func(n ast.Node) bool {
			if id, ok := n.(*ast.Ident); ok && (id.Name == "structT" || id.Name == "isStruct") {
				mentionsStruct = true
			}
			return true
		})
	}
	if _, ok := kinds["selectorExpr"]; !ok {
		r.Fail("R15.5", "getVarDependencies/skip:selectorExpr", ic.pos(fi.Decl.Pos()), "the collector does not exclude the selected name of a selector: x.f would create a false dependency on a package variable f (reported as a variable definition loop)")
	}
	// a name (not the type, which is the last child) of a field expression declares a field, a
	// method or a parameter inside a type expression: it refers to nothing
	fieldNameOnly := false
	for _, body := range bodies {
		ast.Inspect(body, func(n ast.Node) bool {
			ifs, ok := n.(*ast.IfStmt)
			if !ok {
				return true
			}
			if fieldNameTest(ic, ifs.Cond) {
				fieldNameOnly = true
			}
			return true
		})
	}
	for _, k := range sortedKeys(kinds) {
		ok := k == "selectorExpr" || (k == "keyValueExpr" && mentionsStruct) || (k == "fieldExpr" && fieldNameOnly)
		r.Check(ok, "R15.5", "getVarDependencies/skip:"+k, ic.pos(kinds[k]), "identifiers are ignored by parent kind only where they cannot refer to a variable",
			"the dependency collector treats identifiers differently when their parent node is a "+k+": an identifier in that position (for instance the key of a map literal, m = map[K]V{k: 1}) does refer to a package variable, which is then not initialised before its user")
	}
}

// c15R6: "declaration order refined by dependencies" means: repeatedly take the earliest
// declared variable that is ready (Go spec, Package initialization). After a variable has
// been selected the scan must therefore restart from the first pending variable; a scan that
// goes on with the variables declared later postpones an earlier variable that has just
// become ready (var a = c; var b = ..; var c = ..; var d = ..  must give b c a d, not b c d a).
// Decided on the flow graph of the ordering function: from the statement that appends to the
// ordered list, the head of the innermost enclosing loop is not reachable without leaving
// that loop.
func c15R6(ic *IC, r *Report) {
	fi := ic.fn(r, "genGlobalVarDecl")
	if fi == nil {
		return
	}
	childFld := ic.field("node", "child")
	// the appends to the ordered list: X.child = append(X.child, n)
	var sels []*ast.AssignStmt
	ast.Inspect(fi.Decl.Body, func(n ast.Node) bool {
		as, ok := n.(*ast.AssignStmt)
		if !ok || len(as.Lhs) != 1 || len(as.Rhs) != 1 || selField(ic.Info, as.Lhs[0]) != childFld {
			return true
		}
		if c, ok := unparen(as.Rhs[0]).(*ast.CallExpr); ok {
			if id, ok := c.Fun.(*ast.Ident); ok && id.Name == "append" {
				sels = append(sels, as)
			}
		}
		return true
	})
	if len(sels) == 0 {
		r.Errorf("R15.6: the statement appending a variable to the ordered list (X.child = append(X.child, n)) was not found in genGlobalVarDecl")
		return
	}
	g := cfg.New(fi.Decl.Body, func(c *ast.CallExpr) bool { return !noReturn(ic.Info, c) })
	var bad []string
	anyLoop := false
	for _, sel := range sels {
		// the scan: the innermost enclosing loop that ranges over the candidate variables
		var loop ast.Stmt
		for _, p := range enclosingPath(fi.Decl.Body, sel) {
			switch x := p.(type) {
			case *ast.ForStmt:
				anyLoop = true
			case *ast.RangeStmt:
				anyLoop = true
				if t := ic.Info.TypeOf(x.X); t != nil && types.TypeString(t, nil) == "[]*github.com/traefik/yaegi/interp.node" {
					loop = x
				}
			}
		}
		if loop == nil {
			continue // appended outside the scan: each scan selects one variable
		}
		var head, done, start *cfg.Block
		for _, b := range g.Blocks {
			if b.Stmt == loop {
				switch b.Kind {
				case cfg.KindRangeLoop, cfg.KindForLoop:
					head = b
				case cfg.KindRangeDone, cfg.KindForDone:
					done = b
				}
			}
			for _, n := range b.Nodes {
				if n == ast.Node(sel) {
					start = b
				}
			}
		}
		if head == nil || done == nil || start == nil {
			r.Errorf("R15.6: loop blocks not located in the flow graph of genGlobalVarDecl")
			return
		}
		// reach head from start without passing through done (leaving the loop)
		seen := map[*cfg.Block]bool{done: true}
		stack := append([]*cfg.Block(nil), start.Succs...)
		for len(stack) > 0 {
			b := stack[len(stack)-1]
			stack = stack[:len(stack)-1]
			if seen[b] {
				continue
			}
			seen[b] = true
			if b == head {
				bad = append(bad, "the variable appended at "+ic.pos(sel.Pos())+" is followed by the rest of the scan at "+ic.pos(loop.Pos()))
				break
			}
			stack = append(stack, b.Succs...)
		}
	}
	if !anyLoop {
		r.Errorf("R15.6: the selection statement is not inside a loop")
		return
	}
	// every scan over the candidates starts at the first one: an index loop bounded by the
	// length of a []*node begins at the constant 0 (a range loop always does)
	ast.Inspect(fi.Decl.Body, func(n ast.Node) bool {
		fs, ok := n.(*ast.ForStmt)
		if !ok || fs.Cond == nil {
			return true
		}
		be, ok := unparen(fs.Cond).(*ast.BinaryExpr)
		if !ok || be.Op != token.LSS {
			return true
		}
		c, ok := unparen(be.Y).(*ast.CallExpr)
		if !ok || !isBuiltinCall(ic.Info, c, "len") || len(c.Args) != 1 {
			return true
		}
		if t := ic.Info.TypeOf(c.Args[0]); t == nil || types.TypeString(t, nil) != "[]*github.com/traefik/yaegi/interp.node" {
			return true
		}
		fromZero := false
		if as, ok := fs.Init.(*ast.AssignStmt); ok && len(as.Rhs) == 1 {
			if tv, ok := ic.Info.Types[as.Rhs[0]]; ok && tv.Value != nil && tv.Value.ExactString() == "0" {
				fromZero = true
			}
		}
		if !fromZero {
			bad = append(bad, "the scan at "+ic.pos(fs.Pos())+" over "+types.ExprString(c.Args[0])+" does not start at its first element")
		}
		return true
	})
	r.Check(len(bad) == 0, "R15.6", "genGlobalVarDecl/earliest-ready-first", ic.pos(sels[0].Pos()), "after a variable is selected the scan over the pending variables is left (and restarted)",
		"after a variable has been appended to the initialisation order the same scan continues with the variables declared after it ("+strings.Join(bad, "; ")+"): a variable declared earlier that has just become ready is initialised after them, e.g. var a = c; var b = ..; var c = ..; var d = .. runs b c d a where the Go specification requires b c a d")
}

// c15R7: the dependency collector recognises a package variable by its symbol: global flag
// set and declaration node recorded. Every symbol of a package-level variable created by the
// global pass must therefore carry both, whichever declaration form created it
// (var x = .., var a, b = f(), x := ..): a variable whose symbol lacks them is invisible to
// the ordering, and a variable that uses it is initialised before it.
func c15R7(ic *IC, r *Report) {
	fi := ic.fn(r, "Interpreter.gta")
	if fi == nil {
		return
	}
	symT, _ := ic.Pk.Types.Scope().Lookup("symbol").(*types.TypeName)
	nodeFld, globalFld := ic.field("symbol", "node"), ic.field("symbol", "global")
	if symT == nil || nodeFld == nil || globalFld == nil {
		r.Errorf("anchor not resolved: type symbol, fields node/global")
		return
	}
	constName := func(e ast.Expr) string {
		if id, ok := unparen(e).(*ast.Ident); ok {
			if c, ok := ic.Info.Uses[id].(*types.Const); ok {
				return c.Name()
			}
		}
		return ""
	}
	// var-symbol literals in a body: (has node, has global) per literal
	type lit struct {
		pos          token.Pos
		node, global bool
	}
	litsIn := func(body ast.Node) []lit {
		var out []lit
		ast.Inspect(body, func(n ast.Node) bool {
			cl, ok := n.(*ast.CompositeLit)
			if !ok {
				return true
			}
			if t := ic.Info.TypeOf(cl); t == nil || !types.Identical(t, symT.Type()) {
				return true
			}
			l := lit{pos: cl.Pos()}
			isVar := false
			for _, e := range cl.Elts {
				if kv, ok := e.(*ast.KeyValueExpr); ok {
					switch types.ExprString(kv.Key) {
					case "kind":
						isVar = constName(kv.Value) == "varSym"
					case "node":
						l.node = true
					case "global":
						l.global = true
					}
				}
			}
			if isVar {
				out = append(out, l)
			}
			return true
		})
		return out
	}
	// does the collector demand the global flag of a dependency?
	needGlobal := false
	if col := ic.F["getVarDependencies"]; col != nil && col.Decl.Body != nil {
		ast.Inspect(col.Decl.Body, func(m ast.Node) bool {
			if se, ok := m.(*ast.SelectorExpr); ok && selField(ic.Info, se) == globalFld {
				needGlobal = true
			}
			return true
		})
	} else {
		r.Errorf("anchor not resolved: getVarDependencies")
		return
	}
	n := 0
	ast.Inspect(fi.Decl.Body, func(nd ast.Node) bool {
		cc, ok := nd.(*ast.CaseClause)
		if !ok || len(cc.List) == 0 || constName(cc.List[0]) == "" {
			return true
		}
		kindName := constName(cc.List[0])
		var lits []lit
		var via []string
		for _, s := range cc.Body {
			lits = append(lits, litsIn(s)...)
			ast.Inspect(s, func(m ast.Node) bool {
				if c, ok := m.(*ast.CallExpr); ok {
					if f, ok := calleeOf(ic.Info, c).(*types.Func); ok && f.Pkg() == ic.Pk.Types {
						// helpers only (plain functions); the recursive compilation of sub-expressions
						// through (*Interpreter).cfg creates local symbols, not package variables
						if d := ic.G.Funcs[f]; d != nil && d.Decl.Body != nil && d != fi && d.Decl.Recv == nil {
							if ls := litsIn(d.Decl.Body); len(ls) > 0 {
								lits = append(lits, ls...)
								via = append(via, f.Name())
							}
						}
					}
				}
				return true
			})
		}
		if len(lits) == 0 {
			return true
		}
		n++
		// completion in the clause: assignments of .node and .global
		setsNode, setsGlobal := false, false
		for _, s := range cc.Body {
			ast.Inspect(s, func(m ast.Node) bool {
				if as, ok := m.(*ast.AssignStmt); ok {
					for _, l := range as.Lhs {
						switch selField(ic.Info, l) {
						case nodeFld:
							setsNode = true
						case globalFld:
							setsGlobal = true
						}
					}
				}
				return true
			})
		}
		var bad []string
		for _, l := range lits {
			if (!l.node && !setsNode) || (needGlobal && !l.global && !setsGlobal) {
				what := []string{}
				if !l.node && !setsNode {
					what = append(what, "declaration node")
				}
				if needGlobal && !l.global && !setsGlobal {
					what = append(what, "global flag (which the collector demands)")
				}
				bad = append(bad, "symbol created at "+ic.pos(l.pos)+" has no "+strings.Join(what, " and no "))
			}
		}
		viaTxt := ""
		if len(via) > 0 {
			viaTxt = " (through " + strings.Join(dedupStr(via), ", ") + ")"
		}
		r.Check(len(bad) == 0, "R15.7", "gta/case:"+kindName+"/var-symbol-tracked", ic.pos(cc.Pos()), "the variable symbols created for this declaration form"+viaTxt+" carry the declaration node and the global flag",
			"the "+kindName+" case of gta creates variable symbols"+viaTxt+" that the dependency collector cannot see: "+strings.Join(bad, "; ")+": a package variable declared in this form (var a, b = f()) is not a dependency of the variables that use it, which are then initialised first")
		return true
	})
	if n < 2 {
		r.Errorf("R15.7: %d declaration forms creating variable symbols found in gta (defineStmt, defineXStmt and valueSpec expected)", n)
	}
}

// c15R8: forward references. Package-level declarations may refer to functions and types
// declared later in the package (or in another file); the global pass handles that by queuing
// the declaration for another pass. Sibling agreement between the two declaration forms that
// define variables from expressions: in the defineStmt and defineXStmt cases of gta, the error
// of a resolving call (nodeType, cfg, compDefineX, ...) is never assigned to the pass's own
// error result: it is stashed and the node is appended to the revisit list.
func c15R8(ic *IC, r *Report) {
	fi := ic.fn(r, "Interpreter.gta")
	if fi == nil {
		return
	}
	info := ic.Info
	constName := func(e ast.Expr) string {
		if id, ok := unparen(e).(*ast.Ident); ok {
			if c, ok := info.Uses[id].(*types.Const); ok {
				return c.Name()
			}
		}
		return ""
	}
	// the pass's error variable: the named error result, or the captured `err` of the closure
	var errObjs = map[types.Object]bool{}
	if fi.Decl.Type.Results != nil {
		for _, f := range fi.Decl.Type.Results.List {
			for _, nm := range f.Names {
				if isErrorType(info.TypeOf(f.Type)) {
					errObjs[info.ObjectOf(nm)] = true
				}
			}
		}
	}
	// or the function-level `var err error` that the walk closure assigns and gta returns
	for _, st := range fi.Decl.Body.List {
		if ds, ok := st.(*ast.DeclStmt); ok {
			if gd, ok := ds.Decl.(*ast.GenDecl); ok {
				for _, sp := range gd.Specs {
					if vs, ok := sp.(*ast.ValueSpec); ok && vs.Type != nil && isErrorType(info.TypeOf(vs.Type)) {
						for _, nm := range vs.Names {
							errObjs[info.ObjectOf(nm)] = true
						}
					}
				}
			}
		}
	}
	if len(errObjs) == 0 {
		r.Errorf("R15.8: the error variable of gta was not identified")
		return
	}
	n := 0
	ast.Inspect(fi.Decl.Body, func(nd ast.Node) bool {
		cc, ok := nd.(*ast.CaseClause)
		if !ok || len(cc.List) == 0 {
			return true
		}
		kind := ""
		for _, e := range cc.List {
			if k := constName(e); k == "defineStmt" || k == "defineXStmt" {
				kind = k
			}
		}
		if kind == "" {
			return true
		}
		n++
		var direct []string
		revisits := false
		for _, s := range cc.Body {
			ast.Inspect(s, func(m ast.Node) bool {
				as, ok := m.(*ast.AssignStmt)
				if !ok {
					return true
				}
				// revisit = append(revisit, n)
				if len(as.Rhs) == 1 {
					if c, ok := unparen(as.Rhs[0]).(*ast.CallExpr); ok {
						if id, ok := c.Fun.(*ast.Ident); ok && id.Name == "append" && len(as.Lhs) == 1 && types.ExprString(as.Lhs[0]) == "revisit" {
							revisits = true
						}
					}
				}
				if len(as.Rhs) != 1 {
					return true
				}
				call, ok := unparen(as.Rhs[0]).(*ast.CallExpr)
				if !ok || !inPkgCallee(ic, call) {
					return true
				}
				if cn, _ := calleeName(ic, call); cn == "node.cfgErrorf" {
					return true // a verdict of the pass itself
				}
				last := as.Lhs[len(as.Lhs)-1]
				if id, ok := last.(*ast.Ident); ok && errObjs[info.ObjectOf(id)] {
					cn, _ := calleeName(ic, call)
					direct = append(direct, cn+" at "+ic.pos(as.Pos()))
				}
				return true
			})
		}
		r.Check(len(direct) == 0 && revisits, "R15.8", "gta/case:"+kind+"/unresolved-is-retried", ic.pos(cc.Pos()), "a right-hand side that cannot be resolved yet queues the declaration for another pass",
			"the "+kind+" case of gta returns the error of "+strings.Join(direct, ", ")+" at once instead of queuing the declaration for another pass (as the defineStmt case does): var a, b = f() placed before the declaration of f is rejected with 'assignment mismatch: 2 variables but f returns 0 values'")
		return true
	})
	if n < 2 {
		r.Errorf("R15.8: %d of the defineStmt/defineXStmt cases found in gta", n)
	}
}

// c15R10: the package variables of all the files handed to genGlobalVars are ordered
// together (dependencies cross files). In the function that collects the declarations of each
// root (it calls the per-root collector in a loop over its []*node parameter), the call of the
// ordering routine (an in-package function reaching the dependency collector) is made outside
// every loop and receives the slice accumulated over the roots.
func c15R10(ic *IC, r *Report) {
	info := ic.Info
	depFn := ic.F["getVarDependencies"]
	if depFn == nil || depFn.Obj == nil {
		r.Errorf("anchor not resolved: getVarDependencies")
		return
	}
	// in-package functions reaching the dependency collector by direct calls (depth 2)
	reaches := map[*types.Func]bool{depFn.Obj: true}
	for round := 0; round < 2; round++ {
		for _, fi := range ic.F {
			if fi.Decl.Body == nil || fi.Obj == nil || reaches[fi.Obj] {
				continue
			}
			ast.Inspect(fi.Decl.Body, func(m ast.Node) bool {
				if c, ok := m.(*ast.CallExpr); ok {
					if f, ok := calleeOf(info, c).(*types.Func); ok && reaches[f] {
						reaches[fi.Obj] = true
					}
				}
				return true
			})
		}
	}
	n := 0
	for _, name := range sortedKeys(ic.F) {
		fi := ic.F[name]
		if fi.Decl.Body == nil || fi.Obj == nil || fi.Decl.Recv != nil {
			continue
		}
		sig := fi.Obj.Type().(*types.Signature)
		if sig.Params().Len() < 1 || types.TypeString(sig.Params().At(0).Type(), func(*types.Package) string { return "" }) != "[]*node" {
			continue
		}
		roots := sig.Params().At(0)
		// a loop over the roots accumulating a slice
		accum := map[types.Object]bool{}
		hasLoop := false
		ast.Inspect(fi.Decl.Body, func(m ast.Node) bool {
			rs, ok := m.(*ast.RangeStmt)
			if !ok {
				return true
			}
			if id, ok := unparen(rs.X).(*ast.Ident); !ok || info.ObjectOf(id) != roots {
				return true
			}
			// the loop collects the declarations of each root: it calls a func(*node) []*node
			collects := false
			for _, c := range allCalls(rs.Body) {
				if f, ok := calleeOf(info, c).(*types.Func); ok && f.Pkg() == ic.Pk.Types {
					fs := f.Type().(*types.Signature)
					if fs.Recv() == nil && fs.Params().Len() == 1 && fs.Results().Len() == 1 && isNamedPtr(fs.Params().At(0).Type(), "node") &&
						types.TypeString(fs.Results().At(0).Type(), func(*types.Package) string { return "" }) == "[]*node" {
						collects = true
					}
				}
			}
			if !collects {
				return true
			}
			hasLoop = true
			ast.Inspect(rs.Body, func(k ast.Node) bool {
				as, ok := k.(*ast.AssignStmt)
				if !ok || len(as.Lhs) != 1 || len(as.Rhs) != 1 || as.Tok != token.ASSIGN {
					return true
				}
				if c, ok := unparen(as.Rhs[0]).(*ast.CallExpr); ok && isBuiltinCall(info, c, "append") {
					if id, ok := as.Lhs[0].(*ast.Ident); ok {
						accum[info.ObjectOf(id)] = true
					}
				}
				return true
			})
			return true
		})
		if !hasLoop {
			continue
		}
		for _, c := range allCalls(fi.Decl.Body) {
			f, ok := calleeOf(info, c).(*types.Func)
			if !ok || !reaches[f] || f == fi.Obj || len(c.Args) == 0 {
				continue
			}
			n++
			inLoop := false
			for _, p := range enclosingPath(fi.Decl.Body, c) {
				if loopBody(p) != nil {
					inLoop = true
				}
			}
			id, isID := unparen(c.Args[0]).(*ast.Ident)
			whole := isID && accum[info.ObjectOf(id)]
			why := ""
			switch {
			case inLoop:
				why = "is made inside a loop (once per root)"
			case !whole:
				why = "receives " + types.ExprString(c.Args[0]) + ", not the list accumulated over all the roots"
			}
			r.Check(why == "", "R15.10", fmt.Sprintf("%s/ordering-call#%d/all-files-together", name, n), ic.pos(c.Pos()), "the declarations of all the roots are ordered in one call",
				"in "+name+" the call of "+f.Name()+" "+why+": the variables of each file are ordered separately and chained file after file, so a variable whose initializer depends on a variable declared in a later file of the package is initialised first and sees the zero value")
		}
	}
	if n == 0 {
		r.Errorf("R15.10: no call of the ordering routine found in a function looping over its []*node roots (genGlobalVars expected)")
	}
}

func allCalls(n ast.Node) []*ast.CallExpr {
	var out []*ast.CallExpr
	ast.Inspect(n, func(m ast.Node) bool {
		if c, ok := m.(*ast.CallExpr); ok {
			out = append(out, c)
		}
		return true
	})
	return out
}

// c15R11: importing a source package allocates the variables of that package in the global
// frame (the nested importSrc grows universe.types). The importer's scope must take over the
// new layout before it allocates anything else, whatever the form of the import (named, dot or
// blank), otherwise its next package variables reuse the slots of the imported package and the
// importer's initialisation overwrites the state the imported package's initialisation
// produced. In gta, the block executed after a successful importSrc assigns
// <scope>.types = <interp>.universe.types before any statement that can leave the block.
func c15R11(ic *IC, r *Report) {
	fi := ic.fn(r, "Interpreter.gta")
	if fi == nil {
		return
	}
	info := ic.Info
	typesFld := ic.field("scope", "types")
	if typesFld == nil {
		r.Errorf("anchor not resolved: scope.types")
		return
	}
	n := 0
	ast.Inspect(fi.Decl.Body, func(m ast.Node) bool {
		ifs, ok := m.(*ast.IfStmt)
		if !ok || ifs.Init == nil {
			return true
		}
		if len(callsIn(info, ifs.Init, false, "interp.Interpreter.importSrc")) == 0 {
			return true
		}
		// the success branch: err == nil -> Body, err != nil -> Else
		var success *ast.BlockStmt
		if be, ok := unparen(ifs.Cond).(*ast.BinaryExpr); ok && types.ExprString(be.Y) == "nil" {
			if be.Op == token.EQL {
				success = ifs.Body
			} else if eb, ok := ifs.Else.(*ast.BlockStmt); ok && be.Op == token.NEQ {
				success = eb
			}
		}
		if success == nil {
			return true
		}
		n++
		state := "missing"
		for _, st := range success.List {
			if as, ok := st.(*ast.AssignStmt); ok && len(as.Lhs) == 1 && selField(info, as.Lhs[0]) == typesFld &&
				strings.HasSuffix(types.ExprString(as.Rhs[0]), "universe.types") {
				state = "ok"
				break
			}
			leaves := false
			depth := 0
			var visit func(k ast.Node) bool
			visit = func(k ast.Node) bool {
				switch x := k.(type) {
				case *ast.FuncLit:
					return false
				case *ast.ForStmt, *ast.RangeStmt, *ast.SwitchStmt, *ast.TypeSwitchStmt, *ast.SelectStmt:
					depth++
					for _, c := range childrenOf(k) {
						ast.Inspect(c, visit)
					}
					depth--
					return false
				case *ast.ReturnStmt:
					leaves = true
				case *ast.BranchStmt:
					if x.Tok == token.GOTO || x.Label != nil || depth == 0 {
						leaves = true
					}
				}
				return true
			}
			ast.Inspect(st, visit)
			if leaves {
				state = "a statement at " + ic.pos(st.Pos()) + " can leave the block first"
				break
			}
		}
		r.Check(state == "ok", "R15.11", fmt.Sprintf("gta/source-import#%d/scope-takes-over-the-frame-layout", n), ic.pos(ifs.Pos()), "the scope's type vector is resynchronised before anything else",
			"after a successful importSrc the importing scope does not always take over the grown global frame layout (scope.types = universe.types: "+state+"): for that form of import (e.g. import _ \"driver\") the importer's next package variables are allotted the slots of the imported package's variables, and the importer's initialisation overwrites the state that package's initialisation produced")
		return true
	})
	if n == 0 {
		r.Errorf("R15.11: no `if ... = interp.importSrc(...); err == nil` found in gta")
	}
}

// c15R12: the dependency collector recognises a reference to an interpreted method by the
// action of the selector node (the constants it compares node.action with). The compiler must
// therefore tag every selector it resolves to an interpreted method with one of those actions,
// whatever the form of the reference (t.m, p.m, the method expression T.m): in each block
// guarded by a successful (*itype).lookupMethod whose result is stored in the node's val, every
// assignment of the node's action assigns a constant the collector tests, and there is one.
func c15R12(ic *IC, r *Report) {
	info := ic.Info
	col := ic.F["getVarDependencies"]
	if col == nil || col.Decl.Body == nil {
		r.Errorf("anchor not resolved: getVarDependencies")
		return
	}
	actionFld := ic.field("node", "action")
	valFld := ic.field("node", "val")
	accepted := map[string]bool{}
	ast.Inspect(col.Decl.Body, func(n ast.Node) bool {
		be, ok := n.(*ast.BinaryExpr)
		if !ok || be.Op != token.EQL || selField(info, be.X) != actionFld {
			return true
		}
		if id := identOf(be.Y); id != nil {
			if c, ok := info.Uses[id].(*types.Const); ok {
				accepted[c.Name()] = true
			}
		}
		return true
	})
	if len(accepted) == 0 {
		r.Errorf("R15.12: the dependency collector compares node.action with no constant (method references are expected to be recognised by their action)")
		return
	}
	n := 0
	for _, name := range sortedKeys(ic.F) {
		fi := ic.F[name]
		if fi.Decl.Body == nil {
			continue
		}
		idx := 0
		ast.Inspect(fi.Decl.Body, func(m ast.Node) bool {
			ifs, ok := m.(*ast.IfStmt)
			if !ok {
				return true
			}
			as, ok := ifs.Init.(*ast.AssignStmt)
			if !ok || len(as.Rhs) != 1 || len(as.Lhs) == 0 {
				return true
			}
			c, ok := unparen(as.Rhs[0]).(*ast.CallExpr)
			if !ok || !isCallTo(info, c, "interp.itype.lookupMethod", "interp.itype.lookupMethod2") {
				return true
			}
			mid, ok := as.Lhs[0].(*ast.Ident)
			if !ok {
				return true
			}
			mobj := info.ObjectOf(mid)
			stores := false
			var actions []*ast.AssignStmt
			ast.Inspect(ifs.Body, func(k ast.Node) bool {
				a, ok := k.(*ast.AssignStmt)
				if !ok || len(a.Lhs) != 1 || len(a.Rhs) != 1 {
					return true
				}
				if selField(info, a.Lhs[0]) == valFld {
					if rid := identOf(a.Rhs[0]); rid != nil && info.ObjectOf(rid) == mobj {
						stores = true
					}
				}
				if selField(info, a.Lhs[0]) == actionFld {
					actions = append(actions, a)
				}
				return true
			})
			if !stores {
				return true
			}
			idx++
			n++
			var bad []string
			for _, a := range actions {
				ok := false
				if id := identOf(a.Rhs[0]); id != nil {
					if c, isC := info.Uses[id].(*types.Const); isC && accepted[c.Name()] {
						ok = true
					}
				}
				if !ok {
					bad = append(bad, types.ExprString(a.Lhs[0])+" = "+types.ExprString(a.Rhs[0])+" at "+ic.pos(a.Pos()))
				}
			}
			if len(actions) == 0 {
				bad = append(bad, "no assignment of the node's action")
			}
			r.Check(len(bad) == 0, "R15.12", fmt.Sprintf("%s/interpreted-method-reference#%d/tagged-for-the-collector", name, idx), ic.pos(ifs.Pos()), "the selector is tagged with an action the dependency collector tests",
				name+" resolves a selector to an interpreted method and "+strings.Join(bad, ", ")+", while the dependency collector recognises method references by node.action in {"+strings.Join(sortedKeys(accepted), ", ")+"}: the body of a method referenced in that form (e.g. the method expression T.m) is not followed, so a package variable it reads can be initialised after the variable whose initializer calls it")
			return true
		})
	}
	if n == 0 {
		r.Errorf("R15.12: no block resolving a selector to an interpreted method (lookupMethod result stored in node.val) found")
	}
}

func init() {
	ruleText["R15.13"] = "the dependency collector resolves by name only what can name a package variable: it skips the blank identifier (all blanks share one symbol), the field names of a struct literal, and walks a function literal of the initialiser with the symbols cfg resolved (its locals shadow package variables)"
}

// c15R13: three positive clauses on the by-name resolution of the collector. Outside declared
// function bodies the collector looks identifiers up by name in the package scope; a name that
// cannot denote a package variable there creates a false edge: an order different from Go's, or
// a "variable definition loop" for a valid program. Found D60 (blank), D61 (field names), D62
// (locals of a function literal).
func c15R13(ic *IC, r *Report) {
	fi := ic.fn(r, "getVarDependencies")
	if fi == nil {
		return
	}
	info := ic.Info
	identFld := ic.field("node", "ident")
	kindFld := ic.field("node", "kind")
	ancFld := ic.field("node", "anc")
	if identFld == nil || kindFld == nil || ancFld == nil {
		r.Errorf("anchor not resolved: node.ident / node.kind / node.anc")
		return
	}
	// by-name lookups: calls of (*scope).lookup with an argument selecting node.ident
	var lookups []*ast.CallExpr
	ast.Inspect(fi.Decl.Body, func(n ast.Node) bool {
		c, ok := n.(*ast.CallExpr)
		if !ok {
			return true
		}
		f, ok := calleeOf(info, c).(*types.Func)
		if !ok || f.Name() != "lookup" || f.Pkg() != ic.Pk.Types {
			return true
		}
		for _, a := range c.Args {
			if selField(info, a) == identFld {
				lookups = append(lookups, c)
			}
		}
		return true
	})
	if len(lookups) == 0 {
		r.Errorf("R15.13: no by-name lookup (scope.lookup(n.ident)) found in getVarDependencies")
		return
	}
	skips := func(ifs *ast.IfStmt) bool { // the body leaves the callback without resolving
		if len(ifs.Body.List) == 0 {
			return false
		}
		_, isRet := ifs.Body.List[len(ifs.Body.List)-1].(*ast.ReturnStmt)
		return isRet
	}
	blankAt, keyAt, litAt := token.NoPos, token.NoPos, token.NoPos
	ast.Inspect(fi.Decl.Body, func(n ast.Node) bool {
		ifs, ok := n.(*ast.IfStmt)
		if !ok || !skips(ifs) {
			return true
		}
		ast.Inspect(ifs.Cond, func(k ast.Node) bool {
			switch e := k.(type) {
			case *ast.BinaryExpr:
				if e.Op != token.EQL {
					return true
				}
				for _, side := range [][2]ast.Expr{{e.X, e.Y}, {e.Y, e.X}} {
					if selField(info, side[0]) == identFld {
						if tv, ok := info.Types[side[1]]; ok && tv.Value != nil && tv.Value.ExactString() == `"_"` && !condHasOr(ifs.Cond) {
							blankAt = ifs.Pos()
						}
					}
					if se, ok := unparen(side[0]).(*ast.SelectorExpr); ok && selField(info, se) == kindFld {
						if id := identOf(side[1]); id != nil {
							if c, ok := info.ObjectOf(id).(*types.Const); ok {
								if c.Name() == "keyValueExpr" && selField(info, se.X) == ancFld {
									// together with a struct test in the same condition
									hasStruct := false
									ast.Inspect(ifs.Cond, func(q ast.Node) bool {
										if id, ok := q.(*ast.Ident); ok && (id.Name == "isStruct" || id.Name == "structT") {
											hasStruct = true
										}
										return true
									})
									if hasStruct && !condHasOr(ifs.Cond) {
										keyAt = ifs.Pos()
									}
								}
								if c.Name() == "funcLit" && selField(info, se.X) != ancFld {
									// the body re-enters the walk with the constant true
									for _, call := range allCalls(ifs.Body) {
										if _, isVar := calleeOf(info, call).(*types.Var); !isVar {
											continue
										}
										for _, a := range call.Args {
											if tv, ok := info.Types[a]; ok && tv.Value != nil && tv.Value.ExactString() == "true" {
												litAt = ifs.Pos()
											}
										}
									}
								}
							}
						}
					}
				}
			case *ast.CallExpr:
				if f, ok := calleeOf(info, e).(*types.Func); ok && f.Name() == "isBlank" && !condHasOr(ifs.Cond) {
					blankAt = ifs.Pos()
				}
			}
			return true
		})
		return true
	})
	first := lookups[0].Pos()
	for _, l := range lookups {
		if l.Pos() < first {
			first = l.Pos()
		}
	}
	at := func(p token.Pos) string {
		if p == token.NoPos {
			return ic.pos(first)
		}
		return ic.pos(p)
	}
	r.Check(blankAt != token.NoPos && blankAt < first, "R15.13", "getVarDependencies/skip:blank-identifier", at(blankAt), "the blank identifier is never looked up by name",
		"the dependency collector looks up every identifier of a declaration by name ("+ic.pos(first)+") without first excluding the blank identifier: all blank variables share the symbol \"_\", whose declaration node is the last var _ = ..., so every var _ depends on the last one: var _ = f(1); var _ = f(2); var _ = f(3) initialises 3 1 2")
	r.Check(keyAt != token.NoPos && keyAt < first, "R15.13", "getVarDependencies/skip:struct-literal-field-name", at(keyAt), "the field names of a struct literal are never looked up by name",
		"the dependency collector looks up the keys of a keyed struct literal by name in the package scope: var a = T{b: 1}; var b = a.b is reported as a variable definition loop")
	r.Check(litAt != token.NoPos && litAt < first, "R15.13", "getVarDependencies/function-literal-uses-resolved-symbols", at(litAt), "a function literal of the initialiser is walked with the symbols resolved by cfg",
		"the dependency collector looks up the identifiers of a function literal of the initialiser by name in the package scope: its parameters and locals are taken for the package variables of the same name (var a = func() int { b := 1; return b }(); var b = a is reported as a variable definition loop)")
}

func init() {
	ruleText["R15.14"] = "in the dependency collector every reference to another package variable becomes a dependency: in the case of the symbol-kind switch that tests varSym, the append to the dependency list is a direct statement of the case, and nothing before it can leave the case (no break, return, continue or goto, no nesting under a further condition) - in particular a variable declared without initialiser is a dependency too: it is zeroed by its own declaration, which must run before the initialisers that write it"
}

// c15R14: round-6 seed. Variables declared without initialiser were no longer dependencies:
// their zeroing ran after the initialiser (a function call) that had written them.
func c15R14(ic *IC, r *Report) {
	info := ic.Info
	fi := ic.fn(r, "getVarDependencies")
	if fi == nil {
		return
	}
	n := 0
	ast.Inspect(fi.Decl.Body, func(q ast.Node) bool {
		cc, ok := q.(*ast.CaseClause)
		if !ok {
			return true
		}
		isVar := false
		for _, e := range cc.List {
			ast.Inspect(e, func(z ast.Node) bool {
				if id, ok := z.(*ast.Ident); ok {
					if c, ok := info.Uses[id].(*types.Const); ok && c.Name() == "varSym" {
						isVar = true
					}
				}
				return true
			})
		}
		if !isVar {
			return true
		}
		n++
		why := "the case appends nothing to the dependency list"
		for _, st := range cc.Body {
			if as, ok := st.(*ast.AssignStmt); ok && len(as.Rhs) == 1 {
				if c, ok := unparen(as.Rhs[0]).(*ast.CallExpr); ok {
					if id := identOf(c.Fun); id != nil && id.Name == "append" {
						why = ""
						break
					}
				}
			}
			leaves := ""
			ast.Inspect(st, func(z ast.Node) bool {
				switch y := z.(type) {
				case *ast.FuncLit:
					return false
				case *ast.BranchStmt:
					leaves = y.Tok.String() + " at " + ic.pos(y.Pos())
				case *ast.ReturnStmt:
					leaves = "return at " + ic.pos(y.Pos())
				}
				return true
			})
			if leaves != "" {
				why = "the case can be left before the append (" + leaves + ")"
				break
			}
			// the append nested in this statement (under a further condition)?
			nested := false
			ast.Inspect(st, func(z ast.Node) bool {
				if c, ok := z.(*ast.CallExpr); ok {
					if id := identOf(c.Fun); id != nil && id.Name == "append" {
						nested = true
					}
				}
				return true
			})
			if nested {
				why = "the append is nested under " + ic.pos(st.Pos())
				break
			}
		}
		r.Check(why == "", "R15.14", fmt.Sprintf("getVarDependencies/variable-case#%d/every-variable-is-a-dependency", n), ic.pos(cc.Pos()), "the case of variable symbols appends the declaration unconditionally",
			"in getVarDependencies "+why+": some references to package variables are not recorded as dependencies, so the variable they designate can be initialised (or zeroed, for a declaration without initialiser) after the initialiser that uses or writes it - var a = f() with f writing b, and var b int declared later, ends with b == 0")
		return true
	})
	if n == 0 {
		r.Errorf("R15.14: no case testing varSym found in getVarDependencies")
	}
}

func init() {
	ruleText["R15.15"] = "the names declared inside a type expression of an initialiser (fields of a struct type, methods of an interface type, parameters of a function type) are not references: the dependency collector ignores an identifier whose parent is a field expression unless it is its last child (the type)"
}

// c15R15: found through the round-6 report on C15 (E2). var c5 = struct{ port int }{port: ...}
// followed by var port = ... was initialised after port (false dependency), and two such
// declarations naming each other's fields were rejected as a variable definition loop.
func c15R15(ic *IC, r *Report) {
	fi := ic.fn(r, "getVarDependencies")
	if fi == nil {
		return
	}
	found := ""
	ast.Inspect(fi.Decl.Body, func(n ast.Node) bool {
		ifs, ok := n.(*ast.IfStmt)
		if !ok {
			return true
		}
		if fieldNameTest(ic, ifs.Cond) && len(ifs.Body.List) > 0 {
			if rs, ok := ifs.Body.List[len(ifs.Body.List)-1].(*ast.ReturnStmt); ok && len(rs.Results) == 1 && types.ExprString(rs.Results[0]) == "false" {
				found = ic.pos(ifs.Pos())
			}
		}
		return true
	})
	r.Check(found != "", "R15.15", "getVarDependencies/declared-names-of-type-expressions-ignored", ic.pos(fi.Decl.Pos()), "names of field expressions are skipped ("+found+")",
		"getVarDependencies looks up every identifier of an initialiser in the package scope, the names declared by a type expression included: var c5 = struct{ port int }{port: f()} depends on a later var port (initialised in the wrong order), and var a = struct{ b int }{...}; var b = struct{ a int }{...} is rejected as a variable definition loop")
}

func init() {
	ruleText["R15.16"] = "the dependencies that pass through the bodies of the functions and methods an initialiser refers to are followed for every initialiser: in getVarDependencies each recursive descent of the walking closure is guarded only by conditions on the node and symbol at hand and on the set of bodies already visited - not by a variable of the collector computed beforehand from the shape of the initialiser (a function stored uncalled in a table is called later, through the variable)"
}

// c15R16: round-8 seed. "An initialiser which calls nothing executes no function body" made
// the descent conditional on a flag computed by a pre-pass over the initialiser.
func c15R16(ic *IC, r *Report) {
	info := ic.Info
	fi := ic.fn(r, "getVarDependencies")
	if fi == nil {
		return
	}
	params := map[types.Object]bool{}
	for _, f := range fi.Decl.Type.Params.List {
		for _, nm := range f.Names {
			params[info.ObjectOf(nm)] = true
		}
	}
	// the walking closure: a function literal assigned to a variable that it calls itself
	var lit *ast.FuncLit
	var self types.Object
	ast.Inspect(fi.Decl.Body, func(q ast.Node) bool {
		as, ok := q.(*ast.AssignStmt)
		if !ok || len(as.Lhs) != 1 || len(as.Rhs) != 1 {
			return true
		}
		fl, ok := as.Rhs[0].(*ast.FuncLit)
		id := identOf(as.Lhs[0])
		if !ok || id == nil {
			return true
		}
		v := info.ObjectOf(id)
		rec := false
		ast.Inspect(fl.Body, func(z ast.Node) bool {
			if c, ok := z.(*ast.CallExpr); ok {
				if cid := identOf(c.Fun); cid != nil && info.ObjectOf(cid) == v {
					rec = true
				}
			}
			return true
		})
		if rec && lit == nil {
			lit, self = fl, v
		}
		return true
	})
	if lit == nil {
		r.Errorf("R15.16: no recursive walking closure found in getVarDependencies")
		return
	}
	n := 0
	ast.Inspect(lit.Body, func(q ast.Node) bool {
		c, ok := q.(*ast.CallExpr)
		if !ok {
			return true
		}
		if cid := identOf(c.Fun); cid == nil || info.ObjectOf(cid) != self {
			return true
		}
		n++
		bad := ""
		path := enclosingPath(lit.Body, c)
		for i, p := range path {
			var conds []ast.Expr
			switch y := p.(type) {
			case *ast.IfStmt:
				// only when the call is in the body or the else branch (not in the condition itself)
				if i+1 < len(path) && path[i+1] != ast.Node(y.Cond) {
					conds = append(conds, y.Cond)
				}
			case *ast.CaseClause:
				conds = append(conds, y.List...)
			}
			for _, e := range conds {
				ast.Inspect(e, func(z ast.Node) bool {
					id, ok := z.(*ast.Ident)
					if !ok {
						return true
					}
					v, ok := info.Uses[id].(*types.Var)
					if !ok || v.IsField() || params[v] || v.Pkg() != ic.Pk.Types {
						return true
					}
					if v.Pos() >= lit.Pos() && v.Pos() <= lit.End() {
						return true // a local of the closure
					}
					if v.Pos() < fi.Decl.Pos() || v.Pos() > fi.Decl.End() {
						return true // package level
					}
					if _, isMap := v.Type().Underlying().(*types.Map); isMap {
						return true // the set of bodies already visited
					}
					bad = v.Name() + " (declared at " + ic.pos(v.Pos()) + ", tested at " + ic.pos(id.Pos()) + ")"
					return true
				})
			}
		}
		r.Check(bad == "", "R15.16", fmt.Sprintf("getVarDependencies/descent#%d/whatever-the-shape-of-the-initialiser", n), ic.pos(c.Pos()), "the descent is guarded by the node, the symbol and the visited set only",
			"in getVarDependencies the descent into a referenced body at "+ic.pos(c.Pos())+" depends on "+bad+", a variable of the collector computed outside the walk: for the initialisers that make it false the functions and methods they mention are not followed, so `var table = map[string]func() int{\"k\": f}` (f reads g) no longer depends on g and `var x = table[\"k\"]()` is initialised before g")
		return true
	})
	if n < 2 {
		r.Errorf("R15.16: only %d recursive descents found in the walking closure of getVarDependencies (function and method bodies, function literals expected)", n)
	}
}
