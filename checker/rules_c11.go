package main

import (
	"fmt"
	"go/ast"
	"go/token"
	"go/types"
	"sort"
	"strings"

	"golang.org/x/tools/go/ssa"
)

func init() {
	register("C11", &propMeta{
		Level: "other",
		Explanation: "Persistence clauses behind 'piecewise equals whole': R11.1 the interpreter's persistent tables (global frame, universe, package scopes, source/binary package tables, package names, file set) are stored as a whole only by the constructor (SSA stores to fields of Interpreter) and the root frame's slot vector is replaced only by resizeFrame; " +
			"R11.2 resizeFrame grows the global frame in place: the new vector receives a copy of the old one and only the new tail is zero-initialised; R11.3 a package scope is created only when absent; " +
			"R11.4 every exported evaluation/compilation entry point reaches the one pipeline (CompileAST or importSrc) and the compile passes are called from nowhere else; R11.5 closure values capture a clone of their frame; R11.6 every (re)definition in the global pass gets a fresh symbol and slot; R11.7 the ordering of package variables waits only for variables of the current evaluation; R11.8 the source name is never reset by an anonymous Eval; R11.9 the variables of a multiple-value define are not flagged global. Equality of output/global state across cuts is not decided.",
		Assumptions: []string{"SSA store sites and the static call graph of package interp", "symbol-level redefinition semantics are not decided"},
		Run:         runC11,
	})
	ruleText["R11.1"] = "whole-value stores to Interpreter.frame, universe, scopes, srcPkg, binPkg, pkgNames, fset occur only in New; frame.data of the global frame is stored only by resizeFrame (besides frame constructors)"
	ruleText["R11.2"] = "in resizeFrame the slice stored into interp.frame.data is a fresh slice that is the destination of a copy from the old interp.frame.data, its length is the number of universe types, and the zero-initialising loop covers only universe.types[oldLen:]"
	ruleText["R11.3"] = "every store into Interpreter.scopes[k] is guarded by the absence test of the same key"
	ruleText["R11.5"] = "the frame captured by a closure value (the ancestor of the frames its calls create) is, on every path, the result of (*frame).clone taken when the closure value is created - also when the defining frame is the global frame"
	ruleText["R11.6"] = "in (*Interpreter).gta every &symbol{kind: varSym, global: true} literal takes its index from a direct scope.add call, and in the funcDecl case no assignment targets the node field of a symbol (function symbols are installed as fresh literals)"
	ruleText["R11.7"] = "in genGlobalVarDecl the condition that makes a variable wait for a dependency d tests d's membership in a set filled from every element of the node list being ordered (for _, n := range nodes { set[n] = true })"
	ruleText["R11.8"] = "every assignment to Interpreter.name lies under a condition comparing the assigned value, or the field itself, with the empty string"
	ruleText["R11.9"] = "while compDefineX identifies a redeclared variable by 'lookup level == identifier level', neither compDefineX nor the defineXStmt case of gta sets symbol.global (literal key or assignment)"
	ruleText["R11.10"] = "same analysis as C05/R05.6 (the method-resolution functions keep no state between calls)"
	ruleText["R11.11"] = "every call of genGlobalVars reached from importSrc (directly or through one in-package helper) receives the slice importSrc appends the root node of each file to, and is not made inside a loop"
	ruleText["R11.4"] = "each exported method of *Interpreter named Eval*/Compile*/Execute*/REPL reaches CompileAST, importSrc or Execute on the static call graph; gta, gtaRetry, cfg and genRun are called only from CompileAST, importSrc, Execute and the compile passes themselves"
}

func runC11(c *Config, r *Report) {
	ic, err := loadInterp(c, true)
	if err != nil {
		r.Errorf("%v", err)
		return
	}
	persistent := map[string]bool{"frame": true, "universe": true, "scopes": true, "srcPkg": true, "binPkg": true, "pkgNames": true, "fset": true}
	interpT := ic.Pk.Types.Scope().Lookup("Interpreter")
	frameT := ic.Pk.Types.Scope().Lookup("frame")
	if interpT == nil || frameT == nil {
		r.Errorf("anchor not resolved: types Interpreter / frame")
		return
	}
	ist := interpT.Type().Underlying().(*types.Struct)
	for f := range persistent {
		found := false
		for i := 0; i < ist.NumFields(); i++ {
			if ist.Field(i).Name() == f {
				found = true
			}
		}
		if !found {
			r.Errorf("anchor not resolved: field Interpreter.%s", f)
		}
	}
	writers := map[string]map[string]token.Pos{}
	dataWriters := map[string]token.Pos{}
	for _, fn := range allSSAFuncs(ic.SP) {
		root := fn
		for root.Parent() != nil {
			root = root.Parent()
		}
		for _, b := range fn.Blocks {
			for _, ins := range b.Instrs {
				st, ok := ins.(*ssa.Store)
				if !ok {
					continue
				}
				fa, ok := st.Addr.(*ssa.FieldAddr)
				if !ok {
					continue
				}
				pt := fa.X.Type().Underlying().(*types.Pointer).Elem()
				stt := pt.Underlying().(*types.Struct)
				fname := stt.Field(fa.Field).Name()
				if types.Identical(pt, interpT.Type()) && persistent[fname] {
					if writers[fname] == nil {
						writers[fname] = map[string]token.Pos{}
					}
					writers[fname][ssaFuncName(root)] = st.Pos()
				}
				if types.Identical(pt, frameT.Type()) && fname == "data" {
					dataWriters[ssaFuncName(root)] = st.Pos()
				}
			}
		}
	}
	for _, f := range sortedKeys(persistent) {
		ws := writers[f]
		if len(ws) == 0 {
			r.Errorf("R11.1: no store to Interpreter.%s found (the constructor is expected)", f)
			continue
		}
		for _, w := range sortedKeys(ws) {
			r.Check(w == "New", "R11.1", "Interpreter."+f+"/stored-by:"+w, ic.pos(ws[w]), "allocated once by the constructor",
				"function "+w+" replaces Interpreter."+f+" as a whole: symbols, scopes or values defined by earlier evaluations are lost or detached")
		}
	}
	okData := map[string]bool{"(*Interpreter).resizeFrame": true, "newFrame": true, "(*frame).clone": true}
	for _, w := range sortedKeys(dataWriters) {
		r.Check(okData[w], "R11.1", "frame.data/stored-by:"+w, ic.pos(dataWriters[w]), "frame constructor or the in-place growth of the global frame",
			"function "+w+" replaces a frame's slot vector: values of package-level variables held in the global frame can be dropped between evaluations")
	}
	c11R2(ic, r)
	c11R3(ic, r)
	c11R4(ic, r)
	closureFrameCloned(ic, r, "R11.5")
	cloneCopiesData(ic, r, "R11.5")
	c11R6(ic, r)
	c11R7(ic, r, "R11.7")
	c11R8(ic, r)
	c11R9(ic, r)
	// R11.10: a method declared by a later evaluation is seen by every type that gains it
	// (same analysis as C05/R05.6: method resolution is recomputed, never remembered)
	pureLookups(ic, r, "R11.10")
	c11R11(ic, r)
	c11R12(ic, r)
	c11R13(ic, r)
	c11R14(ic, r)
	c11R15(ic, r)
}

// r114Exceptions: callers of a compile pass outside the pipeline that are accepted, one per line with the reason.
var r114Exceptions = map[string]string{
	"genRun <- (*Debugger).SetBreakpoints": "closure generation only (fills node.exec from the control-flow entry points, idempotent, first step of Execute); needed to find the executed node of a line without generating from arbitrary nodes",
}

func c11R2(ic *IC, r *Report) {
	fn := ic.ssaMeth("Interpreter", "resizeFrame")
	if fn == nil {
		r.Errorf("anchor not resolved: (*Interpreter).resizeFrame")
		return
	}
	frameT := ic.Pk.Types.Scope().Lookup("frame").Type()
	isOldData := func(v ssa.Value) bool {
		for _, o := range origins(v, map[ssa.Value]bool{}) {
			if ld, ok := o.(*ssa.UnOp); ok && ld.Op == token.MUL {
				if fa, ok := ld.X.(*ssa.FieldAddr); ok {
					pt := fa.X.Type().Underlying().(*types.Pointer).Elem()
					if types.Identical(pt, frameT) && pt.Underlying().(*types.Struct).Field(fa.Field).Name() == "data" {
						return true
					}
				}
			}
		}
		return false
	}
	var stored ssa.Value
	var storePos token.Pos
	for _, b := range fn.Blocks {
		for _, ins := range b.Instrs {
			if st, ok := ins.(*ssa.Store); ok {
				if fa, ok := st.Addr.(*ssa.FieldAddr); ok {
					pt := fa.X.Type().Underlying().(*types.Pointer).Elem()
					if types.Identical(pt, frameT) && pt.Underlying().(*types.Struct).Field(fa.Field).Name() == "data" {
						stored = st.Val
						storePos = st.Pos()
					}
				}
			}
		}
	}
	if stored == nil {
		r.Fail("R11.2", "resizeFrame/grows", ic.pos(fn.Pos()), "resizeFrame never stores a new slot vector into the global frame: variables declared by later evaluations have no storage")
		return
	}
	var mk *ssa.MakeSlice
	for _, o := range origins(stored, map[ssa.Value]bool{}) {
		if m, ok := o.(*ssa.MakeSlice); ok {
			mk = m
		}
	}
	if mk == nil {
		r.Fail("R11.2", "resizeFrame/grows", ic.pos(storePos), "the vector stored into the global frame is not a fresh make([]reflect.Value, n)")
		return
	}
	copied := false
	for _, b := range fn.Blocks {
		for _, ins := range b.Instrs {
			call, ok := ins.(*ssa.Call)
			if !ok {
				continue
			}
			if bi, ok := call.Call.Value.(*ssa.Builtin); ok && bi.Name() == "copy" && len(call.Call.Args) == 2 {
				dstOK := false
				for _, o := range origins(call.Call.Args[0], map[ssa.Value]bool{}) {
					if o == ssa.Value(mk) {
						dstOK = true
					}
				}
				if dstOK && isOldData(call.Call.Args[1]) && call.Block().Dominates(findStoreBlock(fn, storePos)) {
					copied = true
				}
			}
		}
	}
	r.Check(copied, "R11.2", "resizeFrame/keeps-old-values", ic.pos(storePos), "the new vector receives a copy of the old one before it is installed",
		"resizeFrame installs a new slot vector without copying the old interp.frame.data into it: every package-level variable defined by earlier evaluations is reset")
	// the zero-initialising stores into the new vector are indexed from the old length: IndexAddr(mk, b+j)
	tailOnly := true
	seenInit := false
	for _, b := range fn.Blocks {
		for _, ins := range b.Instrs {
			ia, ok := ins.(*ssa.IndexAddr)
			if !ok {
				continue
			}
			isNew := false
			for _, o := range origins(ia.X, map[ssa.Value]bool{}) {
				if o == ssa.Value(mk) {
					isNew = true
				}
			}
			if !isNew {
				continue
			}
			for _, ref := range *ia.Referrers() {
				if st, ok := ref.(*ssa.Store); ok && st.Addr == ia {
					seenInit = true
					// index must be an addition involving len(old data)
					okIdx := false
					if be, ok := ia.Index.(*ssa.BinOp); ok && be.Op == token.ADD {
						for _, side := range []ssa.Value{be.X, be.Y} {
							if c, ok := side.(*ssa.Call); ok {
								if bi, ok := c.Call.Value.(*ssa.Builtin); ok && bi.Name() == "len" && isOldData(c.Call.Args[0]) {
									okIdx = true
								}
							}
						}
					}
					if !okIdx {
						tailOnly = false
					}
				}
			}
		}
	}
	r.Check(seenInit && tailOnly, "R11.2", "resizeFrame/initialises-tail-only", ic.pos(fn.Pos()), "only the slots beyond the old length are zero-initialised",
		"resizeFrame writes initial values into slots that are not beyond the old length of the global frame (index not of the form len(old)+j): existing package-level variables are overwritten with zero values")
}

func findStoreBlock(fn *ssa.Function, pos token.Pos) *ssa.BasicBlock {
	for _, b := range fn.Blocks {
		for _, ins := range b.Instrs {
			if st, ok := ins.(*ssa.Store); ok && st.Pos() == pos {
				return b
			}
		}
	}
	return fn.Blocks[0]
}

func c11R3(ic *IC, r *Report) {
	fld := ic.field("Interpreter", "scopes")
	n := 0
	for _, fn := range allSSAFuncs(ic.SP) {
		for _, b := range fn.Blocks {
			for _, ins := range b.Instrs {
				mu, ok := ins.(*ssa.MapUpdate)
				if !ok || !isBinPkgField(mu.Map, fld) {
					continue
				}
				n++
				// guarded: a dominating If on the ok-result of a lookup of the same map and key, false branch
				guarded := false
				for _, blk := range fn.Blocks {
					if len(blk.Instrs) == 0 {
						continue
					}
					iff, ok := blk.Instrs[len(blk.Instrs)-1].(*ssa.If)
					if !ok {
						continue
					}
					ex, ok := iff.Cond.(*ssa.Extract)
					if !ok || ex.Index != 1 {
						continue
					}
					lk, ok := ex.Tuple.(*ssa.Lookup)
					if !ok || !lk.CommaOk || !isBinPkgField(lk.X, fld) || !sameValue(lk.Index, mu.Key) {
						continue
					}
					absent := blk.Succs[1]
					if absent.Dominates(b) && len(absent.Preds) == 1 {
						guarded = true
					}
				}
				key := fmt.Sprintf("%s/scopes-store#%d", ssaFuncName(fn), n)
				r.Check(guarded, "R11.3", key, ic.pos(mu.Pos()), "the package scope is created only when absent",
					"Interpreter.scopes[k] is stored without testing that the key is absent: the package scope (and every symbol defined by earlier evaluations) is replaced")
			}
		}
	}
	if n == 0 {
		r.Errorf("R11.3: no store into Interpreter.scopes found (initScopePkg expected)")
	}
}

func c11R4(ic *IC, r *Report) {
	g := buildSGraph(ic.SP)
	pipe := map[*ssa.Function]bool{}
	for _, n := range []string{"CompileAST", "importSrc", "Execute"} {
		if f := ic.ssaMeth("Interpreter", n); f != nil {
			pipe[f] = true
		} else {
			r.Errorf("anchor not resolved: (*Interpreter).%s", n)
		}
	}
	n := 0
	for _, f := range g.Funcs {
		if f.Parent() != nil || f.Signature.Recv() == nil || !isNamed(f.Signature.Recv().Type(), "Interpreter") || !token.IsExported(f.Name()) {
			continue
		}
		nm := f.Name()
		if !(strings.HasPrefix(nm, "Eval") || strings.HasPrefix(nm, "Compile") || strings.HasPrefix(nm, "Execute") || nm == "REPL") {
			continue
		}
		n++
		set, _ := g.reachSet(false, f)
		reaches := false
		for p := range pipe {
			if set[p] {
				reaches = true
			}
		}
		r.Check(reaches, "R11.4", "entry/"+nm, ic.pos(f.Pos()), "goes through the common compile/execute pipeline", "exported entry point "+nm+" does not reach CompileAST, importSrc or Execute: it has a pipeline of its own and cannot behave like the other entry points")
	}
	if n < 8 {
		r.Errorf("R11.4: only %d evaluation/compilation entry points found", n)
	}
	// callers of the compile passes
	allowed := map[string]bool{"(*Interpreter).CompileAST": true, "(*Interpreter).importSrc": true, "(*Interpreter).Execute": true,
		"(*Interpreter).gta": true, "(*Interpreter).gtaRetry": true, "(*Interpreter).cfg": true, "genRun": true}
	passes := map[string]bool{"(*Interpreter).gta": true, "(*Interpreter).gtaRetry": true, "(*Interpreter).cfg": true, "genRun": true}
	callers := map[string]map[string]token.Pos{}
	for _, f := range g.Funcs {
		root := f
		for root.Parent() != nil {
			root = root.Parent()
		}
		for _, e := range g.Out[f] {
			if passes[ssaFuncName(e.To)] {
				if callers[ssaFuncName(e.To)] == nil {
					callers[ssaFuncName(e.To)] = map[string]token.Pos{}
				}
				callers[ssaFuncName(e.To)][ssaFuncName(root)] = e.Pos
			}
		}
	}
	var ps []string
	for p := range callers {
		ps = append(ps, p)
	}
	sort.Strings(ps)
	for _, p := range ps {
		for _, cl := range sortedKeys(callers[p]) {
			// non-exported helpers of the passes (nested compilation of sub-trees) are part of the pipeline;
			// what must not happen is an exported entry point driving a pass on its own.
			exported := false
			nm := cl
			if i := strings.LastIndex(nm, "."); i >= 0 {
				nm = nm[i+1:]
			}
			if token.IsExported(nm) && !allowed[cl] {
				exported = true
			}
			// one named exception: the debugger generates the exec closures before looking for the
			// executed node of a line (D94). genRun compiles nothing: it only fills node.exec, from the
			// entry points of the control flow graphs, is idempotent, and is the first step of
			// Execute - calling it earlier does not give this entry point a pass sequence of its own.
			if reason, ok := r114Exceptions[p+" <- "+cl]; ok && exported {
				r.Pass("R11.4", "pass/"+p+"/called-by:"+cl, ic.pos(callers[p][cl]), "named exception: "+reason)
				continue
			}
			r.Check(!exported, "R11.4", "pass/"+p+"/called-by:"+cl, ic.pos(callers[p][cl]), "called from the pipeline or one of its helpers", "compile pass "+p+" is called directly from the exported entry point "+cl+", outside CompileAST/importSrc/Execute: this entry point compiles through a different sequence of passes")
		}
	}
	if len(ps) < 3 {
		r.Errorf("R11.4: callers found for only %d compile passes", len(ps))
	}
}

// freeVarOrigins resolves the values a captured variable may hold when the closure is
// created: the stores to the captured cell in the enclosing function.
func freeVarOrigins(fv *ssa.FreeVar) []ssa.Value {
	fn := fv.Parent()
	parent := fn.Parent()
	if parent == nil {
		return nil
	}
	idx := -1
	for i, v := range fn.FreeVars {
		if v == fv {
			idx = i
		}
	}
	var out []ssa.Value
	for _, b := range parent.Blocks {
		for _, ins := range b.Instrs {
			mc, ok := ins.(*ssa.MakeClosure)
			if !ok || mc.Fn != ssa.Value(fn) || idx < 0 || idx >= len(mc.Bindings) {
				continue
			}
			cell := mc.Bindings[idx]
			if al, ok := cell.(*ssa.Alloc); ok {
				for _, st := range storesTo(al) {
					out = append(out, origins(st.Val, map[ssa.Value]bool{})...)
				}
			} else {
				out = append(out, origins(cell, map[ssa.Value]bool{})...)
			}
		}
	}
	return out
}

// closureFrameCloned decides: the frame a closure value captures is always a clone of the
// frame that defines it (taken when the closure value is created).
func closureFrameCloned(ic *IC, r *Report, rule string) {
	g := buildSGraph(ic.SP)
	newFrame := ic.ssaFunc("newFrame")
	n := 0
	seen := map[*ssa.Function]bool{}
	for _, cb := range g.MakeFuncRoots {
		if seen[cb] {
			continue
		}
		seen[cb] = true
		root := cb
		for root.Parent() != nil {
			root = root.Parent()
		}
		for _, b := range cb.Blocks {
			for _, ins := range b.Instrs {
				call, ok := ins.(*ssa.Call)
				if !ok || call.Call.StaticCallee() != newFrame {
					continue
				}
				// ancestor of the activation frame
				anc := call.Call.Args[0]
				var fvs []*ssa.FreeVar
				for _, o := range origins(anc, map[ssa.Value]bool{}) {
					x := o
					if u, ok := x.(*ssa.UnOp); ok {
						x = u.X
					}
					if fv, ok := x.(*ssa.FreeVar); ok {
						fvs = append(fvs, fv)
					}
				}
				for _, fv := range fvs {
					vals := freeVarOrigins(fv)
					if len(vals) == 0 {
						continue
					}
					hasClone, other := false, ""
					for _, v := range vals {
						if c, ok := v.(*ssa.Call); ok && staticCalleeName(&c.Call) == "interp.(*frame).clone" {
							hasClone = true
						} else {
							other = describeValue(v)
						}
					}
					if !hasClone {
						continue // a wrapper of a named function: its ancestor is the frame it was wrapped in
					}
					n++
					key := ssaFuncName(root) + "/closure-frame-is-a-clone"
					r.Check(other == "", rule, key, ic.pos(call.Pos()), "every closure value captures a clone of its defining frame",
						"the frame captured by closure values created in "+ssaFuncName(root)+" is a clone of the defining frame only on some paths (it can also be "+other+"): closures created in a loop, or at top level of successive evaluations, share the variables of their defining frame instead of each keeping its own")
				}
			}
		}
	}
	if n == 0 {
		r.Errorf("%s: no closure-value constructor capturing a cloned frame found (getFunc expected)", rule)
	}
}

// c11R6: the global pass gives every (re)definition a symbol and a slot of its own. A
// redefined function must not change the symbol that code compiled earlier resolved ("replaces
// only that function"), and a global defined again must not take over the slot functions
// compiled earlier read. In (*Interpreter).gta: (a) every symbol of a variable is a fresh
// &symbol{} whose index is a direct scope.add call; (b) no statement re-points the node of a
// symbol that was looked up in a scope.
func c11R6(ic *IC, r *Report) {
	fi := ic.fn(r, "Interpreter.gta")
	if fi == nil {
		return
	}
	symT, _ := ic.Pk.Types.Scope().Lookup("symbol").(*types.TypeName)
	nodeFld := ic.field("symbol", "node")
	if symT == nil || nodeFld == nil {
		r.Errorf("anchor not resolved: type symbol / field symbol.node")
		return
	}
	constName := func(e ast.Expr) string {
		if id, ok := unparen(e).(*ast.Ident); ok {
			if c, ok := ic.Info.Uses[id].(*types.Const); ok {
				return c.Name()
			}
		}
		return ""
	}
	nVar, nFunc := 0, 0
	ast.Inspect(fi.Decl.Body, func(n ast.Node) bool {
		switch x := n.(type) {
		case *ast.CompositeLit:
			if t := ic.Info.TypeOf(x); t == nil || !types.Identical(t, symT.Type()) {
				return true
			}
			kind, global := "", false
			var index ast.Expr
			for _, e := range x.Elts {
				kv, ok := e.(*ast.KeyValueExpr)
				if !ok {
					continue
				}
				switch types.ExprString(kv.Key) {
				case "kind":
					kind = constName(kv.Value)
				case "global":
					global = types.ExprString(kv.Value) == "true"
				case "index":
					index = kv.Value
				}
			}
			switch {
			case kind == "varSym" && global:
				nVar++
				ok := false
				if c, isCall := unparen(index).(*ast.CallExpr); index != nil && isCall && isCallTo(ic.Info, c, "interp.scope.add") {
					ok = true
				}
				got := "no index"
				if index != nil {
					got = types.ExprString(index)
				}
				r.Check(ok, "R11.6", fmt.Sprintf("gta/global-var-symbol#%d/fresh-slot", nVar), ic.pos(x.Pos()), "the global gets a slot of its own from scope.add",
					"the symbol of a package-level variable defined here takes its frame index from "+got+" instead of a direct scope.add call: a definition evaluated later can take over the slot of a variable that functions compiled earlier still read, so piecewise evaluation differs from evaluating the program whole")
			case kind == "funcSym":
				nFunc++
				// a redefinition installs this fresh symbol too: no earlier statement of the same
				// block leaves it because a symbol of that name already exists
				path := enclosingPath(fi.Decl.Body, x)
				var store ast.Stmt
				var siblings []ast.Stmt
				for i := len(path) - 1; i > 0; i-- {
					if as, ok := path[i].(*ast.AssignStmt); ok && store == nil {
						store = as
						switch b := path[i-1].(type) {
						case *ast.BlockStmt:
							siblings = b.List
						case *ast.CaseClause:
							siblings = b.Body
						}
					}
				}
				var mapExpr string
				if as, ok := store.(*ast.AssignStmt); ok && len(as.Lhs) == 1 {
					if ix, ok := unparen(as.Lhs[0]).(*ast.IndexExpr); ok {
						mapExpr = types.ExprString(ix) // the same map and the same key
					}
				}
				kept := ""
				for _, st := range siblings {
					if st == store {
						break
					}
					ifs, ok := st.(*ast.IfStmt)
					if !ok || mapExpr == "" {
						continue
					}
					reads := false
					for _, part := range []ast.Node{ifs.Init, ifs.Cond} {
						if part == nil {
							continue
						}
						ast.Inspect(part, func(k ast.Node) bool {
							if ix, ok := k.(*ast.IndexExpr); ok && types.ExprString(ix) == mapExpr {
								reads = true
							}
							return true
						})
					}
					leaves := false
					ast.Inspect(ifs.Body, func(k ast.Node) bool {
						switch k.(type) {
						case *ast.FuncLit:
							return false
						case *ast.BranchStmt, *ast.ReturnStmt:
							leaves = true
						}
						return true
					})
					if reads && leaves {
						kept = ic.pos(ifs.Pos())
					}
				}
				r.Check(kept == "", "R11.6", fmt.Sprintf("gta/function-symbol#%d/redefinition-installs-a-fresh-symbol", nFunc), ic.pos(x.Pos()), "the symbol literal is stored whether or not a symbol of that name exists",
					"before installing the symbol of a function declaration, gta leaves the block when "+mapExpr+" already holds a symbol of that name (at "+kept+"): the existing symbol is kept and only completed later by cfg, so closures compiled in between - function literals of the redefining chunk calling the function - bind to the old body, unlike the program evaluated whole")
			}
		case *ast.AssignStmt:
			// only in the case of function declarations: a variable symbol may be completed
			// (node, global) right after it has been created
			inFuncCase := false
			for _, p := range enclosingPath(fi.Decl.Body, x) {
				if cc, ok := p.(*ast.CaseClause); ok {
					for _, e := range cc.List {
						if constName(e) == "funcDecl" {
							inFuncCase = true
						}
					}
				}
			}
			if !inFuncCase {
				return true
			}
			for _, l := range x.Lhs {
				if selField(ic.Info, l) == nodeFld {
					r.Fail("R11.6", "gta/symbol-node-repointed", ic.pos(x.Pos()), "gta assigns the node of an existing symbol ("+types.ExprString(l)+"): callers compiled before a redefinition resolve the function through that symbol when their closures are generated, so redefining a function also changes functions that were not redefined")
				}
			}
		}
		return true
	})
	if nVar < 2 || nFunc < 1 {
		r.Errorf("R11.6: %d global variable symbols and %d function symbols created in gta (2 and 1 confirmed by reading)", nVar, nFunc)
		return
	}
	r.Pass("R11.6", "gta/symbol-node-repointed/none", ic.pos(fi.Decl.Pos()), fmt.Sprintf("%d function symbol literal(s); no store to symbol.node outside a literal", nFunc))
}

// c11R7: ordering the package variables of one evaluation must not wait for variables that
// belong to an earlier evaluation. The dependency collector returns every package variable an
// initialiser reaches, including those declared (and initialised) by previous Eval calls;
// if the readiness test waits for them, `var b = a + 1` fed after `var a = 1` is rejected with
// "variable definition loop". The readiness test must therefore be restricted to the batch
// being ordered: its blocking condition mentions a set filled from every element of the
// function's node list.
func c11R7(ic *IC, r *Report, rule string) {
	fi := ic.fn(r, "genGlobalVarDecl")
	if fi == nil {
		return
	}
	info := ic.Info
	if fi.Decl.Type.Params == nil || len(fi.Decl.Type.Params.List) == 0 || len(fi.Decl.Type.Params.List[0].Names) == 0 {
		r.Errorf("%s: genGlobalVarDecl has no parameter list", rule)
		return
	}
	nodesParam := info.ObjectOf(fi.Decl.Type.Params.List[0].Names[0])
	isNodeSet := func(o types.Object) bool {
		if o == nil {
			return false
		}
		m, ok := o.Type().Underlying().(*types.Map)
		return ok && types.TypeString(m.Key(), nil) == "*github.com/traefik/yaegi/interp.node" && types.Identical(m.Elem(), types.Typ[types.Bool])
	}
	// sets filled from every element of the parameter: for _, n := range nodes { M[n] = true } (body of one statement)
	batch := map[types.Object]bool{}
	ast.Inspect(fi.Decl.Body, func(n ast.Node) bool {
		rs, ok := n.(*ast.RangeStmt)
		if !ok {
			return true
		}
		xid, ok := unparen(rs.X).(*ast.Ident)
		if !ok || info.ObjectOf(xid) != nodesParam || len(rs.Body.List) != 1 {
			return true
		}
		as, ok := rs.Body.List[0].(*ast.AssignStmt)
		if !ok || len(as.Lhs) != 1 {
			return true
		}
		if ix, ok := unparen(as.Lhs[0]).(*ast.IndexExpr); ok {
			if mid, ok := unparen(ix.X).(*ast.Ident); ok && isNodeSet(info.ObjectOf(mid)) && types.ExprString(as.Rhs[0]) == "true" {
				batch[info.ObjectOf(mid)] = true
			}
		}
		return true
	})
	// the loop over the dependencies of a candidate and its blocking conditions
	nLoops := 0
	ast.Inspect(fi.Decl.Body, func(n ast.Node) bool {
		rs, ok := n.(*ast.RangeStmt)
		if !ok {
			return true
		}
		ix, ok := unparen(rs.X).(*ast.IndexExpr)
		if !ok {
			return true
		}
		if m, ok := info.TypeOf(ix.X).Underlying().(*types.Map); !ok || types.TypeString(m.Elem(), nil) != "[]*github.com/traefik/yaegi/interp.node" {
			return true
		}
		nLoops++
		var dep types.Object
		if id, ok := rs.Value.(*ast.Ident); ok {
			dep = info.ObjectOf(id)
		}
		restricted := false
		nConds := 0
		ast.Inspect(rs.Body, func(m ast.Node) bool {
			ifs, ok := m.(*ast.IfStmt)
			if !ok {
				return true
			}
			nConds++
			ast.Inspect(ifs.Cond, func(k ast.Node) bool {
				if kx, ok := k.(*ast.IndexExpr); ok {
					if mid, ok := unparen(kx.X).(*ast.Ident); ok && batch[info.ObjectOf(mid)] {
						if did, ok := unparen(kx.Index).(*ast.Ident); ok && info.ObjectOf(did) == dep {
							restricted = true
						}
					}
				}
				return true
			})
			return true
		})
		r.Check(restricted && nConds > 0, rule, fmt.Sprintf("genGlobalVarDecl/readiness#%d/batch-only", nLoops), ic.pos(rs.Pos()), "a variable waits only for dependencies that belong to the list being ordered",
			"the readiness test of genGlobalVarDecl waits for every dependency, also for package variables that are not in the list being ordered (declared and initialised by an earlier evaluation): var b = a + 1 evaluated after var a = 1 fails with 'variable definition loop', so feeding declarations piecewise differs from evaluating them whole")
		return true
	})
	if nLoops == 0 {
		r.Errorf("%s: the loop over a candidate's dependencies (range deps[n]) was not found in genGlobalVarDecl", rule)
	}
}

// c11R8: the source name persists across evaluations. Relative imports and the imports of a
// file are resolved against Interpreter.name (importSrc, rootFromSourceLocation); an
// anonymous Eval that follows EvalPath must therefore leave the name alone. Every store to
// Interpreter.name is guarded by an emptiness test of the new value or of the field itself.
func c11R8(ic *IC, r *Report) {
	nameFld := ic.field("Interpreter", "name")
	if nameFld == nil {
		r.Errorf("anchor not resolved: Interpreter.name")
		return
	}
	info := ic.Info
	n := 0
	for _, fname := range sortedKeys(ic.F) {
		fi := ic.F[fname]
		if fi.Decl.Body == nil {
			continue
		}
		k := 0
		ast.Inspect(fi.Decl.Body, func(nd ast.Node) bool {
			as, ok := nd.(*ast.AssignStmt)
			if !ok {
				return true
			}
			for i, l := range as.Lhs {
				if selField(info, l) != nameFld {
					continue
				}
				n++
				k++
				var rhs ast.Expr
				if i < len(as.Rhs) {
					rhs = as.Rhs[i]
				}
				guarded := false
				for _, g := range pathGuards(fi.Decl.Body, as) {
					ast.Inspect(g.cond, func(m ast.Node) bool {
						be, ok := m.(*ast.BinaryExpr)
						if !ok || (be.Op != token.EQL && be.Op != token.NEQ) {
							return true
						}
						for _, side := range [][2]ast.Expr{{be.X, be.Y}, {be.Y, be.X}} {
							if tv, ok := info.Types[side[1]]; ok && tv.Value != nil && tv.Value.ExactString() == `""` {
								if selField(info, side[0]) == nameFld {
									guarded = true
								}
								if rhs != nil && types.ExprString(side[0]) == types.ExprString(rhs) {
									guarded = true
								}
							}
						}
						return true
					})
				}
				r.Check(guarded, "R11.8", fmt.Sprintf("%s/source-name-store#%d/guarded", fname, k), ic.pos(as.Pos()), "the source name is replaced only by a non-empty name, or set when still empty",
					"Interpreter.name is assigned unconditionally ("+types.ExprString(as.Lhs[i])+" = "+types.ExprString(rhs)+"): an anonymous Eval resets the file name recorded by EvalPath, and the later chunks no longer resolve that file's imports and relative imports (undefined: fmt), so piecewise evaluation differs from evaluating the file whole")
			}
			return true
		})
	}
	if n == 0 {
		r.Errorf("R11.8: no store to Interpreter.name found")
	}
}

// c11R9: a multiple-value short declaration at interactive level may redeclare a variable of
// an earlier chunk; compDefineX recognises "the same variable" by comparing the level
// returned by scope.lookup with the level of the identifier, and scope.lookup reports the
// global-frame level for symbols flagged global. The symbols compDefineX creates, and the
// defineXStmt case of gta completes, must therefore not carry the global flag: with it the
// redeclared variable silently becomes a new one and closures taken before keep the old one.
func c11R9(ic *IC, r *Report) {
	cdx := ic.fn(r, "compDefineX")
	gta := ic.fn(r, "Interpreter.gta")
	if cdx == nil || gta == nil {
		return
	}
	globalFld := ic.field("symbol", "global")
	symT, _ := ic.Pk.Types.Scope().Lookup("symbol").(*types.TypeName)
	if globalFld == nil || symT == nil {
		r.Errorf("anchor not resolved: symbol.global")
		return
	}
	// the premise: compDefineX compares the lookup level with the identifier's level
	premise := false
	ast.Inspect(cdx.Decl.Body, func(n ast.Node) bool {
		if be, ok := n.(*ast.BinaryExpr); ok && be.Op == token.EQL {
			if id, ok := unparen(be.X).(*ast.Ident); ok && id.Name == "level" {
				if se, ok := unparen(be.Y).(*ast.SelectorExpr); ok && se.Sel.Name == "level" {
					premise = true
				}
			}
		}
		return true
	})
	if !premise {
		r.Pass("R11.9", "compDefineX/var-symbols-not-global", ic.pos(cdx.Decl.Pos()), "compDefineX no longer identifies a redeclared variable by its lookup level: the rule does not apply")
		return
	}
	var bad []string
	scan := func(root ast.Node, where string) {
		ast.Inspect(root, func(n ast.Node) bool {
			switch x := n.(type) {
			case *ast.CompositeLit:
				if t := ic.Info.TypeOf(x); t != nil && types.Identical(t, symT.Type()) {
					for _, e := range x.Elts {
						if kv, ok := e.(*ast.KeyValueExpr); ok && types.ExprString(kv.Key) == "global" && types.ExprString(kv.Value) != "false" {
							bad = append(bad, where+": symbol literal with global: "+types.ExprString(kv.Value)+" at "+ic.pos(kv.Pos()))
						}
					}
				}
			case *ast.AssignStmt:
				for i, l := range x.Lhs {
					if selField(ic.Info, l) == globalFld && (i >= len(x.Rhs) || types.ExprString(x.Rhs[i]) != "false") {
						bad = append(bad, where+": "+types.ExprString(l)+" set at "+ic.pos(x.Pos()))
					}
				}
			}
			return true
		})
	}
	scan(cdx.Decl.Body, "compDefineX")
	found := false
	ast.Inspect(gta.Decl.Body, func(n ast.Node) bool {
		if cc, ok := n.(*ast.CaseClause); ok {
			for _, e := range cc.List {
				if id, ok := unparen(e).(*ast.Ident); ok && id.Name == "defineXStmt" {
					found = true
					for _, s := range cc.Body {
						scan(s, "gta case defineXStmt")
					}
				}
			}
		}
		return true
	})
	if !found {
		r.Errorf("R11.9: the defineXStmt case of gta was not found")
		return
	}
	r.Check(len(bad) == 0, "R11.9", "compDefineX/var-symbols-not-global", ic.pos(cdx.Decl.Pos()), "the variables of a multiple-value define are not flagged global",
		strings.Join(bad, "; ")+": scope.lookup then reports the global-frame level for them and the 'same variable' test of compDefineX (lookup level == identifier level) fails, so `x, z := f()` fed after `x, y := f()` creates a second x and closures taken in between keep the first one")
}

// c11R11: a package evaluated from a directory (EvalPath, import of a source package) is
// initialised as one piece: importSrc orders and runs the package variables of all its files
// together, after the closures of every file have been generated. Every call of genGlobalVars
// made by importSrc, directly or through an in-package helper, receives the list accumulated
// over the files (a slice appended to in a loop of importSrc) and is not made inside a loop.
func c11R11(ic *IC, r *Report) {
	fi := ic.fn(r, "Interpreter.importSrc")
	if fi == nil {
		return
	}
	info := ic.Info
	// slices appended to inside a loop of importSrc
	accum := map[types.Object]bool{}
	ast.Inspect(fi.Decl.Body, func(n ast.Node) bool {
		body := loopBody(n)
		if body == nil {
			return true
		}
		ast.Inspect(body, func(m ast.Node) bool {
			as, ok := m.(*ast.AssignStmt)
			if !ok || len(as.Lhs) != 1 || len(as.Rhs) != 1 {
				return true
			}
			c, ok := unparen(as.Rhs[0]).(*ast.CallExpr)
			if !ok || !isBuiltinCall(info, c, "append") || len(c.Args) < 2 {
				return true
			}
			if id, ok := as.Lhs[0].(*ast.Ident); ok {
				if a0, ok := unparen(c.Args[0]).(*ast.Ident); ok && info.ObjectOf(a0) == info.ObjectOf(id) {
					accum[info.ObjectOf(id)] = true
				}
			}
			return true
		})
		return true
	})
	inLoop := func(root ast.Node, target ast.Node) bool {
		for _, p := range enclosingPath(root, target) {
			if p != target && loopBody(p) != nil {
				return true
			}
		}
		return false
	}
	n := 0
	check := func(call *ast.CallExpr, arg ast.Expr, via string) {
		n++
		key := fmt.Sprintf("importSrc/package-variables#%d/ordered-together", n)
		id, isID := unparen(arg).(*ast.Ident)
		whole := isID && accum[info.ObjectOf(id)]
		loop := inLoop(fi.Decl.Body, call)
		why := ""
		switch {
		case !whole:
			why = "receives " + types.ExprString(arg) + ", which is not the list of root nodes accumulated over the files of the package"
		case loop:
			why = "is made inside a loop"
		}
		r.Check(why == "", "R11.11", key, ic.pos(call.Pos()), "the variables of all the files are ordered and initialised together",
			"the ordering of package variables reached from importSrc"+via+" "+why+": the variables of one file are initialised before the next file is prepared, so an initializer that reads a variable, or calls a function, declared in a later file of the directory sees the zero value, unlike the same package evaluated in one piece")
	}
	ast.Inspect(fi.Decl.Body, func(m ast.Node) bool {
		c, ok := m.(*ast.CallExpr)
		if !ok {
			return true
		}
		f, ok := calleeOf(info, c).(*types.Func)
		if !ok || f.Pkg() != ic.Pk.Types {
			return true
		}
		if isCallTo(info, c, "interp.genGlobalVars") && len(c.Args) > 0 {
			check(c, c.Args[0], "")
			return true
		}
		// one level of helper: the helper's genGlobalVars argument must be one of its parameters,
		// bound at this call to the accumulated list
		hfi := ic.G.Funcs[f]
		if hfi == nil || hfi.Decl.Body == nil || hfi == fi || canonFuncName(funcName(hfi.Decl)) == "Interpreter.gta" || canonFuncName(funcName(hfi.Decl)) == "Interpreter.gtaRetry" || canonFuncName(funcName(hfi.Decl)) == "Interpreter.cfg" {
			return true
		}
		for _, hc := range callsIn(info, hfi.Decl.Body, false, "interp.genGlobalVars") {
			if len(hc.Args) == 0 {
				continue
			}
			var bound ast.Expr
			if pid, ok := unparen(hc.Args[0]).(*ast.Ident); ok {
				idx := 0
				for _, fl := range hfi.Decl.Type.Params.List {
					for _, nm := range fl.Names {
						if info.ObjectOf(nm) == info.ObjectOf(pid) && idx < len(c.Args) {
							bound = c.Args[idx]
						}
						idx++
					}
				}
			}
			if bound == nil {
				bound = hc.Args[0]
			}
			check(c, bound, " through "+funcName(hfi.Decl))
		}
		return true
	})
	if n == 0 {
		r.Errorf("R11.11: no call of genGlobalVars is reached from importSrc (directly or through one helper)")
	}
}

func init() {
	ruleText["R11.12"] = "the main function is added to the functions a compiled unit starts only under a condition relating its declaration node to the root(s) of the tree being compiled: a main declared by an earlier evaluation has run and is not started again by every later one"
}

// c11R12: in every function appending `<S>.node`, S looked up in a symbol table under the
// constant "main", to a []*node list, the append is guarded (enclosing ifs, or the ifs of an
// enclosing range loop) by an expression mentioning both S and a root of the tree being
// compiled - a *node (or element of a []*node) the same function hands to the cfg pass. Found D59.
func c11R12(ic *IC, r *Report) {
	info := ic.Info
	mainC, _ := ic.Pk.Types.Scope().Lookup("mainID").(*types.Const)
	cfgFn := ic.F[ic.resolveName("Interpreter.cfg")]
	if mainC == nil || cfgFn == nil || cfgFn.Obj == nil {
		r.Errorf("R11.12: anchors mainID / (*Interpreter).cfg not resolved")
		return
	}
	n := 0
	for _, name := range sortedKeys(ic.F) {
		fi := ic.F[name]
		if fi.Decl.Body == nil {
			continue
		}
		// symbols looked up under mainID
		mains := map[types.Object]bool{}
		ast.Inspect(fi.Decl.Body, func(m ast.Node) bool {
			as, ok := m.(*ast.AssignStmt)
			if !ok || len(as.Lhs) < 1 || len(as.Rhs) != 1 {
				return true
			}
			ix, ok := unparen(as.Rhs[0]).(*ast.IndexExpr)
			if !ok {
				return true
			}
			if id := identOf(ix.Index); id != nil && info.ObjectOf(id) == mainC {
				if lid := identOf(as.Lhs[0]); lid != nil {
					mains[info.ObjectOf(lid)] = true
				}
			}
			return true
		})
		if len(mains) == 0 {
			continue
		}
		// roots: first arguments of calls of the cfg pass, and the slices ranged over to get them
		roots := map[types.Object]bool{}
		ast.Inspect(fi.Decl.Body, func(m ast.Node) bool {
			call, ok := m.(*ast.CallExpr)
			if !ok || calleeOf(info, call) != cfgFn.Obj || len(call.Args) == 0 {
				return true
			}
			if id := identOf(call.Args[0]); id != nil {
				roots[info.ObjectOf(id)] = true
			}
			return true
		})
		ast.Inspect(fi.Decl.Body, func(m ast.Node) bool {
			rs, ok := m.(*ast.RangeStmt)
			if !ok || rs.Value == nil {
				return true
			}
			if v := identOf(rs.Value); v != nil && roots[info.ObjectOf(v)] {
				if s := identOf(rs.X); s != nil {
					roots[info.ObjectOf(s)] = true
				}
			}
			return true
		})
		// every range value over a root slice is a root too
		ast.Inspect(fi.Decl.Body, func(m ast.Node) bool {
			rs, ok := m.(*ast.RangeStmt)
			if !ok || rs.Value == nil {
				return true
			}
			if s := identOf(rs.X); s != nil && roots[info.ObjectOf(s)] {
				if v := identOf(rs.Value); v != nil {
					roots[info.ObjectOf(v)] = true
				}
			}
			return true
		})
		mentions := func(e ast.Node, set map[types.Object]bool) bool {
			found := false
			ast.Inspect(e, func(k ast.Node) bool {
				if id, ok := k.(*ast.Ident); ok && set[info.ObjectOf(id)] {
					found = true
				}
				return true
			})
			return found
		}
		ast.Inspect(fi.Decl.Body, func(m ast.Node) bool {
			call, ok := m.(*ast.CallExpr)
			if !ok || len(call.Args) < 2 {
				return true
			}
			if id := identOf(call.Fun); id == nil || id.Name != "append" {
				return true
			}
			if _, isB := info.Uses[identOf(call.Fun)].(*types.Builtin); !isB {
				return true
			}
			isMainNode := false
			for _, a := range call.Args[1:] {
				if v := selField(info, a); v != nil && v.Name() == "node" && mentions(a, mains) {
					isMainNode = true
				}
			}
			if !isMainNode {
				return true
			}
			n++
			guarded := false
			for _, p := range enclosingPath(fi.Decl.Body, call) {
				ifs, ok := p.(*ast.IfStmt)
				if !ok {
					continue
				}
				// a single call or comparison mentioning both
				ast.Inspect(ifs.Cond, func(k ast.Node) bool {
					switch e := k.(type) {
					case *ast.CallExpr:
						if mentions(e, mains) && mentions(e, roots) {
							guarded = true
						}
					case *ast.BinaryExpr:
						if (e.Op == token.EQL || e.Op == token.NEQ) && mentions(e, mains) && mentions(e, roots) {
							guarded = true
						}
					}
					return true
				})
			}
			r.Check(guarded, "R11.12", funcName(fi.Decl)+"/main-started-by-the-unit-declaring-it", ic.pos(call.Pos()), "main is started only if declared in the tree being compiled",
				funcName(fi.Decl)+" adds the main function found in the package scope to the functions to start without relating its declaration to the tree being compiled: once main has been defined, every later Eval of the interpreter (a declaration, an expression) runs it again")
			return true
		})
	}
	if n < 2 {
		r.Errorf("R11.12: %d sites starting the main function found (CompileAST and importSrc expected)", n)
	}
}

func init() {
	ruleText["R11.13"] = "every evaluation compiles its own source: a *Program returned by a function of the compile chain (Compile, CompilePath, compileSrc, CompileAST) is created by that call - nil, a composite literal, or the result of another function of the chain - never read from a field, a map or a variable that outlives the call"
}

// c11R13: round-6 seed. compileSrc kept the programs compiled from statements in an
// interpreter map keyed by the source: a statement evaluated a second time ran its first
// compilation and kept calling a function that had been redefined in between.
func c11R13(ic *IC, r *Report) {
	info := ic.Info
	isProg := func(t types.Type) bool { return t != nil && isNamedPtr(t, "Program") }
	chain := map[*types.Func]*FuncInfo{}
	for f, fi := range ic.G.Funcs {
		sg := f.Type().(*types.Signature)
		if fi.Decl.Body != nil && sg.Results().Len() >= 1 && isProg(sg.Results().At(0).Type()) && sg.Recv() != nil && isNamedPtr(sg.Recv().Type(), "Interpreter") {
			chain[f] = fi
		}
	}
	if len(chain) < 4 {
		r.Errorf("R11.13: only %d functions of the compile chain found (Compile, CompilePath, compileSrc, CompileAST expected)", len(chain))
		return
	}
	var fs []*types.Func
	for f := range chain {
		fs = append(fs, f)
	}
	sort.Slice(fs, func(i, j int) bool { return fs[i].Name() < fs[j].Name() })
	for _, f := range fs {
		fi := chain[f]
		sg := f.Type().(*types.Signature)
		var created func(e ast.Expr, depth int) string
		created = func(e ast.Expr, depth int) string {
			e = unparen(e)
			switch y := e.(type) {
			case *ast.Ident:
				if y.Name == "nil" {
					return ""
				}
				obj := info.ObjectOf(y)
				v, ok := obj.(*types.Var)
				if !ok || v.Parent() == ic.Pk.Types.Scope() || depth > 3 {
					return types.ExprString(e) + " outlives the call"
				}
				// every definition of the local
				why, defs := "", 0
				ast.Inspect(fi.Decl.Body, func(q ast.Node) bool {
					as, ok := q.(*ast.AssignStmt)
					if !ok {
						return true
					}
					for i, l := range as.Lhs {
						if id := identOf(l); id != nil && info.ObjectOf(id) == obj {
							defs++
							var rhs ast.Expr
							if len(as.Rhs) == len(as.Lhs) {
								rhs = as.Rhs[i]
							} else if len(as.Rhs) == 1 && i == 0 {
								rhs = as.Rhs[0]
							}
							if rhs == nil {
								why = types.ExprString(y) + " is assigned at " + ic.pos(as.Pos()) + " from an expression that was not followed"
							} else if w := created(rhs, depth+1); w != "" {
								why = w
							}
						}
					}
					return true
				})
				if defs == 0 && v != sg.Results().At(0) {
					return types.ExprString(e) + " is not defined in the function"
				}
				return why
			case *ast.UnaryExpr:
				if _, ok := unparen(y.X).(*ast.CompositeLit); ok {
					return ""
				}
			case *ast.CallExpr:
				if g, ok := calleeOf(info, y).(*types.Func); ok && chain[g] != nil {
					return ""
				}
			}
			return types.ExprString(e) + " (" + ic.pos(e.Pos()) + ") is not created by this call"
		}
		var bad []string
		ast.Inspect(fi.Decl.Body, func(q ast.Node) bool {
			if _, ok := q.(*ast.FuncLit); ok {
				return false
			}
			rs, ok := q.(*ast.ReturnStmt)
			if !ok {
				return true
			}
			var e ast.Expr
			switch {
			case len(rs.Results) == sg.Results().Len():
				e = rs.Results[0]
			case len(rs.Results) == 1:
				e = rs.Results[0] // return f(...) forwarding a tuple
			case len(rs.Results) == 0:
				e = ast.NewIdent(sg.Results().At(0).Name())
				if id := fi.Decl.Type.Results.List[0].Names; len(id) > 0 {
					e = id[0]
				}
			}
			if e == nil {
				return true
			}
			if w := created(e, 0); w != "" {
				bad = append(bad, "return at "+ic.pos(rs.Pos())+": "+w)
			}
			return true
		})
		r.Check(len(bad) == 0, "R11.13", funcName(fi.Decl)+"/program-compiled-by-this-call", ic.pos(fi.Decl.Pos()), "every returned program is created by the call",
			funcName(fi.Decl)+" can return a program that an earlier call compiled ("+strings.Join(dedupStr(bad), "; ")+"): the compiled form binds the functions, types and variables that existed then, so a statement evaluated again after a redefinition keeps calling the old function, and a statement that failed once for an undefined name can never succeed")
	}
}

func init() {
	ruleText["R11.14"] = "a variable defined at package level is a global whatever statement defines it: in every helper of the compile pass (a plain function taking the scope) that enters a variable symbol in the scope (sc.sym[id] = &symbol{kind: varSym ...}), the literal carries the global flag of the scope - a function reads a non-global package-level symbol by walking up its callers' frames"
}

// c11R14: found through the round-6 report on C11 (item 6). a, b := two() fed at top level
// created symbols without the global flag: func g() int { return a + b } read them level frames
// up the *dynamic* chain, i.e. in its caller's frame (println(g(), k()) printed 3 100).
func c11R14(ic *IC, r *Report) {
	info := ic.Info
	symT, _ := ic.Pk.Types.Scope().Lookup("symbol").(*types.TypeName)
	if symT == nil {
		r.Errorf("R11.14: type symbol not found")
		return
	}
	n := 0
	for _, name := range sortedKeys(ic.F) {
		fi := ic.F[name]
		if fi.Decl.Body == nil || fi.Decl.Recv != nil || fi.Obj == nil {
			continue
		}
		sg := fi.Obj.Type().(*types.Signature)
		takesScope := false
		for i := 0; i < sg.Params().Len(); i++ {
			if isNamedPtr(sg.Params().At(i).Type(), "scope") {
				takesScope = true
			}
		}
		if !takesScope {
			continue
		}
		k := 0
		ast.Inspect(fi.Decl.Body, func(q ast.Node) bool {
			as, ok := q.(*ast.AssignStmt)
			if !ok || len(as.Lhs) != 1 || len(as.Rhs) != 1 {
				return true
			}
			ix, ok := unparen(as.Lhs[0]).(*ast.IndexExpr)
			if !ok {
				return true
			}
			if v := selField(info, ix.X); v == nil || v.Name() != "sym" {
				return true
			}
			ue, ok := unparen(as.Rhs[0]).(*ast.UnaryExpr)
			if !ok {
				return true
			}
			cl, ok := unparen(ue.X).(*ast.CompositeLit)
			if !ok || !types.Identical(info.TypeOf(cl), symT.Type()) {
				return true
			}
			isVar, hasGlobal := false, false
			for _, e := range cl.Elts {
				kv, ok := e.(*ast.KeyValueExpr)
				if !ok {
					continue
				}
				key := identOf(kv.Key)
				if key == nil {
					continue
				}
				if key.Name == "kind" {
					if id := identOf(kv.Value); id != nil && id.Name == "varSym" {
						isVar = true
					}
				}
				if key.Name == "global" {
					hasGlobal = true
				}
			}
			if !isVar {
				return true
			}
			k++
			n++
			r.Check(hasGlobal, "R11.14", fmt.Sprintf("%s/variable-symbol#%d/carries-the-global-flag", name, k), ic.pos(as.Pos()), "the literal sets the global flag",
				name+" enters a variable symbol in the scope without the global flag ("+types.ExprString(as.Rhs[0])+"): when the statement is at package level - a, b := two() fed to Eval - the variables are read by functions through the dynamic chain of frames, so g() called from another function reads its caller's locals (println(g(), k()) prints 3 100)")
			return true
		})
	}
	if n == 0 {
		r.Errorf("R11.14: no helper of the compile pass entering a variable symbol found (compDefineX expected)")
	}
}

func init() {
	ruleText["R11.15"] = "how a chunk is parsed (as declarations, or wrapped as statements of main) is decided on the first token as go/scanner delivers it: every function of package interp returning a go/token.Token returns, at each of its returns, a value that is a result of (*go/scanner.Scanner).Scan, a constant of go/token, or the result of another such function - and at least one return is a Scan result; the text of the source is not matched by hand (a prefix test takes the identifier `variable` for the keyword var)"
}

// c11R15: round-8 seed. firstToken got a fast path comparing the leading word of the source
// with the spelling of the declaration keywords by strings.HasPrefix.
func c11R15(ic *IC, r *Report) {
	info := ic.Info
	n := 0
	var names []string
	for name := range ic.F {
		names = append(names, name)
	}
	sort.Strings(names)
	for _, name := range names {
		fi := ic.F[name]
		if fi.Decl.Body == nil || fi.Decl.Type.Results == nil || len(fi.Decl.Type.Results.List) != 1 {
			continue
		}
		if types.TypeString(info.TypeOf(fi.Decl.Type.Results.List[0].Type), nil) != "go/token.Token" {
			continue
		}
		// only the functions that look at source text: a string or []byte parameter
		takesText := false
		for _, f := range fi.Decl.Type.Params.List {
			switch types.TypeString(info.TypeOf(f.Type), nil) {
			case "string", "[]byte":
				takesText = true
			}
		}
		if !takesText {
			continue
		}
		n++
		scanVars := map[types.Object]bool{}
		ast.Inspect(fi.Decl.Body, func(q ast.Node) bool {
			as, ok := q.(*ast.AssignStmt)
			if !ok || len(as.Rhs) != 1 || len(as.Lhs) != 3 {
				return true
			}
			if c, ok := unparen(as.Rhs[0]).(*ast.CallExpr); ok && isCallTo(info, c, "go/scanner.Scanner.Scan") {
				if id := identOf(as.Lhs[1]); id != nil {
					scanVars[info.ObjectOf(id)] = true
				}
			}
			return true
		})
		bad, fromScan := "", false
		ast.Inspect(fi.Decl.Body, func(q ast.Node) bool {
			if _, ok := q.(*ast.FuncLit); ok {
				return false
			}
			rs, ok := q.(*ast.ReturnStmt)
			if !ok || len(rs.Results) != 1 {
				return true
			}
			e := unparen(rs.Results[0])
			if id := identOf(e); id != nil && scanVars[info.ObjectOf(id)] {
				fromScan = true
				return true
			}
			// a token constant, a loop variable over a table of tokens ... chosen by looking at the text
			bad = "return " + types.ExprString(e) + " at " + ic.pos(rs.Pos()) + " is not the token delivered by the scanner"
			return true
		})
		if !fromScan && bad == "" {
			bad = "no return yields a result of (*scanner.Scanner).Scan"
		}
		r.Check(bad == "", "R11.15", name+"/token-delivered-by-the-scanner", ic.pos(fi.Decl.Pos()), "every return yields the token of go/scanner",
			name+" classifies source text by hand: "+bad+". A chunk like `variable := 3` or `typeName.Do()` whose first identifier merely starts like a keyword is taken for a declaration, parsed as a file and rejected, although it is a valid statement chunk of an incremental session")
	}
	if n == 0 {
		r.Errorf("R11.15: no function of package interp turning source text into a go/token.Token found (firstToken expected)")
	}
}
